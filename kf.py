#!/usr/bin/env python3
"""kf.py add <status> <finding> <property> <rule> <construct> <what> [commit-subject-substring]"""
import json,sys,subprocess
st,fid,prop,rule,cons,what=sys.argv[2:8]
sub=sys.argv[8] if len(sys.argv)>8 else None
f=json.load(open('/verif/known_findings.json'))
e={"status":st,"finding":fid,"property":prop,"rule":rule,"construct":cons,"what":what}
if sub:
    log=subprocess.check_output(['git','-C','/repo','log','--format=%h %s']).decode().splitlines()
    c=[l.split()[0] for l in log if sub in l][0]
    e["commit"]=c
    e["what"]="fixed: property=%s %s %s"%(prop,c,what)
f["findings"]=[x for x in f["findings"] if not (x["rule"]==rule and x["construct"]==cons)]+[e]
json.dump(f,open('/verif/known_findings.json','w'),indent=1,ensure_ascii=False)
print("ok",e.get("commit"))
