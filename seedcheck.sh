#!/bin/sh
# usage: ./seedcheck.sh <seeded-dir>   — applies seeded/<dir>/patch.diff to /repo, runs every quick check,
# prints which properties report a violation, and restores /repo. Never leaves /repo modified.
cd "$(dirname "$0")"
d="seeded/$1"
[ -f "$d/patch.diff" ] || { echo "no $d/patch.diff"; exit 2; }
if [ -n "$(git -C /repo status --porcelain)" ]; then echo "/repo is dirty; refusing"; exit 2; fi
git -C /repo apply "$(pwd)/$d/patch.diff" || { echo "patch does not apply"; exit 2; }
trap 'git -C /repo checkout -- . ; git -C /repo clean -fdq' EXIT
ids=$(python3 -c "import json;print(' '.join(c['property_id'] for c in json.load(open('MANIFEST.json'))['checks']))")
mkdir -p /tmp/seedcheck.$$
for id in $ids; do
  ( ./bin/tablelint check -p "$id" -tier quick -repo /repo -verif "$(pwd)" -no-evidence > /tmp/seedcheck.$$/$id.out 2>&1; echo $? > /tmp/seedcheck.$$/$id.rc ) &
done
wait
for id in $ids; do
  rc=$(cat /tmp/seedcheck.$$/$id.rc)
  if [ "$rc" != "0" ]; then
    echo "== $id exit=$rc"
    grep -E "^(VIOLATED|UNDECIDED|tablelint:)" /tmp/seedcheck.$$/$id.out | cut -c1-220
  fi
done
rm -rf /tmp/seedcheck.$$
