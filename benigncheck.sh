#!/bin/sh
# usage: ./benigncheck.sh <benign-dir>  — applies benign/<dir>/patch.diff (a behaviour-preserving maintenance change) to a scratch worktree of /repo HEAD
# (outside /repo and /verif, removed afterwards), runs every registered quick check against it and prints
# which properties report a violation. /repo itself is never modified.
cd "$(dirname "$0")"
d="benign/$1"
[ -f "$d/patch.diff" ] || { echo "no $d/patch.diff"; exit 2; }
wt=$(mktemp -d /tmp/seedchk.XXXXXX); rmdir "$wt"
git -C /repo worktree add -q --detach "$wt" HEAD || exit 2
trap 'git -C /repo worktree remove --force "$wt" 2>/dev/null; rm -rf "$wt" /tmp/seedcheck.$$' EXIT
git -C "$wt" apply "$(pwd)/$d/patch.diff" || { echo "patch does not apply"; exit 2; }
ids=$(python3 -c "import json;print(' '.join(c['property_id'] for c in json.load(open('MANIFEST.json'))['checks']))")
mkdir -p /tmp/seedcheck.$$
for id in $ids; do
  ( ./bin/tablelint check -p "$id" -tier quick -repo "$wt" -verif "$(pwd)" -no-evidence > /tmp/seedcheck.$$/$id.out 2>&1; echo $? > /tmp/seedcheck.$$/$id.rc ) &
done
wait
caught=""
for id in $ids; do
  rc=$(cat /tmp/seedcheck.$$/$id.rc)
  if [ "$rc" != "0" ]; then
    caught="$caught $id"
    echo "== $id exit=$rc"
    grep -E "^(VIOLATED|UNDECIDED|tablelint:)" /tmp/seedcheck.$$/$id.out | cut -c1-240
  fi
done
echo "ALARMED-BY:${caught:- none}"
rules=$(cat /tmp/seedcheck.$$/*.out | grep -E "^VIOLATED" | awk '{print $2}' | sort -u | tr '\n' ' ')
echo "${caught:- none} | rules: $rules" > "$d/alarmed_by.txt"
