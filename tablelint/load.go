package main

// A1 loader and A2 function universe.

import (
	"fmt"
	"go/ast"
	"go/token"
	"go/types"
	"os"
	"path/filepath"
	"regexp"
	"sort"
	"strconv"
	"strings"

	"golang.org/x/tools/go/packages"
	"golang.org/x/tools/go/ssa"
	"golang.org/x/tools/go/ssa/ssautil"
)

const modPath = "github.com/weedbox/pokertable"

// production packages (path suffix relative to the module)
var prodPkgs = []string{"", "/actor", "/open_game_manager", "/seat_manager"}

type LoadConfig struct {
	Repo    string
	Tags    string            // build tags ("verif")
	Tests   bool              // also load test variants (thorough second configuration)
	Overlay map[string][]byte // in-memory file replacements (controls)

	NoNormalise bool // analyse the program as it is (no inlining of new helpers)
}

type Prog struct {
	containsMemo map[*ssa.Function]int
	Inlined      []string // helpers (new relative to the pinned tree) inlined by the normaliser before analysis
	NotInl       []string // new helpers left as they are (shape not supported)
	Cfg          LoadConfig
	Fset         *token.FileSet
	Pkgs         map[string]*packages.Package // by import path (production + testcases)
	AllPkgs      []*packages.Package          // everything loaded incl. dependencies
	SSA          *ssa.Program
	SPkgs        map[string]*ssa.Package // repo ssa packages by import path
	Funcs        []*ssa.Function         // A2: repo production functions incl. anonymous
	AllFuncs     []*ssa.Function         // repo + dependencies with bodies (for A8)
	funcSet      map[*ssa.Function]bool
	symMemo      map[ssa.Value]*Sym
	parentMC     map[*ssa.Function]*ssa.MakeClosure
	cg           *callGraph
	domMemo      map[*ssa.Function]bool
}

func isProdPath(p string) bool {
	for _, s := range prodPkgs {
		if p == modPath+s {
			return true
		}
	}
	return false
}

// Load type-checks /repo's current working tree and builds SSA. Any load or type
// error is fatal (exit 2, no verdict).
func loadOnce(cfg LoadConfig) (*Prog, error) {
	os.Unsetenv("GOWORK")
	pc := &packages.Config{
		Mode:    packages.LoadAllSyntax,
		Dir:     cfg.Repo,
		Tests:   cfg.Tests,
		Overlay: cfg.Overlay,
		Env:     append(os.Environ(), "GOFLAGS=-mod=mod", "GOPROXY=off", "GOSUMDB=off", "GOTOOLCHAIN=local", "GOWORK=off"),
	}
	if cfg.Tags != "" {
		pc.BuildFlags = []string{"-tags=" + cfg.Tags}
	}
	pkgs, err := packages.Load(pc, "./...")
	if err != nil {
		return nil, fmt.Errorf("load: %v", err)
	}
	if len(pkgs) == 0 {
		return nil, fmt.Errorf("load: zero packages")
	}
	var errs []string
	packages.Visit(pkgs, nil, func(p *packages.Package) {
		if strings.HasPrefix(p.PkgPath, modPath) {
			for _, e := range p.Errors {
				errs = append(errs, e.Error())
			}
		}
	})
	if len(errs) > 0 {
		return nil, fmt.Errorf("load/type errors in repo packages:\n  %s", strings.Join(errs, "\n  "))
	}
	p := &Prog{Cfg: cfg, Pkgs: map[string]*packages.Package{}, SPkgs: map[string]*ssa.Package{},
		funcSet: map[*ssa.Function]bool{}, symMemo: map[ssa.Value]*Sym{}, parentMC: map[*ssa.Function]*ssa.MakeClosure{},
		domMemo: map[*ssa.Function]bool{}}
	prog, spkgs := ssautil.AllPackages(pkgs, ssa.InstantiateGenerics)
	prog.Build()
	p.SSA = prog
	p.Fset = prog.Fset
	for i, pk := range pkgs {
		// with Tests:true several variants share a path; prefer the non-test variant
		// for Pkgs (rules look at production code), but build everything.
		if strings.Contains(pk.ID, "[") || strings.HasSuffix(pk.ID, ".test") {
			continue
		}
		p.Pkgs[pk.PkgPath] = pk
		if spkgs[i] != nil {
			p.SPkgs[pk.PkgPath] = spkgs[i]
		}
	}
	packages.Visit(pkgs, nil, func(pk *packages.Package) { p.AllPkgs = append(p.AllPkgs, pk) })
	found := 0
	for _, s := range prodPkgs {
		if p.SPkgs[modPath+s] != nil {
			found++
		}
	}
	if found < len(prodPkgs) {
		return nil, fmt.Errorf("load: only %d of the %d production packages found", found, len(prodPkgs))
	}
	// A2 universe
	for path, sp := range p.SPkgs {
		if !isProdPath(path) {
			continue
		}
		p.collectPkgFuncs(sp, &p.Funcs)
	}
	sort.Slice(p.Funcs, func(i, j int) bool { return p.Funcs[i].Pos() < p.Funcs[j].Pos() })
	// AllFuncs: repo + deps
	seen := map[*ssa.Function]bool{}
	for _, sp := range prog.AllPackages() {
		var fs []*ssa.Function
		p.collectPkgFuncsInto(sp, &fs, seen)
		p.AllFuncs = append(p.AllFuncs, fs...)
	}
	// closure parents
	for _, f := range p.AllFuncs {
		for _, b := range f.Blocks {
			for _, in := range b.Instrs {
				if mc, ok := in.(*ssa.MakeClosure); ok {
					if fn, ok := mc.Fn.(*ssa.Function); ok {
						p.parentMC[fn] = mc
					}
				}
			}
		}
	}
	p.buildCanon()
	return p, nil
}

func (p *Prog) collectPkgFuncs(sp *ssa.Package, out *[]*ssa.Function) {
	p.collectPkgFuncsInto(sp, out, p.funcSet)
}

func (p *Prog) collectPkgFuncsInto(sp *ssa.Package, out *[]*ssa.Function, seen map[*ssa.Function]bool) {
	var add func(f *ssa.Function)
	add = func(f *ssa.Function) {
		if f == nil || seen[f] || f.Blocks == nil {
			return
		}
		if f.Synthetic != "" && !strings.HasPrefix(f.Synthetic, "package init") {
			// wrappers/thunks/bound methods: skip (their targets are collected)
			if f.Parent() == nil {
				return
			}
		}
		seen[f] = true
		*out = append(*out, f)
		for _, a := range f.AnonFuncs {
			add(a)
		}
	}
	names := make([]string, 0, len(sp.Members))
	for n := range sp.Members {
		names = append(names, n)
	}
	sort.Strings(names)
	for _, n := range names {
		switch m := sp.Members[n].(type) {
		case *ssa.Function:
			add(m)
		case *ssa.Type:
			t := m.Type()
			for _, tt := range []types.Type{t, types.NewPointer(t)} {
				ms := p.SSA.MethodSets.MethodSet(tt)
				for i := 0; i < ms.Len(); i++ {
					f := p.SSA.MethodValue(ms.At(i))
					if f != nil && f.Synthetic == "" {
						add(f)
					}
				}
			}
		}
	}
}

func (p *Prog) IsRepoFunc(f *ssa.Function) bool { return p.funcSet[f] }

func (p *Prog) Pos(pos token.Pos) string {
	if !pos.IsValid() {
		return "?"
	}
	ps := p.Fset.Position(pos)
	fn := ps.Filename
	if strings.HasPrefix(fn, p.Cfg.Repo+"/") {
		fn = fn[len(p.Cfg.Repo)+1:]
	}
	return fmt.Sprintf("%s:%d", fn, ps.Line)
}

// InstrPos gives the best position for an instruction (some have NoPos).
func (p *Prog) InstrPos(in ssa.Instruction) string {
	if in.Pos().IsValid() {
		return p.Pos(in.Pos())
	}
	// fall back to operands / neighbours
	b := in.Block()
	if b != nil {
		idx := -1
		for i, x := range b.Instrs {
			if x == in {
				idx = i
			}
		}
		for i := idx - 1; i >= 0; i-- {
			if b.Instrs[i].Pos().IsValid() {
				return p.Pos(b.Instrs[i].Pos())
			}
		}
		for i := idx + 1; i < len(b.Instrs) && i >= 0; i++ {
			if b.Instrs[i].Pos().IsValid() {
				return p.Pos(b.Instrs[i].Pos())
			}
		}
	}
	if in.Parent() != nil {
		return p.Pos(in.Parent().Pos())
	}
	return "?"
}

// FuncName renders a function name without the module prefix.
func FuncName(f *ssa.Function) string {
	if f == nil {
		return "<nil>"
	}
	s := f.String()
	s = strings.ReplaceAll(s, modPath+"/", "")
	s = strings.ReplaceAll(s, modPath+".", "")
	s = strings.ReplaceAll(s, "github.com/weedbox/", "")
	// canonical names of renamed unexported identifiers (canon.go)
	for g := f; g != nil; g = g.Parent() {
		if o, ok := g.Object().(*types.Func); ok {
			if cn := canonFuncObjName(o); cn != o.Name() {
				s = replaceWord(s, o.Name(), cn)
			}
		}
	}
	for tn, cn := range canon.typ {
		if tn.Name() != cn {
			s = replaceWord(s, tn.Name(), cn)
		}
	}
	return s
}

// Named type lookup in a repo package ("" = root).
func (p *Prog) Type(pkgSuffix, name string) types.Type {
	pk := p.Pkgs[modPath+pkgSuffix]
	if pk == nil {
		return nil
	}
	o := pk.Types.Scope().Lookup(name)
	if o == nil {
		return nil
	}
	return o.Type()
}

func (p *Prog) Iface(pkgSuffix, name string) *types.Interface {
	t := p.Type(pkgSuffix, name)
	if t == nil {
		return nil
	}
	i, _ := t.Underlying().(*types.Interface)
	return i
}

// Implementers returns the named repo types T such that *T or T implements the interface.
func (p *Prog) Implementers(iface *types.Interface) []*types.Named {
	var out []*types.Named
	for path, pk := range p.Pkgs {
		if !isProdPath(path) {
			continue
		}
		sc := pk.Types.Scope()
		for _, n := range sc.Names() {
			tn, ok := sc.Lookup(n).(*types.TypeName)
			if !ok {
				continue
			}
			nt, ok := tn.Type().(*types.Named)
			if !ok {
				continue
			}
			if _, isI := nt.Underlying().(*types.Interface); isI {
				continue
			}
			if types.Implements(nt, iface) || types.Implements(types.NewPointer(nt), iface) {
				out = append(out, nt)
			}
		}
	}
	sort.Slice(out, func(i, j int) bool { return out[i].String() < out[j].String() })
	return out
}

// Method returns the ssa function for method name of *T or T.
func (p *Prog) Method(t *types.Named, name string) *ssa.Function {
	for _, tt := range []types.Type{types.NewPointer(t), t} {
		ms := p.SSA.MethodSets.MethodSet(tt)
		for i := 0; i < ms.Len(); i++ {
			if mo, _ := ms.At(i).Obj().(*types.Func); mo != nil && canonFuncObjName(mo) == name {
				f := p.SSA.MethodValue(ms.At(i))
				if f != nil && f.Synthetic != "" {
					// wrapper for value-receiver method via pointer: find the real one
					continue
				}
				if f != nil {
					return f
				}
			}
		}
	}
	return nil
}

// Methods of a named type (declared, both receivers), sorted by position.
func (p *Prog) Methods(t *types.Named) []*ssa.Function {
	var out []*ssa.Function
	seen := map[*ssa.Function]bool{}
	for _, tt := range []types.Type{types.NewPointer(t), t} {
		ms := p.SSA.MethodSets.MethodSet(tt)
		for i := 0; i < ms.Len(); i++ {
			f := p.SSA.MethodValue(ms.At(i))
			if f != nil && f.Synthetic == "" && !seen[f] && f.Blocks != nil {
				seen[f] = true
				out = append(out, f)
			}
		}
	}
	sort.Slice(out, func(i, j int) bool { return out[i].Pos() < out[j].Pos() })
	return out
}

// FuncDecl finds the AST declaration of a source function.
func (p *Prog) FuncDecl(f *ssa.Function) *ast.FuncDecl {
	if fd, ok := f.Syntax().(*ast.FuncDecl); ok {
		return fd
	}
	return nil
}

// PkgOf returns the go/packages package containing the function.
func (p *Prog) PkgOf(f *ssa.Function) *packages.Package {
	for f.Parent() != nil {
		f = f.Parent()
	}
	if f.Pkg == nil {
		return nil
	}
	return p.Pkgs[f.Pkg.Pkg.Path()]
}

// assertNoReflectUnsafe: A1's assertion that the repo's own code uses neither
// reflect nor unsafe nor cgo (trusted base of every rule).
func (p *Prog) assertNoReflectUnsafe() error {
	for path, pk := range p.Pkgs {
		if !isProdPath(path) {
			continue
		}
		for _, f := range pk.Syntax {
			for _, im := range f.Imports {
				v := strings.Trim(im.Path.Value, `"`)
				if v == "reflect" || v == "unsafe" || v == "C" {
					return fmt.Errorf("%s imports %s: outside the analyzer's trusted base", p.Pos(im.Pos()), v)
				}
			}
		}
	}
	return nil
}

// funcKey: "<package suffix>|<receiver type>|<name>" with canonical names.
func funcKey(o *types.Func) string {
	pkg := ""
	if o.Pkg() != nil {
		pkg = strings.TrimPrefix(o.Pkg().Path(), modPath)
	}
	recv := ""
	if sig, ok := o.Type().(*types.Signature); ok && sig.Recv() != nil {
		t := sig.Recv().Type()
		if pt, isP := t.(*types.Pointer); isP {
			t = pt.Elem()
		}
		if n, isN := t.(*types.Named); isN {
			recv = canonTypeName(n.Obj())
		}
	}
	return pkg + "|" + recv + "|" + canonFuncObjName(o)
}

// Load type-checks the working tree, builds SSA and — when the tree contains helpers that are new relative
// to the pinned tree — inlines them back (normalize.go) and loads the result again through an overlay.
func Load(cfg LoadConfig) (*Prog, error) {
	p, err := loadOnce(cfg)
	if err != nil || cfg.NoNormalise {
		return p, err
	}
	// helpers that call other new helpers in their arguments are expanded one layer per round
	cur, curCfg := p, cfg
	var allInlined, lastLeft []string
	for round := 0; round < 3; round++ {
		p2, cfg2, inlined, left, ok := normaliseRound(cur, curCfg)
		lastLeft = left
		if !ok {
			break
		}
		cur, curCfg = p2, cfg2
		allInlined = append(allInlined, inlined...)
		if len(left) == 0 {
			break
		}
	}
	cur.Inlined, cur.NotInl = allInlined, lastLeft
	if d := os.Getenv("TABLELINT_DUMP_NORMALISED"); d != "" && len(allInlined) > 0 {
		for k, v := range curCfg.Overlay {
			os.WriteFile(filepath.Join(d, strings.ReplaceAll(strings.TrimPrefix(k, "/"), "/", "_")), v, 0o644)
		}
	}
	cur.Cfg = cfg
	return cur, nil
}

// normaliseRound expands the new helpers of p once and loads the result; ok is false when nothing was (or could
// be) expanded, and then p stands.
func normaliseRound(p *Prog, cfg LoadConfig) (*Prog, LoadConfig, []string, []string, bool) {
	// two functions can end up with the same canonical name (the role-based naming may take an extracted
	// half of a function for the function itself): the one whose own name differs is then the new one
	perKey := map[string][]*types.Func{}
	for _, sfx := range prodPkgs {
		if pk := p.Pkgs[modPath+sfx]; pk != nil {
			sc := pk.Types.Scope()
			for _, nme := range sc.Names() {
				switch o := sc.Lookup(nme).(type) {
				case *types.Func:
					perKey[funcKey(o)] = append(perKey[funcKey(o)], o)
				case *types.TypeName:
					if n, ok := o.Type().(*types.Named); ok {
						for i := 0; i < n.NumMethods(); i++ {
							perKey[funcKey(n.Method(i))] = append(perKey[funcKey(n.Method(i))], n.Method(i))
						}
					}
				}
			}
		}
	}
	// a baseline function that is merely renamed (its key is missing, and exactly one unknown function of the
	// same receiver has its signature) is not a new helper
	renamed := map[*types.Func]bool{}
	{
		suitors := map[string][]*types.Func{} // missing baseline key → unknown functions that could be it
		for k, fs := range perKey {
			if _, known := baselineFuncs[k]; known {
				continue
			}
			for _, f := range fs {
				prefix := k[:strings.LastIndex(k, "|")+1]
				for bk, bsig := range baselineFuncs {
					if strings.HasPrefix(bk, prefix) && len(perKey[bk]) == 0 && bsig == funcSig(f) {
						suitors[bk] = append(suitors[bk], f)
					}
				}
			}
		}
		count := map[*types.Func]int{}
		for _, fs := range suitors {
			for _, f := range fs {
				count[f]++
			}
		}
		for _, fs := range suitors {
			if len(fs) == 1 && count[fs[0]] == 1 {
				renamed[fs[0]] = true
			}
		}
	}
	isNew := func(o *types.Func) bool {
		k := funcKey(o)
		if _, known := baselineFuncs[k]; !known {
			return !renamed[o]
		}
		return len(perKey[k]) > 1 && canonFuncObjName(o) != o.Name()
	}
	var pkgs []*packages.Package
	anyNew := false
	for _, sfx := range prodPkgs {
		pk := p.Pkgs[modPath+sfx]
		if pk == nil {
			continue
		}
		pkgs = append(pkgs, pk)
		sc := pk.Types.Scope()
		for _, nme := range sc.Names() {
			switch o := sc.Lookup(nme).(type) {
			case *types.Func:
				anyNew = anyNew || isNew(o)
			case *types.TypeName:
				if n, ok := o.Type().(*types.Named); ok {
					for i := 0; i < n.NumMethods(); i++ {
						anyNew = anyNew || isNew(n.Method(i))
					}
				}
			}
		}
	}
	if !anyNew {
		return p, cfg, nil, nil, false
	}
	ov, inlined, left := normalise(pkgs, cfg.Overlay, os.ReadFile, isNew)
	if len(inlined) == 0 {
		return p, cfg, nil, left, false
	}
	cfg2 := cfg
	cfg2.NoNormalise = true
	cfg2.Overlay = map[string][]byte{}
	for k, v := range cfg.Overlay {
		cfg2.Overlay[k] = v
	}
	for k, v := range ov {
		cfg2.Overlay[k] = v
	}
	p2, err2 := loadOnce(cfg2)
	for round := 0; err2 != nil && round < 3; round++ {
		// imports that only the moved helpers used (or that a second helper's expansion dropped again) go
		if !dropUnusedImports(cfg2.Overlay, err2.Error()) {
			break
		}
		p2, err2 = loadOnce(cfg2)
	}
	if err2 != nil {
		if os.Getenv("TABLELINT_DEBUG_NORMALISE") != "" {
			fmt.Fprintln(os.Stderr, "normalise: second load failed:", err2)
			for k, v := range ov {
				os.WriteFile("/tmp/normalised_"+strings.ReplaceAll(strings.TrimPrefix(k, "/"), "/", "_"), v, 0o644)
			}
		}
		// the expansion does not type-check: analyse the program as it is
		return p, cfg, nil, append(left, inlined...), false
	}
	return p2, cfg2, inlined, left, true
}

// funcSig: parameter and result types of a function, with the module's named types under their canonical names.
func funcSig(o *types.Func) string {
	sig, ok := o.Type().(*types.Signature)
	if !ok {
		return ""
	}
	var parts []string
	for i := 0; i < sig.Params().Len(); i++ {
		parts = append(parts, typeShort(sig.Params().At(i).Type()))
	}
	parts = append(parts, "→")
	for i := 0; i < sig.Results().Len(); i++ {
		parts = append(parts, typeShort(sig.Results().At(i).Type()))
	}
	return strings.Join(parts, ",")
}

var unusedImportRe = regexp.MustCompile(`(?m)^\s*(\S+\.go):(\d+):\d+: "([^"]+)" imported (?:as \S+ )?and not used`)

// dropUnusedImports blanks the import lines a type-check error names as unused, in the overlay copies only.
func dropUnusedImports(overlay map[string][]byte, errText string) bool {
	changed := false
	for _, m := range unusedImportRe.FindAllStringSubmatch(errText, -1) {
		src, ok := overlay[m[1]]
		if !ok {
			continue
		}
		ln, _ := strconv.Atoi(m[2])
		lines := strings.Split(string(src), "\n")
		if ln < 1 || ln > len(lines) || !strings.Contains(lines[ln-1], `"`+m[3]+`"`) {
			continue
		}
		if strings.HasPrefix(strings.TrimSpace(lines[ln-1]), "import ") {
			lines[ln-1] = ""
		} else {
			lines[ln-1] = ""
		}
		overlay[m[1]] = []byte(strings.Join(lines, "\n"))
		changed = true
	}
	return changed
}
