package main

// Timer discipline of the actor runners (shared by C18 and C19).
//
// A runner owns one time bank for its whole life; a new move request replaces the pending one through
// NewTask (which cancels the previous task). Two structural necessary conditions follow:
//   - the time-bank field is assigned only by the runner's constructor, from timebank.NewTimeBank(): a second
//     assignment (e.g. on re-attaching the runner to an actor) orphans a pending task, which then can no
//     longer be cancelled and plays a stale move before the new thinking time has elapsed;
//   - a view that the staleness filter discards has no effect on the pending task: no call that can reach a
//     time-bank operation lies on a path into the stale exit of the view handler (a re-published, unchanged
//     hand state would otherwise cancel the planned move and the filter then refuses to plan it again).

import (
	"fmt"
	"go/types"
	"strings"

	"golang.org/x/tools/go/ssa"
)

// staleExits returns, for every staleness comparison of the view handler (remembered state time against the
// view's UpdatedAt), the successor block taken by a stale view.
func staleExits(p *Prog, entry *ssa.Function, owner string) []*ssa.BasicBlock {
	var out []*ssa.BasicBlock
	for _, b := range entry.Blocks {
		for _, in := range b.Instrs {
			iff, ok := in.(*ssa.If)
			if !ok {
				continue
			}
			s := p.Sym(iff.Cond).Strip()
			if s.Kind != "binop" {
				continue
			}
			l, r := s.Args[0].Strip(), s.Args[1].Strip()
			opName := s.Name
			if isViewTimeCell(r, entry, owner) && l.Kind == "field" && l.Name == "UpdatedAt" {
				l, r = r, l
				opName = map[string]string{"<": ">", ">": "<", "<=": ">=", ">=": "<="}[opName]
			}
			if !(isViewTimeCell(l, entry, owner) && r.Kind == "field" && r.Name == "UpdatedAt") {
				continue
			}
			switch opName {
			case ">=", ">":
				out = append(out, b.Succs[0])
			case "<", "<=":
				out = append(out, b.Succs[1])
			}
		}
	}
	return out
}

// reachesTimeBank: f (≤ depth static hops through repository functions and their closures) calls a method
// of the time bank.
func (p *Prog) reachesTimeBank(f *ssa.Function, depth int, seen map[*ssa.Function]bool) string {
	if f == nil || depth < 0 || seen[f] || !p.IsRepoFunc(f) {
		return ""
	}
	seen[f] = true
	for _, ci := range Calls(f) {
		if n := calleeName(ci.Common()); strings.HasPrefix(n, "timebank.TimeBank.") {
			return n
		}
		if sc := ci.Common().StaticCallee(); sc != nil {
			if n := p.reachesTimeBank(sc, depth-1, seen); n != "" {
				return n
			}
		}
	}
	return ""
}

func checkRunnerTimer(c *Ctx, rule string, runner *types.Named, entry *ssa.Function) {
	p := c.P
	owner := canonTypeName(runner.Obj())
	st, _ := runner.Underlying().(*types.Struct)
	if st == nil || entry == nil {
		c.Bad(rule, "runner-timer:anchors", "-", "runner struct / view handler not found")
		return
	}
	// the time-bank field, by type
	field := ""
	for i := 0; i < st.NumFields(); i++ {
		if strings.HasSuffix(st.Field(i).Type().String(), "timebank.TimeBank") {
			field = canonFieldName(st.Field(i))
		}
	}
	if field == "" {
		c.Bad(rule, "runner-timer:field", "-", owner+" owns no time bank")
		return
	}
	// (a) assigned once, by the constructor
	n := 0
	for _, f := range p.Funcs {
		if !inModule(p, f) {
			continue
		}
		for _, ss := range p.Stores([]*ssa.Function{f}) {
			if ss.Owner != owner || ss.Field != field {
				continue
			}
			n++
			isCtor := f.Parent() == nil && f.Signature.Recv() == nil
			fresh := ss.Val.IsCall("timebank.NewTimeBank")
			c.Check(isCtor && fresh, rule, "runner-timer:assigned-by-constructor:"+fnName(f), p.InstrPos(ss.Instr),
				"the time bank is created with the runner",
				fmt.Sprintf("%s assigns the runner's time bank (%s): a pending task of the replaced time bank can no longer be cancelled by the next request and fires with a stale hand state", fnName(f), ss.Val.String()))
		}
	}
	if n == 0 {
		c.Bad(rule, "runner-timer:assigned-by-constructor", "-", "the runner's time bank is never created")
	}
	// (b) a discarded view does not touch the pending task
	exits := staleExits(p, entry, owner)
	if len(exits) == 0 {
		c.Bad(rule, "runner-timer:stale-view-inert", p.Pos(entry.Pos()), "no staleness filter found in the view handler")
		return
	}
	bad := ""
	for _, ci := range Calls(entry) {
		what := ""
		if nme := calleeName(ci.Common()); strings.HasPrefix(nme, "timebank.TimeBank.") {
			what = nme
		} else if sc := ci.Common().StaticCallee(); sc != nil {
			what = p.reachesTimeBank(sc, 4, map[*ssa.Function]bool{})
		}
		if what == "" {
			continue
		}
		for _, e := range exits {
			if ci.Block() == e || blockReaches(ci.Block(), e) {
				bad = fmt.Sprintf("%s (%s) runs before the staleness filter discards the view", p.InstrPos(ci), what)
			}
		}
	}
	c.Check(bad == "", rule, "runner-timer:stale-view-inert", p.Pos(entry.Pos()), "no time-bank operation on a path into the stale exit",
		"a view discarded as stale still disturbs the pending move: "+bad)
}

// isViewTimeCell: the place where a runner remembers the time of the last view it handled — the runner's
// own state-time field, or (when that bookkeeping was moved into a helper type) an integer field reached
// from the runner's receiver through fields only. The rules that use it tie it to its role: it is the cell
// compared with the view's UpdatedAt and overwritten from it.
func isViewTimeCell(s *Sym, entry *ssa.Function, owner string) bool {
	s = s.Strip()
	if s.IsField(owner, "lastGameStateTime") {
		return true
	}
	if s.Kind != "field" || s.V == nil || (typeShort(s.V.Type()) != "int64" && typeShort(s.V.Type()) != "*int64") || len(entry.Params) == 0 {
		return false
	}
	x := s
	for x != nil && x.Kind == "field" {
		if len(x.Args) == 0 {
			return false
		}
		x = x.Args[0].Strip()
	}
	return x != nil && symIsParam(x, entry.Params[0]) && s.Name != "UpdatedAt"
}
