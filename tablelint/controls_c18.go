package main

func controlsC18() []Control {
	return []Control{
		{Name: "bot remembers the view time in a copy of itself (value receiver)", Expect: "R8", Mutate: replaceIn("(*botRunner).UpdateTableState", "func (br *botRunner) UpdateTableState(", "func (br botRunner) UpdateTableState(", 0)},
		{Name: "fold goes to the adapter remembered when the bot was attached", Expect: "R5", Mutate: withDecl(replaceIn("(*actions).Fold", "return a.actor.GetTable().Fold(a.playerID)", "return rememberedAdapter(a).Fold(a.playerID)", 0), "var firstAdapter Adapter\n\nfunc rememberedAdapter(a *actions) Adapter {\n\tif firstAdapter == nil {\n\t\tfirstAdapter = a.actor.GetTable()\n\t}\n\treturn firstAdapter\n}")},
		{Name: "every view cancels the planned move", Expect: "R7", Mutate: replaceIn("(*botRunner).UpdateTableState", "\tbr.tableInfo = table\n", "\tbr.tableInfo = table\n\tbr.timebank.Cancel()\n", 0)},
		{Name: "bot time bank re-created when the runner is attached", Expect: "R7", Mutate: replaceIn("(*botRunner).SetActor", "\tbr.actor = a\n", "\tbr.actor = a\n\tbr.timebank = timebank.NewTimeBank()\n", 0)},
		{Name: "bot bets more than its stack", Expect: "R4", Mutate: replaceIn("(*botRunner).requestAI", "return br.actions.Bet(player.InitialStackSize)", "return br.actions.Bet(player.InitialStackSize + 1)", 0)},
		{Name: "bot calls without being allowed to", Expect: "R1", Mutate: replaceIn("(*botRunner).requestMove", "if gs.HasAction(playerIdx, \"ready\") {\n\t\treturn br.actions.Ready()", "if gs.HasAction(playerIdx, \"ready\") {\n\t\treturn br.actions.Call()", 0)},
		{Name: "bot acts twice on one path", Expect: "R3", Mutate: replaceIn("(*botRunner).requestAI", "\t\terr := br.actions.Check()\n", "\t\tbr.actions.Check()\n\t\terr := br.actions.Check()\n", 0)},
		{Name: "random bet drawn without the stack > minimum guard", Expect: "R4", Mutate: replaceIn("(*botRunner).requestAI", "if player.InitialStackSize <= minBet {", "if player.InitialStackSize < minBet {", 0)},
		{Name: "raise minimum ignores the previous raise size", Expect: "R4", Mutate: replaceIn("(*botRunner).requestAI", "minChipLevel := gs.Status.CurrentWager + gs.Status.PreviousRaiseSize", "minChipLevel := gs.Status.CurrentWager", 0)},
		{Name: "chooser can invent an action", Expect: "R2", Mutate: replaceIn("(*botRunner).calcAction", "return actions[len(actions)-1]", "return \"raise\"", 0)},
		{Name: "bot checks in the call arm", Expect: "R1", Mutate: replaceIn("(*botRunner).requestAI", "\t\terr := br.actions.Call()\n", "\t\terr := br.actions.Check()\n", 0)},
		{Name: "Actions.Bet forwards to Raise", Expect: "R5", Mutate: replaceIn("(*actions).Bet", "a.actor.GetTable().Bet(a.playerID, chips)", "a.actor.GetTable().Raise(a.playerID, chips)", 0)},
		{Name: "engine adapter folds on check", Expect: "R5", Mutate: replaceIn("(*tableEngineAdapter).Check", "tea.engine.PlayerCheck(playerID)", "tea.engine.PlayerFold(playerID)", 0)},
		{Name: "bot acts on stale views", Expect: "R6", Mutate: replaceIn("(*botRunner).UpdateTableState", "\t\tif br.lastGameStateTime >= gs.UpdatedAt {", "\t\tif br.lastGameStateTime > gs.UpdatedAt+1000000 {", 0)},
		{Name: "bot acts while the table is not playing", Expect: "R6", Mutate: replaceIn("(*botRunner).UpdateTableState", "if table.State.Status != pokertable.TableStateStatus_TableGamePlaying {\n\t\treturn nil\n\t}", "", 0)},
		{Name: "bot stays silent when asked", Expect: "R3", Mutate: replaceIn("(*botRunner).requestAI", "\tcase \"check\":\n\t\terr := br.actions.Check()\n\t\tif err != nil {\n\t\t\treturn err\n\t\t}\n", "\tcase \"check\":\n\t\tvar err error\n\t\tif err != nil {\n\t\t\treturn err\n\t\t}\n", 0)},
		{Name: "bot pays the ante amount for a blind", Expect: "R4", Mutate: replaceIn("(*botRunner).requestMove", "return br.actions.Pay(gs.Meta.Blind.BB)", "return br.actions.Pay(gs.Meta.Ante)", 0)},
		{Name: "delayed move ignores cancellation", Expect: "R3", Mutate: replaceIn("(*botRunner).requestMove", "\t\tif isCancelled {\n\t\t\treturn\n\t\t}\n\n\t\tbr.requestAI(gs, playerIdx)", "\t\t_ = isCancelled\n\t\tbr.requestAI(gs, playerIdx)", 0)},
		{Name: "a view with the same time stamp is acted on again", Expect: "R6", Mutate: replaceIn("(*botRunner).UpdateTableState", "br.lastGameStateTime >= gs.UpdatedAt", "br.lastGameStateTime > gs.UpdatedAt", 0)},
		{Name: "bot forgets the time of the view it acted on", Expect: "R6", Mutate: replaceIn("(*botRunner).UpdateTableState", "\t\tbr.lastGameStateTime = gs.UpdatedAt\n", "", 0)},
		{Name: "bot returns early when its bet succeeded and goes on when it failed", Expect: "R3", Mutate: replaceIn("(*botRunner).requestAI", "err := br.actions.Bet(chips)\n\t\tif err != nil {", "err := br.actions.Bet(chips)\n\t\tif err == nil {", 0)},
		{Name: "actor hands views to its runner under the read lock", Expect: "R9", Mutate: replaceIn("(*actor).UpdateTableState", "\ta.mu.Lock()\n\tdefer a.mu.Unlock()\n", "\ta.mu.RLock()\n\tdefer a.mu.RUnlock()\n", 0)},
		{Name: "actor releases its mutex before calling the runner", Expect: "R9", Mutate: replaceIn("(*actor).UpdateTableState", "\ta.mu.Lock()\n\tdefer a.mu.Unlock()\n", "\ta.mu.Lock()\n\ta.mu.Unlock()\n", 0)},
		{Name: "bot filters stale views only within the hand it already knows", Expect: "R6", Mutate: replaceIn("(*botRunner).UpdateTableState", "\t\t\tbr.curGameID = gs.GameID\n\t\t}\n\n\t\tif br.lastGameStateTime >= gs.UpdatedAt {", "\t\t\tbr.curGameID = gs.GameID\n\t\t} else if br.lastGameStateTime >= gs.UpdatedAt {", 0)},
	}
}
