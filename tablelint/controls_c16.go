package main

func controlsC16() []Control {
	return []Control{
		{Name: "fold locks a copy of the engine (value receiver)", Expect: "R1", Mutate: replaceIn("(*tableEngine).PlayerFold", "func (te *tableEngine) PlayerFold(", "func (te tableEngine) PlayerFold(", 0)},
		{Name: "current hand state published by the queue consumer", Expect: "R5", Mutate: replaceBoth("(*game).updateGameState", "\tg.gs = state\n", "", "\tg.incomingStates <- state\n", "\tg.incomingStates <- state\n\tgo func() { g.gs = state }()\n")},
		{Name: "wager result applied to the hand in the background", Expect: "R5", Mutate: replaceIn("(*game).Call", "\tg.updateGameState(gs)\n", "\tgo g.updateGameState(gs)\n", 0)},
		{Name: "PlayersLeave without the engine mutex", Expect: "R2", Mutate: replaceIn("(*tableEngine).PlayersLeave", "te.lock.Lock()\n\tdefer te.lock.Unlock()\n", "", 0)},
		{Name: "PlayerCall without the engine mutex", Expect: "R2", Mutate: replaceIn("(*tableEngine).PlayerCall", "te.lock.Lock()\n\tdefer te.lock.Unlock()\n", "", 0)},
		{Name: "UpdateTablePlayers unlocks early instead of deferring", Expect: "R1", Mutate: replaceIn("(*tableEngine).UpdateTablePlayers", "defer te.lock.Unlock()\n", "te.lock.Unlock()\n", 0)},
		{Name: "PlayerReserve reads the table before locking", Expect: "R1", Mutate: replaceIn("(*tableEngine).PlayerReserve", "te.lock.Lock()\n\tdefer te.lock.Unlock()\n\n\t// find player index in PlayerStates\n\ttargetPlayerIdx := te.table.FindPlayerIdx(joinPlayer.PlayerID)\n", "targetPlayerIdx := te.table.FindPlayerIdx(joinPlayer.PlayerID)\n\tte.lock.Lock()\n\tdefer te.lock.Unlock()\n", 0)},
		{Name: "unlocked settlement-finish report seats a player", Expect: "R2", Mutate: replaceIn("(*tableEngine).PlayerSettlementFinish", "\tte.ogm.Ready(playerID)\n", "\tte.ogm.Ready(playerID)\n\tte.batchAddPlayers([]JoinPlayer{{PlayerID: playerID}})\n", 0)},
		{Name: "add-on takes the lock after fetching the player record", Expect: "R1", Mutate: replaceBoth("(*tableEngine).PlayerRedeemChips", "\tte.lock.Lock()\n\tdefer te.lock.Unlock()\n", "", "\tplayerState := te.table.State.PlayerStates[playerIdx]\n", "\tplayerState := te.table.State.PlayerStates[playerIdx]\n\tte.lock.Lock()\n\tdefer te.lock.Unlock()\n")},
		{Name: "seat manager JoinPlayers without its lock", Expect: "R3", Mutate: replaceIn("(*seatManager).JoinPlayers", "sm.mu.Lock()\n\tdefer sm.mu.Unlock()\n", "", 0)},
		{Name: "seat manager RandomAssignSeats takes only the read lock", Expect: "R3", Mutate: replaceIn("(*seatManager).RandomAssignSeats", "sm.mu.Lock()\n\tdefer sm.mu.Unlock()\n", "sm.mu.RLock()\n\tdefer sm.mu.RUnlock()\n", 0)},
		{Name: "PlayerReserve calls PlayersLeave while holding the mutex", Expect: "R4", Mutate: replaceIn("(*tableEngine).PlayerReserve", "te.emitEvent(\"PlayerReserve\", joinPlayer.PlayerID)", "te.PlayersLeave([]string{})\n\tte.emitEvent(\"PlayerReserve\", joinPlayer.PlayerID)", 0)},
		{Name: "the hand delivers states synchronously (re-enters the engine mutex)", Expect: "R4", Mutate: replaceIn("(*game).updateGameState", "g.incomingStates <- state", "g.handleGameState(state)", 0)},
		{Name: "AssignSeats asks IsPlayerActive under its own write lock", Expect: "R4", Mutate: replaceIn("(*seatManager).AssignSeats", "emptySeatIDs := sm.getEmptySeatIDs()", "sm.IsPlayerActive(\"x\")\n\temptySeatIDs := sm.getEmptySeatIDs()", 0)},
		{Name: "auto sit-in completion reads the player list without the lock", Expect: "R6", Mutate: replaceIn("(*tableEngine).notInPlayerIDs", "\tte.lock.Lock()\n\tdefer te.lock.Unlock()\n", "", 0)},
		{Name: "auto sit-in completion indexes the live list itself", Expect: "R6", Mutate: replaceIn("(*tableEngine).playersAutoIn", "isInCount, alivePlayers := te.countInAndAlivePlayers()", "isInCount, alivePlayers := te.countInAndAlivePlayers()\n\t\tfor i := 0; i < isInCount; i++ {\n\t\t\tif te.table.State.PlayerStates[i].Bankroll < 0 {\n\t\t\t\talivePlayers--\n\t\t\t}\n\t\t}", 0)},
		{Name: "auto sit-in re-uses the stopped ready group", Expect: "R7", Mutate: replaceIn("(*tableEngine).playersAutoIn", "\tte.rg = syncsaga.NewReadyGroup()\n", "", 0)},
	}
}
