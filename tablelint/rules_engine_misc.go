package main

import (
	"fmt"
	"go/token"
	"strings"

	"golang.org/x/tools/go/ssa"
)

// checkCloseRecords (C07.R5 part): the close operation records "closed" and "released"
// unconditionally; the release operation records "released"; nothing ever clears them.
func checkCloseRecords(c *Ctx, rule string) {
	p := c.P
	var closeFn, releaseFn *ssa.Function
	for _, ss := range p.FieldStores("TableState", "Status") {
		if v, _ := ss.Val.ConstString(); v == "table_closed" {
			closeFn = ss.Fn
			c.Check(len(p.Guards(ss.Instr)) == 0, rule, "close-records-closed", p.InstrPos(ss.Instr), "status ← closed, unconditionally", "the close operation records the closed status only under a condition")
		}
	}
	n := 0
	for _, ss := range p.FieldStores("tableEngine", "isReleased") {
		if storeIsLocal(ss.Instr) {
			b, isB := ss.Val.ConstBool()
			c.Check(isB && !b, rule, "released-initially-false", p.InstrPos(ss.Instr), "a new engine is not released", "a new engine starts released")
			continue
		}
		n++
		releaseFn = ss.Fn
		b, isB := ss.Val.ConstBool()
		c.Check(isB && b && len(p.Guards(ss.Instr)) == 0, rule, "release-records-released:"+FuncName(ss.Fn), p.InstrPos(ss.Instr), "isReleased ← true, unconditionally", "the released flag is written as "+ss.Val.String()+" or only under a condition")
	}
	c.Check(closeFn != nil, rule, "close-records-closed:present", "-", "a close operation stores the closed status", "no operation records the closed status: a closed table would keep opening hands")
	c.Check(n >= 1 && releaseFn != nil, rule, "release-records-released:present", "-", "a release operation sets the released flag", "no operation records that the table was released")
	if closeFn != nil && releaseFn != nil {
		calls := false
		for _, ci := range Calls(closeFn) {
			fns, _ := p.CG().Callees(ci)
			for _, f := range fns {
				if f == releaseFn && len(p.Guards(ci)) == 0 {
					calls = true
				}
			}
			if ci.Common().StaticCallee() == releaseFn && len(p.Guards(ci)) == 0 {
				calls = true
			}
		}
		c.Check(calls, rule, "close-also-releases", p.Pos(closeFn.Pos()), "close calls release", "closing a table does not release it")
	}
}

// checkCreationWiring (C03.R5 / C04.R1 part): the table is created with a seat manager and a
// seat map of the table's own seat count (and rule); the capacity test admits at most that
// many initial players; initial players are added whenever there are any.
func checkCreationWiring(c *Ctx, rule string) {
	p := c.P
	lc := p.lifecycle()
	cr := lc.creator
	if cr == nil || len(cr.Params) != 2 {
		c.Bad(rule, "creation-wiring", "-", "table creation not found")
		return
	}
	setting := cr.Params[1]
	isSettingField := func(s *Sym, owner, name string) bool {
		s = s.Strip()
		return s.IsField(owner, name) && s.Contains(func(x *Sym) bool { return symIsParam(x, setting) })
	}
	// seat manager
	nSM := 0
	for _, ss := range p.Stores([]*ssa.Function{cr}) {
		if ss.Owner == "tableEngine" && ss.Field == "sm" {
			nSM++
			v := ss.Val.Strip()
			ok := v.Kind == "call" && len(v.Args) == 2 && isSettingField(v.Args[0], "TableMeta", "TableMaxSeatCount") && isSettingField(v.Args[1], "TableMeta", "Rule")
			c.Check(ok, rule, "creation:seat-manager", p.InstrPos(ss.Instr), "seat manager(TableMaxSeatCount, Rule) of the setting", "the seat manager is created with "+v.String()+", not the table's seat count and rule")
		}
		if ss.Owner == "Table" && ss.Field == "Meta" {
			c.Check(isSettingField(ss.Val, "TableSetting", "Meta"), rule, "creation:meta", p.InstrPos(ss.Instr), "Meta ← the setting's meta", "the table's meta is not the one it was created with")
		}
		if ss.Owner == "TableState" && ss.Field == "SeatMap" {
			v := ss.Val.Strip()
			ok := v.Kind == "call" && len(v.Args) == 1 && isSettingField(v.Args[0], "TableMeta", "TableMaxSeatCount")
			c.Check(ok, rule, "creation:seat-map-size", p.InstrPos(ss.Instr), "seat map of TableMaxSeatCount seats", "the initial seat map is sized by "+v.String())
		}
	}
	c.Check(nSM == 1, rule, "creation:seat-manager-once", p.Pos(cr.Pos()), "one seat manager per table", fmt.Sprintf("the creation stores %d seat manager(s)", nSM))
	metaStored := false
	for _, ss := range p.Stores([]*ssa.Function{cr}) {
		if ss.Owner == "Table" && ss.Field == "Meta" {
			metaStored = true
		}
	}
	c.Check(metaStored, rule, "creation:meta-stored", p.Pos(cr.Pos()), "meta stored", "the created table has no meta (seat count 0, no rule)")
	// capacity + initial players
	for _, ci := range Calls(cr) {
		if calleeName(ci.Common()) != "tableEngine.batchAddPlayers" {
			continue
		}
		a := p.Sym(ci.Common().Args[len(ci.Common().Args)-1])
		own := isSettingField(a, "TableSetting", "JoinPlayers")
		fits, whenAny, other := false, true, false
		for _, g := range p.Guards(ci) {
			cm := g.AsCmp()
			if cm == nil {
				other = true
				continue
			}
			l, r := cm.L.Strip(), cm.R.Strip()
			if l.IsCall("len") && isSettingField(l.Args[0], "TableSetting", "JoinPlayers") {
				if isSettingField(r, "TableMeta", "TableMaxSeatCount") {
					fits = cm.Op == token.LEQ
					continue
				}
				if z, isZ := r.ConstInt(); isZ {
					whenAny = (cm.Op == token.GTR && z == 0) || (cm.Op == token.GEQ && z <= 1) || (cm.Op == token.NEQ && z == 0)
					continue
				}
			}
			other = true
		}
		c.Check(own && fits && whenAny && !other, rule, "creation:initial-players", p.InstrPos(ci), "own join list added whenever non-empty and within the seat count", "the initial players are not added exactly when the setting names some and they fit the seat count")
	}
	// the leave computation's seat map is sized by the live table's seat count
	for _, f := range p.Funcs {
		for _, ci := range Calls(f) {
			sc := ci.Common().StaticCallee()
			if sc == nil || fnName(sc) != "calcLeavePlayers" {
				continue
			}
			args := ci.Common().Args
			a := p.Sym(args[len(args)-1]).Strip()
			c.Check(a.IsField("TableMeta", "TableMaxSeatCount"), rule, "leave:seat-map-size", p.InstrPos(ci), "rebuilt seat map sized by TableMaxSeatCount", "the seat map rebuilt after a leave is sized by "+a.String())
		}
	}
}

// checkSettlementFinish (C08.R7): a seated-in player's settlement-finished report reaches the
// open-game gate under that player's own id; unknown players and players not seated-in are refused.
func checkSettlementFinish(c *Ctx, rule string) {
	p := c.P
	n := 0
	for _, f := range p.Funcs {
		if !inPkg(p, f, "") || f.Parent() != nil || f.Signature.Recv() == nil || len(f.Params) != 2 {
			continue
		}
		for _, ci := range Calls(f) {
			if calleeName(ci.Common()) != "OpenGameManager.Ready" {
				continue
			}
			n++
			id := f.Params[1]
			a := p.Sym(ci.Common().Args[len(ci.Common().Args)-1])
			gs := p.Guards(ci)
			known := cmpHolds(gs, func(l, r *Sym, op token.Token) bool {
				z, isZ := r.ConstInt()
				return isZ && z == -1 && op == token.NEQ && l.Strip().IsCall("Table.FindPlayerIdx")
			})
			in := guardedBy(gs, true, func(x *Sym) bool { return x.IsField("TablePlayerState", "IsIn") })
			c.Check(symIsParam(a, id) && known && in && len(gs) == 2, rule, "settlement-finish:reaches-gate", p.InstrPos(ci), "gate.Ready(own id) for a known, seated-in player", "a player's settlement-finished report does not reach the open-game gate under the player's own id exactly when the player is known and seated-in")
		}
	}
	c.Min(rule, "gate ready signals from the engine", n, 1)
}

// checkManagerCallbackWiring (C17.F7): the manager registers every callback of the callbacks
// struct with the engine's setter of the same name, and uses the caller's options/callbacks
// whenever given.
func checkManagerCallbackWiring(c *Ctx, rule string) {
	p := c.P
	var create *ssa.Function
	for _, f := range p.Funcs {
		if fnName(f) == "CreateTable" && f.Signature.Recv() != nil && namedOf(f.Signature.Recv().Type()) != nil && canonTypeName(namedOf(f.Signature.Recv().Type()).Obj()) == "manager" {
			create = f
		}
	}
	if create == nil || len(create.Params) != 4 {
		c.Bad(rule, "manager-callbacks", "-", "manager.CreateTable not found")
		return
	}
	n := 0
	seen := map[string]bool{}
	for _, ci := range Calls(create) {
		nm := calleeName(ci.Common())
		if !strings.HasPrefix(nm, "TableEngine.On") {
			continue
		}
		n++
		setter := strings.TrimPrefix(nm, "TableEngine.")
		a := p.Sym(ci.Common().Args[len(ci.Common().Args)-1]).Strip()
		ok := a.Kind == "field" && a.Owner == "TableEngineCallbacks" && a.Name == setter
		// the struct it is read from: the caller's when given
		src := a
		if ok {
			src = a.Args[0].Strip()
			okSrc := false
			if src.Kind == "phi" {
				for _, lf := range p.phiLeaves(src.V) {
					if symIsParam(p.Sym(lf.V), create.Params[2]) && nilGuard(lf.Guards, false, func(x *Sym) bool { return symIsParam(x, create.Params[2]) }) {
						okSrc = true
					}
				}
			}
			// … or straight from the caller's struct under "callbacks != nil", when the engine's constructor itself
			// installs, for this listener, the default of NewTableEngineCallbacks() — what the manager bound for a
			// caller without callbacks
			if !okSrc && symIsParam(src, create.Params[2]) && nilGuard(p.Guards(ci), false, func(x *Sym) bool { return symIsParam(x, create.Params[2]) }) && engineDefaultListener(p, setter) {
				okSrc = true
			}
			ok = okSrc
		}
		seen[setter] = true
		c.Check(ok, rule, "manager-callback:"+setter, p.InstrPos(ci), setter+"(callbacks."+setter+") with the caller's callbacks when given", "the manager registers "+a.String()+" through "+setter)
	}
	// every callback field has its registration
	for _, pk := range p.AllPkgs {
		if pk.PkgPath != modPath || pk.Types == nil {
			continue
		}
		if o := pk.Types.Scope().Lookup("TableEngineCallbacks"); o != nil {
			if st, ok := o.Type().Underlying().(interface {
				NumFields() int
			}); ok {
				_ = st
			}
		}
	}
	c.Min(rule, "callback registrations in manager.CreateTable", n, 8)
	// options: the caller's when given
	for _, ci := range Calls(create) {
		if sc := ci.Common().StaticCallee(); sc != nil && fnName(sc) == "NewTableEngine" {
			a := p.Sym(ci.Common().Args[0]).Strip()
			ok := false
			if a.Kind == "phi" {
				for _, lf := range p.phiLeaves(a.V) {
					if symIsParam(p.Sym(lf.V), create.Params[1]) && nilGuard(lf.Guards, false, func(x *Sym) bool { return symIsParam(x, create.Params[1]) }) {
						ok = true
					}
				}
			}
			c.Check(ok, rule, "manager-options", p.InstrPos(ci), "the caller's options when given", "the manager does not create the engine with the caller's options when they are given")
		}
	}
}

// checkEngineCallbackDefaults (C13.R3 part): a new engine's callback slots are filled from
// the same-named default callbacks.
func checkEngineCallbackDefaults(c *Ctx, rule string) {
	p := c.P
	n := 0
	for _, f := range p.Funcs {
		if fnName(f) != "NewTableEngine" || f.Parent() != nil {
			continue
		}
		for _, ss := range p.Stores([]*ssa.Function{f}) {
			if ss.Owner != "tableEngine" || !strings.HasPrefix(ss.Field, "on") {
				continue
			}
			n++
			v := ss.Val.Strip()
			want := "On" + ss.Field[2:]
			c.Check(v.Kind == "field" && v.Owner == "TableEngineCallbacks" && v.Name == want, rule, "engine-default-callback:"+ss.Field, p.InstrPos(ss.Instr), ss.Field+" ← callbacks."+want, "a new engine's "+ss.Field+" slot is filled from "+v.String())
		}
	}
	c.Min(rule, "default callback slots of a new engine", n, 8)
}

// checkPlayerRecordWritersLocked: the open step installs a JSON CLONE of the table while it holds
// the engine mutex (clone → positions → swap). An exported engine operation that writes a field
// of an existing player record (bankroll, seated-in flag) of the live table without holding that
// mutex can therefore write into the pre-clone record between the clone and the swap: the write
// is acknowledged and lost. Such an operation must take the engine mutex in its entry block
// (Lock first, deferred Unlock), before it reads the table.
func checkPlayerRecordWritersLocked(c *Ctx, rule, field, what string) {
	p := c.P
	et := p.singleImpl("", "TableEngine")
	if et == nil {
		c.Bad(rule, "record-writer-locked", "-", "engine not found")
		return
	}
	lc := p.lifecycle()
	n := 0
	for _, f := range p.Methods(et) {
		if o := f.Object(); o == nil || !o.Exported() || f == lc.creator {
			continue
		}
		writes := false
		for _, ss := range p.Stores([]*ssa.Function{f}) {
			if ss.Owner == "TablePlayerState" && ss.Field == field && !storeIsLocal(ss.Instr) && ss.Addr.Root().Kind != "new" {
				writes = true
			}
		}
		if !writes {
			continue
		}
		n++
		ok, d := lockIdiom(p, f, "tableEngine.lock", "Lock", "Unlock")
		key := "record-writer-locked:" + field + ":" + fnName(f)
		if ok {
			c.Ok(rule, key, p.Pos(f.Pos()), "engine mutex from entry")
		} else {
			c.Bad(rule, key, p.Pos(f.Pos()), fnName(f)+" writes "+what+" of a live player record without holding the engine mutex from entry ("+d+"): racing with the asynchronous hand opening (clone → swap) the write lands in the replaced table and is lost")
		}
	}
	c.Min(rule, "exported operations writing "+what, n, 1)
}

// engineDefaultListener: the engine's constructor stores NewTableEngineCallbacks().<setter> into the listener
// field that the setter <setter> writes.
func engineDefaultListener(p *Prog, setter string) bool {
	var field string
	for _, f := range p.Funcs {
		if fnName(f) == setter && f.Signature.Recv() != nil && len(f.Params) == 2 {
			for _, ss := range p.Stores([]*ssa.Function{f}) {
				if ss.Owner == "tableEngine" && ss.ValV == ssa.Value(f.Params[1]) {
					field = ss.Field
				}
			}
		}
	}
	if field == "" {
		return false
	}
	for _, f := range p.Funcs {
		if fnName(f) != "NewTableEngine" || f.Signature.Recv() != nil {
			continue
		}
		for _, ss := range p.Stores([]*ssa.Function{f}) {
			if ss.Owner != "tableEngine" || ss.Field != field {
				continue
			}
			v := ss.Val.Strip()
			if v.Kind == "field" && v.Owner == "TableEngineCallbacks" && v.Name == setter && v.Args[0].Strip().IsCall("pokertable.NewTableEngineCallbacks") {
				return true
			}
		}
	}
	return false
}
