package main

func controlsC04() []Control {
	return []Control{
		{Name: "literal modulus 9 in nextOccupiedSeatID", Expect: "R1", Mutate: replaceIn("(*seatManager).nextOccupiedSeatID", "(startSeatID + i) % sm.MaxSeat", "(startSeatID + i) % 9", 0)},
		{Name: "literal offset 9 in previousOccupiedAliveSeatID", Expect: "R1", Mutate: replaceIn("(*seatManager).previousOccupiedAliveSeatID", "(startSeatID + sm.MaxSeat - i)", "(startSeatID + 9 - i)", 0)},
		{Name: "BB store moved above the refusal check", Expect: "R3", Mutate: replaceIn("(*seatManager).rotatePositions", "\t\tactiveCount := sm.getActivePlayerCount()\n", "\t\tsm.BBSeatID = newBBSeatID\n\t\tactiveCount := sm.getActivePlayerCount()\n", 0)},
		{Name: "SB takes the new BB instead of the old one", Expect: "R2", Mutate: replaceIn("(*seatManager).rotatePositions", "sm.SBSeatID = previousBBSeatID", "sm.SBSeatID = sm.BBSeatID", 0)},
		{Name: "dealer takes the new SB instead of the old one", Expect: "R2", Mutate: replaceIn("(*seatManager).rotatePositions", "sm.DealerSeatID = previousSBSeatID", "sm.DealerSeatID = sm.SBSeatID", 0)},
		{Name: "Active() drops HasChips", Expect: "R6", Mutate: replaceIn("(*SeatPlayer).Active", "sp.IsIn && !sp.IsBetweenDealerBB && sp.HasChips", "sp.IsIn && !sp.IsBetweenDealerBB", 0)},
		{Name: "new BB is the next occupied (active) seat, not next in+chips", Expect: "R2", Mutate: replaceIn("(*seatManager).rotatePositions", "sm.nextInAndHasChipsSeatID(previousBBSeatID)", "sm.nextOccupiedSeatID(previousBBSeatID)", 0)},
		{Name: "scan starts at offset 0", Expect: "R5", Mutate: replaceIn("(*seatManager).nextInAndHasChipsSeatID", "for i := 1; i < sm.MaxSeat; i++", "for i := 0; i < sm.MaxSeat; i++", 0)},
		{Name: "scan helper ignores IsIn", Expect: "R5", Mutate: replaceIn("(*seatManager).nextInAndHasChipsSeatID", "sp.HasChips && sp.IsIn", "sp.HasChips", 0)},
		{Name: "rotation refused below three active players", Expect: "R4", Mutate: replaceIn("(*seatManager).rotatePositions", "if activeCount < 2 {", "if activeCount < 3 {", 0)},
		{Name: "short deck keeps searching from the big blind", Expect: "R2", Mutate: replaceIn("(*seatManager).rotatePositions", "sm.nextOccupiedSeatID(sm.DealerSeatID)", "sm.nextOccupiedSeatID(sm.BBSeatID)", 0)},
		{Name: "RotatePositions without the initialised test", Expect: "R3", Mutate: replaceIn("(*seatManager).RotatePositions", "if !sm.IsInit {", "if false {", 0)},
		{Name: "heads-up flag read after the seats moved", Expect: "R2", Mutate: replaceIn("(*seatManager).rotatePositions", "if previousRoundIsHU {", "_ = previousRoundIsHU\n\t\t\tif sm.IsHU() {", 0)},
		{Name: "active count includes waiting players", Expect: "R6", Mutate: replaceIn("(*seatManager).getActivePlayerCount", "seatPlayer != nil && seatPlayer.Active()", "seatPlayer != nil && seatPlayer.IsIn", 0)},
		{Name: "wrap-around test compares the unreduced counter", Expect: "R1", Mutate: replaceIn("(*seatManager).isBetweenDealerBB", "if i%sm.MaxSeat == targetSeatID {", "if i == targetSeatID {", 0)},
		{Name: "initial dealer searched from the big blind", Expect: "R7", Mutate: replaceIn("(*seatManager).initPositions", "sm.previousOccupiedSeatID(sm.SBSeatID, true)", "sm.previousOccupiedSeatID(sm.BBSeatID, true)", 0)},
		{Name: "initial small blind may be an inactive seat", Expect: "R7", Mutate: replaceIn("(*seatManager).initPositions", "sm.previousOccupiedSeatID(sm.BBSeatID, true)", "sm.previousOccupiedSeatID(sm.BBSeatID, false)", 0)},
		{Name: "heads-up initial dealer may be the big blind seat", Expect: "R7", Mutate: replaceIn("(*seatManager).initPositions", "seatPlayer.Active() && seatID != firstSeatID", "seatPlayer.Active()", 0)},
		{Name: "wrap-around waiting arc includes the big-blind seat", Expect: "R8", Mutate: replaceIn("(*seatManager).isBetweenDealerBB", "i < (bbSeatID + sm.MaxSeat)", "i <= (bbSeatID + sm.MaxSeat)", 0)},
		{Name: "waiting arc includes the dealer seat", Expect: "R8", Mutate: replaceIn("(*seatManager).isBetweenDealerBB", "targetSeatID > dealerSeatID", "targetSeatID >= dealerSeatID", 0)},
		{Name: "positions re-initialised on every hand", Expect: "R9", Mutate: replaceIn("(*tableEngine).openGame", "if !te.sm.IsInitPositions() {", "if te.sm.IsInitPositions() {", 0)},
		{Name: "positions rotated twice per hand", Expect: "R9", Mutate: replaceIn("(*tableEngine).openGame", "\t// Step 5:", "\tte.sm.RotatePositions()\n\t// Step 5:", 0)},
		{Name: "active count starts at one", Expect: "R6", Mutate: replaceIn("(*seatManager).getActivePlayerCount", "count := 0", "count := 1", 0)},
		{Name: "initial small blind stored when the search found nobody", Expect: "R7", Mutate: replaceIn("(*seatManager).initPositions", "sbSeatID != UnsetSeatID {", "sbSeatID == UnsetSeatID {", 0)},
		{Name: "initial positioning succeeds without positions when the seat choice worked", Expect: "R7", Mutate: replaceIn("(*seatManager).initPositions", "seatID, err := sm.randomOccupiedSeat()\n\t\tif err != nil {", "seatID, err := sm.randomOccupiedSeat()\n\t\tif err == nil {", 0)},
		{Name: "backwards search ignores eligibility", Expect: "R5", Mutate: replaceIn("(*seatManager).previousOccupiedSeatID", "if shouldActive && sp.Active() {", "if shouldActive || sp.Active() {", 0)},
		{Name: "seat count clobbered on short deck rotation", Expect: "R1", Mutate: replaceIn("(*seatManager).rotatePositions", "sm.DealerSeatID = sm.nextOccupiedSeatID(sm.DealerSeatID)\n\t\tsm.SBSeatID = UnsetSeatID", "sm.DealerSeatID = sm.nextOccupiedSeatID(sm.DealerSeatID)\n\t\tsm.MaxSeat = UnsetSeatID", 0)},
		{Name: "heads-up predicate ignores the big blind", Expect: "R2", Mutate: replaceIn("(*seatManager).IsHU", " && sm.CurrentBBSeatID() != sm.CurrentDealerSeatID()", "", 0)},
	}
}
