package main

import (
	"fmt"
	"go/token"

	"golang.org/x/tools/go/ssa"
)

// checkTableLookups: the Table methods that translate a player id into a position in the
// player list / the hand's list, path by path through their search loops:
//   - a loop over the player list answers exactly at the entry whose id is the one asked for;
//   - a loop over the hand's index list answers exactly at the entry that denotes that player
//     (skipping only entries that point outside the player list);
//   - the answer is the loop's own position; nothing found → the unset value.
func checkTableLookups(c *Ctx, rule string, names ...string) {
	p := c.P
	for _, nm := range names {
		var f *ssa.Function
		for _, g := range p.Funcs {
			if fnName(g) == nm && g.Signature.Recv() != nil && namedOf(g.Signature.Recv().Type()) != nil && namedOf(g.Signature.Recv().Type()).Obj().Name() == "Table" && g.Parent() == nil {
				f = g
			}
		}
		if f == nil || len(f.Params) != 2 {
			c.Bad(rule, "table-lookup:"+nm, "-", "Table."+nm+" not found")
			continue
		}
		id := f.Params[1]
		nLoops := 0
		for _, h := range loopHeaders(f) {
			paths, ok := p.loopBodyPaths(h)
			var body []bodyPath
			for _, bp := range paths {
				if len(bp.Order) > 1 {
					body = append(body, bp)
				}
			}
			nLoops++
			over := "" // which list the loop walks
			for _, in := range h.Instrs {
				if ph, isVal := in.(ssa.Value); isVal {
					if iv := p.Sym(ph).Strip(); iv.Kind == "ind" && iv.Ind.Bound != nil && iv.Ind.Bound.IsCall("len") {
						l := iv.Ind.Bound.Strip().Args[0].Strip()
						if l.IsField("TableState", "PlayerStates") && fullRange(iv, func(x *Sym) bool { return x.IsField("TableState", "PlayerStates") }) {
							over = "players"
						}
						if l.IsField("TableState", "GamePlayerIndexes") && fullRange(iv, func(x *Sym) bool { return x.IsField("TableState", "GamePlayerIndexes") }) {
							over = "hand"
						}
					}
				}
			}
			isIdx := func(s *Sym) bool { // this loop's own counter
				s = s.Strip()
				return s.Kind == "ind" && s.Ind.Phi != nil && s.Ind.Phi.Block() == h
			}
			handEntry := func(s *Sym) bool { // GamePlayerIndexes[ι]
				s = s.Strip()
				return s.Kind == "index" && s.Args[0].Strip().IsField("TableState", "GamePlayerIndexes") && isIdx(s.Args[1])
			}
			atom := func(g Guard) (string, bool, bool) {
				cm := g.AsCmp()
				if cm == nil {
					return "", false, false
				}
				l, r := cm.L.Strip(), cm.R.Strip()
				if isIdx(l) {
					return "", false, true
				}
				for k := 0; k < 2; k++ {
					if l.IsField("TablePlayerState", "PlayerID") && symIsParam(r, id) && (cm.Op == token.EQL || cm.Op == token.NEQ) {
						e := l.Args[0].Strip()
						okEntry := e.Kind == "index" && e.Args[0].Strip().IsField("TableState", "PlayerStates") &&
							((over == "players" && isIdx(e.Args[1])) || (over == "hand" && handEntry(e.Args[1])))
						if okEntry {
							return "same-id", cm.Op == token.EQL, true
						}
						return "", false, false
					}
					if handEntry(l) && r.IsCall("len") && r.Args[0].Strip().IsField("TableState", "PlayerStates") {
						switch cm.Op {
						case token.GEQ:
							return "outside-player-list", true, true
						case token.LSS:
							return "outside-player-list", false, true
						}
						return "", false, false
					}
					if handEntry(l) && r.Kind == "phi" && (cm.Op == token.EQL || cm.Op == token.NEQ) {
						return "denotes-the-player", cm.Op == token.EQL, true
					}
					l, r = r, l
					cm = &Cmp{L: cm.R, R: cm.L, Op: flipOp(cm.Op)}
				}
				return "", false, false
			}
			d := "cannot enumerate the search loop"
			if ok && len(body) > 0 && over != "" {
				tests := map[string]bool{}
				for _, bp := range body {
					for _, g := range bp.Guards {
						if n2, _, ok2 := atom(g); ok2 && n2 != "" {
							tests[n2] = true
						}
					}
				}
				want := func(a map[string]bool) bool { return a["same-id"] }
				if tests["denotes-the-player"] {
					want = func(a map[string]bool) bool { return a["denotes-the-player"] }
				} else if over == "hand" {
					want = func(a map[string]bool) bool { return !a["outside-player-list"] && a["same-id"] }
				}
				d = tableCheck(body, atom, []string{"same-id", "outside-player-list", "denotes-the-player"}, nil,
					map[string]func(bodyPath) bool{"answer with this entry": func(bp bodyPath) bool { return bp.Exit }},
					map[string]func(map[string]bool) bool{"answer with this entry": want})
				// the answer is the loop's own position
				for _, bp := range body {
					if !bp.Exit || bp.ExitTo == nil {
						continue
					}
					if r := followToReturn(bp.ExitTo); r != nil && d == "" {
						v := p.Sym(r.Results[0]).Strip()
						if !(isIdx(v) || v.Kind == "phi") {
							d = "the answer is " + v.String() + ", not the position of the entry found"
						}
					}
				}
			} else if over == "" {
				d = "the search does not walk the whole player list or the whole hand index list"
			}
			c.Check(d == "", rule, fmt.Sprintf("table-lookup:%s:loop%d", nm, nLoops), p.Pos(f.Pos()), "answers exactly at the entry of the player asked for, with that entry's position", "Table."+nm+": "+d)
		}
		c.Check(nLoops >= 1, rule, "table-lookup:"+nm+":searches", p.Pos(f.Pos()), "search loop present", "Table."+nm+" does not search")
		// nothing found → unset
		okDefault := false
		for _, b := range f.Blocks {
			if r, isR := b.Instrs[len(b.Instrs)-1].(*ssa.Return); isR {
				if z, isZ := p.Sym(r.Results[0]).ConstInt(); isZ && z == -1 {
					okDefault = true
				} else if isZ {
					okDefault = false
					break
				}
			}
		}
		c.Check(okDefault, rule, "table-lookup:"+nm+":default", p.Pos(f.Pos()), "nothing found → unset", "Table."+nm+" does not answer the unset value when nothing is found")
	}
}
