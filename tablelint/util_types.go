package main

import (
	"go/constant"
	"go/types"
)

type typesConst = types.Const

func constObjInt(o types.Object) int64 {
	if c, ok := o.(*types.Const); ok {
		if v, ok := constant.Int64Val(c.Val()); ok {
			return v
		}
	}
	return -999
}

func isIntType(t types.Type) bool {
	b, ok := t.Underlying().(*types.Basic)
	return ok && b.Info()&types.IsInteger != 0
}
