package main

import (
	"go/constant"
	"go/types"
)

type typesConst = types.Const

func constObjInt(o types.Object) int64 {
	if c, ok := o.(*types.Const); ok {
		if v, ok := constant.Int64Val(c.Val()); ok {
			return v
		}
	}
	return -999
}

func isIntType(t types.Type) bool {
	b, ok := t.Underlying().(*types.Basic)
	return ok && b.Info()&types.IsInteger != 0
}

// repoConstString: the value of a package-level string constant of the repository's root package.
func repoConstString(p *Prog, name string) string {
	for _, pk := range p.AllPkgs {
		if pk.PkgPath == "github.com/weedbox/pokertable" && pk.Types != nil {
			if o := pk.Types.Scope().Lookup(name); o != nil {
				if c, ok := o.(*types.Const); ok && c.Val().Kind() == constant.String {
					return constant.StringVal(c.Val())
				}
			}
		}
	}
	return "\x00missing"
}
