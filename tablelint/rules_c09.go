package main

// C09 — the open-game gate fires once, and only when everyone is ready or timed out.

import (
	"fmt"
	"strings"

	"golang.org/x/tools/go/ssa"
)

func init() {
	register(&PropMeta{
		ID:          "C09",
		Level:       "other",
		Explanation: "Decides the protocol the gate drives on its ready group: (R1) Setup performs Stop → OnCompleted → ResetParticipants → Add(index, false) for every given participant → Start, nothing on the ready group after Start, and stores the game count before Start; (R2) a ready signal from an unknown participant returns the not-found error before the ready group is touched, the ready flag is stored only on the success path and the signalled index is the looked-up participant's; (R3) the user callback is invoked from exactly one function, which first marks every participant ready, then invokes the callback unconditionally with a by-value state snapshot, and that function is called only from completion closures registered with OnCompleted; (R4) both constructors build the ready group with the configured timeout and a handler that readies every not-yet-ready participant; (R5) the gate rebuilt from a saved state registers the same completion target, copies game count and participants and re-adds them (pending first, then the ready ones as ready). NOT decided: exactly-once / supersession / timeout behaviour under schedules (syncsaga's atomics and goroutines).",
		Rules: map[string]string{
			"R1": "set-up typestate on the ready group; nobody pre-readied; game count stored before Start; the gate's own participant map is replaced by a fresh empty map after Stop and before every Add, with one entry per Add",
			"R2": "unknown participant → error before any ready-group signal; IsReady only on success; own index signalled; no known-nil error returned",
			"R3": "single completion function: marks all ready, passes a by-value snapshot, invokes the user callback unconditionally; reachable only as OnCompleted callback; the completion path never operates on the (shared, re-armed) ready group",
			"R4": "timeout wiring in both constructors",
			"R7": "the dependency's ready group takes its read lock twice while validating a signal (C16.R7): the gate adds participants only to a group created in the same function — a set-up that re-arms the group it used before can deadlock, fire early or fire for the superseded set-up when signals are still pending",
			"R6": "receiver discipline: no method of these types assigns to a field of a value receiver (the assignment would be lost) or copies a sync.* field through its receiver (the gate)",
			"R5": "rebuilt gate: same completion target, saved game count and participants",
		},
		Assumptions: []string{"syncsaga.ReadyGroup fires OnCompleted at most once per Start and never after Stop"},
		Run:         checkC09,
		Controls:    controlsC09,
	})
}

type rgOp struct {
	Op   string
	Top  ssa.Instruction // instruction in the analysed function through which the op happens
	Call ssa.CallInstruction
	Args []*Sym // args of the actual syncsaga call with parameters of helpers substituted by call-site arguments
}

// rgOps lists the syncsaga.ReadyGroup operations performed by f, looking through static
// repo helpers on the same receiver (depth ≤ 3), binding helper parameters to arguments.
func (p *Prog) rgOps(f *ssa.Function, depth int) []rgOp {
	var out []rgOp
	var walk func(g *ssa.Function, top ssa.Instruction, bind map[string]*Sym, d int)
	walk = func(g *ssa.Function, top ssa.Instruction, bind map[string]*Sym, d int) {
		for _, b := range g.Blocks {
			for _, in := range b.Instrs {
				ci, ok := in.(ssa.CallInstruction)
				if !ok {
					continue
				}
				t := top
				if g == f {
					t = in
				}
				n := calleeName(ci.Common())
				if strings.HasPrefix(n, "syncsaga.ReadyGroup.") {
					cs := p.CallSym(ci)
					var args []*Sym
					for _, a := range cs.Args {
						as := a.Strip()
						if as.Kind == "param" && bind[as.Name] != nil {
							as = bind[as.Name]
						}
						args = append(args, as)
					}
					out = append(out, rgOp{Op: strings.TrimPrefix(n, "syncsaga.ReadyGroup."), Top: t, Call: ci, Args: args})
					continue
				}
				if sc := ci.Common().StaticCallee(); sc != nil && p.IsRepoFunc(sc) && d < depth && sc.Signature.Recv() != nil {
					nb := map[string]*Sym{}
					cs := p.CallSym(ci)
					for i, pr := range sc.Params {
						if i < len(cs.Args) {
							a := cs.Args[i].Strip()
							if a.Kind == "param" && bind[a.Name] != nil {
								a = bind[a.Name]
							}
							nb[pr.Name()] = a
						}
					}
					walk(sc, t, nb, d+1)
				}
			}
		}
	}
	walk(f, nil, map[string]*Sym{}, 0)
	return out
}

func checkC09(c *Ctx) {
	checkReadyGroupNoRecursiveRLock(c, "R7", "openGameManager", "the gate's ready group")
	p := c.P
	checkReceiverDiscipline(c, "R6", p.implementersIn("/open_game_manager", "OpenGameManager"), 8)
	checkNoKnownNilErrorReturn(c, "R2", func(f *ssa.Function) bool { return inPkg(p, f, "/open_game_manager") && f.Parent() == nil }, 0)
	gt := p.singleImpl("/open_game_manager", "OpenGameManager")
	if gt == nil {
		c.Bad("R1", "anchors", "-", "open-game manager not found")
		return
	}
	setup := p.Method(gt, "Setup")
	ready := p.Method(gt, "Ready")
	if setup == nil || ready == nil {
		c.Bad("R1", "anchors", "-", "Setup / Ready not found")
		return
	}
	// ---------------- R1
	ops := p.rgOps(setup, 3)
	byOp := map[string][]rgOp{}
	for _, o := range ops {
		byOp[o.Op] = append(byOp[o.Op], o)
	}
	c.Min("R1", "ready-group operations in Setup", len(ops), 5)
	one := func(op string) *rgOp {
		if len(byOp[op]) != 1 {
			c.Bad("R1", "setup:"+op+":count", p.Pos(setup.Pos()), fmt.Sprintf("Setup performs %s %d time(s), exactly once expected", op, len(byOp[op])))
			return nil
		}
		return &byOp[op][0]
	}
	stop, onc, reset, start := one("Stop"), one("OnCompleted"), one("ResetParticipants"), one("Start")
	if stop != nil && onc != nil && reset != nil && start != nil {
		ord := Dominates(stop.Top, onc.Top) && Dominates(onc.Top, reset.Top) && Dominates(reset.Top, start.Top)
		c.Check(ord, "R1", "setup:order", p.Pos(setup.Pos()), "Stop → OnCompleted → ResetParticipants → Start", "Setup does not stop the previous round, register the completion and reset participants (in that order) before starting")
		adds := byOp["Add"]
		c.Check(len(adds) >= 1, "R1", "setup:adds", p.Pos(setup.Pos()), "participants added", "Setup adds no participant to the ready group")
		for _, a := range adds {
			okPos := Dominates(reset.Top, a.Top) && mustPass(a.Top, start.Top) && !Reaches(start.Top, a.Top)
			c.Check(okPos, "R1", "setup:add-between-reset-and-start", p.InstrPos(a.Top), "Add after reset, before Start", "a participant is added outside the reset…start window")
			fv, isB := a.Args[2].ConstBool()
			c.Check(isB && !fv, "R1", "setup:nobody-pre-readied", p.InstrPos(a.Top), "Add(index, false)", "Setup adds a participant that is already marked ready ("+a.Args[2].String()+"): the gate can fire before they signalled")
			// one per given participant: (a) the helper adds the Index field of the participant
			// it is given; (b) Setup builds that participant from the key/value of a range
			// over its own participants parameter
			idx := a.Args[1].Strip()
			helper := a.Call.Parent()
			okLoop := false
			d := "the index added to the ready group (" + idx.String() + ") does not come from the participants given to Setup"
			if helper == setup {
				okLoop = idx.Contains(func(x *Sym) bool {
					return (x.Kind == "rangeval" || x.Kind == "rangekey") && symIsParam(x.Args[0], setup.Params[2])
				})
			} else if idx.IsField("OpenGameParticipant", "Index") {
				if topCall, isCall := a.Top.(ssa.CallInstruction); isCall && len(topCall.Common().Args) >= 2 {
					if ld, isLd := topCall.Common().Args[1].(*ssa.UnOp); isLd {
						if al, isAl := ld.X.(*ssa.Alloc); isAl {
							var idOK, ixOK bool
							if refs := al.Referrers(); refs != nil {
								for _, r := range *refs {
									fa, isFA := r.(*ssa.FieldAddr)
									if !isFA {
										continue
									}
									_, fname := structFieldName(fa.X.Type(), fa.Field)
									if frefs := fa.Referrers(); frefs != nil {
										for _, r2 := range *frefs {
											if st, isSt := r2.(*ssa.Store); isSt {
												v := p.Sym(st.Val).Strip()
												fromRange := (v.Kind == "rangeval" || v.Kind == "rangekey") && symIsParam(v.Args[0], setup.Params[2])
												if fname == "Index" && fromRange && v.Kind == "rangeval" {
													ixOK = true
												}
												if fname == "ID" && fromRange && v.Kind == "rangekey" {
													idOK = true
												}
											}
										}
									}
								}
							}
							okLoop = idOK && ixOK
							if !okLoop {
								d = "the participant handed to the add helper is not built from the key (id) and value (index) of the participants given to Setup"
							}
						}
					}
				}
			}
			c.Check(okLoop, "R1", "setup:add-for-each-participant", p.InstrPos(a.Top), "participant built from the participants given to Setup", d)
		}
		for _, o := range ops {
			if o.Top != start.Top && Reaches(start.Top, o.Top) {
				c.Bad("R1", "setup:after-start:"+o.Op, p.InstrPos(o.Top), "ready-group operation "+o.Op+" after Start")
			}
		}
		// every path through Setup arms the gate: no return without passing Stop … Start
		for _, b := range setup.Blocks {
			for _, in := range b.Instrs {
				if r, ok := in.(*ssa.Return); ok {
					c.Check(passesOneOf(r, []ssa.Instruction{start.Top}) && passesOneOf(r, []ssa.Instruction{stop.Top}), "R1", "setup:every-path-arms-the-gate", p.InstrPos(r), "no exit without Stop and Start", "Setup has a path that returns without stopping the previous round and starting the new one: an unfinished set-up is not superseded")
				}
			}
		}
		// game count stored before Start, from the parameter
		okGC := false
		for _, ss := range p.Stores([]*ssa.Function{setup}) {
			if ss.Owner == "OpenGameState" && ss.Field == "GameCount" && symIsParam(ss.Val, setup.Params[1]) && Dominates(ss.Instr, start.Top) {
				okGC = true
			}
		}
		c.Check(okGC, "R1", "setup:game-count-before-start", p.Pos(setup.Pos()), "GameCount ← parameter before Start", "the set-up's game count is not recorded before the ready group is started")
		// the gate's own participant map — consulted to reject unknown ids and reported to the
		// callback — starts empty at each set-up and gets one entry per ready-group Add
		type topped struct {
			in  ssa.Instruction
			top ssa.Instruction
		}
		var inner []topped
		var walk func(g *ssa.Function, top ssa.Instruction, d int)
		walk = func(g *ssa.Function, top ssa.Instruction, d int) {
			for _, b := range g.Blocks {
				for _, in := range b.Instrs {
					t := top
					if g == setup {
						t = in
					}
					inner = append(inner, topped{in, t})
					if ci, isC := in.(ssa.CallInstruction); isC {
						if sc := ci.Common().StaticCallee(); sc != nil && p.IsRepoFunc(sc) && d < 3 && sc.Signature.Recv() != nil {
							walk(sc, t, d+1)
						}
					}
				}
			}
		}
		walk(setup, nil, 0)
		var fresh ssa.Instruction
		nUpd := 0
		for _, ti := range inner {
			switch x := ti.in.(type) {
			case *ssa.Store:
				a := p.Sym(x.Addr).Strip()
				if a.IsField("OpenGameState", "Participants") {
					if _, isMM := x.Val.(*ssa.MakeMap); isMM && Dominates(stop.Top, ti.top) {
						fresh = ti.top
					} else {
						c.Bad("R1", "setup:state-map-store", p.InstrPos(ti.top), "the gate's participant map is set to "+p.Sym(x.Val).String()+", not a fresh empty map")
					}
				}
			case *ssa.MapUpdate:
				m := p.Sym(x.Map).Strip()
				if m.IsField("OpenGameState", "Participants") {
					nUpd++
					mirrored := false
					for _, a := range adds {
						if a.Top == ti.top {
							mirrored = true
						}
					}
					c.Check(mirrored, "R1", "setup:state-entry-with-each-add", p.InstrPos(ti.top), "entry recorded together with the ready-group Add", "a participant is recorded in the gate's state without being added to the ready group")
				}
			}
		}
		okFresh := fresh != nil
		for _, a := range adds {
			if fresh == nil || !Dominates(fresh, a.Top) {
				okFresh = false
			}
		}
		// a helper that adds a participant does so on every path (no early exit that records nothing
		// in the ready group): both set-up and the rebuild from a saved state go through it
		seenHelper := map[*ssa.Function]bool{}
		for _, a := range adds {
			h := a.Call.Parent()
			if h == setup || seenHelper[h] {
				continue
			}
			seenHelper[h] = true
			okAll := true
			for _, b := range h.Blocks {
				if r, isR := b.Instrs[len(b.Instrs)-1].(*ssa.Return); isR {
					if !passesOneOf(r, []ssa.Instruction{a.Call}) {
						okAll = false
					}
				}
			}
			c.Check(okAll, "R1", "add-helper-always-adds:"+fnName(h), p.Pos(h.Pos()), "every path through the helper adds to the ready group", "the helper that registers a participant can return without adding him to the ready group: the gate then waits for (or forgets) somebody the state shows as registered")
		}
		c.Check(okFresh, "R1", "setup:state-forgets-previous-participants", p.Pos(setup.Pos()), "state.Participants ← fresh empty map after Stop, before every Add", "Setup does not start from an empty participant map: ids of an earlier set-up stay known to the gate and can signal the new one")
		c.Check(nUpd >= 1, "R1", "setup:state-records-participants", p.Pos(setup.Pos()), "participants recorded in the state", "Setup records no participant in the gate's state")
	}
	// ---------------- R2
	var readyFn *ssa.Function
	for _, o := range p.rgOps(ready, 3) {
		if o.Op == "Ready" {
			readyFn = o.Call.Parent()
		}
	}
	if readyFn == nil {
		c.Bad("R2", "ready-signal", p.Pos(ready.Pos()), "Ready does not signal the ready group")
	} else {
		idp := readyFn.Params[1]
		var existV ssa.Value
		var lookup *ssa.Lookup
		for _, b := range readyFn.Blocks {
			for _, in := range b.Instrs {
				if lk, ok := in.(*ssa.Lookup); ok && lk.CommaOk && p.Sym(lk.X).Strip().IsField("OpenGameState", "Participants") && symIsParam(p.Sym(lk.Index), idp) {
					lookup = lk
					if refs := lk.Referrers(); refs != nil {
						for _, r := range *refs {
							if ex, ok := r.(*ssa.Extract); ok && ex.Index == 1 {
								existV = ex
							}
						}
					}
				}
			}
		}
		if existV == nil {
			c.Bad("R2", "unknown-participant-test", p.Pos(readyFn.Pos()), "the ready operation does not look the participant up by the given id")
		} else {
			known := func(in ssa.Instruction) bool {
				return guardedBy(p.Guards(in), true, func(s *Sym) bool { return s.V == existV })
			}
			for _, ci := range Calls(readyFn) {
				if calleeName(ci.Common()) == "syncsaga.ReadyGroup.Ready" {
					c.Check(known(ci), "R2", "signal-only-if-known", p.InstrPos(ci), "ready group signalled only for a known participant", "the ready group is signalled before the participant is known to exist")
					idx := p.Sym(ci.Common().Args[1]).Strip()
					okIdx := idx.IsField("OpenGameParticipant", "Index") && idx.Args[0].Strip().Kind == "extract" && idx.Args[0].Strip().Args[0].Strip().V == ssa.Value(lookup)
					c.Check(okIdx, "R2", "signal-own-index", p.InstrPos(ci), "index of the looked-up participant", "the ready group is signalled with "+idx.String()+", not the looked-up participant's index")
				}
			}
			for _, ss := range p.Stores([]*ssa.Function{readyFn}) {
				if ss.Owner == "OpenGameParticipant" && ss.Field == "IsReady" {
					c.Check(known(ss.Instr), "R2", "flag-only-on-success", p.InstrPos(ss.Instr), "ready flag stored only for a known participant", "a ready flag is stored on the failure path")
				}
			}
			// the unknown branch returns the sentinel
			okErr := false
			for _, b := range readyFn.Blocks {
				for _, in := range b.Instrs {
					if r, ok := in.(*ssa.Return); ok && guardedBy(p.Guards(r), false, func(s *Sym) bool { return s.V == existV }) {
						s := p.Sym(retValue(r, 0)).Strip()
						if s.Kind == "global" && strings.HasSuffix(s.Name, "ErrParticipantNotFound") {
							okErr = true
						}
					}
				}
			}
			c.Check(okErr, "R2", "unknown-participant-error", p.Pos(readyFn.Pos()), "unknown id → ErrParticipantNotFound", "a ready signal from an unknown participant is not rejected with the not-found error")
		}
		// Ready forwards its own parameter
		okFwd := false
		for _, ci := range Calls(ready) {
			if ci.Common().StaticCallee() == readyFn || ready == readyFn {
				okFwd = ready == readyFn || symIsParam(p.Sym(ci.Common().Args[1]), ready.Params[1])
			}
		}
		c.Check(okFwd, "R2", "ready-forwards-id", p.Pos(ready.Pos()), "Ready(id) forwards its id", "Ready does not forward the id it was given")
	}
	// ---------------- R3
	var completion *ssa.Function
	nCb := 0
	for _, f := range p.Methods(gt) {
		for _, ci := range Calls(f) {
			cm := ci.Common()
			if !cm.IsInvoke() && cm.StaticCallee() == nil && p.Sym(cm.Value).Strip().IsField("openGameManager", "onOpenGameReady") {
				nCb++
				completion = f
				// argument: by-value snapshot
				a := p.Sym(cm.Args[0]).Strip()
				byVal := a.IsCall("openGameManager.GetState") || a.Kind == "field" && a.Name == "state"
				c.Check(byVal, "R3", "callback-gets-snapshot", p.InstrPos(ci), "callback receives the state by value", "the user callback receives "+a.String())
				// every participant marked ready before
				okMark := false
				for _, ss := range p.Stores([]*ssa.Function{f}) {
					if ss.Owner == "OpenGameParticipant" && ss.Field == "IsReady" {
						if b, isB := ss.Val.ConstBool(); isB && b {
							rng := ss.Addr.Contains(func(x *Sym) bool {
								return x.Kind == "rangekey" && x.Args[0].Strip().IsField("OpenGameState", "Participants")
							})
							if rng && !Reaches(ci, ss.Instr) {
								okMark = true
							}
						}
					}
				}
				c.Check(okMark, "R3", "all-marked-ready-first", p.InstrPos(ci), "every participant marked ready before the callback", "the callback can report participants that are not marked ready")
				// … and unconditionally: a completion always reaches the user (only the marking loop precedes it)
				cond := ""
				for _, g := range p.Guards(ci) {
					loopExit := g.Cond.Contains(func(x *Sym) bool {
						return x.Kind == "next" || x.Kind == "ind" || x.Kind == "rangekey" || x.Kind == "rangeval"
					})
					if !loopExit {
						cond = g.String()
					}
				}
				c.Check(cond == "", "R3", "callback-on-every-completion", p.InstrPos(ci), "no condition between the completion and the user callback", "the completion function reports to the user only under "+cond+": a completed (or timed-out) set-up can stay unreported")
			}
		}
	}
	for _, f := range p.Funcs {
		if f.Parent() != nil && inPkg(p, f, "/open_game_manager") {
			for _, ci := range Calls(f) {
				cm := ci.Common()
				if !cm.IsInvoke() && cm.StaticCallee() == nil && p.Sym(cm.Value).Strip().IsField("openGameManager", "onOpenGameReady") {
					nCb++
				}
			}
		}
	}
	c.Check(nCb == 1, "R3", "single-callback-site", "-", "user callback invoked from exactly one place", fmt.Sprintf("the user callback is invoked from %d places", nCb))
	// … and the completion leaves the ready group alone. It runs on the group's own goroutine, after the gate has
	// fired — by then a new set-up may have re-armed the very same group: stopping, resetting, adding to or
	// signalling the group from here lands on the *next* set-up (its signals are dropped, its timer cancelled).
	if completion != nil {
		seen := map[*ssa.Function]bool{}
		work := []*ssa.Function{completion}
		for _, f := range p.Funcs {
			if f.Parent() != nil && inPkg(p, f, "/open_game_manager") {
				for _, ci := range Calls(f) {
					if ci.Common().StaticCallee() == completion {
						work = append(work, f)
					}
				}
			}
		}
		okQuiet := true
		for len(work) > 0 {
			f := work[0]
			work = work[1:]
			if seen[f] {
				continue
			}
			seen[f] = true
			for _, ci := range Calls(f) {
				sc := ci.Common().StaticCallee()
				if sc == nil {
					continue
				}
				if recv := sc.Signature.Recv(); recv != nil {
					if n := namedOf(recv.Type()); n != nil && n.Obj().Name() == "ReadyGroup" && n.Obj().Pkg() != nil && strings.HasSuffix(n.Obj().Pkg().Path(), "syncsaga") {
						if sc.Name() != "GetParticipantStates" {
							okQuiet = false
							c.Bad("R3", "completion-leaves-the-group-alone:"+sc.Name(), p.InstrPos(ci), "the completion path calls ReadyGroup."+sc.Name()+": it runs asynchronously after the gate fired, when a new set-up may already have re-armed the same group — the call lands on that set-up (signals dropped / timer cancelled / fired again)")
						}
						continue
					}
				}
				if inPkg(p, sc, "/open_game_manager") {
					work = append(work, sc)
				}
				for _, an := range sc.AnonFuncs {
					work = append(work, an)
				}
			}
			for _, an := range f.AnonFuncs {
				work = append(work, an)
			}
		}
		if okQuiet {
			c.Ok("R3", "completion-leaves-the-group-alone", p.Pos(completion.Pos()), fmt.Sprintf("%d function(s) on the completion path; none operates on the ready group", len(seen)))
		}
	}
	if completion != nil {
		// GetState returns a copy
		if gs := p.Method(gt, "GetState"); gs != nil {
			okCopy := false
			for _, b := range gs.Blocks {
				for _, in := range b.Instrs {
					if r, ok := in.(*ssa.Return); ok {
						if u, ok := r.Results[0].(*ssa.UnOp); ok {
							if p.Sym(u.X).Strip().IsField("openGameManager", "state") {
								okCopy = true
							}
						}
					}
				}
			}
			c.Check(okCopy, "R3", "snapshot-is-a-copy", p.Pos(gs.Pos()), "GetState dereferences the state", "GetState no longer returns a by-value copy of the state")
		}
		sites := p.CG().AllCallSitesOf(completion)
		c.Min("R3", "callers of the completion function", len(sites), 2)
		for _, site := range sites {
			f := site.Parent()
			// f must be a closure registered via OnCompleted
			reg := false
			if mc := p.parentMC[f]; mc != nil {
				var follow func(v ssa.Value, d int)
				follow = func(v ssa.Value, d int) {
					refs := v.Referrers()
					if refs == nil || d > 3 {
						return
					}
					for _, r := range *refs {
						switch x := r.(type) {
						case ssa.CallInstruction:
							if calleeName(x.Common()) == "syncsaga.ReadyGroup.OnCompleted" {
								reg = true
							}
						case *ssa.ChangeType:
							follow(x, d+1)
						case *ssa.MakeInterface:
							follow(x, d+1)
						}
					}
				}
				follow(mc, 0)
			}
			c.Check(reg, "R3", "completion-only-from-OnCompleted:"+FuncName(f), p.InstrPos(site), "called from a closure registered with OnCompleted", "the completion function (which fires the user callback) is called directly, not as the ready group's completion")
		}
	}
	// ---------------- R4 constructors
	nCtor := 0
	var ctors []*ssa.Function
	for _, f := range p.Funcs {
		if f.Parent() != nil || !inPkg(p, f, "/open_game_manager") || f.Signature.Recv() != nil {
			continue
		}
		for _, ci := range Calls(f) {
			if calleeName(ci.Common()) != "syncsaga.NewReadyGroup" {
				continue
			}
			nCtor++
			ctors = append(ctors, f)
			okT := false
			d := "the ready group is built without the configured timeout and an auto-ready handler"
			for _, c2 := range Calls(f) {
				if calleeName(c2.Common()) != "syncsaga.WithTimeout" {
					continue
				}
				t := p.Sym(c2.Common().Args[0]).Strip()
				if !t.IsField("OpenGameOption", "Timeout") {
					d = "timeout is " + t.String() + ", not the configured one"
					continue
				}
				for _, h := range closureOperands(c2.Common().Args[1]) {
					// ranges over GetParticipantStates and readies the not-ready ones
					for _, c3 := range Calls(h) {
						if calleeName(c3.Common()) == "syncsaga.ReadyGroup.Ready" {
							idx := p.Sym(c3.Common().Args[1]).Strip()
							gs := p.Guards(c3)
							notReady := guardedBy(gs, false, func(s *Sym) bool {
								return s.Kind == "rangeval" && s.Args[0].IsCall("syncsaga.ReadyGroup.GetParticipantStates")
							})
							if idx.Kind == "rangekey" && idx.Args[0].IsCall("syncsaga.ReadyGroup.GetParticipantStates") && notReady {
								okT = true
							}
						}
					}
				}
			}
			c.Check(okT, "R4", "timeout-wiring:"+fnName(f), p.InstrPos(ci), "WithTimeout(options.Timeout, ready every not-ready participant)", d)
			// the user callback is stored
			okCb := false
			for _, ss := range p.Stores([]*ssa.Function{f}) {
				if ss.Owner == "openGameManager" && ss.Field == "onOpenGameReady" && ss.Val.Strip().IsField("OpenGameOption", "OnOpenGameReady") {
					okCb = true
				}
			}
			c.Check(okCb, "R4", "callback-stored:"+fnName(f), p.Pos(f.Pos()), "user callback stored", "the constructor does not keep the user's ready callback")
		}
	}
	c.Min("R4", "constructors", nCtor, 2)
	// ---------------- R5 rebuilt gate
	for _, f := range ctors {
		if len(f.Params) != 2 {
			continue
		}
		ops := p.rgOps(f, 3)
		var onc2, st2 *rgOp
		nPending, nReady := 0, 0
		for i := range ops {
			switch ops[i].Op {
			case "OnCompleted":
				onc2 = &ops[i]
			case "Start":
				st2 = &ops[i]
			case "Add":
				if b, isB := ops[i].Args[2].ConstBool(); isB && !b {
					nPending++
				} else if isB && b {
					nReady++
				}
			}
		}
		okTarget := false
		if onc2 != nil && completion != nil {
			for _, h := range closureOperands(onc2.Call.Common().Args[1]) {
				for _, ci := range Calls(h) {
					if ci.Common().StaticCallee() == completion {
						okTarget = true
					}
				}
			}
		}
		c.Check(okTarget && st2 != nil && Dominates(onc2.Top, st2.Top), "R5", "rebuilt:same-completion-target", p.Pos(f.Pos()), "OnCompleted → the same completion function, before Start", "the rebuilt gate does not register the same completion function before starting")
		c.Check(nPending >= 1 && nReady >= 1, "R5", "rebuilt:participants-re-added", p.Pos(f.Pos()), "participants added pending, saved-ready ones re-added as ready", fmt.Sprintf("the rebuilt gate does not restore participants and their readiness (pending adds=%d, ready adds=%d)", nPending, nReady))
		okGC := false
		for _, ss := range p.Stores([]*ssa.Function{f}) {
			if ss.Owner == "OpenGameState" && ss.Field == "GameCount" && ss.Val.Strip().IsField("OpenGameState", "GameCount") && symIsParam(ss.Val.Strip().Args[0], f.Params[0]) {
				okGC = true
			}
		}
		c.Check(okGC, "R5", "rebuilt:game-count", p.Pos(f.Pos()), "game count copied from the saved state", "the rebuilt gate does not report the saved game count")
	}
}

func inPkg(p *Prog, f *ssa.Function, suffix string) bool {
	pk := p.PkgOf(f)
	return pk != nil && pk.PkgPath == modPath+suffix
}

// inModule: f is declared in one of the repository's packages
func inModule(p *Prog, f *ssa.Function) bool {
	pk := p.PkgOf(f)
	return pk != nil && (pk.PkgPath == modPath || strings.HasPrefix(pk.PkgPath, modPath+"/"))
}
