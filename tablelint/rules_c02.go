package main

// C02 — a hand's seat numbers denote the same players from open to settlement.

import (
	"fmt"
	"go/constant"
	"go/token"
	"strings"

	"golang.org/x/tools/go/ssa"
)

func init() {
	register(&PropMeta{
		ID:          "C02",
		Level:       "other",
		Explanation: "Decides that the id → hand index → player index translation is carried unchanged through the whole hand: (R1) the hand's player settings are appended once per entry of the hand index list, in order, and the only later change is a dealer label on entry 0; (R2) in each of the 9 action methods the index given to the hand engine is FindGamePlayerIdx(own id), every statistics store and the published action use FindPlayerIndexFromGamePlayerIndex(that same index), and the published id is the caller's own; (R3) settlement maps result r to PlayerStates[GamePlayerIndexes[r.Idx]] (as C01.R2); (R4) the hand index list is written only as empty, as the list builder's result on the clone, or as the remap after a leave, and every element the builder appends is read from the seat map at i mod N inside a full-circle loop i = s … s+N-1 with the same N, under the dealt-in flag; (R5) the two translators have their defining shapes; (R6) joins append to the player list and patch a copy of the seat map only at the new seats. Also decided since (see the rule list): the leave remap, the start seat of the hand list path by path (R4), the copy of the dealt-in flags after the rotation (R7). NOT decided: that the composition of these steps yields clockwise order for every reachable seat layout (each step is decided path by path, not their product over all layouts); what pokerface does with entry i.",
		Rules: map[string]string{
			"R1": "hand list construction: one PlayerSetting per hand-index entry, in order; only later mutation is the dealer label on entry 0",
			"R2": "action translation: one hand index and one player index per method, both derived from the caller's own id",
			"R3": "settlement mapping (as C01.R2)",
			"R4": "hand-index-list writers and sources: full-circle seat-map scan under the dealt-in flag; leave remap: id → position in the NEW player list, hand index list rebuilt from it for every old entry in order, under status ∈ {opened, playing, settled} with the live status; no in-place filtering; entry 0 of the hand list: dealer seat when a dealt-in player holds it, else the nearest active seat counter-clockwise from the SB seat (held) or BB seat; seats skipped only when unset; list starts empty",
			"R5": "translator definitions",
			"R9": "a wager action is booked under the caller's entry only if that entry is the current player of the hand's own state: the hand's wager validator establishes index == g.gs.Status.CurrentPlayer on every success exit (the backend moves whoever is current; the table's published copy of the state lags behind)",
			"R8": "players are taken off the table (and the hand index list re-mapped) only at the request of a leave: every call of the leave path passes its caller's own leave-id parameter, unchanged, and the callers are exported operations — a join that is refused, rolled back or retried never evicts anybody from the running hand",
			"R7": "the dealt-in flags deciding membership of the hand list are copied from the seat manager for every player, on the clone, after this hand's rotation (as C05.R1)",
			"R6": "joins do not shift: append to the player list; seat map copied and patched only at new seats",
		},
		Assumptions: []string{"pokerface keeps entry i's cards, actions and result under index i"},
		Run:         checkC02,
		Controls:    controlsC02,
	})
}

func checkC02(c *Ctx) {
	p := c.P
	checkTurnTestOnHandState(c, "R9")
	checkLeaveOnlyOnRequest(c, "R8")
	lc := p.lifecycle()
	if lc.openFn == nil || lc.startFn == nil {
		c.Bad("R1", "anchors", "-", "open/start step not found")
		return
	}
	// ---------------- R1
	start := lc.startFn
	var optStore *StoreSite
	for _, ss := range p.Stores([]*ssa.Function{start}) {
		if ss.Owner == "GameOptions" && ss.Field == "Players" {
			optStore = ss
		}
	}
	if optStore == nil {
		c.Bad("R1", "options-players", p.Pos(start.Pos()), "the hand options' player list is never set")
	} else {
		// the value is built only by appends of fresh PlayerSetting literals in a loop over GamePlayerIndexes
		nApp := 0
		okApp := true
		d := ""
		for _, ci := range Calls(start) {
			cs := p.CallSym(ci)
			if cs.Kind != "builtin" || cs.Name != "append" || typeShort(ci.Common().Args[0].Type()) != "[]*pokerface.PlayerSetting" {
				continue
			}
			nApp++
			e := appendedElem(p, ci)
			if e == nil || e.Root().Kind != "new" {
				okApp, d = false, "an entry of the hand's player list is not a fresh setting"
				continue
			}
			// once per iteration: at the top of a loop over the hand index list
			var iv *Sym
			for _, ss := range p.Stores([]*ssa.Function{start}) {
				if ss.Owner == "PlayerSetting" && ss.Field == "Bankroll" && ss.Addr.Root().V == e.Root().V {
					v := ss.Val.Strip()
					if v.Kind == "field" {
						k := v.Args[0].Strip()
						if k.Kind == "index" && k.Args[1].Strip().Kind == "index" {
							iv = k.Args[1].Strip().Args[1].Strip()
						}
					}
				}
			}
			if iv == nil || iv.Kind != "ind" {
				okApp, d = false, "the setting is not built from the hand index list's loop entry"
				continue
			}
			if body := loopBodyHead(iv.Ind.Phi.Block()); body == nil || ci.Block() != body {
				okApp, d = false, "a hand index entry can be skipped or appended conditionally"
			}
			if bad := notStartingEmpty(p, ci); bad != "" {
				okApp, d = false, "the hand's player list does not start empty ("+bad+"): every entry is shifted"
			}
		}
		c.Check(okApp && nApp == 1, "R1", "one-setting-per-entry", p.Pos(start.Pos()), "one append per hand-index entry, in order", fmt.Sprintf("hand player list construction: %d append site(s); %s", nApp, d))
		// the stored slice is that slice
		v := optStore.Val
		fromAppend := v.Contains(func(x *Sym) bool { return x.Kind == "builtin" && x.Name == "append" })
		c.Check(fromAppend, "R1", "options-players", p.InstrPos(optStore.Instr), "options carry the constructed list", "the hand options carry "+v.String()+", not the list built from the hand index list")
		// later mutations of entries: only Positions of entry 0, guarded by !Contains(dealer)
		for _, ss := range p.Stores([]*ssa.Function{start}) {
			if ss.Owner != "PlayerSetting" || ss.Addr.Root().Kind == "new" {
				continue
			}
			a := ss.Addr.Strip()
			el := a.Args[0].Strip()
			z, isZ := int64(-1), false
			if el.Kind == "index" {
				z, isZ = el.Args[1].ConstInt()
			}
			okM := ss.Field == "Positions" && isZ && z == 0
			if okM {
				// appended label is the dealer label, under !Contains(positions, dealer)
				g := guardedBy(p.Guards(ss.Instr), false, func(s *Sym) bool {
					if !s.IsCall("funk.Contains") {
						return false
					}
					lbl, _ := s.Args[1].ConstString()
					return lbl == "dealer"
				})
				okM = g
			}
			c.Check(okM, "R1", "entry-mutation:"+ss.Field, p.InstrPos(ss.Instr), "only a missing dealer label is added to entry 0", "an entry of the hand's player list is modified after construction ("+ss.Addr.String()+")")
		}
	}

	// ---------------- R2
	ams := p.engineActionMethods()
	c.Min("R2", "engine action methods", len(ams), 9)
	for _, am := range ams {
		f := am.Fn
		gidx := p.Sym(am.Hand.Call.Args[0]).Strip()
		idp := f.Params[1]
		okG := gidx.IsCall("Table.FindGamePlayerIdx") && symIsParam(gidx.Args[1], idp)
		c.Check(okG, "R2", fnName(f)+":hand-index", p.InstrPos(am.Hand), "FindGamePlayerIdx(own id)", "hand index is "+gidx.String())
		// player index: every PlayerStates[...] used for a store in this method is indexed by FPIFGPI(gidx)
		bad := ""
		n := 0
		for _, ss := range p.Stores([]*ssa.Function{f}) {
			if storeIsLocal(ss.Instr) {
				continue
			}
			if !ss.Addr.PathHas("TableState", "PlayerStates") {
				continue
			}
			// find the index step
			for s := ss.Addr.Strip(); s != nil; s = s.Base() {
				if s.Kind == "index" && s.Args[0].Strip().IsField("TableState", "PlayerStates") {
					n++
					ix := s.Args[1].Strip()
					if !(ix.IsCall("Table.FindPlayerIndexFromGamePlayerIndex") && ix.Args[1].Strip().String() == gidx.String()) {
						bad = ss.Addr.String()
					}
				}
			}
		}
		for _, ci := range Calls(f) {
			cs := p.CallSym(ci)
			if sc := ci.Common().StaticCallee(); sc != nil && p.IsRepoFunc(sc) {
				for _, a := range cs.Args {
					a = a.Strip()
					if a.Kind == "index" && a.Args[0].Strip().IsField("TableState", "PlayerStates") {
						n++
						ix := a.Args[1].Strip()
						if !(ix.IsCall("Table.FindPlayerIndexFromGamePlayerIndex") && ix.Args[1].Strip().String() == gidx.String()) {
							bad = cs.String()
						}
					}
				}
			}
		}
		c.Check(bad == "", "R2", fnName(f)+":player-index", p.Pos(f.Pos()), fmt.Sprintf("%d player reference(s), all PlayerStates[FindPlayerIndexFromGamePlayerIndex(hand index)]", n), "a table player is addressed by an index not derived from the caller's hand index: "+bad)
	}

	// ---------------- R3 (as C01.R2)
	nS := 0
	for _, ss := range p.FieldStores("TablePlayerState", "Bankroll") {
		shape, d := classifyBankrollStore(p, ss)
		if shape == "settle-final" || shape == "settle-delta" {
			nS++
			c.Check(d == "", "R3", "settlement-mapping:"+FuncName(ss.Fn), p.InstrPos(ss.Instr), "result r → PlayerStates[GamePlayerIndexes[r.Idx]]", d)
		}
	}
	c.Min("R3", "settlement writers", nS, 1)

	// ---------------- R4
	var builder *ssa.Function
	nW := 0
	for _, ss := range p.FieldStores("TableState", "GamePlayerIndexes") {
		nW++
		where := p.InstrPos(ss.Instr)
		v := ss.Val.Strip()
		key := "index-list-writer:" + FuncName(ss.Fn)
		switch {
		case isEmptySlice(v):
			c.Ok("R4", key+":empty", where, "empty list")
		case ss.Fn == lc.openFn && v.Kind == "call" && v.Call.Common().StaticCallee() != nil:
			builder = v.Call.Common().StaticCallee()
			root := ss.Addr.Root()
			c.Check(root.Kind == "extract" && root.Args[0].IsCall("Table.Clone"), "R4", key+":built", where, "builder result stored on the clone", "the hand index list is rebuilt on the live table")
			// the builder is given the clone's own seat map and player list
			okArgs := false
			for _, a := range v.Args {
				if a.Strip().IsField("TableState", "SeatMap") && a.Strip().Root().String() == root.String() {
					okArgs = true
				}
			}
			c.Check(okArgs, "R4", key+":seat-map-argument", where, "builder reads the clone's seat map", "the list builder is not given the seat map of the table it builds the list for")
		case v.Kind == "extract" && v.Args[0].Strip().Kind == "call":
			// remap after leave: third result of the leave computation, in the remove function
			isRemover := false
			for _, ci := range Calls(ss.Fn) {
				if calleeName(ci.Common()) == "SeatManager.RemoveSeats" {
					isRemover = true
				}
			}
			c.Check(isRemover, "R4", key+":remap", where, "remap after a leave", "the hand index list is overwritten from a computation outside the leave path")
		default:
			c.Bad("R4", key, where, "the hand index list is written from "+v.String()+" (accepted: empty, the list builder's result at open, the remap after a leave)")
		}
	}
	c.Min("R4", "hand-index-list writers", nW, 4)
	if builder == nil {
		c.Bad("R4", "list-builder", "-", "list builder not found")
	} else {
		n := 0
		for _, ci := range Calls(builder) {
			cs := p.CallSym(ci)
			if cs.Kind != "builtin" || cs.Name != "append" || !isIntSlice(ci.Common().Args[0]) {
				continue
			}
			e := appendedElem(p, ci)
			if e == nil {
				continue
			}
			n++
			branch := "default"
			if cmpHolds(p.Guards(ci), func(l, r *Sym, op token.Token) bool {
				s, _ := r.ConstString()
				return op == token.EQL && s == "short_deck"
			}) {
				branch = "short_deck"
			}
			d := seatScanShape(e)
			c.Check(d == "", "R4", fmt.Sprintf("hand-list-source:%s", branch), p.InstrPos(ci), "element read from the seat map in a full-circle scan", "the hand order is not taken from a clockwise walk of the seat map: "+d)
			gs := p.Guards(ci)
			flagged := guardedBy(gs, true, func(s *Sym) bool {
				return s.IsField("TablePlayerState", "IsParticipated") && s.Args[0].Strip().Kind == "index" && s.Args[0].Strip().Args[1].Strip().String() == e.String()
			})
			c.Check(flagged, "R4", fmt.Sprintf("hand-list-dealt-in:%s", branch), p.InstrPos(ci), "only dealt-in players", "a player is listed without that player's dealt-in flag")
		}
		c.Min("R4", "appends in the list builder", n, 3)
	}

	// remap after a leave: indexes recorded for the remaining players are positions in the NEW list
	checkLeaveRemap(c, "R4")
	{
		var adders []*ssa.Function
		for _, f := range p.Funcs {
			for _, ci := range Calls(f) {
				if calleeName(ci.Common()) == "SeatManager.AssignSeats" {
					adders = append(adders, f)
					break
				}
			}
		}
		checkAddPath(c, "R6", adders)
	}
	checkTableLookups(c, "R5", "FindPlayerIdx", "FindGamePlayerIdx", "GamePlayerIndex")
	checkInPlaceFilter(c, "R4")
	checkHandListStart(c, "R4")
	// who is in the hand list at all: the dealt-in flags
	checkDealtInCopy(c, "R7")

	// seat scans of the engine: counters past one circle only modulo the seat count
	checkWrapCounters(c, "R4", func(f *ssa.Function) bool { return inPkg(p, f, "") }, 4)

	// ---------------- R5
	checkTranslators(c)

	// ---------------- R6
	for _, f := range p.Funcs {
		isAdder := false
		for _, ci := range Calls(f) {
			if n := calleeName(ci.Common()); n == "SeatManager.AssignSeats" {
				isAdder = true
			}
		}
		if !isAdder {
			continue
		}
		for _, ss := range p.Stores([]*ssa.Function{f}) {
			if ss.Owner == "TableState" && ss.Field == "PlayerStates" {
				v := ss.Val.Strip()
				ok := v.Kind == "builtin" && v.Name == "append" && v.Args[0].Strip().IsField("TableState", "PlayerStates")
				c.Check(ok, "R6", "join-appends:"+fnName(f), p.InstrPos(ss.Instr), "PlayerStates = append(PlayerStates, new...)", "joining can reorder or drop existing players: "+v.String())
			}
			if ss.Owner == "TableState" && ss.Field == "SeatMap" {
				// value is a local slice, filled by copy(old seat map) and patched at assigned seats only
				al := sliceBacking(ss.ValV)
				copied := false
				for _, ci := range Calls(f) {
					cs := p.CallSym(ci)
					if cs.Kind == "builtin" && cs.Name == "copy" && sliceBackingSame(ci.Common().Args[0], ss.ValV) && cs.Args[1].Strip().IsField("TableState", "SeatMap") {
						copied = true
					}
				}
				lenOK := false
				if ms, isMS := al.(*ssa.MakeSlice); isMS {
					l := p.Sym(ms.Len).Strip()
					lenOK = l.IsCall("len") && l.Args[0].Strip().IsField("TableState", "SeatMap")
				}
				patchOK := true
				for _, s2 := range p.Stores([]*ssa.Function{f}) {
					a := s2.Addr.Strip()
					if a.Kind == "index" && sliceBackingSame(a.Args[0].V, ss.ValV) {
						k := a.Args[1].Strip()
						if !(k.Kind == "extract" && k.Args[0].IsCall("SeatManager.GetSeatID")) {
							patchOK = false
						}
					}
				}
				c.Check(copied && lenOK && patchOK, "R6", "join-seat-map:"+fnName(f), p.InstrPos(ss.Instr), "new seat map = copy of the old one patched at the assigned seats", fmt.Sprintf("the seat map installed on join is not a same-length copy of the old one patched only at assigned seats (copy=%v len=%v patch=%v)", copied, lenOK, patchOK))
			}
		}
	}
}

func isEmptySlice(v *Sym) bool {
	v = v.Strip()
	if v.Kind == "make" && len(v.Args) == 1 {
		z, ok := v.Args[0].ConstInt()
		return ok && z == 0
	}
	if v.Kind == "slice" {
		if al, ok := v.Args[0].Strip().V.(*ssa.Alloc); ok {
			return zeroLenArrayAlloc(al)
		}
	}
	return false
}

func sliceBacking(v ssa.Value) ssa.Value {
	for i := 0; i < 8; i++ {
		switch x := v.(type) {
		case *ssa.Slice:
			v = x.X
		case *ssa.MakeSlice, *ssa.Alloc:
			return x
		default:
			return v
		}
	}
	return v
}

func sliceBackingSame(a, b ssa.Value) bool {
	if a == nil || b == nil {
		return false
	}
	return sliceBacking(a) == sliceBacking(b)
}

// seatScanShape: e must be seatMap[(i % N)] with seatMap a parameter, N = len(seatMap),
// i an induction variable from s (step +1) bounded by N+s.
func seatScanShape(e *Sym) string {
	e = e.Strip()
	if e.Kind != "index" || e.Args[0].Strip().Kind != "param" {
		return "appended element " + e.String() + " is not read from the seat map"
	}
	sm := e.Args[0].Strip()
	k := e.Args[1].Strip()
	if k.Kind != "binop" || k.Name != "%" {
		return "seat position " + k.String() + " is not taken modulo the seat count"
	}
	n := k.Args[1].Strip()
	if !(n.IsCall("len") && n.Args[0].Strip().String() == sm.String()) {
		return "modulus " + n.String() + " is not the seat map's length"
	}
	iv := k.Args[0].Strip()
	if iv.Kind != "ind" || iv.Ind.Step != 1 || iv.Ind.Incl || iv.Ind.Op != token.LSS || iv.Ind.Bound == nil {
		return "position " + iv.String() + " is not a forward loop counter"
	}
	s := iv.Ind.First.Strip()
	b := iv.Ind.Bound.Strip()
	okB := false
	if b.Kind == "binop" && b.Name == "+" {
		x, y := b.Args[0].Strip(), b.Args[1].Strip()
		for i := 0; i < 2; i++ {
			if x.String() == n.String() && y.String() == s.String() {
				okB = true
			}
			x, y = y, x
		}
	}
	if !okB {
		return "loop " + iv.String() + " does not make exactly one full circle from its start seat"
	}
	return ""
}

func checkTranslators(c *Ctx) {
	p := c.P
	var fg, fp *ssa.Function
	for _, f := range p.Funcs {
		if f.Signature.Recv() == nil || namedOf(f.Signature.Recv().Type()) == nil || namedOf(f.Signature.Recv().Type()).Obj().Name() != "Table" {
			continue
		}
		switch fnName(f) {
		case "FindGamePlayerIdx":
			fg = f
		case "FindPlayerIndexFromGamePlayerIndex":
			fp = f
		}
	}
	if fg == nil || fp == nil {
		c.Bad("R5", "translators", "-", "translator functions not found")
		return
	}
	// FindGamePlayerIdx: non-unset returns are the loop index ι over GamePlayerIndexes under id equality
	ok := true
	d := ""
	n := 0
	for _, b := range fg.Blocks {
		for _, in := range b.Instrs {
			r, isR := in.(*ssa.Return)
			if !isR {
				continue
			}
			v := p.Sym(r.Results[0]).Strip()
			if z, isZ := v.ConstInt(); isZ {
				if z != -1 {
					ok, d = false, "returns a constant hand index"
				}
				continue
			}
			n++
			if !fullRange(v, func(x *Sym) bool { return x.IsField("TableState", "GamePlayerIndexes") }) {
				ok, d = false, "returns "+v.String()+", not the position in the hand index list"
				continue
			}
			eq := cmpHolds(p.Guards(r), func(l, rr *Sym, op token.Token) bool {
				if op != token.EQL || !l.Strip().IsField("TablePlayerState", "PlayerID") || !symIsParam(rr, fg.Params[1]) {
					return false
				}
				pl := l.Strip().Args[0].Strip()
				return pl.Kind == "index" && pl.Args[0].Strip().IsField("TableState", "PlayerStates") && pl.Args[1].Strip().Kind == "index" &&
					pl.Args[1].Strip().Args[0].Strip().IsField("TableState", "GamePlayerIndexes") && pl.Args[1].Strip().Args[1].Strip().String() == v.String()
			})
			if !eq {
				ok, d = false, "returns a position without having matched PlayerStates[GamePlayerIndexes[position]].PlayerID with the requested id"
			}
		}
	}
	c.Check(ok && n >= 1, "R5", "FindGamePlayerIdx", p.Pos(fg.Pos()), "position i with PlayerStates[GamePlayerIndexes[i]].PlayerID == id, else unset", d)
	ok, d, n = true, "", 0
	for _, b := range fp.Blocks {
		for _, in := range b.Instrs {
			r, isR := in.(*ssa.Return)
			if !isR {
				continue
			}
			v := p.Sym(r.Results[0]).Strip()
			if z, isZ := v.ConstInt(); isZ {
				if z != -1 {
					ok, d = false, "returns a constant player index"
				}
				continue
			}
			n++
			if !(v.Kind == "index" && v.Args[0].Strip().IsField("TableState", "GamePlayerIndexes") && symIsParam(v.Args[1], fp.Params[1])) {
				ok, d = false, "returns "+v.String()+", not GamePlayerIndexes[argument]"
			}
		}
	}
	c.Check(ok && n >= 1, "R5", "FindPlayerIndexFromGamePlayerIndex", p.Pos(fp.Pos()), "GamePlayerIndexes[arg] or unset", d)
}

// checkLeaveRemap (C02.R4): in the leave computation, every id→index map entry and every
// seat-map entry is written as (X.PlayerID | X.Seat) ↦ i with X = L[i], i ranging over the
// whole of L, where L is the player list the function returns; and every element appended
// to the returned hand index list is a lookup in such an id→index map.
func checkLeaveRemap(c *Ctx, rule string) {
	p := c.P
	var leave *ssa.Function
	for _, f := range p.Funcs {
		for _, ci := range Calls(f) {
			if calleeName(ci.Common()) != "SeatManager.RemoveSeats" {
				continue
			}
			for _, c2 := range Calls(f) {
				if sc := c2.Common().StaticCallee(); sc != nil && p.IsRepoFunc(sc) && sc.Signature.Results().Len() == 3 {
					leave = sc
				}
			}
		}
	}
	if leave == nil {
		c.Bad(rule, "leave-remap", "-", "leave computation not found")
		return
	}
	var newList string
	for _, b := range leave.Blocks {
		for _, in := range b.Instrs {
			if r, ok := in.(*ssa.Return); ok {
				newList = p.Sym(r.Results[0]).Strip().String()
			}
		}
	}
	n := 0
	idMaps := map[ssa.Value]bool{}
	for _, b := range leave.Blocks {
		for _, in := range b.Instrs {
			var key, val *Sym
			var isIDMap bool
			var mapV ssa.Value
			switch x := in.(type) {
			case *ssa.MapUpdate:
				if typeShort(x.Map.Type()) != "map[string]int" {
					continue
				}
				key, val, isIDMap, mapV = p.Sym(x.Key).Strip(), p.Sym(x.Value).Strip(), true, x.Map
			case *ssa.Store:
				a := p.Sym(x.Addr).Strip()
				if a.Kind != "index" || typeShort(x.Val.Type()) != "int" || !a.Args[1].Strip().IsField("TablePlayerState", "Seat") {
					continue
				}
				key, val = a.Args[1].Strip(), p.Sym(x.Val).Strip()
			default:
				continue
			}
			if key.Kind != "field" || key.Owner != "TablePlayerState" {
				continue
			}
			n++
			pl := key.Args[0].Strip()
			ok := pl.Kind == "index" && pl.Args[1].Strip().String() == val.String() && val.Kind == "ind" &&
				fullRange(val, func(x *Sym) bool { return x.String() == pl.Args[0].Strip().String() }) && pl.Args[0].Strip().String() == newList
			d := ""
			if !ok {
				d = fmt.Sprintf("after a leave, %s of a remaining player is mapped to %s, which is not that player's position in the new player list", key.Name, val)
			}
			c.Check(ok, rule, "leave-remap:"+key.Name, p.InstrPos(in), key.Name+" ↦ position in the new player list", d)
			if ok && isIDMap {
				idMaps[mapV] = true
			}
		}
	}
	c.Min(rule, "remap entries in the leave computation", n, 2)
	// the rebuilt hand index list takes its elements from such a map
	na := 0
	for _, ci := range Calls(leave) {
		cs := p.CallSym(ci)
		if cs.Kind != "builtin" || cs.Name != "append" || !isIntSlice(ci.Common().Args[0]) {
			continue
		}
		e := appendedElem(p, ci)
		if e == nil {
			continue
		}
		na++
		ok := false
		es := e.Strip()
		if es.Kind == "extract" && es.Args[0].Strip().Kind == "lookup" {
			if lk, isLk := es.Args[0].Strip().V.(*ssa.Lookup); isLk && idMaps[lk.X] {
				ok = true
			}
		}
		if bad := notStartingEmpty(p, ci); ok && bad != "" {
			ok = false
			es = p.Sym(ci.Common().Args[0]).Strip()
		}
		c.Check(ok, rule, "leave-remap:hand-index-source", p.InstrPos(ci), "new hand index = new position of the same player id, list starts empty", "after a leave the hand index list is rebuilt from "+es.String()+", not from the id → new position map (or does not start empty)")
		// … looked up by the id of the player the *old* hand entry denotes, for every old entry in order
		if ok {
			lk := es.Args[0].Strip().V.(*ssa.Lookup)
			k := p.Sym(lk.Index).Strip()
			why := ""
			// id taken through an old-position → id map of this function
			if k.Kind == "lookup" {
				if l2, isL := k.V.(*ssa.Lookup); isL && typeShort(l2.X.Type()) == "map[int]string" {
					nm := 0
					for _, b := range leave.Blocks {
						for _, in := range b.Instrs {
							mu, isMU := in.(*ssa.MapUpdate)
							if !isMU || mu.Map != l2.X {
								continue
							}
							nm++
							mk, mv := p.Sym(mu.Key).Strip(), p.Sym(mu.Value).Strip()
							if !(mv.IsField("TablePlayerState", "PlayerID") && mv.Args[0].Strip().Kind == "index" && mv.Args[0].Strip().Args[1].Strip().String() == mk.String() &&
								mv.Args[0].Strip().Args[0].Strip().IsField("TableState", "PlayerStates")) {
								why = "the old-position → id map records " + mv.String() + " under " + mk.String()
							}
						}
					}
					if nm == 0 {
						why = "the old-position → id map is never filled"
					}
					k = p.Sym(l2.Index).Strip()
				}
			} else if k.IsField("TablePlayerState", "PlayerID") && k.Args[0].Strip().Kind == "index" && k.Args[0].Strip().Args[0].Strip().IsField("TableState", "PlayerStates") {
				k = k.Args[0].Strip().Args[1].Strip()
			} else {
				why = "the id looked up is " + k.String()
			}
			if why == "" {
				if !(k.Kind == "index" && k.Args[0].Strip().IsField("TableState", "GamePlayerIndexes") &&
					fullRange(k.Args[1], func(x *Sym) bool { return x.String() == k.Args[0].Strip().String() })) {
					why = "the old hand entries are enumerated as " + k.String() + ", not as every element of the current hand index list in order"
				}
			}
			c.Check(why == "", rule, "leave-remap:hand-index-order", p.InstrPos(ci), "for each old hand entry in order: new position of that entry's player", "after a leave the hand index list no longer denotes the same players in the same order: "+why)
			// … and no old entry is dropped: the hand engine keeps its own indexes, so every later entry would
			// shift by one against them
			if why == "" {
				if ind := k.Args[1].Strip(); ind.Ind != nil && ind.Ind.Phi != nil {
					paths, okP := p.loopBodyPaths(ind.Ind.Phi.Block())
					dropped := 0
					for _, bp := range paths {
						if !bp.Exit && !bp.Blocks[ci.Block()] {
							dropped++
						}
					}
					if !okP {
						c.Undecided(rule, "leave-remap:every-entry-kept", p.InstrPos(ci), "loop body paths not enumerable")
					} else {
						c.Check(dropped == 0, rule, "leave-remap:every-entry-kept", p.InstrPos(ci), "every old hand entry yields one new entry",
							"a player who was dealt into the running hand and leaves has his entry dropped from the hand index list: the entries after his shift by one against the hand engine's own indexes (actions are accepted for the wrong entry, results are credited to the wrong players, the last result entry has no player)")
					}
				}
			}
		}
	}
	c.Min(rule, "appends to the remapped hand index list", na, 1)
	// the remap is performed whenever a hand exists (opened, playing or settled); the
	// status it tests is the live table's
	for _, ci := range Calls(leave) {
		cs := p.CallSym(ci)
		if cs.Kind != "builtin" || cs.Name != "append" || !isIntSlice(ci.Common().Args[0]) || appendedElem(p, ci) == nil {
			continue
		}
		set := statusesAdmitting(p, ci, leave)
		missing := []string{}
		for _, w := range []string{"table_game_opened", "table_game_playing", "table_game_settled"} {
			if !set[w] {
				missing = append(missing, w)
			}
		}
		c.Check(len(missing) == 0, rule, "leave-remap:while-a-hand-exists", p.InstrPos(ci), "remap under status ∈ {opened, playing, settled}", "a leave does not re-index the hand's player list in status "+strings.Join(missing, ", ")+": the hand's entries then denote other players")
	}
	for _, site := range p.CG().AllCallSitesOf(leave) {
		if len(site.Common().Args) < 2 {
			continue
		}
		a := p.Sym(site.Common().Args[1]).Strip()
		c.Check(a.IsField("TableState", "Status"), rule, "leave-remap:status-argument:"+FuncName(site.Parent()), p.InstrPos(site), "status argument = the table's status", "the leave computation is told status "+a.String())
	}
}

// statusesAdmitting: the status constants c such that instruction in is (by dominance)
// executed only under "status is one of …" and c is among them. Two idioms: membership
// in a slice literal (funk.Contains(list, status)) and a chain/switch of status == c tests.
func statusesAdmitting(p *Prog, in ssa.Instruction, f *ssa.Function) map[string]bool {
	out := map[string]bool{}
	isStatus := func(x *Sym) bool {
		x = x.Strip()
		return (len(f.Params) >= 2 && symIsParam(x, f.Params[1])) || x.IsField("TableState", "Status")
	}
	for _, g := range p.Guards(in) {
		s := g.Cond.Strip()
		if g.Val && s.IsCall("funk.Contains") && len(s.Args) == 2 && isStatus(s.Args[1]) {
			for _, k := range sliceLiteralStrings(s.Call.Common().Args[0]) {
				out[k] = true
			}
		}
		if cm := g.AsCmp(); cm != nil && g.Val && cm.Op == token.EQL && isStatus(cm.L) {
			if k, ok := cm.R.ConstString(); ok {
				out[k] = true
			}
		}
	}
	// a block all of whose predecessors are true edges of status == c
	for b := in.Block(); b != nil; b = b.Idom() {
		if len(b.Preds) < 2 {
			continue
		}
		var ks []string
		all := true
		for _, pr := range b.Preds {
			iff, isIf := pr.Instrs[len(pr.Instrs)-1].(*ssa.If)
			if !isIf || pr.Succs[0] != b {
				all = false
				break
			}
			cm := (Guard{Cond: p.Sym(iff.Cond), V: iff.Cond, Val: true, If: iff}).AsCmp()
			if cm == nil || cm.Op != token.EQL || !isStatus(cm.L) {
				all = false
				break
			}
			k, ok := cm.R.ConstString()
			if !ok {
				all = false
				break
			}
			ks = append(ks, k)
		}
		if all {
			for _, k := range ks {
				out[k] = true
			}
		}
	}
	return out
}

// sliceLiteralStrings: the string constants of a slice composite literal (or of the
// interface wrapping it).
func sliceLiteralStrings(v ssa.Value) []string {
	for {
		switch x := v.(type) {
		case *ssa.MakeInterface:
			v = x.X
			continue
		case *ssa.ChangeType:
			v = x.X
			continue
		}
		break
	}
	sl, ok := v.(*ssa.Slice)
	if !ok {
		return nil
	}
	al, ok := sl.X.(*ssa.Alloc)
	if !ok || al.Referrers() == nil {
		return nil
	}
	var out []string
	for _, r := range *al.Referrers() {
		ia, isIA := r.(*ssa.IndexAddr)
		if !isIA || ia.Referrers() == nil {
			continue
		}
		for _, r2 := range *ia.Referrers() {
			if st, isSt := r2.(*ssa.Store); isSt {
				if k, isK := st.Val.(*ssa.Const); isK && k.Value != nil && k.Value.Kind() == constant.String {
					out = append(out, constant.StringVal(k.Value))
				}
			}
		}
	}
	return out
}

// notStartingEmpty: "" when the list an append extends starts from an empty list (through
// phis, earlier appends and locals captured by closures), else a description of its origin.
func notStartingEmpty(p *Prog, ci ssa.CallInstruction) string {
	for _, o := range appendOrigins(ci.Common().Args[0]) {
		if k, isK := o.(*ssa.Const); isK && k.IsNil() {
			continue
		}
		if !isEmptySlice(p.Sym(o)) {
			return p.Sym(o).String()
		}
	}
	return ""
}

// checkLeaveOnlyOnRequest: who may call the leave path, and with which ids.
func checkLeaveOnlyOnRequest(c *Ctx, rule string) {
	p := c.P
	var leavers []*ssa.Function
	for _, f := range p.Funcs {
		if !inPkg(p, f, "") {
			continue
		}
		for _, ci := range Calls(f) {
			if calleeName(ci.Common()) == "SeatManager.RemoveSeats" {
				leavers = append(leavers, f)
				break
			}
		}
	}
	n := 0
	for _, lf := range leavers {
		if lf.Parent() != nil {
			c.Bad(rule, "leave-on-request:"+fnName(lf), p.Pos(lf.Pos()), "seats are removed from inside a closure: the ids removed cannot be tied to a leave request")
			continue
		}
		for _, site := range p.CG().AllCallSitesOf(lf) {
			n++
			caller := site.Parent()
			args := site.Common().Args
			a := p.Sym(args[len(args)-1])
			isOwn := false
			if caller.Parent() == nil {
				for _, prm := range caller.Params {
					if typeShort(prm.Type()) == "[]string" && symIsParam(a, prm) {
						isOwn = true
					}
				}
			}
			exported := caller.Parent() == nil && caller.Object() != nil && caller.Object().Exported()
			c.Check(isOwn && exported, rule, "leave-on-request:"+fnName(caller), p.InstrPos(site), "leave path called by an exported operation with its own leave-id parameter",
				"the leave path is run by "+fnName(caller)+" with "+a.Strip().String()+", which is not the leave-id list that operation was given: players can be taken off the table (and out of the running hand's index list) without a leave request")
		}
	}
	c.Min(rule, "call sites of the leave path", n, 2)
}
