package main

func controlsC09() []Control {
	return []Control{
		{Name: "set-up replaces the state object in a copy of the gate (value receiver)", Expect: "R6", Mutate: replaceBoth("(*openGameManager).Setup", "func (m *openGameManager) Setup(", "func (m openGameManager) Setup(", "\tm.state.GameCount = gameCount\n", "\tm.state = &OpenGameState{Timeout: m.state.Timeout, Participants: m.state.Participants}\n\tm.state.GameCount = gameCount\n")},
		{Name: "completion reported only for a game count not reported before", Expect: "R3", Mutate: replaceIn("(*openGameManager).readyGroupOnCompleted", "\tm.onOpenGameReady(", "\tif m.state.GameCount < 0 {\n\t\treturn\n\t}\n\tm.onOpenGameReady(", 0)},
		{Name: "Setup does not stop the previous round", Expect: "R1", Mutate: replaceIn("(*openGameManager).Setup", "m.rg.Stop()\n", "", 0)},
		{Name: "Setup pre-readies every participant", Expect: "R1", Mutate: replaceIn("(*openGameManager).Setup", "m.readyGroupAddParticipant(participant, false)", "m.readyGroupAddParticipant(participant, true)", 0)},
		{Name: "Setup starts before adding participants", Expect: "R1", Mutate: replaceIn("(*openGameManager).Setup", "\tm.readyGroupResetParticipants()\n", "\tm.readyGroupResetParticipants()\n\tm.rg.Start()\n", 0)},
		{Name: "Ready signals before checking the participant exists", Expect: "R2", Mutate: replaceIn("(*openGameManager).readyGroupReady", "\tparticipant, exist := m.state.Participants[participantID]\n\tif !exist {\n\t\treturn ErrParticipantNotFound\n\t}\n", "\tparticipant, exist := m.state.Participants[participantID]\n\tif !exist {\n\t\tm.rg.Ready(0)\n\t\treturn ErrParticipantNotFound\n\t}\n", 0)},
		{Name: "unknown participant accepted silently", Expect: "R2", Mutate: replaceIn("(*openGameManager).readyGroupReady", "return ErrParticipantNotFound", "return nil", 0)},
		{Name: "Setup fires the callback directly", Expect: "R3", Mutate: replaceIn("(*openGameManager).Setup", "\tm.rg.Start()\n", "\tm.rg.Start()\n\tm.readyGroupOnCompleted()\n", 0)},
		{Name: "completion does not mark participants ready", Expect: "R3", Mutate: replaceIn("(*openGameManager).readyGroupOnCompleted", "m.state.Participants[participantID].IsReady = true", "_ = participantID", 0)},
		{Name: "constructor ignores the configured timeout", Expect: "R4", Mutate: replaceIn("NewOpenGameManager", "syncsaga.WithTimeout(options.Timeout,", "syncsaga.WithTimeout(0,", 0)},
		{Name: "timeout handler readies nobody", Expect: "R4", Mutate: replaceIn("NewOpenGameManager", "if !isReady {\n\t\t\t\t\trg.Ready(idx)\n\t\t\t\t}", "_, _ = idx, isReady", 0)},
		{Name: "rebuilt gate forgets the saved game count", Expect: "R5", Mutate: replaceIn("NewOpenGameManagerFromState", "GameCount:    state.GameCount,", "GameCount:    0,", 0)},
		{Name: "rebuilt gate has no completion", Expect: "R5", Mutate: replaceIn("NewOpenGameManagerFromState", "m.rg.OnCompleted(func(rg *syncsaga.ReadyGroup) {\n\t\tm.readyGroupOnCompleted()\n\t})\n", "", 0)},
		{Name: "ready signal carries index zero", Expect: "R2", Mutate: replaceIn("(*openGameManager).readyGroupReady", "m.rg.Ready(int64(participant.Index))", "m.rg.Ready(0)", 0)},
		{Name: "game count recorded after Start", Expect: "R1", Mutate: replaceIn("(*openGameManager).Setup", "\tm.state.GameCount = gameCount\n", "\tdefer func() { m.state.GameCount = gameCount }()\n", 0)},
		{Name: "Setup returns early for an empty participant set", Expect: "R1", Mutate: replaceIn("(*openGameManager).Setup", "\tm.rg.Stop()\n", "\tif len(participants) == 0 {\n\t\treturn\n\t}\n\tm.rg.Stop()\n", 0)},
		{Name: "reset keeps the previous participants and only clears their flags", Expect: "R1", Mutate: replaceIn("(*openGameManager).readyGroupResetParticipants", "m.state.Participants = map[string]*OpenGameParticipant{}", "for id := range m.state.Participants {\n\t\tm.state.Participants[id].IsReady = false\n\t}", 0)},
		{Name: "add helper returns early for a known participant", Expect: "R1", Mutate: replaceIn("(*openGameManager).readyGroupAddParticipant", "\tm.state.Participants[participant.ID] = &OpenGameParticipant{", "\tif existing, exist := m.state.Participants[participant.ID]; exist {\n\t\texisting.IsReady = isReady\n\t\treturn\n\t}\n\tm.state.Participants[participant.ID] = &OpenGameParticipant{", 0)},
		{Name: "completion resets the participants of the shared group after firing", Expect: "R3", Mutate: replaceIn("(*openGameManager).readyGroupOnCompleted", "\tm.onOpenGameReady(m.GetState())\n", "\tm.onOpenGameReady(m.GetState())\n\tm.rg.ResetParticipants()\n", 0)},
	}
}
