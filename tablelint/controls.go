package main

// Armedness controls (thorough tier): AST-level mutation operators applied to the
// CURRENT /repo tree in memory through the go/packages overlay, one child process
// per mutant. A control is "killed" when the expected rule reports a violation
// on the mutant. Controls never change the exit code (DESIGN 2.4).

import (
	"bytes"
	"encoding/json"
	"flag"
	"fmt"
	"go/ast"
	"os"
	"os/exec"
	"path/filepath"
	"strings"
	"sync"

	"golang.org/x/tools/go/ssa"
)

type Control struct {
	Name   string
	Expect string // rule id (without property prefix) expected to fire, e.g. "R1"
	// Mutate computes the overlay for the mutant from the loaded (unmutated) program.
	Mutate func(p *Prog) (file string, src []byte, err error)
}

type ControlResult struct {
	Name   string   `json:"name"`
	Expect string   `json:"expected_rule"`
	Killed bool     `json:"killed"`
	Fired  []string `json:"rules_fired,omitempty"`
	Note   string   `json:"note,omitempty"`
}

func runControls(m *PropMeta, repo, verif string) []ControlResult {
	ctls := m.Controls()
	out := make([]ControlResult, len(ctls))
	exe, err := os.Executable()
	if err != nil {
		exe = filepath.Join(verif, "bin", "tablelint")
	}
	sem := make(chan struct{}, 8)
	var wg sync.WaitGroup
	for i, c := range ctls {
		wg.Add(1)
		go func(i int, c Control) {
			defer wg.Done()
			sem <- struct{}{}
			defer func() { <-sem }()
			cmd := exec.Command(exe, "control", "-p", m.ID, "-n", fmt.Sprint(i), "-repo", repo, "-verif", verif)
			var ob, eb bytes.Buffer
			cmd.Stdout, cmd.Stderr = &ob, &eb
			err := cmd.Run()
			r := ControlResult{Name: c.Name, Expect: m.ID + "." + c.Expect}
			if err != nil {
				r.Note = "inapplicable: " + strings.TrimSpace(lastLine(eb.String()))
				out[i] = r
				return
			}
			var cr struct {
				Fired []string `json:"fired"`
				Note  string   `json:"note"`
			}
			if err := json.Unmarshal(ob.Bytes(), &cr); err != nil {
				r.Note = "bad child output: " + err.Error()
				out[i] = r
				return
			}
			r.Fired = cr.Fired
			for _, f := range cr.Fired {
				if f == r.Expect {
					r.Killed = true
				}
			}
			if !r.Killed {
				r.Note = "expected rule did not fire on the mutant"
			}
			out[i] = r
		}(i, c)
	}
	wg.Wait()
	return out
}

func lastLine(s string) string {
	s = strings.TrimSpace(s)
	if i := strings.LastIndex(s, "\n"); i >= 0 {
		return s[i+1:]
	}
	return s
}

func cmdControl(args []string) int {
	fs := flag.NewFlagSet("control", flag.ExitOnError)
	prop := fs.String("p", "", "")
	n := fs.Int("n", 0, "")
	repo := fs.String("repo", "/repo", "")
	verif := fs.String("verif", "/verif", "")
	show := fs.Bool("show", false, "print the mutated file's diff region")
	fs.Parse(args)
	m := registry[*prop]
	if m == nil || m.Controls == nil {
		fmt.Fprintln(os.Stderr, "no controls")
		return 2
	}
	ctls := m.Controls()
	if *n < 0 || *n >= len(ctls) {
		fmt.Fprintln(os.Stderr, "control index out of range")
		return 2
	}
	c := ctls[*n]
	p, err := Load(LoadConfig{Repo: *repo, Tags: "verif"})
	if err != nil {
		fmt.Fprintln(os.Stderr, err)
		return 2
	}
	file, src, err := c.Mutate(p)
	if err != nil {
		fmt.Fprintf(os.Stderr, "mutation operator not applicable: %v\n", err)
		return 3
	}
	if *show {
		os.Stdout.Write(src)
		return 0
	}
	res, code := runProperty(m, "quick", *repo, *verif, map[string][]byte{file: src})
	if code != 0 {
		fmt.Fprintln(os.Stderr, "mutant does not load/type-check")
		return 3
	}
	fired := map[string]bool{}
	known, _ := loadKnown(*verif)
	isKnown := map[string]bool{}
	for _, k := range known {
		if k.Status == "known" {
			isKnown[k.Rule+"|"+k.Construct] = true
		}
	}
	for _, o := range res.Obs {
		if (o.Status == "violated" || o.Status == "undecided") && !isKnown[o.Key()] {
			fired[o.Rule] = true
		}
	}
	var fl []string
	for k := range fired {
		fl = append(fl, k)
	}
	b, _ := json.Marshal(map[string]interface{}{"fired": fl})
	os.Stdout.Write(b)
	return 0
}

// ---------------------------------------------------------------------------
// Mutation helpers: byte splicing on the file that contains an AST node.

func (p *Prog) fileOf(n ast.Node) (string, []byte, error) {
	pos := p.Fset.Position(n.Pos())
	b, err := os.ReadFile(pos.Filename)
	if err != nil {
		return "", nil, err
	}
	return pos.Filename, b, nil
}

// replaceNode replaces the source text of node n with text.
func (p *Prog) replaceNode(n ast.Node, text string) (string, []byte, error) {
	file, src, err := p.fileOf(n)
	if err != nil {
		return "", nil, err
	}
	s := p.Fset.Position(n.Pos()).Offset
	e := p.Fset.Position(n.End()).Offset
	out := append([]byte{}, src[:s]...)
	out = append(out, text...)
	out = append(out, src[e:]...)
	return file, out, nil
}

func (p *Prog) nodeText(n ast.Node) string {
	_, src, err := p.fileOf(n)
	if err != nil {
		return ""
	}
	return string(src[p.Fset.Position(n.Pos()).Offset:p.Fset.Position(n.End()).Offset])
}

// insertBefore inserts text before node n.
func (p *Prog) insertBefore(n ast.Node, text string) (string, []byte, error) {
	return p.replaceNode(n, text+p.nodeText(n))
}

// findInFunc walks the AST of a source function.
func (p *Prog) findInFunc(f *ssa.Function, pred func(ast.Node) bool) ast.Node {
	if f == nil || f.Syntax() == nil {
		return nil
	}
	var found ast.Node
	ast.Inspect(f.Syntax(), func(n ast.Node) bool {
		if found != nil || n == nil {
			return false
		}
		if pred(n) {
			found = n
			return false
		}
		return true
	})
	return found
}

// callExprNamed matches a call expression whose function text ends with suffix (e.g. ".Lock").
func (p *Prog) isCallTo(n ast.Node, suffix string) bool {
	ce, ok := n.(*ast.CallExpr)
	if !ok {
		return false
	}
	return strings.HasSuffix(p.nodeText(ce.Fun), suffix)
}

func (p *Prog) stmtCalling(f *ssa.Function, suffix string) ast.Node {
	return p.findInFunc(f, func(n ast.Node) bool {
		switch s := n.(type) {
		case *ast.ExprStmt:
			return p.isCallTo(s.X, suffix)
		case *ast.DeferStmt:
			return p.isCallTo(s.Call, suffix)
		}
		return false
	})
}

func errNotFound(what string) error { return fmt.Errorf("construct not found: %s", what) }

// ---------------------------------------------------------------------------
// Generic text-anchored mutation operators. A control whose anchor text no longer
// occurs is reported as inapplicable (never as a failure).

// findFunc locates a production function by its rendered name suffix, e.g.
// "(*tableEngine).PlayerCall" or "seat_manager.(*seatManager).rotatePositions".
func (p *Prog) findFunc(name string) *ssa.Function {
	for _, f := range p.Funcs {
		fn := FuncName(f)
		// "(*seat_manager.seatManager).X" → "(*seatManager).X"
		if i := strings.Index(fn, "("); i >= 0 {
			if j := strings.Index(fn, ")"); j > i {
				recv := fn[i+1 : j]
				star := strings.HasPrefix(recv, "*")
				recv = strings.TrimPrefix(recv, "*")
				if k := strings.LastIndex(recv, "."); k >= 0 {
					recv = recv[k+1:]
				}
				if star {
					recv = "*" + recv
				}
				if fn[:i]+"("+recv+")"+fn[j+1:] == name {
					return f
				}
			}
		}
		if FuncName(f) == name || strings.HasSuffix(FuncName(f), "."+name) || strings.HasSuffix(FuncName(f), name) && strings.HasPrefix(name, "(") {
			return f
		}
	}
	return nil
}

// replaceIn replaces the n-th (0-based) occurrence of old inside the source text of
// function fn by new.
func replaceIn(fn, old, new string, nth int) func(p *Prog) (string, []byte, error) {
	return func(p *Prog) (string, []byte, error) {
		f := p.findFunc(fn)
		if f == nil || f.Syntax() == nil {
			return "", nil, errNotFound("function " + fn)
		}
		node := f.Syntax()
		file, src, err := p.fileOf(node)
		if err != nil {
			return "", nil, err
		}
		s := p.Fset.Position(node.Pos()).Offset
		e := p.Fset.Position(node.End()).Offset
		body := string(src[s:e])
		idx := -1
		from := 0
		for k := 0; k <= nth; k++ {
			i := strings.Index(body[from:], old)
			if i < 0 {
				return "", nil, errNotFound(fmt.Sprintf("text %q (occurrence %d) in %s", old, nth, fn))
			}
			idx = from + i
			from = idx + len(old)
		}
		nb := body[:idx] + new + body[idx+len(old):]
		out := append([]byte{}, src[:s]...)
		out = append(out, nb...)
		out = append(out, src[e:]...)
		return file, out, nil
	}
}

// replaceBoth applies two text replacements inside the same function.
func replaceBoth(fn, old1, new1, old2, new2 string) func(p *Prog) (string, []byte, error) {
	return func(p *Prog) (string, []byte, error) {
		f := p.findFunc(fn)
		if f == nil || f.Syntax() == nil {
			return "", nil, errNotFound("function " + fn)
		}
		node := f.Syntax()
		file, src, err := p.fileOf(node)
		if err != nil {
			return "", nil, err
		}
		s := p.Fset.Position(node.Pos()).Offset
		e := p.Fset.Position(node.End()).Offset
		body := string(src[s:e])
		if !strings.Contains(body, old1) || !strings.Contains(body, old2) {
			return "", nil, errNotFound("anchor text in " + fn)
		}
		body = strings.Replace(body, old1, new1, 1)
		body = strings.Replace(body, old2, new2, 1)
		out := append([]byte{}, src[:s]...)
		out = append(out, body...)
		out = append(out, src[e:]...)
		return file, out, nil
	}
}

// withDecl wraps a mutation and appends a top-level declaration to the mutated file.
func withDecl(m func(p *Prog) (string, []byte, error), decl string) func(p *Prog) (string, []byte, error) {
	return func(p *Prog) (string, []byte, error) {
		file, src, err := m(p)
		if err != nil {
			return file, src, err
		}
		return file, append(append([]byte{}, src...), []byte("\n"+decl+"\n")...), nil
	}
}

// replaceInFile replaces the first occurrence of old in the repository file with that
// path suffix (for declarations that are not inside a function).
func replaceInFile(suffix, old, new string) func(p *Prog) (string, []byte, error) {
	return func(p *Prog) (string, []byte, error) {
		for _, pk := range p.Pkgs {
			for _, f := range pk.CompiledGoFiles {
				if !strings.HasSuffix(f, suffix) || strings.HasSuffix(f, "_test.go") {
					continue
				}
				src, err := os.ReadFile(f)
				if err != nil {
					return "", nil, err
				}
				i := strings.Index(string(src), old)
				if i < 0 {
					return "", nil, errNotFound(fmt.Sprintf("text %q in %s", old, suffix))
				}
				out := string(src[:i]) + new + string(src[i+len(old):])
				return f, []byte(out), nil
			}
		}
		return "", nil, errNotFound("file " + suffix)
	}
}
