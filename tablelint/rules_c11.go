package main

// C11 — a hand advances exactly when everyone asked has answered.

import (
	"fmt"
	"go/token"
	"os"
	"strings"

	"golang.org/x/tools/go/ssa"
)

func init() {
	register(&PropMeta{
		ID:          "C11",
		Level:       "other",
		Explanation: "Decides the wiring that makes the hand wait for exactly the players it asked: (R1) the event→handler table pairs ready-requested, ante-requested, blinds-requested, round-closed and game-closed with the handler that plays that role; (R2) each request handler drives the ready group Stop → OnCompleted → ResetParticipants → Add* → Start and never pre-readies anyone; (R3) the completion closure of the ready / ante / blinds handler calls exactly ReadyForAll / PayAnte / PayBlinds, and those group steps are called from nowhere else; (R4) ready and ante ask every player of the hand unconditionally, blinds ask a player only under 'blind X > 0 ∧ player holds position X' for matching X ∈ {BB, SB, dealer}; (R5) Ready/Pay signal the ready group with the validated index; (R6) the round-closed handler asks the backend for the next step and publishes the new state only on success, the game-closed handler closes the state channel once; (R7) the ready group is built with a positive constant response timeout and a handler that readies every silent participant, and no call rewrites the hand's ready-group configuration later (timeout set to anything but a positive constant — zero means no limit —, validator or timeout handler replaced, completion forced, a response discarded). NOT decided: termination of every hand; order-independence of responses (inside syncsaga).",
		Rules: map[string]string{
			"R1": "event→handler dispatch table, by handler role",
			"R2": "ready-group typestate in each request handler; nobody pre-readied",
			"R3": "completion ↔ group-step pairing; who-may-call the group steps",
			"R4": "asked sets: everyone for ready/ante; matching blind positions for blinds",
			"R5": "signals carry the validated index; a pay becomes a ready-group signal exactly while antes or blinds are collected (event of the hand's own state) and goes to the backend otherwise",
			"R6": "auto-next on round close; state channel closed once on game close",
			"R7": "response timeout wiring",
			"R10": "the answer of an asked player is refused only by the hand's own move validator (unknown player / answer not allowed / no group), for an unknown event, or by the backend: the methods that signal the ready group for their caller have no other source of a refusal — an extra plausibility test (amount against the stack, …) keeps an asked player's answer from the group and the hand waits for the time limit",
			"R9": "each asked player is allowed the matching answer (ready / pay) in the same step and nobody else; after the group step succeeded the allowance is filtered out of every player's actions (others kept) and the ante / blinds received-hook gets the new state; the ante collection is skipped only when no ante is configured",
			"R8": "state propagation: the hand keeps and queues a clone of every new state unless closed; the consumer dispatches it; the dispatcher runs the event handler and then the engine hook; the hook (registered before Start) stores the state in the table, runs settle → continue on game-closed and publishes game-updated otherwise",
		},
		Assumptions: []string{"pokerface emits the request events; syncsaga completes when all added participants are ready"},
		Run:         checkC11,
		Controls:    controlsC11,
	})
}

func checkC11(c *Ctx) {
	p := c.P
	// R8: every new hand state travels hand → queue → dispatcher → engine hook → table and is published
	checkUpdateHook(c, "R8", "register", "store", "dispatch", "publish", "pump")
	checkPayRouting(c, "R5")
	checkAnswerNotRefused(c, "R10")
	gt := p.singleImpl("", "Game")
	if gt == nil {
		c.Bad("R1", "anchors", "-", "hand implementation not found")
		return
	}
	groupSteps := map[string]*ssa.Function{}
	for _, n := range []string{"ReadyForAll", "PayAnte", "PayBlinds"} {
		groupSteps[n] = p.Method(gt, n)
	}
	// classify handlers by role
	role := map[*ssa.Function]string{}
	completionOf := map[*ssa.Function]*ssa.Function{}
	for _, f := range p.Methods(gt) {
		if f.Signature.Params().Len() != 1 || f.Signature.Results().Len() != 0 {
			continue
		}
		for _, o := range p.rgOps(f, 0) {
			if o.Op != "OnCompleted" {
				continue
			}
			for _, cl := range closureOperands(o.Call.Common().Args[1]) {
				for _, ci := range Calls(cl) {
					for n, gf := range groupSteps {
						if gf != nil && ci.Common().StaticCallee() == gf {
							role[f] = map[string]string{"ReadyForAll": "ready", "PayAnte": "ante", "PayBlinds": "blinds"}[n]
							completionOf[f] = cl
						}
					}
				}
			}
		}
		for _, ci := range Calls(f) {
			if calleeName(ci.Common()) == "GameBackend.Next" {
				role[f] = "round-closed"
			}
			if b, ok := ci.Common().Value.(*ssa.Builtin); ok && b.Name() == "close" {
				role[f] = "game-closed"
			}
		}
	}
	want := map[string]string{"GameEvent_ReadyRequested": "ready", "GameEvent_AnteRequested": "ante", "GameEvent_BlindsRequested": "blinds", "GameEvent_RoundClosed": "round-closed", "GameEvent_GameClosed": "game-closed"}
	// ---------------- R1 dispatch table
	got := map[int64]string{}
	var dispatcher *ssa.Function
	// the table may be built where it is used or once, by the constructor, into a field: any function of the
	// hand's package that maps a game-event constant to a bound method of the hand contributes entries; the
	// dispatcher is the function that looks an entry up and calls it
	var builder *ssa.Function
	for _, f := range p.Funcs {
		if !inModule(p, f) || f.Pkg == nil || f.Pkg.Pkg != gt.Obj().Pkg() {
			continue
		}
		for _, b := range f.Blocks {
			for _, in := range b.Instrs {
				if mu, ok := in.(*ssa.MapUpdate); ok {
					if k, isK := p.Sym(mu.Key).ConstInt(); isK && strings.HasSuffix(typeShort(mu.Key.Type()), "GameEvent") {
						if tgt := boundMethodTarget(mu.Value); tgt != nil {
							got[k] = role[tgt]
							builder = f
						}
					}
				}
			}
		}
	}
	for _, f := range p.Methods(gt) {
		for _, ci := range Calls(f) {
			cm := ci.Common()
			if !cm.IsInvoke() && cm.StaticCallee() == nil {
				s := p.Sym(cm.Value).Strip()
				if s.Kind == "extract" && s.Args[0].Strip().Kind == "lookup" && strings.HasSuffix(typeShort(s.Args[0].Strip().Args[1].V.Type()), "GameEvent") {
					dispatcher = f
				}
			}
		}
	}
	if dispatcher == nil {
		dispatcher = builder
	}
	for ev, r := range want {
		k := gameEventConst(p, ev)
		c.Check(got[k] == r, "R1", "dispatch:"+ev, posOf(p, dispatcher), ev+" → "+r+" handler", fmt.Sprintf("%s is dispatched to the %q handler, expected the %q handler", ev, got[k], r))
	}
	c.Min("R1", "entries of the dispatch table", len(got), 5)
	if dispatcher != nil {
		// the looked-up handler is invoked with the state, and the state-updated callback follows
		okCall := false
		for _, ci := range Calls(dispatcher) {
			cm := ci.Common()
			if !cm.IsInvoke() && cm.StaticCallee() == nil {
				s := p.Sym(cm.Value).Strip()
				if s.Kind == "extract" && s.Args[0].Strip().Kind == "lookup" {
					okCall = true
				}
			}
		}
		c.Check(okCall, "R1", "dispatch:invoked", p.Pos(dispatcher.Pos()), "looked-up handler is invoked", "the dispatcher looks the handler up but does not call it")
		// … whenever there is one: nothing but "the event is known" and "the table has an entry" stands between
		// an incoming state and its handler (a further condition — 'this request was seen before' — skips the
		// step that arms the ready group, and the hand waits for answers nobody is asked for)
		for _, ci := range Calls(dispatcher) {
			cm := ci.Common()
			if cm.IsInvoke() || cm.StaticCallee() != nil {
				continue
			}
			s := p.Sym(cm.Value).Strip()
			if !(s.Kind == "extract" && s.Args[0].Strip().Kind == "lookup") {
				continue
			}
			extra := ""
			for _, g := range p.Guards(ci) {
				cs := g.Cond.Strip()
				if cs.Kind == "extract" && cs.Args[0].Strip().Kind == "lookup" {
					continue // comma-ok of a table look-up
				}
				extra = g.String()
			}
			c.Check(extra == "", "R1", "dispatch:unconditional", p.InstrPos(ci), "handler called whenever the event is known and has an entry", "the dispatcher calls the handler only when "+extra+" also holds: a state whose handler is skipped is never acted upon")
		}
	}

	// ---------------- R2 / R3 / R4
	nReq := 0
	for f, r := range role {
		if r != "ready" && r != "ante" && r != "blinds" {
			continue
		}
		nReq++
		ops := p.rgOps(f, 0)
		by := map[string][]rgOp{}
		for _, o := range ops {
			by[o.Op] = append(by[o.Op], o)
		}
		key := r + "-handler"
		if len(by["Stop"]) != 1 || len(by["OnCompleted"]) != 1 || len(by["ResetParticipants"]) != 1 || len(by["Start"]) != 1 || len(by["Add"]) == 0 {
			c.Bad("R2", key+":protocol", p.Pos(f.Pos()), fmt.Sprintf("handler does not perform Stop/OnCompleted/ResetParticipants/Add/Start exactly once each (Stop=%d OnCompleted=%d Reset=%d Add=%d Start=%d)", len(by["Stop"]), len(by["OnCompleted"]), len(by["ResetParticipants"]), len(by["Add"]), len(by["Start"])))
			continue
		}
		stop, onc, reset, start := by["Stop"][0], by["OnCompleted"][0], by["ResetParticipants"][0], by["Start"][0]
		ord := Dominates(stop.Top, onc.Top) && Dominates(onc.Top, reset.Top) && Dominates(reset.Top, start.Top)
		c.Check(ord, "R2", key+":order", p.Pos(f.Pos()), "Stop → OnCompleted → ResetParticipants → Start", "the "+r+" handler arms the ready group in the wrong order")
		for _, a := range by["Add"] {
			okPos := Dominates(reset.Top, a.Top) && mustPass(a.Top, start.Top) && !Reaches(start.Top, a.Top)
			fv, isB := a.Args[2].ConstBool()
			c.Check(okPos && isB && !fv, "R2", key+":add", p.InstrPos(a.Top), "Add(idx, false) between reset and Start", "the "+r+" handler adds a participant outside the reset…start window or already ready")
			// R4
			idx := a.Args[1].Strip()
			pl := (*Sym)(nil)
			if idx.Kind == "field" && idx.Name == "Idx" {
				pl = idx.Args[0].Strip()
			}
			fromPlayers := pl != nil && pl.Kind == "index" && pl.Args[0].Strip().Kind == "field" && pl.Args[0].Strip().Name == "Players" && fullRange(pl.Args[1], func(x *Sym) bool { return x.Kind == "field" && x.Name == "Players" })
			gs := p.Guards(a.Top)
			var conds []Guard
			for _, g := range gs {
				cs := g.Cond.Strip()
				if cs.Kind == "binop" && cs.Args[0].Strip().Kind == "ind" {
					continue // loop test
				}
				if r == "ante" {
					if cm := g.AsCmp(); cm != nil && cm.L.Strip().IsField("", "Ante") {
						continue // the 'no ante configured' early return
					}
				}
				conds = append(conds, g)
			}
			switch r {
			case "ready", "ante":
				c.Check(fromPlayers && len(conds) == 0, "R4", key+":asks-everyone", p.InstrPos(a.Top), "every player of the hand, unconditionally", fmt.Sprintf("the %s handler does not ask every player of the hand (from gs.Players=%v, extra conditions=%d)", r, fromPlayers, len(conds)))
			case "blinds":
				// who is asked is decided over the whole loop body (checkBlindsAskTable); here: the participant is a player of the hand
				c.Check(fromPlayers, "R4", key+":asks-a-hand-player", p.InstrPos(a.Top), "participant is p.Idx of a player ranged from gs.Players", "the blinds handler adds "+idx.String()+" — not the index of a player ranged from the hand's player list")
			}
		}
		if r == "blinds" {
			checkBlindsAskTable(c, p, f, by["Add"], key)
		}
		// R3 completion calls exactly its group step
		cl := completionOf[f]
		n := 0
		var wrong string
		for _, ci := range Calls(cl) {
			for gn, gf := range groupSteps {
				if gf != nil && ci.Common().StaticCallee() == gf {
					n++
					if map[string]string{"ReadyForAll": "ready", "PayAnte": "ante", "PayBlinds": "blinds"}[gn] != r {
						wrong = gn
					}
				}
			}
		}
		c.Check(n == 1 && wrong == "", "R3", key+":completion", p.Pos(cl.Pos()), "completion performs exactly its own group step", fmt.Sprintf("the %s completion performs %d group step(s) %s", r, n, wrong))
		// R9: whoever is asked is allowed the answer, and the allowance is withdrawn once the step is done
		action := map[string]string{"ready": "ready", "ante": "pay", "blinds": "pay"}[r]
		for _, a := range by["Add"] {
			idx := a.Args[1].Strip()
			allowed := false
			for _, in := range a.Top.Block().Instrs {
				ci, isC := in.(ssa.CallInstruction)
				if !isC || calleeName(ci.Common()) != "pokerface.PlayerState.AllowAction" {
					continue
				}
				cs := p.CallSym(ci)
				nm, _ := cs.Args[len(cs.Args)-1].ConstString()
				if nm == action && idx.Kind == "field" && cs.Args[0].Strip().String() == idx.Args[0].Strip().String() {
					allowed = true
				}
			}
			c.Check(allowed, "R9", key+":asked-player-allowed", p.InstrPos(a.Top), "asked player is allowed \""+action+"\" in the same step", "a player the "+r+" handler waits for is not allowed the \""+action+"\" action: the answer would be refused and the hand cannot advance")
		}
		// every grant has its Add (nobody is allowed without being waited for)
		for _, ci := range Calls(f) {
			if calleeName(ci.Common()) != "pokerface.PlayerState.AllowAction" {
				continue
			}
			paired := false
			for _, a := range by["Add"] {
				if a.Top.Block() == ci.Block() {
					paired = true
				}
			}
			c.Check(paired, "R9", key+":allowance-only-for-asked", p.InstrPos(ci), "allowance granted together with the Add", "the "+r+" handler allows the answer to a player it does not wait for")
		}
		if cl != nil {
			var step *ssa.Call
			for _, ci := range Calls(cl) {
				if call, isCall := ci.(*ssa.Call); isCall {
					for _, gf := range groupSteps {
						if gf != nil && call.Common().StaticCallee() == gf {
							step = call
						}
					}
				}
			}
			withdrawn := false
			for _, ss := range p.Stores([]*ssa.Function{cl}) {
				if ss.Field != "AllowedActions" {
					continue
				}
				pl := ss.Addr.Strip().Args[0].Strip()
				// … of the very state the handler was given (the one whose players were granted the allowance),
				// not of the state returned by the group step (which the next request handler is already arming)
				ofHandlerState := func(x *Sym) bool {
					x = x.Strip()
					if !(x.Kind == "field" && x.Name == "Players") {
						return false
					}
					root := x.Args[0].Strip()
					for root.Kind == "free" && len(root.Args) == 1 {
						root = root.Args[0].Strip()
					}
					return len(f.Params) == 2 && symIsParam(root, f.Params[1])
				}
				whole := pl.Kind == "index" && ofHandlerState(pl.Args[0]) && fullRange(pl.Args[1], ofHandlerState)
				v := ss.Val.Strip()
				filters := v.Contains(func(x *Sym) bool { return x.IsCall("funk.Filter") })
				keepsOthers := false
				for _, fc := range Calls(cl) {
					if calleeName(fc.Common()) != "funk.Filter" {
						continue
					}
					for _, pred := range closureOperands(fc.Common().Args[1]) {
						for _, b := range pred.Blocks {
							if rr, isR := b.Instrs[len(b.Instrs)-1].(*ssa.Return); isR {
								rv := p.Sym(rr.Results[0]).Strip()
								if rv.Kind == "binop" && rv.Name == "!=" {
									l, r2 := rv.Args[0].Strip(), rv.Args[1].Strip()
									for k := 0; k < 2; k++ {
										if nm, _ := r2.ConstString(); nm == action && l.Kind == "param" {
											keepsOthers = true
										}
										l, r2 = r2, l
									}
								}
							}
						}
					}
				}
				after := step != nil && nilGuard(p.Guards(ss.Instr), true, func(x *Sym) bool { return isErrOf(x, step) })
				// filtered list = that same player's allowed actions; the only condition allowed: it contains the action
				sameList := false
				for _, fc := range Calls(cl) {
					if calleeName(fc.Common()) == "funk.Filter" {
						a0 := p.Sym(fc.Common().Args[0]).Strip()
						if a0.Kind == "field" && a0.Name == "AllowedActions" && a0.Args[0].Strip().String() == pl.String() {
							sameList = true
						}
					}
				}
				condOK := true
				for _, g := range p.Guards(ss.Instr) {
					cs := g.Cond.Strip()
					if cs.IsCall("funk.Contains") {
						a0 := cs.Args[0].Strip()
						nm, _ := cs.Args[1].ConstString()
						if !(g.Val && nm == action && a0.Kind == "field" && a0.Name == "AllowedActions" && a0.Args[0].Strip().String() == pl.String()) {
							condOK = false
						}
					}
				}
				if whole && filters && keepsOthers && after && sameList && condOK {
					withdrawn = true
				}
			}
			c.Check(withdrawn, "R9", key+":allowance-withdrawn", p.Pos(cl.Pos()), "after the step succeeded, \""+action+"\" is filtered out of every player's allowed actions (others kept)", "once the "+r+" step is done the \""+action+"\" allowance is not withdrawn from every player (or other allowances are dropped with it)")
			// the engine's received-hook of this step, with the new state, on success
			if r == "ante" || r == "blinds" {
				hook := map[string]string{"ante": "onAntesReceived", "blinds": "onBlindsReceived"}[r]
				okHook := false
				for _, ci := range Calls(cl) {
					cm := ci.Common()
					if cm.IsInvoke() || cm.StaticCallee() != nil {
						continue
					}
					if p.Sym(cm.Value).Strip().IsField("game", hook) && step != nil && nilGuard(p.Guards(ci), true, func(x *Sym) bool { return isErrOf(x, step) }) {
						a0 := p.Sym(cm.Args[0]).Strip()
						okHook = a0.Kind == "extract" && a0.Args[0].Strip().Kind == "call" && a0.Args[0].Strip().Call == ssa.CallInstruction(step)
					}
				}
				c.Check(okHook, "R9", key+":received-hook", p.Pos(cl.Pos()), hook+"(new state) after success", "the "+r+" completion does not report the collected "+r+" through its own received-hook with the new state")
			}
		}
		if r == "ante" {
			// the only early exit: no ante configured
			ok := true
			for _, b := range f.Blocks {
				if rr, isR := b.Instrs[len(b.Instrs)-1].(*ssa.Return); isR {
					for _, g := range p.Guards(rr) {
						if cm := g.AsCmp(); cm != nil && cm.L.Strip().IsField("", "Ante") {
							z, isZ := cm.R.ConstInt()
							if !(isZ && z == 0 && cm.Op == token.EQL) && !(isZ && z == 0 && (cm.Op == token.NEQ || cm.Op == token.GTR)) {
								ok = false
							}
							if cm.Op == token.EQL && !Dominates(rr, stop.Top) && Reaches(stop.Top, rr) {
								ok = false
							}
						}
					}
				}
			}
			// the protocol itself runs under Ante != 0
			runs := cmpHolds(p.Guards(start.Top), func(l, r2 *Sym, op token.Token) bool {
				z, isZ := r2.ConstInt()
				return isZ && z == 0 && (op == token.NEQ || op == token.GTR) && l.Strip().IsField("", "Ante")
			})
			c.Check(ok && runs, "R9", key+":skipped-only-without-ante", p.Pos(f.Pos()), "collects whenever Meta.Ante != 0", "the ante handler skips the collection although an ante is configured (or collects when none is)")
		}
	}
	c.Min("R2", "request handlers", nReq, 3)
	// R3 who-may-call
	for gn, gf := range groupSteps {
		if gf == nil {
			c.Bad("R3", "group-step:"+gn, "-", "group step not found")
			continue
		}
		sites := p.CG().AllCallSitesOf(gf)
		ok := len(sites) >= 1
		for _, s := range sites {
			inCompletion := false
			for _, cl := range completionOf {
				if s.Parent() == cl {
					inCompletion = true
				}
			}
			if !inCompletion {
				ok = false
				c.Bad("R3", "group-step-caller:"+gn+":"+FuncName(s.Parent()), p.InstrPos(s), gn+" is called outside the completion of its waiting round: the hand would move on without waiting")
			}
		}
		if ok {
			c.Ok("R3", "group-step-callers:"+gn, p.Pos(gf.Pos()), fmt.Sprintf("%d caller(s), all completions", len(sites)))
		}
	}

	// ---------------- R5 (as C10.R5 signal-index)
	for _, name := range []string{"Ready", "Pay"} {
		f := p.Method(gt, name)
		if f == nil {
			continue
		}
		n := 0
		for _, ci := range Calls(f) {
			if calleeName(ci.Common()) == "syncsaga.ReadyGroup.Ready" {
				n++
				c.Check(symIsParam(p.Sym(ci.Common().Args[1]), f.Params[1]), "R5", name+":signal-index", p.InstrPos(ci), "own validated index", "the ready group is signalled with another index than the validated one")
			}
		}
		c.Min("R5", "ready-group signals in "+name, n, 1)
	}

	// ---------------- R6
	for f, r := range role {
		switch r {
		case "round-closed":
			var next *ssa.Call
			for _, ci := range Calls(f) {
				if call, ok := ci.(*ssa.Call); ok && calleeName(call.Common()) == "GameBackend.Next" {
					next = call
				}
			}
			ev := callErrValue(next)
			okUpd := false
			for _, ci := range Calls(f) {
				if sc := ci.Common().StaticCallee(); sc != nil && fnName(sc) == "updateGameState" || sc != nil && p.MayMutate(sc, gameWatch()) {
					if nilGuard(p.Guards(ci), true, func(s *Sym) bool { return s.V == ev }) {
						// publishes the state returned by Next
						a := p.Sym(ci.Common().Args[len(ci.Common().Args)-1]).Strip()
						if a.Kind == "extract" && a.Args[0].Strip().V == ssa.Value(next) {
							okUpd = true
						}
					}
				}
			}
			c.Check(okUpd, "R6", "auto-next", p.Pos(f.Pos()), "Next's state published on success", "the round-closed handler does not publish the state returned by the backend's next step (only on success)")
		case "game-closed":
			okOnce := false
			for _, ci := range Calls(f) {
				if b, ok := ci.Common().Value.(*ssa.Builtin); ok && b.Name() == "close" {
					g := guardedBy(p.Guards(ci), false, func(s *Sym) bool { return s.IsField("game", "isClosed") })
					set := false
					for _, ss := range p.Stores([]*ssa.Function{f}) {
						if ss.Addr.Strip().IsField("game", "isClosed") {
							if b, _ := ss.Val.ConstBool(); b && Dominates(ss.Instr, ci) {
								set = true
							}
						}
					}
					okOnce = g && set
				}
			}
			c.Check(okOnce, "R6", "close-once", p.Pos(f.Pos()), "channel closed once, guarded by the closed flag", "the state channel can be closed twice (or the closed flag is not set first)")
		}
	}

	// ---------------- R7
	okT := false
	for _, f := range p.Funcs {
		if f.Parent() != nil || !inPkg(p, f, "") {
			continue
		}
		builds := false
		for _, ci := range Calls(f) {
			if calleeName(ci.Common()) == "syncsaga.NewReadyGroup" {
				builds = true
			}
		}
		if !builds {
			continue
		}
		// the one whose result is stored into game.rg
		isGame := false
		for _, ss := range p.Stores([]*ssa.Function{f}) {
			if ss.Owner == "game" && ss.Field == "rg" {
				isGame = true
			}
		}
		if !isGame {
			continue
		}
		for _, c2 := range Calls(f) {
			if calleeName(c2.Common()) != "syncsaga.WithTimeout" {
				continue
			}
			t, isT := p.Sym(c2.Common().Args[0]).ConstInt()
			for _, h := range closureOperands(c2.Common().Args[1]) {
				for _, c3 := range Calls(h) {
					if calleeName(c3.Common()) == "syncsaga.ReadyGroup.Ready" {
						idx := p.Sym(c3.Common().Args[1]).Strip()
						notReady := guardedBy(p.Guards(c3), false, func(s *Sym) bool {
							return s.Kind == "rangeval" && s.Args[0].IsCall("syncsaga.ReadyGroup.GetParticipantStates")
						})
						if idx.Kind == "rangekey" && notReady && isT && t > 0 {
							okT = true
							c.Ok("R7", "response-timeout", p.InstrPos(c2), fmt.Sprintf("timeout %ds, readies every silent participant", t))
						}
					}
				}
			}
		}
	}
	if !okT {
		c.Bad("R7", "response-timeout", "-", "the hand's ready group is not built with a positive response timeout and a handler that readies every silent participant")
	}
	// the configuration fixed at construction is not rewritten later: a timeout of zero means "no limit" to the
	// ready group, a replaced validator or a forced completion changes who is waited for
	rewired := 0
	for _, f := range p.Funcs {
		if !inModule(p, f) {
			continue
		}
		for _, ci := range Calls(f) {
			name := calleeName(ci.Common())
			if name == "syncsaga.WithValidator" {
				// only where the hand's group is built
				builds := false
				for _, ss := range p.Stores([]*ssa.Function{f}) {
					builds = builds || (ss.Owner == "game" && ss.Field == "rg")
				}
				if !builds {
					continue
				}
			} else if !strings.HasPrefix(name, "syncsaga.ReadyGroup.") || len(ci.Common().Args) == 0 || !p.Sym(ci.Common().Args[0]).PathHas("game", "rg") {
				continue // another ready group (the table's auto-join group)
			}
			switch name {
			case "syncsaga.ReadyGroup.SetTimeoutInterval":
				rewired++
				t, isT := p.Sym(ci.Common().Args[1]).ConstInt()
				c.Check(isT && t > 0, "R7", "response-timeout-rewrite:"+fnName(f), p.InstrPos(ci),
					fmt.Sprintf("rewrites the response timeout with the positive constant %d", t),
					"rewrites the response timeout with a value that is not a positive constant (zero disables the timeout: one withheld response then stalls the hand forever)")
			case "syncsaga.ReadyGroup.SetValidator", "syncsaga.WithValidator", "syncsaga.ReadyGroup.Done", "syncsaga.ReadyGroup.Discard", "syncsaga.ReadyGroup.OnTimeout":
				rewired++
				c.Bad("R7", "ready-group-rewired:"+fnName(f), p.InstrPos(ci), "replaces the ready group's completion test / timeout handler or forces its completion ("+calleeName(ci.Common())+"): who the hand waits for is no longer decided by this rule")
			}
		}
	}
	if rewired == 0 {
		c.Ok("R7", "ready-group-not-rewired", "-", "no call rewrites the ready group's timeout, validator or timeout handler, or forces / discards a response")
	}
}

func posOf(p *Prog, f *ssa.Function) string {
	if f == nil {
		return "-"
	}
	return p.Pos(f.Pos())
}

// checkBlindsAskTable: in the loop over the hand's players, a player is added to the ready group
// exactly when (Blind.BB > 0 ∧ holds bb) ∨ (Blind.SB > 0 ∧ holds sb) ∨ (Blind.Dealer > 0 ∧ holds dealer),
// decided as a truth table over every path through the loop body — whatever the shape of the
// conditions (an if/else-if chain with three Add sites, one Add under a disjunction, a flag …).
func checkBlindsAskTable(c *Ctx, p *Prog, f *ssa.Function, adds []rgOp, key string) {
	where := p.Pos(f.Pos())
	var header *ssa.BasicBlock
	for _, h := range loopHeaders(f) {
		loop := naturalLoop(h)
		all := len(adds) > 0
		for _, a := range adds {
			if !loop[a.Top.Block()] {
				all = false
			}
		}
		if all && (header == nil || naturalLoop(header)[h]) {
			header = h
		}
	}
	if header == nil {
		c.Bad("R4", key+":asks-position", where, "the blinds handler does not add its participants inside one loop over the players")
		return
	}
	paths, ok := p.loopBodyPaths(header)
	if !ok {
		c.Undecided("R4", key+":asks-position", where, "loop body too complex to enumerate")
		return
	}
	var body []bodyPath
	for _, bp := range paths {
		if bp.Exit && len(bp.Order) == 1 {
			continue // the loop is over: no player on this path
		}
		body = append(body, bp)
	}
	paths = body
	idx := adds[0].Args[1].Strip()
	for _, a := range adds {
		if a.Args[1].Strip().String() != idx.String() {
			c.Bad("R4", key+":asks-position", p.InstrPos(a.Top), "the blinds handler adds different participants at different sites of the loop body: "+idx.String()+" and "+a.Args[1].Strip().String())
			return
		}
	}
	names := []string{"BB>0", "SB>0", "Dealer>0", "holds-bb", "holds-sb", "holds-dealer"}
	atom := func(g Guard) (string, bool, bool) {
		cs := g.Cond.Strip()
		if cs.Kind == "binop" && cs.Args[0].Strip().Kind == "ind" {
			return "", false, true // loop test
		}
		if cm := g.AsCmp(); cm != nil && cm.L.Strip().Kind == "field" && cm.L.Strip().Owner == "BlindSetting" && cm.R.Strip().Name == "0" {
			nm := cm.L.Strip().Name + ">0"
			switch cm.Op {
			case token.GTR: // AsCmp is the comparison that holds on this edge
				return nm, true, true
			case token.LEQ:
				return nm, false, true
			}
			return "", false, false
		}
		if cs.IsCall("pokerface.GameState.HasPosition") && len(cs.Args) == 3 && cs.Args[1].Strip().String() == idx.String() {
			if pos, isC := cs.Args[2].ConstString(); isC {
				return "holds-" + pos, g.Val, true
			}
		}
		return "", false, false
	}
	addBlocks := map[*ssa.BasicBlock]bool{}
	for _, a := range adds {
		addBlocks[a.Top.Block()] = true
	}
	if os.Getenv("TABLELINT_DEBUG_C11") != "" {
		for _, bp := range paths {
			fmt.Fprintf(os.Stderr, "path exit=%v order=%v guards=%v\n", bp.Exit, bp.Order, bp.Guards)
		}
		fmt.Fprintf(os.Stderr, "adds=%v idx=%s\n", addBlocks, idx)
	}
	msg := tableCheck(paths, atom, names, nil,
		map[string]func(bodyPath) bool{"ask the player for a blind": func(bp bodyPath) bool {
			for b := range addBlocks {
				if bp.Blocks[b] {
					return true
				}
			}
			return false
		}},
		map[string]func(map[string]bool) bool{"ask the player for a blind": func(a map[string]bool) bool {
			return a["BB>0"] && a["holds-bb"] || a["SB>0"] && a["holds-sb"] || a["Dealer>0"] && a["holds-dealer"]
		}})
	for _, amt := range []string{"BB", "SB", "Dealer"} {
		c.Check(msg == "", "R4", key+":asks-position:"+amt, where, "asked iff some Blind.X > 0 ∧ the player holds position X (truth table over the loop body)", "blinds handler: "+msg+" — a player is asked exactly when a blind amount is configured for a position they hold (BB↔bb, SB↔sb, Dealer↔dealer)")
	}
}

// checkAnswerNotRefused (C11.R10): see the rule text. Group answers = methods of the hand that signal the ready
// group for an index derived from their own parameter.
func checkAnswerNotRefused(c *Ctx, rule string) {
	p := c.P
	gt := p.singleImpl("", "Game")
	if gt == nil {
		c.Bad(rule, "anchors", "-", "hand implementation not found")
		return
	}
	n := 0
	for _, f := range p.Methods(gt) {
		if f.Parent() != nil || len(f.Params) < 2 || errResultIndex(f.Signature) < 0 {
			continue
		}
		answers := false
		for _, o := range p.rgOps(f, 0) {
			if o.Op == "Ready" {
				answers = true
			}
		}
		if !answers {
			continue
		}
		n++
		ei := errResultIndex(f.Signature)
		ok, where, d := true, p.Pos(f.Pos()), ""
		nRef := 0
		for _, b := range f.Blocks {
			r, isR := b.Instrs[len(b.Instrs)-1].(*ssa.Return)
			if !isR || ei >= len(r.Results) {
				continue
			}
			rs := retSyms(p, r)
			e := rs[ei].Strip()
			if e.IsNil() {
				continue
			}
			nRef++
			good := false
			switch {
			case e.Kind == "call" && e.Call != nil && e.Call.Common().StaticCallee() != nil:
				sc := e.Call.Common().StaticCallee()
				// the hand's own validators, by role: methods of the hand (index[, action]) → error that store nothing
				// the validator is the method's first action: its entry validation
				var first ssa.CallInstruction
				for _, ci := range Calls(f) {
					if isLogCall(ci) {
						continue
					}
					first = ci
					break
				}
				good = sc.Signature.Recv() != nil && namedOf(recvTypeOf(sc)) == gt && sc.Signature.Results().Len() == 1 && first != nil && ssa.Instruction(e.Call) == ssa.Instruction(first)
			case e.Kind == "extract" && e.Args[0].Strip().Kind == "call" && e.Args[0].Strip().Call != nil && isBackendCall(e.Args[0].Strip().Call.Common()):
				good = true
			case e.Kind == "global" && strings.HasSuffix(e.Name, "ErrGameUnknownEvent"):
				good = true
			}
			if !good {
				ok, where, d = false, p.InstrPos(r), e.String()
			}
		}
		c.Check(ok && nRef >= 1, rule, "answer-refused-only-by-validator:"+fnName(f), where, fmt.Sprintf("%d refusal exit(s): validator / unknown event / backend", nRef),
			fnName(f)+" refuses the answer of an asked player for a reason of its own ("+d+"): the answer never reaches the ready group and the hand waits for the time limit")
	}
	c.Min(rule, "hand methods that answer for one player", n, 2)
}
