package main

// tablelint inlines: the inverse of extract-function. Every unexported function or method of the pinned tree
// that the normaliser's inliner can expand is inlined into its callers (one variant per helper) and the checks
// are run on the result. This MEASURES how much the rules lean on the present decomposition into helpers; it is
// a behaviour-preserving refactoring the normaliser cannot undo.

import (
	"encoding/json"
	"flag"
	"fmt"
	"go/types"
	"os"
	"os/exec"
	"path/filepath"
	"sort"
	"strings"
	"sync"

	"golang.org/x/tools/go/packages"
)

func cmdInlines(args []string) int {
	fs := flag.NewFlagSet("inlines", flag.ExitOnError)
	repo := fs.String("repo", "/repo", "")
	verif := fs.String("verif", "/verif", "")
	jobs := fs.Int("j", 8, "parallel children")
	out := fs.String("out", "", "result file (json)")
	fs.Parse(args)
	os.Unsetenv("GOWORK")
	pc := &packages.Config{Mode: packages.LoadSyntax, Dir: *repo,
		Env: append(os.Environ(), "GOFLAGS=-mod=mod", "GOPROXY=off", "GOSUMDB=off", "GOTOOLCHAIN=local", "GOWORK=off")}
	pkgs, err := packages.Load(pc, "./...")
	if err != nil || len(pkgs) == 0 {
		fmt.Fprintln(os.Stderr, "load failed:", err)
		return 2
	}
	type job struct {
		Name  string   `json:"name"`
		Pkg   string   `json:"pkg"`
		Fired []string `json:"fired"`
		Keys  []string `json:"keys,omitempty"`
		Loads bool     `json:"loads"`
		ov    map[string][]byte
	}
	var list []*job
	var prod []*packages.Package
	for _, pk := range pkgs {
		if isProdPath(pk.PkgPath) {
			prod = append(prod, pk)
		}
	}
	for _, pk := range prod {
		var funcs []*types.Func
		sc := pk.Types.Scope()
		for _, nme := range sc.Names() {
			switch o := sc.Lookup(nme).(type) {
			case *types.Func:
				funcs = append(funcs, o)
			case *types.TypeName:
				if n, ok := o.Type().(*types.Named); ok {
					for i := 0; i < n.NumMethods(); i++ {
						funcs = append(funcs, n.Method(i))
					}
				}
			}
		}
		for _, fo := range funcs {
			if fo.Exported() {
				continue
			}
			target := fo
			ov, inl, _ := normalise([]*packages.Package{pk}, nil, os.ReadFile, func(o *types.Func) bool { return o == target })
			if len(inl) == 0 {
				continue
			}
			list = append(list, &job{Name: fo.Name(), Pkg: pk.PkgPath, ov: ov})
		}
	}
	sort.Slice(list, func(a, b int) bool { return list[a].Pkg+list[a].Name < list[b].Pkg+list[b].Name })
	exe, _ := os.Executable()
	tmp, _ := os.MkdirTemp("", "tablelint-inlines")
	defer os.RemoveAll(tmp)
	var wg sync.WaitGroup
	sem := make(chan struct{}, *jobs)
	for i, j := range list {
		wg.Add(1)
		sem <- struct{}{}
		go func(i int, j *job) {
			defer wg.Done()
			defer func() { <-sem }()
			ov := map[string]string{}
			for file, b := range j.ov {
				cf := filepath.Join(tmp, fmt.Sprintf("%d_%s", i, filepath.Base(file)))
				os.WriteFile(cf, b, 0o644)
				ov[file] = cf
			}
			of := filepath.Join(tmp, fmt.Sprintf("%d.overlay.json", i))
			ob, _ := json.Marshal(ov)
			os.WriteFile(of, ob, 0o644)
			res, err := exec.Command(exe, "variant", "-repo", *repo, "-verif", *verif, "-overlay", of).Output()
			if err != nil {
				return
			}
			var r struct {
				Fired []string `json:"fired"`
				Keys  []string `json:"keys"`
			}
			if json.Unmarshal(res, &r) == nil {
				j.Loads = true
				j.Fired, j.Keys = r.Fired, r.Keys
			}
		}(i, j)
	}
	wg.Wait()
	nLoad, nAlarm := 0, 0
	for _, j := range list {
		if !j.Loads {
			fmt.Printf("noload %s.%s\n", filepath.Base(j.Pkg), j.Name)
			continue
		}
		nLoad++
		if len(j.Fired) > 0 {
			nAlarm++
			fmt.Printf("ALARM %s.%s → %v\n", strings.TrimPrefix(j.Pkg, modPath), j.Name, j.Fired)
		}
	}
	fmt.Printf("inline sweep: %d helpers inlined, %d type-check, %d silent, %d raise at least one rule\n", len(list), nLoad, nLoad-nAlarm, nAlarm)
	if *out != "" {
		b, _ := json.MarshalIndent(list, "", " ")
		os.WriteFile(*out, b, 0o644)
	}
	return 0
}
