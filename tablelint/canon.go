package main

// Canonical names for UNEXPORTED identifiers.
//
// Rules refer to a handful of unexported fields, methods and types by the names they have on
// the pinned tree ("tableEngine.table", "seatManager.getSeatPlayer", …). Renaming such an
// identifier is a behaviour-preserving refactor, so before any rule runs every one of them
// is re-discovered BY ROLE (its type, what stores into it, what it calls, which exported
// method pairs with it) and mapped back to the canonical name the rules use. A role that
// matches nothing or more than one candidate simply leaves the real name in place.
//
// Exported identifiers (interfaces, exported methods and fields, constants) are the API and
// are used as they are.

import (
	"go/token"
	"go/types"
	"strings"
	"unicode"

	"golang.org/x/tools/go/ssa"
)

type canonTable struct {
	field map[*types.Var]string
	fn    map[*types.Func]string
	typ   map[*types.TypeName]string
}

var canon = &canonTable{field: map[*types.Var]string{}, fn: map[*types.Func]string{}, typ: map[*types.TypeName]string{}}

func canonFieldName(v *types.Var) string {
	if n, ok := canon.field[v]; ok {
		return n
	}
	return v.Name()
}

func canonFuncObjName(o *types.Func) string {
	if o == nil {
		return ""
	}
	if n, ok := canon.fn[o]; ok {
		return n
	}
	return o.Name()
}

// fnName: the canonical simple name of an SSA function.
func fnName(f *ssa.Function) string {
	if f == nil {
		return ""
	}
	if o, ok := f.Object().(*types.Func); ok {
		return canonFuncObjName(o)
	}
	return f.Name()
}

func canonTypeName(tn *types.TypeName) string {
	if n, ok := canon.typ[tn]; ok {
		return n
	}
	return tn.Name()
}

func structOf(n *types.Named) *types.Struct {
	if n == nil {
		return nil
	}
	st, _ := n.Underlying().(*types.Struct)
	return st
}

func (p *Prog) buildCanon() {
	canon = &canonTable{field: map[*types.Var]string{}, fn: map[*types.Func]string{}, typ: map[*types.TypeName]string{}}
	unexported := func(s string) bool { return s != "" && unicode.IsLower(rune(s[0])) }

	// ---- types: the single implementer of an exported interface, runner constructors
	typeRole := func(pkgSuffix, iface, canonName string) *types.Named {
		i := p.Iface(pkgSuffix, iface)
		if i == nil {
			return nil
		}
		im := p.Implementers(i)
		var cands []*types.Named
		for _, t := range im {
			if unexported(t.Obj().Name()) {
				cands = append(cands, t)
			}
		}
		if len(cands) != 1 {
			return nil
		}
		canon.typ[cands[0].Obj()] = canonName
		return cands[0]
	}
	teT := typeRole("", "TableEngine", "tableEngine")
	gameT := typeRole("", "Game", "game")
	smT := typeRole("/seat_manager", "SeatManager", "seatManager")
	ogmT := typeRole("/open_game_manager", "OpenGameManager", "openGameManager")
	mgrT := typeRole("", "Manager", "manager")
	// result type of an exported constructor
	ctorType := func(pkgSuffix, ctor, canonName string) *types.Named {
		pk := p.Pkgs[modPath+pkgSuffix]
		if pk == nil {
			return nil
		}
		o, _ := pk.Types.Scope().Lookup(ctor).(*types.Func)
		if o == nil {
			return nil
		}
		sig := o.Type().(*types.Signature)
		if sig.Results().Len() != 1 {
			return nil
		}
		n := namedOf(sig.Results().At(0).Type())
		if n == nil || !unexported(n.Obj().Name()) {
			return nil
		}
		canon.typ[n.Obj()] = canonName
		return n
	}
	botT := ctorType("/actor", "NewBotRunner", "botRunner")
	plT := ctorType("/actor", "NewPlayerRunner", "playerRunner")
	obT := ctorType("/actor", "NewObserverRunner", "observerRunner")

	// ---- fields by their (unique) type
	byType := func(n *types.Named, want map[string]string) {
		st := structOf(n)
		if st == nil {
			return
		}
		for ts, cn := range want {
			var found []*types.Var
			for i := 0; i < st.NumFields(); i++ {
				f := st.Field(i)
				if typeShort(f.Type()) == ts || (strings.HasPrefix(ts, "chan") && strings.HasPrefix(typeShort(f.Type()), "chan")) {
					found = append(found, f)
				}
			}
			if len(found) == 1 && unexported(found[0].Name()) {
				canon.field[found[0]] = cn
			}
		}
	}
	byType(teT, map[string]string{"*Table": "table", "SeatManager": "sm", "Game": "game", "sync.Mutex": "lock", "bool": "isReleased",
		"*TableEngineOptions": "options", "GameBackend": "gameBackend", "OpenGameManager": "ogm", "*syncsaga.ReadyGroup": "rg", "*timebank.TimeBank": "tbForOpenGame"})
	byType(gameT, map[string]string{"*pokerface.GameState": "gs", "*syncsaga.ReadyGroup": "rg", "chan": "incomingStates", "bool": "isClosed",
		"sync.RWMutex": "mu", "GameBackend": "backend", "*pokerface.GameOptions": "opts"})
	byType(smT, map[string]string{"sync.RWMutex": "mu"})
	byType(ogmT, map[string]string{"*OpenGameState": "state", "func(state OpenGameState)": "onOpenGameReady", "*syncsaga.ReadyGroup": "rg"})
	byType(mgrT, map[string]string{"sync.Map": "tableEngines"})
	for _, rt := range []*types.Named{botT, plT, obT} {
		byType(rt, map[string]string{"Actor": "actor", "Actions": "actions", "int64": "lastGameStateTime", "*pokertable.Table": "tableInfo",
			"*timebank.TimeBank": "timebank", "PlayerStatus": "status", "bool": map[bool]string{true: "systemMode", false: "isHumanized"}[rt == obT]})
	}

	// ---- SSA-based roles
	methodsOf := func(n *types.Named) []*ssa.Function {
		if n == nil {
			return nil
		}
		return p.Methods(n)
	}
	recvFieldStoredFromParam := func(f *ssa.Function, param int) *types.Var {
		var out *types.Var
		cnt := 0
		for _, b := range f.Blocks {
			for _, in := range b.Instrs {
				st, ok := in.(*ssa.Store)
				if !ok || len(f.Params) <= param || st.Val != ssa.Value(f.Params[param]) {
					continue
				}
				if fa, isFA := st.Addr.(*ssa.FieldAddr); isFA {
					if pt, isP := fa.X.Type().Underlying().(*types.Pointer); isP {
						if sst, isS := pt.Elem().Underlying().(*types.Struct); isS {
							out = sst.Field(fa.Field)
							cnt++
						}
					}
				}
			}
		}
		if cnt == 1 {
			return out
		}
		return nil
	}
	// callbacks through their exported setters On<X>(fn): field → "on<X>"
	for _, n := range []*types.Named{teT, gameT, botT, plT, obT} {
		for _, f := range methodsOf(n) {
			if !strings.HasPrefix(f.Name(), "On") || len(f.Params) != 2 {
				continue
			}
			if v := recvFieldStoredFromParam(f, 1); v != nil && unexported(v.Name()) {
				canon.field[v] = "on" + f.Name()[2:]
			}
		}
	}
	// runner id: the string field the constructor fills from its parameter; the other string field is the hand id
	for _, rt := range []*types.Named{botT, plT} {
		st := structOf(rt)
		if st == nil {
			continue
		}
		pk := p.SPkgs[modPath+"/actor"]
		if pk == nil {
			continue
		}
		var idField *types.Var
		for _, m := range pk.Members {
			fn, ok := m.(*ssa.Function)
			if !ok || fn.Signature.Results().Len() != 1 || namedOf(fn.Signature.Results().At(0).Type()) != rt || len(fn.Params) != 1 {
				continue
			}
			for _, b := range fn.Blocks {
				for _, in := range b.Instrs {
					if sto, isS := in.(*ssa.Store); isS && sto.Val == ssa.Value(fn.Params[0]) {
						if fa, isFA := sto.Addr.(*ssa.FieldAddr); isFA {
							idField = st.Field(fa.Field)
						}
					}
				}
			}
		}
		if idField != nil {
			canon.field[idField] = "playerID"
			var others []*types.Var
			for i := 0; i < st.NumFields(); i++ {
				if f := st.Field(i); f != idField && typeShort(f.Type()) == "string" {
					others = append(others, f)
				}
			}
			if len(others) == 1 {
				canon.field[others[0]] = "curGameID"
			}
		}
	}

	setFn := func(f *ssa.Function, name string) {
		if f == nil {
			return
		}
		if o, ok := f.Object().(*types.Func); ok && unexported(o.Name()) {
			canon.fn[o] = name
		}
	}
	unique := func(fs []*ssa.Function) *ssa.Function {
		if len(fs) == 1 {
			return fs[0]
		}
		return nil
	}
	invokesField := func(f *ssa.Function, canonField string) bool {
		for _, b := range f.Blocks {
			for _, in := range b.Instrs {
				ci, ok := in.(ssa.CallInstruction)
				if !ok || ci.Common().IsInvoke() || ci.Common().StaticCallee() != nil {
					continue
				}
				if ld, isLd := ci.Common().Value.(*ssa.UnOp); isLd && ld.Op == token.MUL {
					if fa, isFA := ld.X.(*ssa.FieldAddr); isFA {
						if pt, isP := fa.X.Type().Underlying().(*types.Pointer); isP {
							if sst, isS := pt.Elem().Underlying().(*types.Struct); isS && canonFieldName(sst.Field(fa.Field)) == canonField {
								return true
							}
						}
					}
				}
			}
		}
		return false
	}
	callsIface := func(f *ssa.Function, method string) bool {
		for _, b := range f.Blocks {
			for _, in := range b.Instrs {
				if ci, ok := in.(ssa.CallInstruction); ok && ci.Common().IsInvoke() && ci.Common().Method.Name() == method {
					return true
				}
			}
		}
		return false
	}
	pick := func(fs []*ssa.Function, pred func(f *ssa.Function) bool) *ssa.Function {
		var out []*ssa.Function
		for _, f := range fs {
			if unexported(f.Name()) && pred(f) {
				out = append(out, f)
			}
		}
		return unique(out)
	}
	// engine emitters
	teM := methodsOf(teT)
	for cb, name := range map[string]string{"onTableErrorUpdated": "emitErrorEvent", "onTableStateUpdated": "emitTableStateEvent", "onTableUpdated": "emitEvent",
		"onTablePlayerStateUpdated": "emitTablePlayerStateEvent", "onTablePlayerReserved": "emitTablePlayerReservedEvent", "onGamePlayerActionUpdated": "emitGamePlayerActionEvent"} {
		cb := cb
		setFn(pick(teM, func(f *ssa.Function) bool { return invokesField(f, cb) }), name)
	}
	setFn(pick(teM, func(f *ssa.Function) bool { return callsIface(f, "AssignSeats") }), "batchAddPlayers")
	rem := pick(teM, func(f *ssa.Function) bool { return callsIface(f, "RemoveSeats") })
	setFn(rem, "batchRemovePlayers")
	if rem != nil {
		for _, b := range rem.Blocks {
			for _, in := range b.Instrs {
				if ci, ok := in.(ssa.CallInstruction); ok {
					if sc := ci.Common().StaticCallee(); sc != nil && sc.Signature.Results().Len() == 3 {
						setFn(sc, "calcLeavePlayers")
					}
				}
			}
		}
	}
	storesFieldSuffix := func(f *ssa.Function, owner, suffix string) bool {
		for _, b := range f.Blocks {
			for _, in := range b.Instrs {
				if st, ok := in.(*ssa.Store); ok {
					if fa, isFA := st.Addr.(*ssa.FieldAddr); isFA {
						if pt, isP := fa.X.Type().Underlying().(*types.Pointer); isP {
							if nn := namedOf(pt.Elem()); nn != nil && nn.Obj().Name() == owner {
								if sst, isS := pt.Elem().Underlying().(*types.Struct); isS && strings.HasSuffix(sst.Field(fa.Field).Name(), suffix) {
									return true
								}
							}
						}
					}
				}
			}
		}
		return false
	}
	setFn(pick(teM, func(f *ssa.Function) bool {
		return len(f.Params) == 2 && typeShort(f.Params[1].Type()) == "*pokerface.GameState" && f.Signature.Results().Len() == 0 && storesFieldSuffix(f, "TablePlayerGameStatistics", "Chance")
	}), "updateCurrentPlayerGameStatistics")
	setFn(pick(teM, func(f *ssa.Function) bool {
		return f.Signature.Results().Len() == 1 && typeShort(f.Signature.Results().At(0).Type()) == "*TablePlayerGameAction"
	}), "createPlayerGameAction")

	// hand side
	gM := methodsOf(gameT)
	hasInstr := func(f *ssa.Function, pred func(in ssa.Instruction) bool) bool {
		for _, b := range f.Blocks {
			for _, in := range b.Instrs {
				if pred(in) {
					return true
				}
			}
		}
		return false
	}
	setFn(pick(gM, func(f *ssa.Function) bool {
		return hasInstr(f, func(in ssa.Instruction) bool { _, ok := in.(*ssa.Send); return ok })
	}), "updateGameState")
	setFn(pick(gM, func(f *ssa.Function) bool {
		return hasInstr(f, func(in ssa.Instruction) bool {
			mu, ok := in.(*ssa.MapUpdate)
			return ok && strings.HasPrefix(typeShort(mu.Map.Type()), "map[pokerface.GameEvent]func")
		})
	}), "handleGameState")
	setFn(pick(gM, func(f *ssa.Function) bool {
		return len(f.Params) == 1 && hasInstr(f, func(in ssa.Instruction) bool { _, ok := in.(*ssa.Go); return ok })
	}), "runGameStateUpdater")

	// seat manager helpers
	sM := methodsOf(smT)
	sig := func(f *ssa.Function) string { return typeShort(f.Signature) }
	setFn(pick(sM, func(f *ssa.Function) bool {
		return sig(f) == "func(playerID string) (*SeatPlayer, int, error)" || (len(f.Params) == 2 && f.Signature.Results().Len() == 3)
	}), "getSeatPlayer")
	setFn(pick(sM, func(f *ssa.Function) bool {
		return f.Signature.Results().Len() == 1 && typeShort(f.Signature.Results().At(0).Type()) == "SeatPlayer"
	}), "newSeatPlayer")
	setFn(pick(sM, func(f *ssa.Function) bool {
		return len(f.Params) == 1 && f.Signature.Results().Len() == 1 && typeShort(f.Signature.Results().At(0).Type()) == "map[string]int"
	}), "getOccupiedPlayerSeatIDs")
	setFn(pick(sM, func(f *ssa.Function) bool {
		return len(f.Params) == 2 && typeShort(f.Params[1].Type()) == "int" && f.Signature.Results().Len() == 2 && typeShort(f.Signature.Results().At(0).Type()) == "[]int"
	}), "randomSeatIDs")
	setFn(pick(sM, func(f *ssa.Function) bool {
		return len(f.Params) == 2 && typeShort(f.Params[1].Type()) == "bool" && f.Signature.Results().Len() == 1 && isErrorType(f.Signature.Results().At(0).Type())
	}), "initPositions")
	setFn(pick(sM, func(f *ssa.Function) bool {
		return len(f.Params) == 1 && f.Signature.Results().Len() == 1 && typeShort(f.Signature.Results().At(0).Type()) == "int" &&
			hasInstr(f, func(in ssa.Instruction) bool { _, ok := in.(*ssa.Next); return ok })
	}), "getActivePlayerCount")
	// the two () []int scans: the one selecting on "== nil" is the empty-seat list
	var intLists []*ssa.Function
	for _, f := range sM {
		if unexported(f.Name()) && len(f.Params) == 1 && f.Signature.Results().Len() == 1 && typeShort(f.Signature.Results().At(0).Type()) == "[]int" {
			intLists = append(intLists, f)
		}
	}
	for _, f := range intLists {
		callsActive := hasInstr(f, func(in ssa.Instruction) bool {
			ci, ok := in.(ssa.CallInstruction)
			return ok && ci.Common().StaticCallee() != nil && ci.Common().StaticCallee().Name() == "Active"
		})
		if callsActive {
			setFn(f, "getOccupiedSeatIDs")
		} else {
			setFn(f, "getEmptySeatIDs")
		}
	}
	if len(intLists) != 2 {
		for _, f := range intLists {
			if o, ok := f.Object().(*types.Func); ok {
				delete(canon.fn, o)
			}
		}
	}
}
