package main

func controlsC01() []Control {
	return []Control{
		{Name: "re-buy credited, then refused for its size", Expect: "R8", Mutate: replaceIn("(*tableEngine).PlayerReserve", "\t\tplayerState.Bankroll += joinPlayer.RedeemChips\n", "\t\tplayerState.Bankroll += joinPlayer.RedeemChips\n\t\tif joinPlayer.RedeemChips > 1000000 {\n\t\t\treturn ErrTablePlayerInvalidAction\n\t\t}\n", 0)},
		{Name: "add-on overwrites instead of adding", Expect: "R1", Mutate: replaceIn("(*tableEngine).PlayerRedeemChips", "playerState.Bankroll += joinPlayer.RedeemChips", "playerState.Bankroll = joinPlayer.RedeemChips", 0)},
		{Name: "settlement writes the absolute Final while top-ups are unguarded", Expect: "R3", Mutate: replaceIn("(*tableEngine).settleGame", "playerState.Bankroll += player.Changed", "playerState.Bankroll = player.Final", 0)},
		{Name: "settlement indexes by loop counter instead of the result's Idx", Expect: "R2", Mutate: replaceIn("(*tableEngine).settleGame", "for _, player := range te.table.State.GameState.Result.Players {\n\t\tplayerIdx := te.table.State.GamePlayerIndexes[player.Idx]", "for ri, player := range te.table.State.GameState.Result.Players {\n\t\tplayerIdx := te.table.State.GamePlayerIndexes[ri]", 0)},
		{Name: "settlement skips the first result entry", Expect: "R2", Mutate: replaceIn("(*tableEngine).settleGame", "for _, player := range te.table.State.GameState.Result.Players {\n\t\tplayerIdx", "for _, player := range te.table.State.GameState.Result.Players[1:] {\n\t\tplayerIdx", 0)},
		{Name: "leaving players are zeroed", Expect: "R6", Mutate: replaceIn("(*tableEngine).calcLeavePlayers", "if !exist {", "if exist {\n\t\t\tplayer.Bankroll = 0\n\t\t}\n\t\tif !exist {", 0)},
		{Name: "the hand starts with half the bankroll", Expect: "R4", Mutate: replaceIn("(*tableEngine).startGame", "Bankroll:  player.Bankroll,", "Bankroll:  player.Bankroll / 2,", 0)},
		{Name: "joining costs a chip", Expect: "R1", Mutate: replaceIn("(*tableEngine).PlayerJoin", "te.table.State.PlayerStates[playerIdx].IsIn = true\n", "te.table.State.PlayerStates[playerIdx].IsIn = true\n\tte.table.State.PlayerStates[playerIdx].Bankroll--\n", 0)},
		{Name: "new player gets the first batch entry's chips", Expect: "R1", Mutate: replaceIn("(*tableEngine).batchAddPlayers", "Bankroll:       player.RedeemChips,", "Bankroll:       players[0].RedeemChips,", 0)},
		{Name: "re-buy credited twice", Expect: "R5", Mutate: replaceIn("(*tableEngine).PlayerReserve", "playerState.Bankroll += joinPlayer.RedeemChips", "for k := 0; k < 2; k++ {\n\t\t\tplayerState.Bankroll += joinPlayer.RedeemChips\n\t\t}", 0)},
		{Name: "re-buy credits another player", Expect: "R1", Mutate: replaceIn("(*tableEngine).PlayerReserve", "playerState := te.table.State.PlayerStates[targetPlayerIdx]", "playerState := te.table.State.PlayerStates[0]", 0)},
		{Name: "leave computation filters the live player list in place", Expect: "R6", Mutate: replaceIn("(*tableEngine).calcLeavePlayers", "newPlayerStates := make([]*TablePlayerState, 0)", "newPlayerStates := currentPlayers[:0]", 0)},
		{Name: "bankroll excluded from the JSON clone", Expect: "R4", Mutate: replaceInFile("/table.go", "Bankroll       int64                     `json:\"bankroll\"`", "Bankroll       int64                     `json:\"-\"`")},
		{Name: "add-on without the engine lock", Expect: "R7", Mutate: replaceIn("(*tableEngine).PlayerRedeemChips", "\tte.lock.Lock()\n\tdefer te.lock.Unlock()\n", "", 0)},
		{Name: "failed hand start puts the pre-open table back (chips credited meanwhile are dropped)", Expect: "R9", Mutate: replaceBoth("(*tableEngine).tableGameOpen", "\tte.table = newTable\n", "\tprevTable := te.table\n\tte.table = newTable\n", "\treturn te.startGame()\n", "\tif err := te.startGame(); err != nil {\n\t\tte.table = prevTable\n\t\treturn err\n\t}\n\treturn nil\n")},
	}
}
