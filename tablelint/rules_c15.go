package main

// C15 — the published action deadline matches the turn.

import (
	"fmt"
	"go/token"

	"golang.org/x/tools/go/ssa"
)

func init() {
	register(&PropMeta{
		ID:          "C15",
		Level:       "other",
		Explanation: "Decides the closed set and value shape of deadline writers: the deadline field is stored only as Unix(Now + ActionTime seconds) (turn), 0 (round-close hook and between hands) or Unix(Unix(old) + duration seconds) (extension, which returns exactly the stored value); the address never escapes. Wiring: the clearing hook is registered with the hand before it is started, the hand stores and invokes it in its round-closed handler before asking for the next step, and the between-hands reset stores 0 on every path. (R3) the turn deadline is stored only under status playing ∧ round-started event ∧ betting round ∧ the current player has allowed actions ∧ has not acted; (R4) the engine's hand-state hook hands every state and its event to the deadline updater, unconditionally, for every event but game-closed. NOT decided: that pokerface raises a round-started event for every turn (its Acted flag and event sequence are trusted).",
		Rules: map[string]string{
			"R1": "closed writer set and value shapes of TableState.CurrentActionEndAt; extension returns the stored value; no address escape",
			"R2": "clear wiring: hook registered before Start; hand stores it; round-closed handler invokes it before Next; continue step resets to 0 on every path",
			"R4": "the engine's hand-state hook (registered before Start) calls the deadline updater with each state and its event, for every event but game-closed",
			"R6": "the state object of a live table is never replaced (only a table under construction gets one): the round-close hook and the turn writer address the same object for the whole hand, whichever of them captured it when",
			"R5": "one delivery per state: the only send on the hand's state channel is in the hand's update function and carries the state that function has just stored as current — a state handed to the engine's hook twice re-arms the deadline of a turn that is already running",
			"R3": "turn predicate atoms: the turn deadline is stored only under status playing ∧ round-started event ∧ betting round ∧ the current player has allowed actions ∧ has not acted (pokerface's Acted flag)",
		},
		Assumptions: []string{"time.Now/Add/Unix semantics"},
		Run:         checkC15,
		Controls:    controlsC15,
	})
}

// secondsOf: s is (1e9 * X) or (X * 1e9); returns X stripped.
func secondsOf(s *Sym) *Sym {
	s = s.Strip()
	if s.Kind != "binop" || s.Name != "*" {
		return nil
	}
	for k := 0; k < 2; k++ {
		if n, ok := s.Args[k].ConstInt(); ok && n == 1000000000 {
			return s.Args[1-k].Strip()
		}
	}
	return nil
}

func checkC15(c *Ctx) {
	p := c.P
	// R4: the deadline updater is driven by every hand state the engine receives
	checkUpdateHook(c, "R4", "register", "deadline")
	// R6: the state object the deadline lives in is never swapped under the running hand's hooks
	checkStatePointerWriters(c, "R6")
	n := 0
	shapes := map[string]int{}
	for _, ss := range p.FieldStores("TableState", "CurrentActionEndAt") {
		if storeIsLocal(ss.Instr) {
			continue
		}
		n++
		v := ss.Val.Strip()
		where := p.InstrPos(ss.Instr)
		key := "writer:" + FuncName(ss.Fn)
		if z, ok := v.ConstInt(); ok && z == 0 {
			shapes["clear"]++
			c.Ok("R1", key+":clear", where, "0")
			continue
		}
		ok, shape, d := false, "", "deadline value "+v.String()+" has none of the accepted shapes (Unix(Now+ActionTime s), 0, Unix(Unix(old)+duration s))"
		if v.IsCall("time.Time.Unix") && v.Args[0].IsCall("time.Time.Add") {
			add := v.Args[0].Strip()
			base, dur := add.Args[0].Strip(), secondsOf(add.Args[1])
			switch {
			case dur == nil:
				d = "the added duration " + add.Args[1].String() + " is not <seconds> × time.Second"
			case base.IsCall("time.Now") && dur.IsField("TableMeta", "ActionTime"):
				ok, shape = true, "turn"
			case base.IsCall("time.Unix") && base.Args[0].Strip().IsField("TableState", "CurrentActionEndAt") && dur.Kind == "param":
				if z, isZ := base.Args[1].ConstInt(); isZ && z == 0 {
					ok, shape = true, "extend"
					// the function returns exactly the stored value
					for _, b := range ss.Fn.Blocks {
						for _, in := range b.Instrs {
							if r, isR := in.(*ssa.Return); isR && len(r.Results) == 2 {
								if p.Sym(r.Results[0]).Strip().String() != v.String() {
									ok, d = false, "the extension returns "+p.Sym(r.Results[0]).String()+", not the deadline it stored"
								}
							}
						}
					}
				}
			default:
				d = fmt.Sprintf("deadline computed from %s + %s s", base, dur)
			}
		}
		if ok {
			shapes[shape]++
			c.Ok("R1", key+":"+shape, where, shape)
		} else {
			c.Bad("R1", key, where, d)
		}
	}
	c.Min("R1", "deadline writers", n, 4)
	// R3: necessary atoms of the turn predicate
	for _, ss := range p.FieldStores("TableState", "CurrentActionEndAt") {
		if storeIsLocal(ss.Instr) || !ss.Val.IsCall("time.Time.Unix") || !ss.Val.Strip().Args[0].IsCall("time.Time.Add") || !ss.Val.Strip().Args[0].Strip().Args[0].IsCall("time.Now") {
			continue
		}
		gs := p.Guards(ss.Instr)
		where := p.InstrPos(ss.Instr)
		isCur := func(s *Sym) bool {
			s = s.Strip()
			return s.IsCall("pokerface.GameState.GetPlayer") && len(s.Args) == 2 && s.Args[1].Strip().IsField("Status", "CurrentPlayer")
		}
		playing := cmpHolds(gs, func(l, r *Sym, op token.Token) bool {
			v, _ := r.ConstString()
			return op == token.EQL && l.Strip().IsField("TableState", "Status") && v == "table_game_playing"
		})
		started := cmpHolds(gs, func(l, r *Sym, op token.Token) bool {
			z, ok := r.ConstInt()
			return op == token.EQL && ok && z == gameEventConst(p, "GameEvent_RoundStarted") && l.Strip().Kind == "param"
		})
		round := guardedBy(gs, true, func(s *Sym) bool {
			return s.IsCall("funk.Contains") && len(s.Args) == 2 && s.Args[1].Strip().IsField("Status", "Round")
		})
		asked := cmpHolds(gs, func(l, r *Sym, op token.Token) bool {
			return op == token.GTR && r.Strip().Name == "0" && l.IsCall("len") && l.Strip().Args[0].Strip().Kind == "field" && l.Strip().Args[0].Strip().Name == "AllowedActions" && isCur(l.Strip().Args[0].Strip().Args[0])
		})
		notActed := guardedBy(gs, false, func(s *Sym) bool {
			return s.Kind == "field" && s.Name == "Acted" && isCur(s.Args[0])
		})
		// the lists the predicate tests membership in are complete: a betting round or a wager action
		// missing from them is a turn that gets no deadline
		constSet := func(vals []ssa.Value) map[string]bool {
			out := map[string]bool{}
			for _, v := range vals {
				if sv, isS := p.Sym(v).ConstString(); isS {
					out[sv] = true
				} else {
					return nil
				}
			}
			return out
		}
		var fns []*ssa.Function
		fns = append(fns, ss.Fn)
		for _, ci := range Calls(ss.Fn) {
			if g := ci.Common().StaticCallee(); g != nil && p.IsRepoFunc(g) {
				fns = append(fns, g)
			}
		}
		nRoundList, nActionList := 0, 0
		for _, f := range fns {
			for _, ci := range Calls(f) {
				cs := p.CallSym(ci)
				if cs.Name != "funk.Contains" || len(cs.Args) != 2 {
					continue
				}
				x := cs.Args[1].Strip()
				var want []string
				var what, key string
				switch {
				case x.IsField("Status", "Round") && f == ss.Fn:
					want, what, key = []string{"preflop", "flop", "turn", "river"}, "betting round", "betting-rounds-complete"
					nRoundList++
				case x.Contains(func(y *Sym) bool { return y.Kind == "field" && y.Name == "AllowedActions" }) || (x.Kind == "index" && f != ss.Fn && len(f.Params) >= 1):
					want, what, key = []string{"call", "raise", "allin", "check", "fold", "bet"}, "wager action", "wager-actions-complete"
					nActionList++
				default:
					continue
				}
				set := constSet(p.sliceValues(ci.Common().Args[0]))
				if set == nil || len(set) == 0 {
					c.Undecided("R3", "turn-predicate:"+key, p.InstrPos(ci), "the list tested for the "+what+" is not a literal (directly or through a package variable set once)")
					continue
				}
				var missing []string
				for _, w := range want {
					if !set[w] {
						missing = append(missing, w)
					}
				}
				c.Check(len(missing) == 0, "R3", "turn-predicate:"+key, p.InstrPos(ci), fmt.Sprintf("every %s is in the list (%d entries)", what, len(set)), fmt.Sprintf("the %s list of the turn predicate lacks %v: a player asked in that case gets no deadline", what, missing))
			}
		}
		c.Min("R3", "betting-round lists of the turn predicate", nRoundList, 1)
		_ = nActionList // a predicate without the wager-action filter publishes more deadlines, not fewer: nothing to demand
		for _, a := range []struct {
			name string
			ok   bool
			why  string
		}{
			{"status-playing", playing, "a deadline can be published while no hand is being played"},
			{"round-started-event", started, "a deadline can be published on an event other than the start of a betting turn"},
			{"betting-round", round, "a deadline can be published outside the betting rounds"},
			{"player-is-asked", asked, "a deadline can be published although the current player has no allowed action"},
			{"player-has-not-acted", notActed, "the 'has not yet acted' test no longer reads the hand engine's Acted flag of the current player: a player asked again after a raise (or one who already acted) gets a wrong deadline"},
		} {
			c.Check(a.ok, "R3", "turn-predicate:"+a.name, where, a.name, a.why)
		}
	}
	c.Check(shapes["turn"] >= 1 && shapes["extend"] >= 1 && shapes["clear"] >= 2, "R1", "all-shapes-present", "-", fmt.Sprintf("turn=%d extend=%d clear=%d", shapes["turn"], shapes["extend"], shapes["clear"]), fmt.Sprintf("a deadline writer is missing (turn=%d extend=%d clear=%d)", shapes["turn"], shapes["extend"], shapes["clear"]))
	esc := p.addrEscapes("TableState", "CurrentActionEndAt")
	c.Check(len(esc) == 0, "R1", "no-address-escape", "-", "address used only by loads/stores", "the deadline's address escapes")

	// R5 one delivery per state
	{
		nSend := 0
		for _, f := range p.Funcs {
			if !inModule(p, f) {
				continue
			}
			for _, b := range f.Blocks {
				for _, in := range b.Instrs {
					snd, isSend := in.(*ssa.Send)
					if !isSend || !p.Sym(snd.Chan).Strip().IsField("game", "incomingStates") {
						continue
					}
					nSend++
					fresh := false
					for _, ss := range p.Stores([]*ssa.Function{f}) {
						if ss.Owner == "game" && ss.Field == "gs" && ss.ValV == snd.X && Dominates(ss.Instr, in) {
							fresh = true
						}
					}
					c.Check(fresh, "R5", "state-feed:"+FuncName(f), p.InstrPos(in), "sends the state it has just stored as the hand's current state", FuncName(f)+" puts "+p.Sym(snd.X).Strip().String()+" on the hand's state channel without having stored it as the new current state: a state that was delivered before is delivered again, and the engine's hook treats a round-started state with an unmoved player as a fresh request (the running turn's deadline and any extension are overwritten)")
				}
			}
		}
		c.Min("R5", "sends on the hand's state channel", nSend, 1)
	}

	// R2 wiring
	et := p.singleImpl("", "TableEngine")
	gt := p.singleImpl("", "Game")
	if et == nil || gt == nil {
		c.Bad("R2", "anchors", "-", "engine / hand not found")
		return
	}
	var startFn *ssa.Function
	var startCall, regCall *ssa.Call
	for _, f := range p.Methods(et) {
		for _, ci := range Calls(f) {
			if call, ok := ci.(*ssa.Call); ok {
				switch calleeName(call.Common()) {
				case "Game.Start":
					startFn, startCall = f, call
				}
			}
		}
	}
	if startFn != nil {
		for _, ci := range Calls(startFn) {
			if call, ok := ci.(*ssa.Call); ok && calleeName(call.Common()) == "Game.OnGameRoundClosed" {
				regCall = call
			}
		}
	}
	okReg := regCall != nil && startCall != nil && Dominates(regCall, startCall)
	if okReg {
		// the registered closure clears the deadline
		hs := closureOperands(regCall.Call.Args[0])
		clears := false
		if len(hs) == 1 {
			for _, ss := range p.Stores(hs) {
				if ss.Owner == "TableState" && ss.Field == "CurrentActionEndAt" {
					if z, ok := ss.Val.ConstInt(); ok && z == 0 && ss.Instr.Block() == hs[0].Blocks[0] {
						clears = true
					}
				}
			}
		}
		okReg = clears
	}
	c.Check(okReg, "R2", "clear-hook-registered-before-start", p.Pos(startFn.Pos()), "round-close hook that stores 0 registered before Start", "no round-close hook clearing the deadline is registered with the hand before it starts")
	// hand stores the hook
	if f := p.Method(gt, "OnGameRoundClosed"); f != nil {
		ok := false
		for _, ss := range p.Stores([]*ssa.Function{f}) {
			if ss.Addr.Strip().IsField("game", "onGameRoundClosed") && ss.ValV == ssa.Value(f.Params[1]) {
				ok = true
			}
		}
		c.Check(ok, "R2", "hand-stores-hook", p.Pos(f.Pos()), "setter stores the hook", "the hand's OnGameRoundClosed setter does not store the hook")
	} else {
		c.Bad("R2", "hand-stores-hook", "-", "setter not found")
	}
	// round-closed handler: invokes the hook before backend.Next
	var handler *ssa.Function
	for _, f := range p.Methods(gt) {
		callsHook, callsNext := false, false
		for _, ci := range Calls(f) {
			cm := ci.Common()
			if !cm.IsInvoke() && cm.StaticCallee() == nil && p.Sym(cm.Value).Strip().IsField("game", "onGameRoundClosed") {
				callsHook = true
			}
			if calleeName(cm) == "GameBackend.Next" {
				callsNext = true
			}
		}
		if callsHook && callsNext {
			handler = f
		}
	}
	if handler == nil {
		c.Bad("R2", "round-closed-handler", "-", "no hand function invokes the round-close hook and then asks the backend for the next step")
	} else {
		var hook, next ssa.Instruction
		for _, ci := range Calls(handler) {
			cm := ci.Common()
			if !cm.IsInvoke() && cm.StaticCallee() == nil && p.Sym(cm.Value).Strip().IsField("game", "onGameRoundClosed") {
				hook = ci
			}
			if calleeName(cm) == "GameBackend.Next" {
				next = ci
			}
		}
		c.Check(Dominates(hook, next), "R2", "hook-before-next", p.InstrPos(hook), "hook invoked on every path before Next", "the round-close hook is not invoked before the next step on every path")
		// dispatched for the round-closed event
		disp := false
		for _, f := range p.Funcs { // the table may be built by the constructor
			if !inModule(p, f) || f.Pkg == nil || f.Pkg.Pkg != gt.Obj().Pkg() {
				continue
			}
			for _, b := range f.Blocks {
				for _, in := range b.Instrs {
					if mu, ok := in.(*ssa.MapUpdate); ok {
						k := p.Sym(mu.Key).Strip()
						for _, fn := range closureOperands(mu.Value) {
							_ = fn
						}
						if kv, isC := k.ConstInt(); isC {
							if bm := boundMethodTarget(mu.Value); bm == handler && kv == gameEventConst(p, "GameEvent_RoundClosed") {
								disp = true
							}
						}
					}
				}
			}
		}
		c.Check(disp, "R2", "handler-dispatched-on-round-closed", p.Pos(handler.Pos()), "handlers[RoundClosed] = this handler", "the handler that clears the deadline is not the one dispatched for the round-closed event")
	}
	// continue step: store 0 on every path to a non-error exit
	for _, ss := range p.FieldStores("TableState", "Status") {
		if s, _ := ss.Val.ConstString(); s == "table_game_standby" {
			f := ss.Fn
			var clr ssa.Instruction
			for _, s2 := range p.Stores([]*ssa.Function{f}) {
				if s2.Owner == "TableState" && s2.Field == "CurrentActionEndAt" {
					if z, ok := s2.Val.ConstInt(); ok && z == 0 {
						clr = s2.Instr
					}
				}
			}
			c.Check(clr != nil && clr.Block() == f.Blocks[0], "R2", "between-hands-reset:"+FuncName(f), p.Pos(f.Pos()), "deadline reset to 0 in the entry block of the continue step", "the continue step does not reset the deadline on every path")
		}
	}
}

// boundMethodTarget: for a bound-method closure value (g.onRoundClosed) return the method.
func boundMethodTarget(v ssa.Value) *ssa.Function {
	mc, ok := v.(*ssa.MakeClosure)
	if !ok {
		return nil
	}
	fn, ok := mc.Fn.(*ssa.Function)
	if !ok {
		return nil
	}
	if fn.Synthetic == "" {
		return fn
	}
	// bound method wrapper: its single call is the target
	for _, b := range fn.Blocks {
		for _, in := range b.Instrs {
			if ci, ok := in.(ssa.CallInstruction); ok {
				if sc := ci.Common().StaticCallee(); sc != nil {
					return sc
				}
			}
		}
	}
	return nil
}

// gameEventConst returns the integer value of a pokerface GameEvent constant.
func gameEventConst(p *Prog, name string) int64 {
	for _, pk := range p.AllPkgs {
		if pk.PkgPath == "github.com/weedbox/pokerface" && pk.Types != nil {
			if o := pk.Types.Scope().Lookup(name); o != nil {
				if cst, ok := o.(interface {
					Val() interface{ String() string }
				}); ok {
					_ = cst
				}
				if cc, ok := o.(*typesConst); ok {
					_ = cc
				}
				return constObjInt(o)
			}
		}
	}
	return -999
}
