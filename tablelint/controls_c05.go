package main

func controlsC05() []Control {
	return []Control{
		{Name: "busted seats are not re-evaluated by the rotation", Expect: "R6", Mutate: replaceIn("(*seatManager).rotatePositions", "if sp != nil && !sp.Active() {", "if sp != nil && !sp.Active() && sp.HasChips {", 0)},
		{Name: "add-on refreshes has-chips from the bankroll before the credit", Expect: "R4", Mutate: replaceIn("(*tableEngine).PlayerRedeemChips", "te.sm.UpdatePlayerHasChips(playerState.PlayerID, true)", "te.sm.UpdatePlayerHasChips(playerState.PlayerID, playerState.Bankroll > 0)", 0)},
		{Name: "dealt-in flag copied from IsIn", Expect: "R1", Mutate: replaceIn("(*tableEngine).openGame", "player.IsParticipated = active", "player.IsParticipated = active || player.IsIn", 0)},
		{Name: "dealt-in flags computed before the rotation", Expect: "R1", Mutate: replaceIn("(*tableEngine).openGame", "\t// Step 4: 計算座位\n", "\tfor i := 0; i < len(cloneTable.State.PlayerStates); i++ {\n\t\tplayer := cloneTable.State.PlayerStates[i]\n\t\tactive, err := te.sm.IsPlayerActive(player.PlayerID)\n\t\tif err != nil {\n\t\t\treturn oldTable, err\n\t\t}\n\t\tplayer.IsParticipated = active\n\t}\n\t// Step 4: 計算座位\n", 0)},
		{Name: "open step returns the clone on a failed rotation", Expect: "R1", Mutate: replaceIn("(*tableEngine).openGame", "if err := te.sm.RotatePositions(); err != nil {\n\t\t\treturn oldTable, ErrTableOpenGameFailed", "if err := te.sm.RotatePositions(); err != nil {\n\t\t\treturn cloneTable, ErrTableOpenGameFailed", 0)},
		{Name: "hand list ignores the dealt-in flag", Expect: "R2", Mutate: replaceIn("(*tableEngine).calcGamePlayerIndexes", "if playerIdx >= 0 && players[playerIdx].IsParticipated {", "if playerIdx >= 0 {", 1)},
		{Name: "continue step does not refresh has-chips", Expect: "R4", Mutate: replaceIn("(*tableEngine).continueGame", "if err := te.sm.UpdatePlayerHasChips(playerState.PlayerID, playerState.Bankroll > 0); err != nil {\n\t\t\treturn err\n\t\t}\n", "", 0)},
		{Name: "add-on does not refresh has-chips", Expect: "R4", Mutate: replaceIn("(*tableEngine).PlayerRedeemChips", "if err := te.sm.UpdatePlayerHasChips(playerState.PlayerID, true); err != nil {\n\t\treturn err\n\t}\n", "", 0)},
		{Name: "rotation rewrites the waiting flag of eligible players too", Expect: "R6", Mutate: replaceIn("(*seatManager).rotatePositions", "if sp != nil && !sp.Active() {", "if sp != nil {", 0)},
		{Name: "new seat never waits", Expect: "R5", Mutate: replaceIn("(*seatManager).AssignSeats", "isBetweenDealerBB = sm.IsPlayerBetweenDealerBB(playerID)", "isBetweenDealerBB = false", 0)},
		{Name: "waiting predicate true on short deck", Expect: "R5", Mutate: replaceIn("(*seatManager).IsPlayerBetweenDealerBB", "if sm.Rule == Rule_ShortDeck {\n\t\treturn false\n\t}\n", "", 0)},
		{Name: "failed init reported as a generic error", Expect: "R7", Mutate: replaceIn("(*tableEngine).openGame", "if err := te.sm.InitPositions(true); err != nil {\n\t\t\treturn oldTable, ErrTableOpenGameFailed", "if err := te.sm.InitPositions(true); err != nil {\n\t\t\treturn oldTable, err", 0)},
		{Name: "has-chips refreshed from the dealt-in flag", Expect: "R4", Mutate: replaceIn("(*tableEngine).continueGame", "playerState.Bankroll > 0); err != nil", "playerState.IsParticipated); err != nil", 0)},
		{Name: "wrap-around waiting arc includes the big-blind seat", Expect: "R5", Mutate: replaceIn("(*seatManager).isBetweenDealerBB", "i < (bbSeatID + sm.MaxSeat)", "i <= (bbSeatID + sm.MaxSeat)", 0)},
		{Name: "waiting arc includes the dealer seat", Expect: "R5", Mutate: replaceIn("(*seatManager).isBetweenDealerBB", "targetSeatID > dealerSeatID", "targetSeatID >= dealerSeatID", 0)},
		{Name: "dealt-in flag set by the join operation", Expect: "R1", Mutate: replaceIn("(*tableEngine).PlayerJoin", "te.table.State.PlayerStates[playerIdx].IsIn = true\n", "te.table.State.PlayerStates[playerIdx].IsIn = true\n\tte.table.State.PlayerStates[playerIdx].IsParticipated = true\n", 0)},
		{Name: "open step reports success with the old table when cloning fails to fail", Expect: "R1", Mutate: replaceIn("(*tableEngine).openGame", "cloneTable, err := oldTable.Clone()\n\tif err != nil {", "cloneTable, err := oldTable.Clone()\n\tif err == nil {", 0)},
		{Name: "positions re-initialised on every hand", Expect: "R1", Mutate: replaceIn("(*tableEngine).openGame", "if !te.sm.IsInitPositions() {", "if te.sm.IsInitPositions() {", 0)},
		{Name: "wrap test also taken when dealer and big blind coincide", Expect: "R5", Mutate: replaceIn("(*seatManager).isBetweenDealerBB", "if bbSeatID-dealerSeatID < 0 {", "if bbSeatID-dealerSeatID <= 0 {", 0)},
		{Name: "wrap loop answers true on a miss", Expect: "R5", Mutate: replaceIn("(*seatManager).isBetweenDealerBB", "if i%sm.MaxSeat == targetSeatID {", "if i%sm.MaxSeat != targetSeatID {", 0)},
		{Name: "non-wrapping answer is a disjunction", Expect: "R5", Mutate: replaceIn("(*seatManager).isBetweenDealerBB", "targetSeatID < bbSeatID && targetSeatID > dealerSeatID", "targetSeatID < bbSeatID || targetSeatID > dealerSeatID", 0)},
		{Name: "waiting predicate asks the arc from big blind to dealer", Expect: "R5", Mutate: replaceIn("(*seatManager).IsPlayerBetweenDealerBB", "sm.isBetweenDealerBB(sm.CurrentDealerSeatID(), sm.CurrentBBSeatID(), seatID)", "sm.isBetweenDealerBB(sm.CurrentBBSeatID(), sm.CurrentDealerSeatID(), seatID)", 0)},
		{Name: "has-chips refresh writes the seated-in flag", Expect: "R9", Mutate: replaceIn("(*seatManager).UpdatePlayerHasChips", "sm.SeatData[seatID].HasChips = hasChips", "sm.SeatData[seatID].IsIn = hasChips", 0)},
		{Name: "eligibility query answers true for an unknown id", Expect: "R9", Mutate: replaceIn("(*seatManager).IsPlayerActive", "return false, err", "return true, err", 0)},
		{Name: "positions never marked initialised", Expect: "R9", Mutate: replaceIn("(*seatManager).InitPositions", "\tsm.IsInit = true\n", "", 0)},
		{Name: "rotation re-evaluates waiting with dealer and big blind swapped", Expect: "R6", Mutate: replaceIn("(*seatManager).rotatePositions", "sm.isBetweenDealerBB(tempNewDealerSeatID, newBBSeatID, seatID)", "sm.isBetweenDealerBB(newBBSeatID, tempNewDealerSeatID, seatID)", 0)},
		{Name: "newly seated player has no chips", Expect: "R9", Mutate: replaceIn("(*seatManager).newSeatPlayer", "HasChips: true,", "HasChips: false,", 0)},
	}
}
