package main

func controlsC15() []Control {
	return []Control{
		{Name: "deadline in milliseconds", Expect: "R1", Mutate: replaceIn("(*tableEngine).updateCurrentActionEndAt", "time.Now().Add(time.Second * time.Duration(te.table.Meta.ActionTime))", "time.Now().Add(time.Millisecond * time.Duration(te.table.Meta.ActionTime))", 0)},
		{Name: "deadline uses twice the action time", Expect: "R1", Mutate: replaceIn("(*tableEngine).updateCurrentActionEndAt", "time.Duration(te.table.Meta.ActionTime)", "time.Duration(te.table.Meta.ActionTime*2)", 0)},
		{Name: "round-close hook does not clear", Expect: "R2", Mutate: replaceIn("(*tableEngine).startGame", "te.table.State.CurrentActionEndAt = 0", "", 0)},
		{Name: "extension measured from now instead of the old deadline", Expect: "R1", Mutate: replaceIn("(*tableEngine).PlayerExtendActionDeadline", "endAt := time.Unix(te.table.State.CurrentActionEndAt, 0)", "endAt := time.Now()", 0)},
		{Name: "extension returns the old deadline", Expect: "R1", Mutate: replaceIn("(*tableEngine).PlayerExtendActionDeadline", "return currentActionEndAt, nil", "return endAt.Unix(), nil", 0)},
		{Name: "continue step keeps the deadline", Expect: "R2", Mutate: replaceIn("(*tableEngine).continueGame", "te.table.State.CurrentActionEndAt = 0\n", "", 0)},
		{Name: "hand asks for the next step before invoking the hook", Expect: "R2", Mutate: replaceIn("(*game).onRoundClosed", "g.onGameRoundClosed(gs)\n\n\t// Next round automatically\n\tgs, err := g.backend.Next(gs)", "gs, err := g.backend.Next(gs)\n\tg.onGameRoundClosed(gs)", 0)},
		{Name: "pause also pushes the deadline", Expect: "R1", Mutate: replaceIn("(*tableEngine).PauseTable", "te.table.State.Status = TableStateStatus_TablePausing", "te.table.State.Status = TableStateStatus_TablePausing\n\tte.table.State.CurrentActionEndAt += 60", 0)},
		{Name: "turn predicate reads DidAction instead of Acted", Expect: "R3", Mutate: replaceIn("(*tableEngine).updateCurrentActionEndAt", "!p.Acted", "p.DidAction == \"\"", 0)},
		{Name: "deadline published on every event of a playing hand", Expect: "R3", Mutate: replaceIn("(*tableEngine).updateCurrentActionEndAt", "event == pokerface.GameEvent_RoundStarted && ", "", 0)},
		{Name: "engine hook no longer drives the deadline updater", Expect: "R4", Mutate: replaceIn("(*tableEngine).updateGameState", "\t\tte.updateCurrentActionEndAt(event, gs)\n", "", 0)},
		{Name: "river is not a timed round", Expect: "R3", Mutate: replaceIn("(*tableEngine).updateCurrentActionEndAt", "GameRound_Turn, GameRound_River}", "GameRound_Turn}", 0)},
		{Name: "a bet offer is not a wager request", Expect: "R3", Mutate: replaceIn("(*tableEngine).updateCurrentActionEndAt", "WagerAction_Fold, WagerAction_Bet}", "WagerAction_Fold}", 0)},
		{Name: "a refused move puts the current state on the channel again", Expect: "R5", Mutate: replaceIn("(*game).Check", "if err := g.validatePlayMove(playerIdx); err != nil {", "if err := g.validatePlayMove(playerIdx); err != nil {\n\t\tg.incomingStates <- g.gs", 0)},
		{Name: "leave publishes a copy of the state object in place of the live one", Expect: "R6", Mutate: replaceIn("(*tableEngine).batchRemovePlayers", "\tte.table.State.GamePlayerIndexes = newGamePlayerIndexes\n", "\tte.table.State.GamePlayerIndexes = newGamePlayerIndexes\n\tnewState := *te.table.State\n\tte.table.State = &newState\n", 0)},
	}
}
