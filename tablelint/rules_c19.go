package main

// C19 — auto-play for an unresponsive player never volunteers chips.

import (
	"fmt"
	"go/token"
	"go/types"
	"strings"

	"golang.org/x/tools/go/ssa"
)

func init() {
	register(&PropMeta{
		ID:          "C19",
		Level:       "other",
		Explanation: "Decides that the player runner's automation cannot volunteer chips: (R1) the call closure of the runner's table-update entry point (static calls, interface calls and every closure created inside it — an over-approximation) contains Actions calls only to pass, ready, check, fold and pay; the manual API of the runner is outside that closure; (R2) each automated action is guarded by the hand allowing exactly that action, with the priority pass ≫ ready > check > fold (check only on the not-ready edge, fold only on the not-ready ∧ not-check edge); (R3) pay amounts are exactly the posted ante under the ante-requested event and the posted SB / BB / dealer blind under the blinds-requested event with the matching position guard; (R4) the automation runs only when the player is suspended or inside the task handed to the time bank with duration ActionTime × Second, on the not-cancelled edge. (R5) the runner's time bank is assigned only by the constructor — so the next request's NewTask always cancels the pending task and no orphaned task can auto-play a stale request before the new thinking time has elapsed — and no time-bank operation lies on a path into the stale exit of the view handler. NOT decided: that the time bank fires no earlier than the duration.",
		Rules: map[string]string{
			"R7": "the view handler arms the timer only while a hand is played, for the hand index the table gives for the runner's own player id (found), and only when that entry has allowed actions",
			"R1": "call closure of the auto-play entry point reaches only pass/ready/check/fold/pay; no known-nil error returned",
			"R2": "guard ↔ action agreement and priority order",
			"R3": "pay amounts are the posted ante / blind for the player's position, and the Actions wrapper and engine adapter forward operation, id and amount unchanged to the engine (shared with C18.R5)",
			"R4": "automation only when suspended or inside the action-time timer callback (not cancelled)",
			"R8": "the actor hands every view to its runner with its own mutex held exclusively: the runner's freshness test and update (check-then-set, no lock of its own) are atomic only because of that — without it one request is answered twice / two timers are armed",
			"R6": "receiver discipline: no method of these types assigns to a field of a value receiver (the assignment would be lost) or copies a sync.* field through its receiver (player runner — status, idle count, remembered view time —, actor, actions, engine adapter)",
			"R5": "timer discipline: the runner's time bank is created once, by the constructor (a replaced time bank orphans the pending task, which then auto-plays a stale request before the new thinking time has elapsed); a view discarded by the staleness filter performs no time-bank operation",
		},
		Assumptions: []string{"timebank.NewTask(d, fn) does not call fn(false) before d has elapsed (d > 0)"},
		Run:         checkC19,
		Controls:    controlsC19,
	})
}

func hasActionGuard(gs []Guard, val bool, idx *Sym, name string) bool {
	return guardedBy(gs, val, func(s *Sym) bool {
		if !s.IsCall("pokerface.GameState.HasAction") || len(s.Args) != 3 {
			return false
		}
		n, _ := s.Args[2].ConstString()
		return n == name && (idx == nil || s.Args[1].Strip().String() == idx.String())
	})
}

func hasPositionGuard(gs []Guard, val bool, name string) bool {
	return guardedBy(gs, val, func(s *Sym) bool {
		if !s.IsCall("pokerface.GameState.HasPosition") || len(s.Args) != 3 {
			return false
		}
		n, _ := s.Args[2].ConstString()
		return n == name
	})
}

// eventGuard: guards establish CurrentEvent == GameEventSymbols[<event>]
func eventGuard(p *Prog, gs []Guard, event string) bool {
	k := gameEventConst(p, event)
	return cmpHolds(gs, func(l, r *Sym, op token.Token) bool {
		if op != token.EQL || !l.Strip().IsField("Status", "CurrentEvent") {
			return false
		}
		rs := r.Strip()
		if rs.Kind != "lookup" || rs.Args[0].Strip().Kind != "global" || !strings.HasSuffix(rs.Args[0].Strip().Name, "GameEventSymbols") {
			return false
		}
		z, ok := rs.Args[1].ConstInt()
		return ok && z == k
	})
}

// checkPayAmount (C19.R3 / C18.R4): the Pay call's amount is the posted one for its guards.
func checkPayAmount(c *Ctx, rule, key string, ci ssa.CallInstruction) {
	p := c.P
	gs := p.Guards(ci)
	amt := p.Sym(ci.Common().Args[0]).Strip()
	where := p.InstrPos(ci)
	switch {
	case eventGuard(p, gs, "GameEvent_AnteRequested"):
		// the amount posted for THIS hand: the hand state's Meta.Ante (not the table's blind level)
		ok := amt.IsField("Meta", "Ante") && amt.Args[0].Strip().IsField("GameState", "Meta")
		c.Check(ok, rule, key+":ante", where, "pays the hand's Meta.Ante", "under the ante request the automation pays "+amt.String()+" instead of the ante posted for this hand (GameState.Meta.Ante)")
	case eventGuard(p, gs, "GameEvent_BlindsRequested"):
		var want string
		switch {
		case hasPositionGuard(gs, true, "sb"):
			want = "SB"
		case hasPositionGuard(gs, true, "bb") && hasPositionGuard(gs, false, "sb"):
			want = "BB"
		case hasPositionGuard(gs, false, "bb") && hasPositionGuard(gs, false, "sb"):
			want = "Dealer"
		}
		ok := want != "" && amt.Kind == "field" && amt.Owner == "BlindSetting" && amt.Name == want &&
			amt.Args[0].Strip().IsField("Meta", "Blind") && amt.Args[0].Strip().Args[0].Strip().IsField("GameState", "Meta")
		c.Check(ok, rule, key+":blind:"+want, where, "pays Blind."+want+" for that position", fmt.Sprintf("under the blinds request the automation pays %s; for this position guard the posted blind is Blind.%s", amt, want))
	default:
		c.Bad(rule, key+":unconditioned", where, "a payment of "+amt.String()+" is made outside the ante / blinds request events")
	}
}

func checkC19(c *Ctx) {
	p := c.P
	checkReceiverDiscipline(c, "R6", p.implementersIn("/actor", "Runner", "Actor", "Actions", "Adapter"), 30)
	checkActorSerialisesRunner(c, "R8")
	checkNoKnownNilErrorReturn(c, "R1", func(f *ssa.Function) bool { return inPkg(p, f, "/actor") }, 5)
	ri := p.Iface("/actor", "Runner")
	if ri == nil {
		c.Bad("R1", "anchors", "-", "Runner interface not found")
		return
	}
	// the player runner: the Runner implementation that owns a time bank and a status
	var entry *ssa.Function
	var runnerT *types.Named
	for _, t := range p.Implementers(ri) {
		hasStatus := false
		for _, f := range p.Methods(t) {
			for _, ss := range p.Stores([]*ssa.Function{f}) {
				if ss.Field == "status" && ss.Owner == canonTypeName(t.Obj()) {
					hasStatus = true
				}
			}
		}
		if hasStatus {
			entry = p.Method(t, "UpdateTableState")
			runnerT = t
		}
	}
	if entry == nil {
		c.Bad("R1", "player-runner", "-", "no runner with a suspend status found")
		return
	}
	// ---------------- R3 (part): what auto-play decides to submit is what reaches the engine — the Actions
	// wrapper and the engine adapter forward the same-named operation with the same id and amount, unchanged
	// (shared with C18.R5)
	checkActionForwarding(c, "R3")
	// ---------------- R5 timer discipline (shared with C18.R7)
	checkRunnerTimer(c, "R5", runnerT, entry)
	// ---------------- R7 whom the runner arms its timer for: its own entry of the hand, and only when that entry is
	// asked — the request is made while a hand is played, for the index the table gives for the runner's own player
	// id (found, i.e. not -1), whose allowed actions are not empty
	{
		nReq := 0
		for _, ci := range Calls(entry) {
			g := ci.Common().StaticCallee()
			if g == nil || g.Signature.Recv() == nil || namedOf(recvTypeOf(g)) != runnerT || p.reachesTimeBank(g, 2, map[*ssa.Function]bool{}) == "" {
				continue
			}
			if len(ci.Common().Args) < 3 {
				continue
			}
			nReq++
			where := p.InstrPos(ci)
			gs := p.Guards(ci)
			idx := p.Sym(ci.Common().Args[2]).Strip()
			own := idx.Kind == "call" && strings.HasSuffix(idx.Name, "GamePlayerIndex") && len(idx.Args) >= 2 && idx.Args[len(idx.Args)-1].Strip().IsField(canonTypeName(runnerT.Obj()), "playerID")
			if own && strings.HasPrefix(idx.Name, "Adapter.") {
				// … through the adapter, whose answer is the table's own look-up on its private copy
				if ai := p.Iface("/actor", "Adapter"); ai != nil {
					for _, t := range p.Implementers(ai) {
						f := p.Method(t, "GetGamePlayerIndex")
						okA := false
						if f != nil && len(f.Params) == 2 {
							for _, b := range f.Blocks {
								for _, in := range b.Instrs {
									if r, isR := in.(*ssa.Return); isR && len(r.Results) == 1 {
										rv := p.Sym(r.Results[0]).Strip()
										if rv.IsCall("Table.GamePlayerIndex") && len(rv.Args) == 2 && symIsParam(rv.Args[1].Strip(), f.Params[1]) && rv.Args[0].Strip().Contains(func(x *Sym) bool { return x.IsField(canonTypeName(t.Obj()), "table") }) {
											okA = true
										}
									}
								}
							}
						}
						c.Check(okA, "R7", "request:adapter-index:"+canonTypeName(t.Obj()), posOf(p, f), "GetGamePlayerIndex(id) = the private table copy's GamePlayerIndex(id)", "the adapter's hand-index look-up is not the table's own look-up of the id it is given on the adapter's table copy")
					}
				}
			}
			c.Check(own, "R7", "request:own-hand-index", where, "the timer is armed for the hand index of the runner's own player id", "the player runner arms its timer for hand index "+idx.String()+", which is not the index the table gives for its own player id: it would act for somebody else, or never for its own player")
			playing := cmpHolds(gs, func(l, r *Sym, op token.Token) bool {
				sv, _ := r.ConstString()
				return op == token.EQL && l.Strip().IsField("TableState", "Status") && sv == "table_game_playing"
			})
			c.Check(playing, "R7", "request:status-playing", where, "only while a hand is being played", "the player runner can arm its timer when the table is not playing")
			found := cmpHolds(gs, func(l, r *Sym, op token.Token) bool {
				return op == token.NEQ && r.Strip().Name == "-1" && l.Strip().String() == idx.String()
			})
			c.Check(found, "R7", "request:own-index-found", where, "only when dealt in", "the player runner can arm its timer although its player is not in the hand (index -1)")
			asked := cmpHolds(gs, func(l, r *Sym, op token.Token) bool {
				if !(op == token.GTR && l.IsCall("len") && r.Strip().Name == "0") {
					return false
				}
				a := l.Strip().Args[0].Strip()
				return a.Kind == "field" && a.Name == "AllowedActions" && a.Args[0].Strip().IsCall("pokerface.GameState.GetPlayer") && a.Args[0].Strip().Args[1].Strip().String() == idx.String()
			})
			// … and only for a view that passed the freshness comparison, whatever hand it says it is of (C18.R6's
			// obligation for the bot; here a late view of an earlier hand would re-arm the timer with that hand's
			// state, and auto-play would then pay the blind that was due in the hand that is over)
			checkFilterOnEveryView(c, "R7", entry, ci, canonTypeName(runnerT.Obj()))
			c.Check(asked, "R7", "request:own-entry-is-asked", where, "only when the runner's own entry has allowed actions", "the player runner arms its timer without testing that its own entry of the hand is asked for anything")
		}
		c.Min("R7", "move requests in the player runner's view handler", nReq, 1)
	}
	allowed := map[string]bool{"Pass": true, "Ready": true, "Check": true, "Fold": true, "Pay": true}
	reach := p.CG().Reach([]*ssa.Function{entry}, ReachOpts{Creation: true, RepoOnly: true})
	c.Count("functions_in_autoplay_closure", len(reach.Order))
	// ---------------- R1
	nAct := 0
	type site struct {
		ci ssa.CallInstruction
		m  string
	}
	var sites []site
	for _, g := range reach.Order {
		for _, ci := range Calls(g) {
			cm := ci.Common()
			if !cm.IsInvoke() {
				continue
			}
			it := namedOf(cm.Value.Type())
			if it == nil || it.Obj().Name() != "Actions" {
				continue
			}
			nAct++
			m := cm.Method.Name()
			if !allowed[m] {
				c.Bad("R1", "autoplay-reaches:"+m, p.InstrPos(ci), "the automatic play of the player runner can reach Actions."+m+": it would volunteer chips", reach.PathTo(p, g)...)
				continue
			}
			if fnName(g) == "UpdateTableState" || strings.HasPrefix(FuncName(g), FuncName(entry)) || namedOf(recvTypeOf(g)) == namedOf(recvTypeOf(entry)) {
				sites = append(sites, site{ci, m})
			}
		}
	}
	if nAct > 0 {
		c.Ok("R1", "autoplay-closure", p.Pos(entry.Pos()), fmt.Sprintf("%d functions reachable (closures counted at creation), %d Actions calls, all conservative", len(reach.Order), nAct))
	}
	c.Min("R1", "Actions calls in the auto-play closure", nAct, 8)
	// the manual API is outside the closure
	recv := namedOf(recvTypeOf(entry))
	for _, m := range []string{"Call", "Bet", "Raise", "Allin"} {
		if f := p.Method(recv, m); f != nil {
			_, in := reach.Parent[f]
			isRoot := false
			for _, r := range reach.Order {
				if r == f {
					isRoot = true
				}
			}
			c.Check(!in && !isRoot, "R1", "manual-api-outside:"+m, p.Pos(f.Pos()), "not reachable from the auto-play entry point", "the runner's manual "+m+" is reachable from the automatic play")
		}
	}

	// ---------------- R2 / R3
	for _, s := range sites {
		f := s.ci.Parent()
		gs := p.Guards(s.ci)
		where := p.InstrPos(s.ci)
		key := fnName(f) + ":" + s.m
		switch s.m {
		case "Pass":
			c.Check(hasActionGuard(gs, true, nil, "pass"), "R2", key, where, "pass only when pass is allowed", "pass is played without the hand allowing it")
		case "Ready":
			c.Check(hasActionGuard(gs, true, nil, "ready"), "R2", key, where, "ready only when allowed", "ready is played without the hand allowing it")
		case "Check":
			c.Check(hasActionGuard(gs, true, nil, "check") && hasActionGuard(gs, false, nil, "ready"), "R2", key, where, "check when allowed, after ready was excluded", "check is played without the hand allowing it or before ready was considered")
		case "Fold":
			c.Check(hasActionGuard(gs, true, nil, "fold") && hasActionGuard(gs, false, nil, "ready") && hasActionGuard(gs, false, nil, "check"), "R2", key, where, "fold only when neither ready nor check is possible", "the automation folds although ready or check was possible (or fold is not allowed)")
		case "Pay":
			c.Check(hasActionGuard(gs, false, nil, "ready") && hasActionGuard(gs, false, nil, "check") && hasActionGuard(gs, false, nil, "fold"), "R2", key, where, "pay only as the last resort", "the automation pays while ready/check/fold was possible")
			checkPayAmount(c, "R3", key, s.ci)
		}
	}
	// pass precedes everything in the move request
	var automate *ssa.Function
	for _, s := range sites {
		if s.m == "Ready" {
			automate = s.ci.Parent()
		}
	}
	if automate == nil {
		c.Bad("R4", "automation", "-", "automation function not found")
		return
	}
	// ---------------- R4
	n4 := 0
	for _, g := range reach.Order {
		for _, ci := range Calls(g) {
			if ci.Common().StaticCallee() != automate {
				continue
			}
			n4++
			gs := p.Guards(ci)
			where := p.InstrPos(ci)
			key := "automation-call:" + FuncName(g)
			notPass := hasActionGuard(gs, false, nil, "pass") || g.Parent() != nil
			susp := cmpHolds(gs, func(l, r *Sym, op token.Token) bool {
				z, ok := r.ConstInt()
				return op == token.EQL && l.Strip().Kind == "field" && l.Strip().Name == "status" && ok && z == 2
			})
			if susp {
				c.Check(notPass, "R4", key+":suspended", where, "immediate automation only when suspended", "immediate automation is not preceded by the pass check")
				continue
			}
			// inside a timer closure
			okTimer := false
			d := "the automation is called outside the suspended branch and outside the action-time timer callback"
			if g.Parent() != nil {
				if mc := p.parentMC[g]; mc != nil {
					if refs := mc.Referrers(); refs != nil {
						for _, r := range *refs {
							nt, isCall := r.(ssa.CallInstruction)
							if !isCall || calleeName(nt.Common()) != "timebank.TimeBank.NewTask" {
								continue
							}
							dur := secondsOf(p.Sym(nt.Common().Args[1]))
							if dur == nil || !dur.IsField("TableMeta", "ActionTime") {
								d = "the timer duration is " + p.Sym(nt.Common().Args[1]).String() + ", not ActionTime × Second"
								continue
							}
							if !guardedBy(gs, false, func(s *Sym) bool { return s.Kind == "param" }) {
								d = "the timer callback automates even when the task was cancelled"
								continue
							}
							okTimer = true
						}
					}
				}
			}
			c.Check(okTimer, "R4", key+":timer", where, "inside NewTask(ActionTime × Second) on the not-cancelled edge", d)
		}
	}
	c.Min("R4", "calls of the automation", n4, 2)
}

// recvTypeOf: receiver type of the method a function (or closure) belongs to.
func recvTypeOf(f *ssa.Function) types.Type {
	for f.Parent() != nil {
		f = f.Parent()
	}
	if f.Signature.Recv() == nil {
		return types.Typ[types.Invalid]
	}
	return f.Signature.Recv().Type()
}
