package main

func controlsC14() []Control {
	return []Control{
		{Name: "refused check reported as accepted (error shadowed)", Expect: "R8", Mutate: replaceIn("(*game).Check", "\tgs, err := g.backend.Check(g.gs)\n\tif err != nil {\n\t\treturn g.GetGameState(), err\n\t}\n", "\tgs, err := g.backend.Check(g.gs)\n\tif err != nil {\n\t\treturn g.GetGameState(), nil\n\t}\n", 0)},
		{Name: "c-bet recorded under the VPIP chance", Expect: "R1", Mutate: replaceIn("(*tableEngine).PlayerBet", "if playerState.GameStatistics.IsCBetChance {", "if playerState.GameStatistics.IsVPIPChance {", 0)},
		{Name: "call counted twice", Expect: "R2", Mutate: replaceIn("(*tableEngine).PlayerCall", "playerState.GameStatistics.CallTimes++", "playerState.GameStatistics.CallTimes++\n\t\tplayerState.GameStatistics.ActionTimes++", 0)},
		{Name: "pass counted as a raise", Expect: "R2", Mutate: replaceIn("(*tableEngine).PlayerPass", "te.emitGamePlayerActionEvent(*te.table.State.LastPlayerGameAction)", "te.emitGamePlayerActionEvent(*te.table.State.LastPlayerGameAction)\n\t\tte.table.State.PlayerStates[playerIdx].GameStatistics.RaiseTimes++", 0)},
		{Name: "statistics validator repaired: the latent wrong guard becomes live", Expect: "R1", Mutate: replaceIn("(*tableEngine).validateGameStatisticGameState", "pokerface.GameEventSymbols[pokerface.GameEvent_Started]", "pokerface.GameEventSymbols[pokerface.GameEvent_RoundStarted]", 0)},
		{Name: "check sets the fold flag", Expect: "R3", Mutate: replaceIn("(*tableEngine).PlayerCheck", "playerState.GameStatistics.CheckTimes++", "playerState.GameStatistics.CheckTimes++\n\t\tplayerState.GameStatistics.IsFold = true", 0)},
		{Name: "3-bet flag no longer cleared for the others", Expect: "R4", Mutate: replaceIn("(*tableEngine).refreshThreeBet", "} else {\n\t\t\t\tte.table.State.PlayerStates[i].GameStatistics.Is3B = false\n\t\t\t}", "}", 0)},
		{Name: "statistics constructor starts with one action", Expect: "R5", Mutate: replaceIn("NewPlayerGameStatistics", "ActionTimes: 0,", "ActionTimes: 1,", 0)},
		{Name: "showdown win recorded without a showdown", Expect: "R1", Mutate: replaceIn("(*tableEngine).settleGame", "playerState.GameStatistics.ShowdownWinningChance = false", "playerState.GameStatistics.ShowdownWinningChance = false\n\t\t\tplayerState.GameStatistics.IsShowdownWinning = true", 0)},
		{Name: "3-bet refresh guarded by another player's chance", Expect: "R4", Mutate: replaceIn("(*tableEngine).PlayerRaise", "te.refreshThreeBet(playerState, playerIdx)", "te.refreshThreeBet(te.table.State.PlayerStates[0], playerIdx)", 0)},
		{Name: "all-in raise bumps raises before actions are counted", Expect: "R2", Mutate: replaceIn("(*tableEngine).PlayerAllin", "playerState.GameStatistics.ActionTimes++\n", "", 0)},
		{Name: "chance statistics refreshed only when the table is not playing", Expect: "R6", Mutate: replaceIn("(*tableEngine).updateGameState", "if te.table.State.Status == TableStateStatus_TableGamePlaying {", "if te.table.State.Status != TableStateStatus_TableGamePlaying {", 0)},
		{Name: "3-bet chance re-evaluated on every state", Expect: "R7", Mutate: replaceIn("(*tableEngine).updateCurrentPlayerGameStatistics", "if te.is3BChance(currentGamePlayerIdx, gs) {\n\t\t\tcurrentPlayer.GameStatistics.Is3BChance = true\n\t\t}", "currentPlayer.GameStatistics.Is3BChance = te.is3BChance(currentGamePlayerIdx, gs)", 0)},
		{Name: "3-bet flag computed for everyone but the raiser", Expect: "R4", Mutate: replaceIn("(*tableEngine).refreshThreeBet", "if i == playerIdx {\n\t\t\t\tte.table.State.PlayerStates[i].GameStatistics.Is3B = true\n\t\t\t} else {\n\t\t\t\tte.table.State.PlayerStates[i].GameStatistics.Is3B = false\n\t\t\t}", "te.table.State.PlayerStates[i].GameStatistics.Is3B = i != playerIdx", 0)},
	}
}
