package main

// C13 — a failing game backend never corrupts a hand.

import (
	"fmt"
	"go/types"

	"golang.org/x/tools/go/ssa"
)

func init() {
	register(&PropMeta{
		ID:          "C13",
		Level:       "other",
		Explanation: "Decides, on every CFG path, that a backend failure leaves the hand untouched and is observed: (R1) in each hand method no store to the hand state, channel send, state update or invocation of one of the hand's listeners lies on any path to an error exit, and error exits return the stored state with the error; (R2) every call of a GameBackend method, and every self-driven group step (ReadyForAll/PayAnte/PayBlinds/Next issued by the hand itself), has its error tested and either returned or routed to the error callback; (R3) the engine registers an error handler before starting the hand and that handler, the open-game callback and the state-updated handler all reach the table error event; (R4) engine-side effects only on success (C10.R3 re-evaluated); (R5) the native backend works on a clone of its argument and returns a clone or nil. NOT decided: atomicity inside remote backends; that a retried action behaves identically (follows from R1/R5 only for the native backend).",
		Rules: map[string]string{
			"R1": "hand methods are pure on error: no hand-state store / send / state update / listener invocation on any path to an error exit; error exits return (stored state, err)",
			"R2": "every backend error is tested and propagated to the caller or to the error callback; never dropped; nothing is updated on the failing branch; no known-nil error returned (inverted test)",
			"R3": "error callback registered before Start; it and the engine's own step handlers reach the table error event; every On<X> setter of the hand and of the engine stores the callback into its own slot; a new engine's callback slots default to the same-named callbacks; the manager registers every callback of the caller's callbacks struct through the same-named setter",
			"R4": "engine action methods: effects only under err == nil (same analysis as C10.R3)",
			"R5": "native backend: NewGameFromState(clone(arg)); returns clone(state) on success, nil on error",
		},
		Assumptions: []string{"remote GameBackend implementations are outside the repo", "pokerface returns an error without side effects on the state object it was given (it operates on a clone anyway: R5)"},
		Run:         checkC13,
		Controls:    controlsC13,
	})
}

func gameWatch() *Watch { return gameWatchL(false) }

// gameWatchL: with listeners set, invoking one of the hand's listeners counts as an effect too (R1).
func gameWatchL(listeners bool) *Watch {
	name := "handstate"
	if listeners {
		name = "handstate+listeners"
	}
	return &Watch{Name: name, Direct: func(p *Prog, in ssa.Instruction) bool {
		if ss := p.storeSite(in); ss != nil {
			if storeIsLocal(in) {
				return false
			}
			// any store through the game object or into a hand state
			// (any field of the hand object counts: a flag raised before the backend is asked and lowered only by the
			// next state — an in-flight mark, a memo — stays raised when the backend fails)
			for a := ss.Addr.Strip(); a != nil; a = a.Base() {
				if a.Kind == "field" && a.Owner == "game" {
					return true
				}
			}
			return ss.Addr.PathHas("", "gs") && ss.Addr.Root().Kind == "param"
		}
		if _, ok := in.(*ssa.Send); ok {
			return true
		}
		if ci, ok := in.(ssa.CallInstruction); ok {
			if b, isB := ci.Common().Value.(*ssa.Builtin); isB && b.Name() == "close" {
				return true
			}
			// a listener of the hand invoked through one of its callback slots: what it does with the
			// state it is given is outside the hand method's control (the engine's error listener stores it)
			if listeners && !ci.Common().IsInvoke() && ci.Common().StaticCallee() == nil {
				if _, isB := ci.Common().Value.(*ssa.Builtin); !isB {
					if v := p.Sym(ci.Common().Value).Strip(); v.Kind == "field" && v.Owner == "game" {
						return true
					}
				}
			}
		}
		return false
	}}
}

func isBackendCall(cm *ssa.CallCommon) bool {
	if !cm.IsInvoke() {
		return false
	}
	n := namedOf(cm.Value.Type())
	return n != nil && n.Obj().Name() == "GameBackend"
}

func checkC13(c *Ctx) {
	p := c.P
	checkEngineCallbackDefaults(c, "R3")
	checkErrorEventArgs(c, "R3")
	checkManagerCallbackWiring(c, "R3")
	checkCallbackSetters(c, "R3", "tableEngine", 5)
	checkCallbackSetters(c, "R3", "game", 5)
	checkNoKnownNilErrorReturn(c, "R2", func(f *ssa.Function) bool { return inPkg(p, f, "") && f.Parent() == nil }, 20)
	gt := p.singleImpl("", "Game")
	if gt == nil {
		c.Bad("R1", "anchors", "-", "Game implementation not found")
		return
	}
	_ = gameWatch
	gwL := gameWatchL(true)
	// R1
	n := 0
	for _, f := range p.Methods(gt) {
		if errResultIndex(f.Signature) < 0 {
			continue
		}
		n++
		where := p.Pos(f.Pos())
		imps := p.ErrorImpurities(f, gwL)
		if len(imps) == 0 {
			c.Ok("R1", fnName(f)+":pure-on-error", where, "no hand-state mutation on any path to an error exit")
		}
		for _, im := range imps {
			if im.Mut == nil {
				c.Undecided("R1", fnName(f)+":pure-on-error", where, "path enumeration aborted")
				continue
			}
			c.Bad("R1", fnName(f)+":pure-on-error", p.InstrPos(im.Mut), fmt.Sprintf("hand state is modified (%s) on a path to the error exit at %s", instrText(p, im.Mut), p.InstrPos(im.Exit)), "path "+p.TrailString(f, im.Trail))
		}
		// error exits return the stored state
		if f.Signature.Results().Len() != 2 {
			continue
		}
		_, _, _, errRets, ab := p.ExitsWithGuards(f)
		if ab {
			c.Undecided("R1", fnName(f)+":error-returns-stored-state", where, "path enumeration aborted")
			continue
		}
		ok := true
		d := ""
		for _, r := range errRets {
			s := p.Sym(r.Results[0]).Strip()
			if !(s.IsCall("game.GetGameState") || s.IsField("game", "gs")) {
				ok, d = false, fmt.Sprintf("error exit at %s returns %s, not the stored hand state", p.InstrPos(r), s)
			}
		}
		c.Check(ok, "R1", fnName(f)+":error-returns-stored-state", where, fmt.Sprintf("%d error exit(s) return the stored state", len(errRets)), d)
	}
	c.Min("R1", "hand methods with an error result", n, 14)

	// R2: backend calls and self-driven steps
	checkBackendErrors(c, "R2", gt, func(*ssa.Call) bool { return true }, 17)

	// R3 wiring
	checkC13Wiring(c)
	// R4: engine-side (same analysis as C10.R3)
	checkEngineEffectsOnSuccess(c, "R4")
	// R5 native backend
	checkNativeBackend(c)
}

// checkEngineEffectsOnSuccess re-evaluates C10.R3 under another rule id.
func checkEngineEffectsOnSuccess(c *Ctx, rule string) {
	p := c.P
	hw := heapWatch()
	ams := p.engineActionMethods()
	c.Min(rule, "engine action methods", len(ams), 9)
	for _, am := range ams {
		f := am.Fn
		errV := callErrValue(am.Hand)
		bad := 0
		n := 0
		for _, b := range f.Blocks {
			for _, in := range b.Instrs {
				if in == ssa.Instruction(am.Hand) {
					continue
				}
				isEff := hw.Direct(p, in)
				if ci, ok := in.(ssa.CallInstruction); ok && !isEff {
					if p.lockOpOf(ci) != nil {
						continue
					}
					if len(p.mutatingCallees(ci, hw)) > 0 {
						isEff = true
					}
				}
				if !isEff {
					continue
				}
				n++
				if !nilGuard(p.Guards(in), true, func(s *Sym) bool { return s.V == errV }) {
					bad++
					c.Bad(rule, fnName(f)+":effect", p.InstrPos(in), "table effect not control-dependent on the hand call's success: "+instrText(p, in))
				}
			}
		}
		if bad == 0 {
			c.Ok(rule, fnName(f)+":effects", p.Pos(f.Pos()), fmt.Sprintf("%d effect(s) only on success", n))
		}
	}
}

func checkC13Wiring(c *Ctx) {
	p := c.P
	et := p.singleImpl("", "TableEngine")
	if et == nil {
		c.Bad("R3", "anchors", "-", "engine type not found")
		return
	}
	reachesErrEvent := func(f *ssa.Function) bool {
		ri := p.CG().Reach([]*ssa.Function{f}, ReachOpts{RepoOnly: true})
		for _, g := range ri.Order {
			for _, ci := range Calls(g) {
				cm := ci.Common()
				if !cm.IsInvoke() && cm.StaticCallee() == nil && p.Sym(cm.Value).Strip().IsField("tableEngine", "onTableErrorUpdated") {
					return true
				}
			}
		}
		return false
	}
	// the function that starts the hand
	var startFn *ssa.Function
	var startCall, regCall *ssa.Call
	for _, f := range p.Methods(et) {
		for _, ci := range Calls(f) {
			if call, ok := ci.(*ssa.Call); ok && call.Common().IsInvoke() {
				switch call.Common().Method.Name() {
				case "Start":
					if namedOf(call.Common().Value.Type()).Obj().Name() == "Game" {
						startFn, startCall = f, call
					}
				}
			}
		}
	}
	if startFn == nil {
		c.Bad("R3", "start-function", "-", "no engine function calls Game.Start")
		return
	}
	for _, ci := range Calls(startFn) {
		if call, ok := ci.(*ssa.Call); ok && call.Common().IsInvoke() && call.Common().Method.Name() == "OnGameErrorUpdated" {
			regCall = call
		}
	}
	okReg := regCall != nil && Dominates(regCall, startCall)
	c.Check(okReg, "R3", "error-handler-registered-before-start", p.InstrPos(startCall), "OnGameErrorUpdated registered before Start", "no error handler is registered with the hand before it is started")
	if regCall != nil {
		hs := closureOperands(regCall.Call.Args[0])
		ok := len(hs) == 1 && reachesErrEvent(hs[0])
		c.Check(ok, "R3", "error-handler-reaches-table-error-event", p.InstrPos(regCall), "handler reaches onTableErrorUpdated", "the registered hand error handler does not reach the table error event")
		if ok {
			// … on EVERY path (a guard that returns early swallows the failure)
			silent := 0
			wk := &Walker{P: p, Fn: hs[0], IsEvent: func(in ssa.Instruction) bool {
				ci, isCall := in.(ssa.CallInstruction)
				if !isCall {
					return false
				}
				fns, _ := p.CG().Callees(ci)
				for _, f := range fns {
					if reachesErrEvent(f) {
						return true
					}
				}
				return false
			}, OnExit: func(in ssa.Instruction, st *WState) {
				if len(st.Events) == 0 {
					silent++
				}
			}}
			wk.Run()
			c.Check(silent == 0 && !wk.Aborted, "R3", "error-handler-reports-on-every-path", p.Pos(hs[0].Pos()), "no silent path in the hand error handler", fmt.Sprintf("the hand error handler has %d path(s) that return without reporting through the table error event", silent))
		}
	}
	// the hand forwards its error callback field: game.OnGameErrorUpdated stores its parameter
	gt := p.singleImpl("", "Game")
	if gt != nil {
		if f := p.Method(gt, "OnGameErrorUpdated"); f != nil {
			ok := false
			for _, ss := range p.Stores([]*ssa.Function{f}) {
				if ss.Addr.Strip().IsField("game", "onGameErrorUpdated") && ss.ValV == ssa.Value(f.Params[1]) {
					ok = true
				}
			}
			c.Check(ok, "R3", "hand-stores-error-handler", p.Pos(f.Pos()), "setter stores the handler", "the hand's OnGameErrorUpdated setter does not store the handler it is given")
		}
	}
	// Start's error propagates out of the start function
	errV := callErrValue(startCall)
	prop := false
	for _, b := range startFn.Blocks {
		for _, in := range b.Instrs {
			if r, ok := in.(*ssa.Return); ok && nilGuard(p.Guards(in), false, func(s *Sym) bool { return s.V == errV }) {
				if retValue(r, errResultIndex(startFn.Signature)) == errV {
					prop = true
				}
			}
		}
	}
	c.Check(prop, "R3", "start-error-propagates", p.InstrPos(startCall), "Start failure returned by the start function", "a failing Game.Start is not returned by the start function")
	// every caller chain of the start function ends in the error event
	n := 0
	var visit func(f *ssa.Function, depth int)
	seen := map[*ssa.Function]bool{}
	visit = func(f *ssa.Function, depth int) {
		if seen[f] || depth > 6 {
			return
		}
		seen[f] = true
		for _, site := range p.CG().AllCallSitesOf(f) {
			call, ok := site.(*ssa.Call)
			caller := site.Parent()
			if !ok {
				c.Bad("R3", "open-error-dropped:"+FuncName(caller), p.InstrPos(site), "step started by go/defer: its error is lost")
				continue
			}
			ev := callErrValue(call)
			// returned directly or tested
			returned, reported := false, false
			for _, b := range caller.Blocks {
				for _, in := range b.Instrs {
					switch x := in.(type) {
					case *ssa.Return:
						ei := errResultIndex(caller.Signature)
						if ei >= 0 && retValue(x, ei) == ev {
							returned = true
						}
					case ssa.CallInstruction:
						if nilGuard(p.Guards(in), false, func(s *Sym) bool { return s.V == ev }) {
							if sc := x.Common().StaticCallee(); sc != nil && reachesErrEvent(sc) {
								for _, a := range x.Common().Args {
									if a == ev {
										reported = true
									}
								}
							}
						}
					}
				}
			}
			if reported {
				n++
				c.Ok("R3", "open-error-reported:"+FuncName(caller), p.InstrPos(site), "error routed to the table error event")
			} else if returned {
				visit(caller, depth+1)
			} else {
				c.Bad("R3", "open-error-dropped:"+FuncName(caller), p.InstrPos(site), "error of "+FuncName(f)+" is neither returned nor reported through the table error event")
			}
		}
	}
	visit(startFn, 0)
	c.Min("R3", "terminal reporters of open/start errors", n, 1)
	// engine's state-updated handler reports settle/continue failures
	for _, f := range p.Methods(et) {
		for _, ci := range Calls(f) {
			call, ok := ci.(*ssa.Call)
			if !ok || call.Common().StaticCallee() == nil {
				continue
			}
			sc := call.Common().StaticCallee()
			if !p.IsRepoFunc(sc) || errResultIndex(sc.Signature) < 0 || errResultIndex(f.Signature) >= 0 || f.Parent() != nil {
				continue
			}
			// f has no error result but calls an engine step that can fail
			if sc.Signature.Recv() == nil || namedOf(sc.Signature.Recv().Type()) != et {
				continue
			}
			ev := callErrValue(call)
			reported := false
			for _, b := range f.Blocks {
				for _, in := range b.Instrs {
					if x, ok := in.(ssa.CallInstruction); ok && nilGuard(p.Guards(in), false, func(s *Sym) bool { return s.V == ev }) {
						if sc2 := x.Common().StaticCallee(); sc2 != nil && reachesErrEvent(sc2) {
							reported = true
						}
					}
				}
			}
			key := "step-error-reported:" + fnName(f) + ":" + fnName(sc)
			if fnName(f) == "PlayerJoin" || fnName(sc) == "PlayerJoin" {
				continue
			}
			c.Check(reported, "R3", key, p.InstrPos(call), "failure of an engine-driven step is reported", "failure of an engine-driven step is dropped")
		}
	}
}

func checkNativeBackend(c *Ctx) {
	p := c.P
	bi := p.Iface("", "GameBackend")
	if bi == nil {
		c.Bad("R5", "anchors", "-", "GameBackend not found")
		return
	}
	impls := p.Implementers(bi)
	c.Min("R5", "in-repo backends", len(impls), 1)
	isCloneFn := func(f *ssa.Function) bool {
		// json.Marshal(param) … json.Unmarshal(_, &local) … return &local
		if f == nil || len(f.Params) == 0 {
			return false
		}
		m, u := false, false
		for _, ci := range Calls(f) {
			cs := p.CallSym(ci)
			if cs.Name == "json.Marshal" && len(cs.Args) == 1 && cs.Args[0].Strip().Kind == "param" {
				m = true
			}
			if cs.Name == "json.Unmarshal" && len(cs.Args) == 2 && rawLocalSym(cs.Args[1]) {
				u = true
			}
		}
		if !m || !u {
			return false
		}
		for _, b := range f.Blocks {
			for _, in := range b.Instrs {
				if r, ok := in.(*ssa.Return); ok {
					if !(rawLocal(r.Results[0]) || isNilConst(r.Results[0])) {
						return false
					}
				}
			}
		}
		return true
	}
	for _, bt := range impls {
		nm := 0
		for k := 0; k < bi.NumMethods(); k++ {
			name := bi.Method(k).Name()
			f := p.Method(bt, name)
			if f == nil {
				continue
			}
			sig := f.Signature
			if sig.Params().Len() == 0 {
				continue
			}
			if _, isPtr := sig.Params().At(0).Type().(*types.Pointer); !isPtr {
				continue
			}
			if namedOf(sig.Params().At(0).Type()).Obj().Name() != "GameState" {
				continue // CreateGame(opts)
			}
			nm++
			where := p.Pos(f.Pos())
			gsParam := f.Params[1]
			okIn, okOut := false, true
			d := ""
			for _, ci := range Calls(f) {
				cs := p.CallSym(ci)
				if cs.Name == "pokerface.PokerFace.NewGameFromState" {
					a := cs.Args[len(cs.Args)-1].Strip()
					if a.Kind == "call" && a.Call.Common().StaticCallee() != nil && isCloneFn(a.Call.Common().StaticCallee()) && len(a.Args) >= 1 && a.Args[len(a.Args)-1].Strip().V == gsParam {
						okIn = true
					}
				}
				// the caller's state must not be handed to anything but the clone function
				for _, a := range ci.Common().Args {
					if a == ssa.Value(gsParam) {
						if sc := ci.Common().StaticCallee(); sc == nil || !isCloneFn(sc) {
							okIn = false
							d = "caller's state passed uncloned to " + cs.Name
						}
					}
				}
			}
			c.Check(okIn, "R5", canonTypeName(bt.Obj())+"."+name+":clone-in", where, "operates on clone(arg)", "the backend does not operate on a clone of the caller's state "+d)
			wk := &Walker{P: p, Fn: f, OnExit: func(in ssa.Instruction, st *WState) {
				r, ok := in.(*ssa.Return)
				if !ok {
					return
				}
				cls, _ := RetClass(st, r)
				s := p.Sym(st.Resolve(r.Results[0])).Strip()
				if cls == "ok" {
					// must be getState(g) → clone(g.GetState())
					good := false
					if s.Kind == "call" && s.Call.Common().StaticCallee() != nil {
						sc := s.Call.Common().StaticCallee()
						if isCloneFn(sc) {
							good = true
						} else {
							for _, b := range sc.Blocks {
								for _, in2 := range b.Instrs {
									if r2, ok := in2.(*ssa.Return); ok {
										s2 := p.Sym(r2.Results[0]).Strip()
										if s2.Kind == "call" && s2.Call.Common().StaticCallee() != nil && isCloneFn(s2.Call.Common().StaticCallee()) {
											good = true
										}
									}
								}
							}
						}
					}
					if !good {
						okOut = false
						d = "success exit returns " + s.String() + ", not a clone of the engine state"
					}
				} else if !s.IsNil() {
					okOut = false
					d = "error exit returns a non-nil state"
				}
			}}
			wk.Run()
			c.Check(okOut && !wk.Aborted, "R5", canonTypeName(bt.Obj())+"."+name+":clone-out", where, "returns clone on success, nil on error", d)
		}
		c.Min("R5", "state-taking methods of "+canonTypeName(bt.Obj()), nm, 12)
	}
	// the hand stores a private copy of every state it is given
	gt := p.singleImpl("", "Game")
	if gt != nil {
		n := 0
		for _, ss := range p.FieldStores("game", "gs") {
			if ss.Addr.Root().Kind == "new" {
				continue
			}
			n++
			v := ss.Val.Strip()
			ok := v.Kind == "call" && v.Call.Common().StaticCallee() != nil && isCloneFn(v.Call.Common().StaticCallee())
			c.Check(ok, "R5", "hand-state-store:"+FuncName(ss.Fn), p.InstrPos(ss.Instr), "hand stores a clone", "the hand stores a state object it does not own: "+v.String())
		}
		c.Min("R5", "hand-state stores", n, 1)
	}
}

func rawLocalSym(s *Sym) bool {
	s = s.Strip()
	return s.V != nil && rawLocal(s.V) || s.Root().Kind == "alloc" || s.Root().Kind == "new"
}

// checkBackendErrors: every call of a GameBackend method (and every self-driven group step issued from a
// completion closure of the hand) has its error tested and either returned to the caller or routed to the
// error callback, and nothing is updated on the failing branch.
func checkBackendErrors(c *Ctx, rule string, gt *types.Named, filter func(*ssa.Call) bool, min int) {
	p := c.P
	gw := gameWatch()
	// R2: backend calls and self-driven steps
	var sites []*ssa.Call
	gameFns := map[*ssa.Function]bool{}
	for _, f := range p.Methods(gt) {
		gameFns[f] = true
	}
	inGame := func(f *ssa.Function) bool {
		for x := f; x != nil; x = x.Parent() {
			if gameFns[x] {
				return true
			}
		}
		return false
	}
	for _, f := range p.Funcs {
		for _, ci := range Calls(f) {
			call, ok := ci.(*ssa.Call)
			if !ok {
				if isBackendCall(ci.Common()) {
					c.Bad(rule, "backend-call-go-defer:"+FuncName(f), p.InstrPos(ci), "backend method invoked by go/defer: its error is lost")
				}
				continue
			}
			if isBackendCall(call.Common()) {
				sites = append(sites, call)
				continue
			}
			if sc := call.Common().StaticCallee(); sc != nil && gameFns[sc] && inGame(f) && f.Parent() != nil && errResultIndex(sc.Signature) >= 0 {
				sites = append(sites, call) // self-driven step inside a completion closure
			}
		}
	}
	nb := 0
	for _, call := range sites {
		if !filter(call) {
			continue
		}
		nb++
		f := call.Parent()
		key := FuncName(f) + ":" + calleeName(call.Common())
		where := p.InstrPos(call)
		errV := callErrValue(call)
		if errV == nil {
			c.Bad(rule, key, where, "backend error result is discarded")
			continue
		}
		// the state the backend works on is the hand's current one (or, in a handler the dispatcher drives,
		// the state it was dispatched)
		if isBackendCall(call.Common()) && len(call.Common().Args) >= 1 && typeShort(call.Common().Args[0].Type()) == "*pokerface.GameState" {
			a := p.Sym(call.Common().Args[0]).Strip()
			okState := a.IsField("game", "gs")
			for x := f; x != nil && !okState; x = x.Parent() {
				for _, prm := range x.Params {
					if symIsParam(a, prm) {
						okState = true
					}
				}
			}
			c.Check(okState, rule, key+":state-argument", where, "backend is given the hand's current state", "the backend is asked to apply the step to "+a.String()+", not to the hand's current state")
		}
		handled, updatedOnFail := false, false
		tested := false
		// the error may be merged with other error values before it is tested (err := φ(refusal, backend error)):
		// testing, returning or reporting the merged value observes it
		isErr := map[ssa.Value]bool{errV: true}
		for changed := true; changed; {
			changed = false
			for _, b := range f.Blocks {
				for _, in := range b.Instrs {
					if ph, isPhi := in.(*ssa.Phi); isPhi && !isErr[ph] {
						for _, e := range ph.Edges {
							if isErr[e] {
								isErr[ph], changed = true, true
							}
						}
					}
				}
			}
		}
		for _, b := range f.Blocks {
			for _, in := range b.Instrs {
				gs := p.Guards(in)
				failing := nilGuard(gs, false, func(s *Sym) bool { return isErr[s.V] })
				if !failing {
					continue
				}
				tested = true
				switch x := in.(type) {
				case *ssa.Return:
					ei := errResultIndex(f.Signature)
					if ei >= 0 && isErr[retValue(x, ei)] {
						handled = true
					}
				case ssa.CallInstruction:
					cm := x.Common()
					if !cm.IsInvoke() && cm.StaticCallee() == nil && p.Sym(cm.Value).Strip().IsField("game", "onGameErrorUpdated") {
						for _, a := range cm.Args {
							if isErr[a] {
								handled = true
							}
						}
					}
					if sc := cm.StaticCallee(); sc != nil && p.IsRepoFunc(sc) && p.MayMutate(sc, gw) {
						updatedOnFail = true
					}
				}
				if gw.Direct(p, in) {
					updatedOnFail = true
				}
			}
		}
		c.Check(tested && handled, rule, key, where, "error tested and propagated / reported", fmt.Sprintf("backend error is not observed (tested=%v, returned-or-reported=%v)", tested, handled))
		c.Check(!updatedOnFail, rule, key+":no-update-on-failure", where, "nothing updated on the failing branch", "hand state is updated on the branch where the backend call failed")
	}
	c.Min(rule, "backend calls and self-driven steps", nb, min)

}

// checkErrorEventArgs: "reported rather than lost" — the table error callback and the hand's error listener are
// handed the error at hand, never the nil constant; the engine's emitter passes on its own error parameter
// together with the live table.
func checkErrorEventArgs(c *Ctx, rule string) {
	p := c.P
	n := 0
	isNilConst := func(v ssa.Value) bool {
		cst, ok := v.(*ssa.Const)
		return ok && cst.IsNil()
	}
	for _, f := range p.Funcs {
		if !inPkg(p, f, "") {
			continue
		}
		for _, ci := range Calls(f) {
			cm := ci.Common()
			if cm.IsInvoke() {
				continue
			}
			// dynamic calls through the two error slots
			if cm.StaticCallee() == nil {
				if _, isB := cm.Value.(*ssa.Builtin); isB {
					continue
				}
				v := p.Sym(cm.Value).Strip()
				switch {
				case v.IsField("tableEngine", "onTableErrorUpdated") && len(cm.Args) == 2:
					n++
					okErr := false
					for _, prm := range f.Params {
						if cm.Args[1] == ssa.Value(prm) && prm.Type().String() == "error" {
							okErr = true
						}
					}
					okTab := !isNilConst(cm.Args[0])
					c.Check(okErr && okTab, rule, "error-event:emitter:"+fnName(f), p.InstrPos(ci), "table error callback(table, the emitter's own error parameter)", "the table error callback is invoked with "+p.Sym(cm.Args[0]).Strip().String()+", "+p.Sym(cm.Args[1]).Strip().String()+": the error (or the table) reported to the host is not the one at hand")
				case v.IsField("game", "onGameErrorUpdated") && len(cm.Args) == 2:
					n++
					c.Check(!isNilConst(cm.Args[1]), rule, "error-event:hand-listener:"+fnName(f), p.InstrPos(ci), "hand error listener given an error", "the hand's error listener is invoked with a nil error: the failure is reported as no failure")
				}
				continue
			}
			if fnName(cm.StaticCallee()) == "emitErrorEvent" && cm.StaticCallee().Signature.Recv() != nil {
				n++
				last := cm.Args[len(cm.Args)-1]
				c.Check(!isNilConst(last), rule, "error-event:call:"+fnName(f), p.InstrPos(ci), "error event emitted with an error", "an error event is emitted with the nil error: the failure is lost")
			}
		}
	}
	c.Min(rule, "error reports (emitter, hand listener, emit calls)", n, 11)
}
