package main

func controlsC11() []Control {
	return []Control{
		{Name: "ready handler pre-readies everyone", Expect: "R2", Mutate: replaceIn("(*game).onReadyRequested", "g.rg.Add(int64(p.Idx), false)", "g.rg.Add(int64(p.Idx), true)", 0)},
		{Name: "ready handler moves on without waiting", Expect: "R3", Mutate: replaceIn("(*game).onReadyRequested", "\tg.rg.Start()\n", "\tg.rg.Start()\n\tg.ReadyForAll()\n", 0)},
		{Name: "ante completion collects blinds", Expect: "R1", Mutate: replaceIn("(*game).onAnteRequested", "gameState, err := g.PayAnte()", "gameState, err := g.PayBlinds()", 0)},
		{Name: "ante event dispatched to the blinds handler", Expect: "R1", Mutate: replaceIn("(*game).handleGameState", "pokerface.GameEvent_AnteRequested:   g.onAnteRequested,", "pokerface.GameEvent_AnteRequested:   g.onBlindsRequested,", 0)},
		{Name: "big blind asked of the small-blind position", Expect: "R4", Mutate: replaceIn("(*game).onBlindsRequested", "gs.Meta.Blind.BB > 0 && gs.HasPosition(p.Idx, Position_BB)", "gs.Meta.Blind.BB > 0 && gs.HasPosition(p.Idx, Position_SB)", 0)},
		{Name: "ante asked only of some players", Expect: "R4", Mutate: replaceIn("(*game).onAnteRequested", "\t\tg.rg.Add(int64(p.Idx), false)\n\n\t\t// Allow \"pay\" action\n\t\tp.AllowAction(Action_Pay)", "\t\tif p.Idx > 0 {\n\t\t\tg.rg.Add(int64(p.Idx), false)\n\t\t}\n\t\tp.AllowAction(Action_Pay)", 0)},
		{Name: "round-closed handler drops the next state", Expect: "R6", Mutate: replaceIn("(*game).onRoundClosed", "\tg.updateGameState(gs)\n", "", 0)},
		{Name: "game-closed handler closes unconditionally", Expect: "R6", Mutate: replaceIn("(*game).onGameClosed", "\tif g.isClosed {\n\t\treturn\n\t}\n", "", 0)},
		{Name: "no response timeout", Expect: "R7", Mutate: replaceIn("NewGame", "syncsaga.WithTimeout(17,", "syncsaga.WithTimeout(0,", 0)},
		{Name: "pay signals the first seat", Expect: "R5", Mutate: replaceIn("(*game).Pay", "g.rg.Ready(int64(playerIdx))", "g.rg.Ready(0)", 0)},
		{Name: "blinds handler never starts waiting", Expect: "R2", Mutate: replaceIn("(*game).onBlindsRequested", "\tg.rg.Start()\n", "", 0)},
		{Name: "dealer blind never asked", Expect: "R4", Mutate: replaceIn("(*game).onBlindsRequested", " else if gs.Meta.Blind.Dealer > 0 && gs.HasPosition(p.Idx, Position_Dealer) {\n\t\t\tg.rg.Add(int64(p.Idx), false)\n\t\t\tp.AllowAction(Action_Pay)\n\t\t}", "", 0)},
		{Name: "engine hook forgets to keep the new hand state", Expect: "R8", Mutate: replaceIn("(*tableEngine).updateGameState", "\tte.table.State.GameState = gs\n", "", 0)},
		{Name: "engine hook never registered with the hand", Expect: "R8", Mutate: replaceIn("(*tableEngine).startGame", "te.game.OnGameStateUpdated(func(gs *pokerface.GameState) {\n\t\tte.updateGameState(gs)\n\t})", "", 0)},
		{Name: "engine hook does not publish the new state", Expect: "R8", Mutate: replaceIn("(*tableEngine).updateGameState", "\t\tte.emitTableStateEvent(TableStateEvent_GameUpdated)\n", "", 0)},
		{Name: "hand keeps queueing states only after it was closed", Expect: "R8", Mutate: replaceIn("(*game).updateGameState", "if g.isClosed {", "if !g.isClosed {", 0)},
		{Name: "dispatcher skips the engine hook", Expect: "R8", Mutate: replaceIn("(*game).handleGameState", "\tg.onGameStateUpdated(gs)\n", "", 0)},
		{Name: "ante handler does not allow the asked players to pay", Expect: "R9", Mutate: replaceIn("(*game).onAnteRequested", "\t\tp.AllowAction(Action_Pay)\n", "", 0)},
		{Name: "pay allowance withdrawn only from players who do not have it", Expect: "R9", Mutate: replaceIn("(*game).onBlindsRequested", "if funk.Contains(p.AllowedActions, Action_Pay) {", "if !funk.Contains(p.AllowedActions, Action_Pay) {", 0)},
		{Name: "ante completion reports through the blinds hook", Expect: "R9", Mutate: replaceIn("(*game).onAnteRequested", "g.onAntesReceived(gameState)", "g.onBlindsReceived(gameState)", 0)},
		{Name: "ante collection skipped when an ante is configured", Expect: "R9", Mutate: replaceIn("(*game).onAnteRequested", "if gs.Meta.Ante == 0 {", "if gs.Meta.Ante != 0 {", 0)},
		{Name: "state-updated setter stores into another slot", Expect: "R8", Mutate: replaceIn("(*game).OnGameStateUpdated", "g.onGameStateUpdated = fn", "g.onAntesReceived = fn", 0)},
		{Name: "hand never launches the queue consumer", Expect: "R8", Mutate: replaceIn("(*game).Start", "\tg.runGameStateUpdater()\n", "", 0)},
		{Name: "dispatcher calls the handler only when none exists", Expect: "R8", Mutate: replaceIn("(*game).handleGameState", "if handler, exist := handlers[event]; exist {", "if handler, exist := handlers[event]; !exist {", 0)},
		{Name: "pay routed by the round name instead of the event", Expect: "R5", Mutate: replaceIn("(*game).Pay", "pokerface.GameEventBySymbol[g.gs.Status.CurrentEvent]", "pokerface.GameEventBySymbol[g.gs.Status.Round]", 0)},
		{Name: "hooks registered on the previous hand object", Expect: "R8", Mutate: replaceIn("(*tableEngine).startGame", "te.game = NewGame(te.gameBackend, opts)", "_ = NewGame(te.gameBackend, opts)", 0)},
		{Name: "ante completion withdraws the allowance from the next state", Expect: "R9", Mutate: replaceIn("(*game).onAnteRequested", "// reset AllowedActions\n\t\tfor _, p := range gs.Players {", "// reset AllowedActions\n\t\tfor _, p := range gameState.Players {", 0)},
	}
}
