package main

func controlsC19() []Control {
	return []Control{
		{Name: "suspension recorded in a copy of the runner (value receiver)", Expect: "R6", Mutate: replaceIn("(*playerRunner).Suspend", "func (pr *playerRunner) Suspend(", "func (pr playerRunner) Suspend(", 0)},
		{Name: "engine adapter rounds the pay amount up", Expect: "R3", Mutate: replaceIn("(*tableEngineAdapter).Pay", "return tea.engine.PlayerPay(playerID, chips)", "return tea.engine.PlayerPay(playerID, chips+chips%2)", 0)},
		{Name: "thinking timer re-created when the runner is attached", Expect: "R5", Mutate: replaceIn("(*playerRunner).SetActor", "\tpr.actor = a\n", "\tpr.actor = a\n\tpr.timebank = timebank.NewTimeBank()\n", 0)},
		{Name: "every view cancels the pending auto-play", Expect: "R5", Mutate: replaceIn("(*playerRunner).UpdateTableState", "\tpr.tableInfo = table\n", "\tpr.tableInfo = table\n\tpr.timebank.Cancel()\n", 0)},
		{Name: "automation calls instead of checking", Expect: "R1", Mutate: replaceIn("(*playerRunner).automate", "return pr.actions.Check()", "return pr.actions.Call()", 0)},
		{Name: "automation runs immediately for a running player", Expect: "R4", Mutate: replaceIn("(*playerRunner).requestMove", "\t// Setup timebank to wait for player\n", "\tpr.automate(gs, playerIdx)\n", 0)},
		{Name: "automation pays twice the big blind", Expect: "R3", Mutate: replaceIn("(*playerRunner).automate", "return pr.actions.Pay(gs.Meta.Blind.BB)", "return pr.actions.Pay(gs.Meta.Blind.BB * 2)", 0)},
		{Name: "automation folds before considering check", Expect: "R2", Mutate: replaceIn("(*playerRunner).automate", "} else if gs.HasAction(playerIdx, \"check\") {\n\t\treturn pr.actions.Check()\n\t} else if gs.HasAction(playerIdx, \"fold\") {\n\t\treturn pr.actions.Fold()\n\t}", "} else if gs.HasAction(playerIdx, \"fold\") {\n\t\treturn pr.actions.Fold()\n\t} else if gs.HasAction(playerIdx, \"check\") {\n\t\treturn pr.actions.Check()\n\t}", 0)},
		{Name: "thinking time in milliseconds", Expect: "R4", Mutate: replaceIn("(*playerRunner).requestMove", "time.Duration(pr.tableInfo.Meta.ActionTime) * time.Second", "time.Duration(pr.tableInfo.Meta.ActionTime) * time.Millisecond", 0)},
		{Name: "timer callback automates even when cancelled", Expect: "R4", Mutate: replaceIn("(*playerRunner).requestMove", "\t\tif isCancelled {\n\t\t\treturn\n\t\t}\n", "\t\t_ = isCancelled\n", 0)},
		{Name: "small blind position pays the big blind", Expect: "R3", Mutate: replaceIn("(*playerRunner).automate", "return pr.actions.Pay(gs.Meta.Blind.SB)", "return pr.actions.Pay(gs.Meta.Blind.BB)", 0)},
		{Name: "table update raises through the manual API", Expect: "R1", Mutate: replaceIn("(*playerRunner).UpdateTableState", "\t// Emit event\n", "\tif gamePlayerIdx == 0 {\n\t\tpr.Raise(1)\n\t}\n", 0)},
		{Name: "check played without asking whether it is allowed", Expect: "R2", Mutate: replaceIn("(*playerRunner).automate", "} else if gs.HasAction(playerIdx, \"check\") {", "} else if playerIdx >= 0 {", 0)},
		{Name: "pass requested after arming the timer", Expect: "R4", Mutate: replaceIn("(*playerRunner).requestMove", "if pr.status == PlayerStatus_Suspend {", "if pr.status != PlayerStatus_Running {", 0)},
		{Name: "timer armed for the index of another id", Expect: "R7", Mutate: replaceIn("(*playerRunner).UpdateTableState", "pr.actor.GetTable().GetGamePlayerIndex(pr.playerID)", "pr.actor.GetTable().GetGamePlayerIndex(pr.curGameID)", 0)},
		{Name: "timer armed although the player is not in the hand", Expect: "R7", Mutate: replaceIn("(*playerRunner).UpdateTableState", "if gamePlayerIdx == -1 {", "if gamePlayerIdx == -2 {", 0)},
		{Name: "timer armed when nothing is asked", Expect: "R7", Mutate: replaceIn("(*playerRunner).UpdateTableState", "len(player.AllowedActions) > 0", "len(player.AllowedActions) >= 0", 0)},
		{Name: "actor hands views to its runner under the read lock", Expect: "R8", Mutate: replaceIn("(*actor).UpdateTableState", "\ta.mu.Lock()\n\tdefer a.mu.Unlock()\n", "\ta.mu.RLock()\n\tdefer a.mu.RUnlock()\n", 0)},
		{Name: "actor releases its mutex before calling the runner", Expect: "R8", Mutate: replaceIn("(*actor).UpdateTableState", "\ta.mu.Lock()\n\tdefer a.mu.Unlock()\n", "\ta.mu.Lock()\n\ta.mu.Unlock()\n", 0)},
		{Name: "player runner filters stale views only within the hand it already knows", Expect: "R7", Mutate: replaceIn("(*playerRunner).UpdateTableState", "\t\t\tpr.curGameID = gs.GameID\n\t\t}\n", "\t\t\tpr.curGameID = gs.GameID\n\t\t} else", 0)},
	}
}
