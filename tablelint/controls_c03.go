package main

func controlsC03() []Control {
	return []Control{
		{Name: "RemoveSeats frees each seat while still validating the batch", Expect: "R1", Mutate: replaceIn("(*seatManager).RemoveSeats", "targetSeatIDs = append(targetSeatIDs, seatID)", "targetSeatIDs = append(targetSeatIDs, seatID)\n\t\tsm.SeatData[seatID] = nil", 0)},
		{Name: "JoinPlayers marks players in while still validating", Expect: "R1", Mutate: replaceIn("(*seatManager).JoinPlayers", "targetPlayerSeatIDs = append(targetPlayerSeatIDs, seatID)", "targetPlayerSeatIDs = append(targetPlayerSeatIDs, seatID)\n\t\tsm.SeatData[seatID].IsIn = true", 0)},
		{Name: "AssignSeats accepts a taken seat", Expect: "R2", Mutate: replaceIn("(*seatManager).AssignSeats", "return ErrSeatAlreadyIsTaken", "return nil", 0)},
		{Name: "RandomAssignSeats no longer rejects seated players", Expect: "R2", Mutate: replaceIn("(*seatManager).RandomAssignSeats", "return ErrDuplicatePlayers", "return nil", 0)},
		{Name: "PlayerReserve without capacity guard", Expect: "R5", Mutate: replaceIn("(*tableEngine).PlayerReserve", "len(te.table.State.PlayerStates) == te.table.Meta.TableMaxSeatCount", "false", 0)},
		{Name: "batchRemovePlayers frees other ids than it removes", Expect: "R4", Mutate: replaceIn("(*tableEngine).batchRemovePlayers", "te.sm.RemoveSeats(playerIDs)", "te.sm.RemoveSeats(playerIDs[:1])", 0)},
		{Name: "batchRemovePlayers rewrites the table before asking the seat manager", Expect: "R3", Mutate: replaceIn("(*tableEngine).batchRemovePlayers", "if err := te.sm.RemoveSeats(playerIDs); err != nil {\n\t\treturn err\n\t}\n", "te.table.State.GamePlayerIndexes = []int{}\n\tif err := te.sm.RemoveSeats(playerIDs); err != nil {\n\t\treturn err\n\t}\n", 0)},
		{Name: "PlayerJoin can leave after IsIn without telling the seat manager", Expect: "R7", Mutate: replaceIn("(*tableEngine).PlayerJoin", "te.table.State.PlayerStates[playerIdx].IsIn = true\n", "te.table.State.PlayerStates[playerIdx].IsIn = true\n\tif len(playerID) == 1 {\n\t\treturn nil\n\t}\n", 0)},
		{Name: "new player records the requested seat, not the assigned one", Expect: "R4", Mutate: replaceIn("(*tableEngine).batchAddPlayers", "Seat:           seat,", "Seat:           player.Seat,", 0)},
		{Name: "PlayerRedeemChips patches the seat map in place", Expect: "R6", Mutate: replaceIn("(*tableEngine).PlayerRedeemChips", "playerState.Bankroll += joinPlayer.RedeemChips", "playerState.Bankroll += joinPlayer.RedeemChips\n\tte.table.State.SeatMap[0] = playerIdx", 0)},
		{Name: "PlayersLeave also calls the seat manager directly", Expect: "R6", Mutate: replaceIn("(*tableEngine).PlayersLeave", "te.emitEvent(\"PlayersLeave\"", "te.sm.RemoveSeats(playerIDs)\n\tte.emitEvent(\"PlayersLeave\"", 0)},
		{Name: "seat map entry of a new player off by one", Expect: "R4", Mutate: replaceIn("(*tableEngine).batchAddPlayers", "newPlayerIdx := len(te.table.State.PlayerStates) + len(newPlayers) - 1", "newPlayerIdx := len(te.table.State.PlayerStates) + len(newPlayers)", 0)},
		{Name: "leave computation filters the live player list in place", Expect: "R6", Mutate: replaceIn("(*tableEngine).calcLeavePlayers", "newPlayerStates := make([]*TablePlayerState, 0)", "newPlayerStates := currentPlayers[:0]", 0)},
		{Name: "leave filter keeps the leaving players", Expect: "R4", Mutate: replaceIn("(*tableEngine).calcLeavePlayers", "if !exist {\n\t\t\tnewPlayerStates", "if exist {\n\t\t\tnewPlayerStates", 0)},
		{Name: "leave filter compares ids for inequality", Expect: "R4", Mutate: replaceIn("(*tableEngine).calcLeavePlayers", "return player.PlayerID == leavePlayerID", "return player.PlayerID != leavePlayerID", 0)},
		{Name: "leave filter skips the first player", Expect: "R4", Mutate: replaceIn("(*tableEngine).calcLeavePlayers", "for _, player := range currentPlayers {\n\t\texist", "for _, player := range currentPlayers[1:] {\n\t\texist", 0)},
		{Name: "seated-in flag cleared at settlement", Expect: "R7", Mutate: replaceIn("(*tableEngine).settleGame", "playerState.Bankroll += player.Changed", "playerState.Bankroll += player.Changed\n\t\tplayerState.IsIn = playerState.Bankroll > 0", 0)},
		{Name: "new seat map leaves seat 0 looking occupied", Expect: "R6", Mutate: replaceIn("NewDefaultSeatMap", "for seatIdx := 0; seatIdx < seatCount; seatIdx++ {", "for seatIdx := 1; seatIdx < seatCount; seatIdx++ {", 0)},
		{Name: "seat look-up matches every other player", Expect: "R8", Mutate: replaceIn("(*seatManager).getSeatPlayer", "seatPlayer.ID == playerID", "seatPlayer.ID != playerID", 0)},
		{Name: "RemoveSeats proceeds for unknown ids and rejects known ones", Expect: "R8", Mutate: replaceIn("(*seatManager).RemoveSeats", "if !exist {", "if exist {", 0)},
		{Name: "RemoveSeats also vacates seat 0", Expect: "R8", Mutate: replaceIn("(*seatManager).RemoveSeats", "targetSeatIDs := make([]int, 0)", "targetSeatIDs := make([]int, 1)", 0)},
		{Name: "JoinPlayers marks the players not seated-in", Expect: "R8", Mutate: replaceIn("(*seatManager).JoinPlayers", "sm.SeatData[seatID].IsIn = true", "sm.SeatData[seatID].IsIn = false", 0)},
		{Name: "empty seats are the occupied ones", Expect: "R8", Mutate: replaceIn("(*seatManager).getEmptySeatIDs", "if seatPlayer == nil {", "if seatPlayer != nil {", 0)},
		{Name: "fixed-seat batch forgets the players it accepted", Expect: "R2", Mutate: replaceIn("(*seatManager).AssignSeats", "\t\tplayerIDs[playerID] = true\n", "", 0)},
		{Name: "fixed-seat batch accepts a seat held by somebody else", Expect: "R2", Mutate: replaceIn("(*seatManager).AssignSeats", "seatPlayer.ID != playerID {", "seatPlayer.ID == playerID {", 0)},
		{Name: "random-seat batch skips its first player", Expect: "R2", Mutate: replaceIn("(*seatManager).RandomAssignSeats", "for i := 0; i < len(playerIDs); i++ {", "for i := 1; i < len(playerIDs); i++ {", 0)},
		{Name: "random-seat batch seats players after a failed draw", Expect: "R2", Mutate: replaceIn("(*seatManager).RandomAssignSeats", "seatIDs, err := sm.randomSeatIDs(len(playerIDs))\n\tif err != nil {", "seatIDs, err := sm.randomSeatIDs(len(playerIDs))\n\tif err == nil {", 0)},
	}
}
