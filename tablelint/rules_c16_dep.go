package main

// C16.R7 — the ready group the membership operations drive must not take its own read lock twice.
//
// sync.RWMutex forbids recursive read locking: if a writer asks for the lock between the two RLock calls of one
// goroutine, the second RLock queues behind the writer and the writer waits for the first — neither moves again.
// The engine's membership operations are both sides of that: PlayerJoin signals "ready" (the group's action
// goroutine then validates under the read lock) and a reservation adds participants (write lock), the latter
// while holding the engine mutex — so every later membership operation blocks too. The dependency is read as
// part of the program (its SSA is built with everything else).

import (
	"fmt"
	"go/token"
	"go/types"
	"strings"

	"golang.org/x/tools/go/ssa"
)

func checkReadyGroupNoRecursiveRLock(c *Ctx, rule, owner, what string) {
	p := c.P
	var pkg *ssa.Package
	for _, sp := range p.SSA.AllPackages() {
		if strings.HasSuffix(sp.Pkg.Path(), "/syncsaga") {
			pkg = sp
		}
	}
	if pkg == nil {
		c.Bad(rule, "ready-group:package", "-", "the ready-group package is not part of the program")
		return
	}
	rgT, _ := pkg.Members["ReadyGroup"].(*ssa.Type)
	if rgT == nil {
		c.Bad(rule, "ready-group:type", "-", "ReadyGroup type not found")
		return
	}
	var fns []*ssa.Function
	for _, m := range pkg.Members {
		if f, ok := m.(*ssa.Function); ok {
			fns = append(fns, f)
		}
	}
	ms := p.SSA.MethodSets.MethodSet(typesPointer(rgT.Type()))
	for i := 0; i < ms.Len(); i++ {
		if f := p.SSA.MethodValue(ms.At(i)); f != nil && f.Blocks != nil {
			fns = append(fns, f)
		}
	}
	for i := 0; i < len(fns); i++ {
		fns = append(fns, fns[i].AnonFuncs...)
	}
	// which lock operations on the group's own mutex does each function perform on its first parameter?
	muOp := func(ci ssa.CallInstruction) (op string, onRecv bool) {
		sc := ci.Common().StaticCallee()
		if sc == nil || sc.Pkg == nil || sc.Pkg.Pkg.Path() != "sync" || len(ci.Common().Args) == 0 {
			return "", false
		}
		switch sc.Name() {
		case "RLock", "RUnlock", "Lock", "Unlock":
		default:
			return "", false
		}
		fa, ok := ci.Common().Args[0].(*ssa.FieldAddr)
		if !ok {
			return "", false
		}
		f := ci.Parent()
		return sc.Name(), len(f.Params) > 0 && fa.X == ssa.Value(f.Params[0])
	}
	rlockers, writers := map[*ssa.Function]bool{}, 0
	for _, f := range fns {
		for _, ci := range Calls(f) {
			switch op, on := muOp(ci); {
			case op == "RLock" && on:
				rlockers[f] = true
			case op == "Lock" && on:
				writers++
			}
		}
	}
	// functions stored into a field of the group (validator, callbacks): what a dynamic call of that field may run
	stored := map[string][]*ssa.Function{}
	for _, f := range fns {
		for _, b := range f.Blocks {
			for _, in := range b.Instrs {
				st, ok := in.(*ssa.Store)
				if !ok {
					continue
				}
				fa, isFA := st.Addr.(*ssa.FieldAddr)
				if !isFA {
					continue
				}
				for _, cl := range closureOperands(st.Val) {
					stored[fieldName(fa)] = append(stored[fieldName(fa)], cl)
				}
				if fn, isFn := st.Val.(*ssa.Function); isFn {
					stored[fieldName(fa)] = append(stored[fieldName(fa)], fn)
				}
			}
		}
	}
	// callees of a call made by f with f's own group as the first argument / receiver
	calleesOnSame := func(f *ssa.Function, ci ssa.CallInstruction) []*ssa.Function {
		cm := ci.Common()
		same := false
		for _, a := range cm.Args {
			if len(f.Params) > 0 && a == ssa.Value(f.Params[0]) {
				same = true
			}
		}
		if !same {
			return nil
		}
		if sc := cm.StaticCallee(); sc != nil {
			return []*ssa.Function{sc}
		}
		if ld, ok := cm.Value.(*ssa.UnOp); ok && ld.Op == token.MUL {
			if fa, isFA := ld.X.(*ssa.FieldAddr); isFA && len(f.Params) > 0 && fa.X == ssa.Value(f.Params[0]) {
				return stored[fieldName(fa)]
			}
		}
		return nil
	}
	var reach func(f *ssa.Function, depth int, seen map[*ssa.Function]bool) []string
	reach = func(f *ssa.Function, depth int, seen map[*ssa.Function]bool) []string {
		if seen[f] || depth > 5 {
			return nil
		}
		seen[f] = true
		if rlockers[f] {
			return []string{fnName(f)}
		}
		for _, ci := range Calls(f) {
			for _, g := range calleesOnSame(f, ci) {
				if g.Blocks == nil {
					continue
				}
				if path := reach(g, depth+1, seen); path != nil {
					return append([]string{fnName(f)}, path...)
				}
			}
		}
		return nil
	}
	nHolders, nBad := 0, 0
	hazard := ""
	for _, f := range fns {
		if !rlockers[f] {
			continue
		}
		// held until return: RLock … defer RUnlock
		deferred := false
		for _, b := range f.Blocks {
			for _, in := range b.Instrs {
				if d, ok := in.(*ssa.Defer); ok {
					if op, on := muOp(d); op == "RUnlock" && on {
						deferred = true
					}
				}
			}
		}
		if !deferred {
			continue
		}
		nHolders++
		for _, ci := range Calls(f) {
			if _, isDefer := ci.(*ssa.Defer); isDefer {
				continue
			}
			if _, isGo := ci.(*ssa.Go); isGo {
				continue
			}
			for _, g := range calleesOnSame(f, ci) {
				if g.Blocks == nil || g == f {
					continue
				}
				if path := reach(g, 0, map[*ssa.Function]bool{f: true}); path != nil {
					nBad++
					hazard = fmt.Sprintf("%s holds the group's read lock and calls %s, which takes it again (%s); %d function(s) of the group take the write lock", fnName(f), strings.Join(path, " → "), p.InstrPos(ci), writers)
				}
			}
		}
	}
	c.Min(rule, "ready-group functions holding the read lock to their end", nHolders, 2)
	if nBad == 0 {
		c.Ok(rule, "ready-group:no-recursive-read-lock", "-", fmt.Sprintf("%d function(s) hold the read lock; none reaches a second acquisition on the same group", nHolders))
	} else {
		// The dependency does take its read lock twice while validating a signal (on the group's own goroutine).
		// That cannot be repaired in this module; what this module decides is whether a writer can arrive in
		// between: the only write-lock taker driven from outside the group's goroutine is Add. So every Add the
		// engine makes on its membership group must go to a group that cannot be validating: one created in the
		// same function, before the Add, and not yet started.
		c.Ok(rule, "ready-group:recursive-read-lock-in-dependency", "-", "hazard noted — "+hazard+": the engine must never add to a group that may be validating")
		nAdd := 0
		isGroupField := func(v ssa.Value) bool { return p.Sym(v).Strip().IsField(owner, "rg") }
		type addSite struct {
			fn *ssa.Function
			in ssa.CallInstruction
		}
		var sites []addSite
		for _, f := range p.Funcs {
			if !inModule(p, f) {
				continue
			}
			for _, ci := range Calls(f) {
				if calleeName(ci.Common()) != "syncsaga.ReadyGroup.Add" || len(ci.Common().Args) == 0 || !isGroupField(ci.Common().Args[0]) {
					continue
				}
				// an Add made by a small helper of the owner is judged where the helper is called
				callers := p.CG().AllCallSitesOf(f)
				lifted := false
				if f.Signature.Recv() != nil && len(callers) > 0 {
					hasStore := false
					for _, ss := range p.Stores([]*ssa.Function{f}) {
						if ss.Owner == owner && ss.Field == "rg" {
							hasStore = true
						}
					}
					if !hasStore {
						for _, site := range callers {
							sites = append(sites, addSite{site.Parent(), site})
						}
						lifted = true
					}
				}
				if !lifted {
					sites = append(sites, addSite{f, ci})
				}
			}
		}
		seenSite := map[string]bool{}
		for _, st := range sites {
			f, ci := st.fn, st.in
			key := FuncName(f)
			if seenSite[key] {
				continue
			}
			seenSite[key] = true
			nAdd++
			fresh := false
			for _, ss := range p.Stores([]*ssa.Function{f}) {
				if ss.Owner != owner || ss.Field != "rg" {
					continue
				}
				if v := ss.Val.Strip(); v.IsCall("syncsaga.NewReadyGroup") && (Dominates(ss.Instr, ci) || rawLocal(ss.Instr.(*ssa.Store).Addr)) {
					fresh = true
				}
			}
			c.Check(fresh, rule, "ready-group:add-only-to-a-fresh-group:"+FuncName(f), p.InstrPos(ci), "participants are added to a group created in this function", FuncName(f)+" adds participants to "+what+" although that group was started earlier and may still be validating a pending signal on its own goroutine ("+hazard+"): the write lock queues between the two read locks and neither side moves again")
		}
		c.Min(rule, "functions adding to "+what, nAdd, 1)
	}
	if owner != "tableEngine" {
		return
	}
	// … and the engine's membership operations are both sides of it
	sides := map[string]bool{}
	for _, f := range p.Funcs {
		if !inModule(p, f) {
			continue
		}
		for _, ci := range Calls(f) {
			n := calleeName(ci.Common())
			if (n == "syncsaga.ReadyGroup.Add" || n == "syncsaga.ReadyGroup.Ready") && len(ci.Common().Args) > 0 && p.Sym(ci.Common().Args[0]).Strip().IsField("tableEngine", "rg") {
				sides[strings.TrimPrefix(n, "syncsaga.ReadyGroup.")] = true
			}
		}
	}
	c.Check(sides["Add"] && sides["Ready"], rule, "ready-group:driven-by-membership-operations", "-", "the engine's group is written (Add) by reservations and signalled (Ready) by sit-ins", "the engine's membership ready group is no longer both added to and signalled by the engine")
}

func fieldName(fa *ssa.FieldAddr) string {
	if st, ok := derefStruct(fa.X.Type()); ok && fa.Field < st.NumFields() {
		return st.Field(fa.Field).Name()
	}
	return fmt.Sprint(fa.Field)
}

func typesPointer(t types.Type) types.Type { return types.NewPointer(t) }

func derefStruct(t types.Type) (*types.Struct, bool) {
	if pt, ok := t.Underlying().(*types.Pointer); ok {
		t = pt.Elem()
	}
	st, ok := t.Underlying().(*types.Struct)
	return st, ok
}
