package main

import (
	"fmt"
	"go/token"

	"golang.org/x/tools/go/ssa"
)

// phiLeaf is one non-phi source of a (possibly nested / loop-carried) phi, with the
// guards that hold when that source is chosen.
type phiLeaf struct {
	V      ssa.Value
	Guards []Guard
}

// phiLeaves unfolds v through nested phis.
func (p *Prog) phiLeaves(v ssa.Value) []phiLeaf {
	var out []phiLeaf
	seen := map[*ssa.Phi]bool{}
	var walk func(v ssa.Value)
	walk = func(v ssa.Value) {
		ph, ok := v.(*ssa.Phi)
		if !ok {
			return
		}
		if seen[ph] {
			return
		}
		seen[ph] = true
		for i, e := range ph.Edges {
			if _, isPhi := e.(*ssa.Phi); isPhi {
				walk(e)
				continue
			}
			pred := ph.Block().Preds[i]
			gs := p.GuardsAtBlock2(pred)
			if iff, isIf := pred.Instrs[len(pred.Instrs)-1].(*ssa.If); isIf && len(pred.Succs) == 2 && pred.Succs[0] != pred.Succs[1] {
				for k := 0; k < 2; k++ {
					if pred.Succs[k] == ph.Block() {
						gs = append(gs, p.unfold(iff.Cond, k == 0, iff, 0)...)
					}
				}
			}
			out = append(out, phiLeaf{V: e, Guards: gs})
		}
	}
	walk(v)
	return out
}

// checkHandListStart: which player is entry 0 of the hand's list. The builder's parameters
// get their roles from the call site in the open step (seat manager's dealer / SB / BB seat,
// seat count, seat map, player list). Default rule:
//   - "dealer found" / "SB found" are the player-list position of a DEALT-IN player whose
//     seat is the dealer / SB seat, and unset otherwise;
//   - when the dealer is found the scan starts at the dealer seat;
//   - otherwise it starts at the first ACTIVE seat met walking counter-clockwise from the
//     seat before the SB seat (SB found) or before the BB seat (SB not found), one full circle.
//
// Short deck: the scan starts at the dealer seat.
// Also: a seat-map entry is skipped only when it is the unset value (-1), so player 0 is listed.
// Shared by C02.R4 and C06.R10.
func checkHandListStart(c *Ctx, rule string) {
	p := c.P
	lc := p.lifecycle()
	if lc.openFn == nil {
		c.Bad(rule, "hand-list-start", "-", "open step not found")
		return
	}
	var builder *ssa.Function
	var site ssa.CallInstruction
	for _, ss := range p.FieldStores("TableState", "GamePlayerIndexes") {
		v := ss.Val.Strip()
		if ss.Fn == lc.openFn && v.Kind == "call" && v.Call.Common().StaticCallee() != nil {
			builder, site = v.Call.Common().StaticCallee(), v.Call
		}
	}
	if builder == nil {
		c.Bad(rule, "hand-list-start", "-", "list builder not found")
		return
	}
	// roles of the builder's parameters, from the call-site arguments
	role := map[string]string{} // param name → role
	args := site.Common().Args
	for i, pr := range builder.Params {
		if i >= len(args) {
			break
		}
		a := p.Sym(args[i]).Strip()
		switch {
		case a.IsCall("SeatManager.CurrentDealerSeatID") || a.IsField("TableState", "CurrentDealerSeat"):
			role[pr.Name()] = "dealer"
		case a.IsCall("SeatManager.CurrentSBSeatID") || a.IsField("TableState", "CurrentSBSeat"):
			role[pr.Name()] = "sb"
		case a.IsCall("SeatManager.CurrentBBSeatID") || a.IsField("TableState", "CurrentBBSeat"):
			role[pr.Name()] = "bb"
		case a.IsField("TableMeta", "Rule"):
			role[pr.Name()] = "rule"
		case a.IsField("TableMeta", "TableMaxSeatCount"):
			role[pr.Name()] = "n"
		case a.IsField("TableState", "SeatMap"):
			role[pr.Name()] = "seatmap"
		case a.IsField("TableState", "PlayerStates"):
			role[pr.Name()] = "players"
		}
	}
	have := map[string]bool{}
	for _, r := range role {
		have[r] = true
	}
	for _, r := range []string{"rule", "dealer", "sb", "bb", "n", "seatmap", "players"} {
		if !have[r] {
			c.Bad(rule, "hand-list-start:roles", p.InstrPos(site), "the list builder is not given the "+r+" (seat manager's seats, seat count, seat map and player list of the table it builds for)")
			return
		}
	}
	roleOf := func(s *Sym) string {
		s = s.Strip()
		if s.Kind == "param" {
			return role[s.Name]
		}
		return ""
	}
	isCountOf := func(s *Sym) bool { // the seat count: the parameter or len(seat map)
		s = s.Strip()
		return roleOf(s) == "n" || (s.IsCall("len") && roleOf(s.Args[0]) == "seatmap")
	}

	// "found" variables: φ whose leaves are -1 or the player-list position of a dealt-in player on seat <which>
	foundKind := func(v ssa.Value) (string, string) { // (which seat role, problem)
		if _, isPhi := v.(*ssa.Phi); !isPhi {
			return "", "not a variable assigned in a search loop"
		}
		which := ""
		nIdx := 0
		for _, lf := range p.phiLeaves(v) {
			s := p.Sym(lf.V).Strip()
			if k, isK := s.ConstInt(); isK {
				if k != -1 {
					return "", fmt.Sprintf("initialised to %d, not the unset value", k)
				}
				continue
			}
			if !fullRange(s, func(x *Sym) bool { return roleOf(x) == "players" }) {
				return "", "assigned " + s.String() + ", which is not a position in the whole player list"
			}
			nIdx++
			dealt := guardedBy(lf.Guards, true, func(g *Sym) bool {
				return g.IsField("TablePlayerState", "IsParticipated") && g.Args[0].Strip().Kind == "index" && g.Args[0].Strip().Args[1].Strip().String() == s.String()
			})
			if !dealt {
				return "", "a player is taken as the dealer / small blind of the hand without being dealt in"
			}
			w := ""
			cmpHolds(lf.Guards, func(l, r *Sym, op token.Token) bool {
				l, r = l.Strip(), r.Strip()
				for k := 0; k < 2; k++ {
					if op == token.EQL && l.IsField("TablePlayerState", "Seat") && l.Args[0].Strip().Kind == "index" && l.Args[0].Strip().Args[1].Strip().String() == s.String() && (roleOf(r) == "dealer" || roleOf(r) == "sb") {
						w = roleOf(r)
					}
					l, r = r, l
				}
				return false
			})
			if w == "" {
				return "", "a player is taken as found without his seat being equal to the dealer / small-blind seat"
			}
			if which != "" && which != w {
				return "", "one variable records both the dealer's and the small blind's player"
			}
			which = w
		}
		if nIdx == 0 {
			return "", "never assigned a player"
		}
		return which, ""
	}
	// found-test among guards: returns (which, found?, ok)
	foundTest := func(gs []Guard, which string) (bool, bool) {
		for _, g := range gs {
			cm := g.AsCmp()
			if cm == nil {
				continue
			}
			k, isK := cm.R.ConstInt()
			if !isK || k != -1 || (cm.Op != token.EQL && cm.Op != token.NEQ) {
				continue
			}
			w, _ := foundKind(cm.L.Strip().V)
			if w != which {
				continue
			}
			// cm holds (AsCmp folds g.Val): op == EQL means "not found"
			return cm.Op == token.NEQ, true
		}
		return false, false
	}

	n := 0
	for _, ci := range Calls(builder) {
		cs := p.CallSym(ci)
		if cs.Kind != "builtin" || cs.Name != "append" || !isIntSlice(ci.Common().Args[0]) {
			continue
		}
		e := appendedElem(p, ci)
		if e == nil || seatScanShape(e) != "" {
			continue // shape violations are reported by hand-list-source
		}
		n++
		where := p.InstrPos(ci)
		gs := p.Guards(ci)
		short := cmpHolds(gs, func(l, r *Sym, op token.Token) bool {
			s, _ := r.ConstString()
			return op == token.EQL && s == "short_deck" && roleOf(l) == "rule"
		})
		// (1) emptiness test excludes exactly the unset value
		okEmpty := cmpHolds(gs, func(l, r *Sym, op token.Token) bool {
			k, isK := r.ConstInt()
			return isK && l.Strip().String() == e.Strip().String() && ((op == token.GEQ && k == 0) || (op == token.GTR && k == -1) || (op == token.NEQ && k == -1))
		})
		c.Check(okEmpty, rule, "hand-list-start:empty-seat-test", where, "seat skipped only when its entry is the unset value", "a seat-map entry other than the unset value is skipped (player 0 sits at index 0)")

		first := e.Strip().Args[1].Strip().Args[0].Strip().Ind.First.Strip()
		d := ""
		switch {
		case roleOf(first) == "dealer" && short:
		case roleOf(first) == "dealer":
			found, ok := foundTest(gs, "dealer")
			if !ok || !found {
				d = "the scan starts at the dealer seat without a dealt-in player having been found there"
			}
		case first.Kind == "phi":
			found, ok := foundTest(gs, "dealer")
			if short || !ok || found {
				d = "the substitute start seat is used although a dealt-in player sits at the dealer seat"
				break
			}
			d = checkFakeDealer(p, first, roleOf, isCountOf, foundTest)
		default:
			d = "the scan starts at " + first.String()
		}
		br := "default"
		if short {
			br = "short_deck"
		}
		c.Check(d == "", rule, "hand-list-start:"+br, where, "entry 0 = dealer's seat, else nearest active seat before the SB (or BB) seat", "who is first in the hand's player list: "+d)
	}
	c.Min(rule, "scans in the list builder (start seat)", n, 3)
	// the list the scans append to starts empty (an initial element would list a player twice)
	for _, ci := range Calls(builder) {
		cs := p.CallSym(ci)
		if cs.Kind != "builtin" || cs.Name != "append" || !isIntSlice(ci.Common().Args[0]) {
			continue
		}
		seen := map[ssa.Value]bool{}
		var walk func(v ssa.Value)
		walk = func(v ssa.Value) {
			if seen[v] {
				return
			}
			seen[v] = true
			switch x := v.(type) {
			case *ssa.Phi:
				for _, e := range x.Edges {
					walk(e)
				}
				return
			case *ssa.Call:
				if b2, isB2 := x.Call.Value.(*ssa.Builtin); isB2 && b2.Name() == "append" {
					walk(x.Call.Args[0])
					return
				}
			}
			if k, isK := v.(*ssa.Const); isK && k.IsNil() {
				return
			}
			c.Check(isEmptySlice(p.Sym(v)), rule, "hand-list-start:initially-empty", p.InstrPos(ci), "list starts empty", "the hand's player list does not start empty ("+p.Sym(v).String()+")")
		}
		walk(ci.Common().Args[0])
		break
	}
	// the two found variables exist (tested somewhere)
	for _, w := range []string{"dealer", "sb"} {
		ok := false
		for _, b := range builder.Blocks {
			for _, in := range b.Instrs {
				if iff, isIf := in.(*ssa.If); isIf {
					if cm := (Guard{Cond: p.Sym(iff.Cond), V: iff.Cond, Val: true, If: iff}).AsCmp(); cm != nil {
						if k, isK := cm.R.ConstInt(); isK && k == -1 {
							if ww, _ := foundKind(cm.L.Strip().V); ww == w {
								ok = true
							}
						}
					}
				}
			}
		}
		c.Check(ok, rule, "hand-list-start:"+w+"-found-test", p.Pos(builder.Pos()), "tested", "the list builder no longer decides on whether a dealt-in player holds the "+w+" seat")
	}
}

// checkFakeDealer: start = φ(X | -1) with X = ι % N chosen on the first seat that is
// occupied and Active() while ι walks S+N-1 down to S (inclusive), S = φ(BB | SB) chosen by
// the SB-found test.
func checkFakeDealer(p *Prog, first *Sym, roleOf func(*Sym) string, isCountOf func(*Sym) bool, foundTest func([]Guard, string) (bool, bool)) string {
	nSeat := 0
	for _, lf := range p.phiLeaves(first.V) {
		s := p.Sym(lf.V).Strip()
		if k, isK := s.ConstInt(); isK {
			if k != -1 {
				return fmt.Sprintf("the substitute start seat defaults to %d", k)
			}
			continue
		}
		nSeat++
		if !(s.Kind == "binop" && s.Name == "%" && isCountOf(s.Args[1])) {
			return "the substitute start seat " + s.String() + " is not a seat position modulo the seat count"
		}
		iv := s.Args[0].Strip()
		if iv.Kind != "ind" || iv.Ind.Step != -1 || iv.Ind.Bound == nil || !iv.Ind.Incl || iv.Ind.Op != token.GEQ {
			return "the substitute start seat is not found by walking counter-clockwise (" + iv.String() + ")"
		}
		start := iv.Ind.Bound.Strip()
		// First = (S + N) - 1
		f := iv.Ind.First.Strip()
		okFirst := false
		if f.Kind == "binop" && f.Name == "-" {
			if one, isK := f.Args[1].ConstInt(); isK && one == 1 {
				sum := f.Args[0].Strip()
				if sum.Kind == "binop" && sum.Name == "+" {
					x, y := sum.Args[0].Strip(), sum.Args[1].Strip()
					for k := 0; k < 2; k++ {
						if x.String() == start.String() && isCountOf(y) {
							okFirst = true
						}
						x, y = y, x
					}
				}
			}
		}
		if !okFirst {
			return "the counter-clockwise walk " + iv.String() + " does not cover the full circle ending at the seat it starts from"
		}
		// chosen only for an occupied, active seat at that position
		act := guardedBy(lf.Guards, true, func(g *Sym) bool {
			if !g.IsCall("SeatPlayer.Active") {
				return false
			}
			return g.Contains(func(x *Sym) bool { return x.String() == s.String() })
		})
		nn := cmpHolds(lf.Guards, func(l, r *Sym, op token.Token) bool {
			return op == token.NEQ && r.IsNil() && l.Contains(func(x *Sym) bool { return x.String() == s.String() })
		})
		if !act || !nn {
			return "the substitute start seat is accepted without the seat being occupied and active"
		}
		// S = φ(BB | SB) by the SB-found test
		if start.Kind != "phi" {
			return "the counter-clockwise walk starts from " + start.String() + " regardless of whether the small blind is held"
		}
		roles := map[string]bool{}
		for _, l2 := range p.phiLeaves(start.V) {
			r := roleOf(p.Sym(l2.V))
			found, ok := foundTest(l2.Guards, "sb")
			switch {
			case r == "bb" && ok && !found:
			case r == "sb" && ok && found:
			default:
				return "the counter-clockwise walk starts from " + p.Sym(l2.V).String() + " under the wrong small-blind test"
			}
			roles[r] = true
		}
		if !roles["bb"] || !roles["sb"] {
			return "the counter-clockwise walk does not choose between the SB seat (held) and the BB seat (SB not held)"
		}
	}
	if nSeat == 0 {
		return "the substitute start seat is never assigned"
	}
	return ""
}
