package main

// C10 — only the player whose turn it is can act; refused actions leave no trace.

import (
	"fmt"
	"go/token"
	"strings"

	"golang.org/x/tools/go/ssa"
)

func init() {
	register(&PropMeta{
		ID:          "C10",
		Level:       "other",
		Explanation: "Decides the structural clauses of C10 on every path of the 9 engine action methods and the 9 hand-side single actions: the engine lock is held; the hand call is dominated by successful validation (status playing, known hand index) and a successful player-index lookup; every effect in the method (store to existing state, statistics, callbacks) is control-dependent on the hand call's success and the method returns that call's error; Player<X> calls Game.<X> and publishes the label of X for the caller's own id; each hand-side action validates first (current-player validator for wager actions and pass, allowed-action validator with its own action name for ready/pay) and touches nothing on failure; validator definitions are checked on every non-error exit. (R10) the delegation of 'the hand allows that action' to pokerface is checked at the pinned version: each of its player methods rejects a disallowed action, or the wrapper tests it itself. NOT decided: that pokerface computes the allowed-action lists correctly; remote backends; concurrency (see C16).",
		Rules: map[string]string{
			"R1":  "engine mutex must-held at the hand call; entry Lock + deferred Unlock; no explicit Unlock",
			"R2":  "hand call dominated by validate(FindGamePlayerIdx(own id)) == nil and by player-index lookup != unset; index passed to the hand is that same lookup; the id → hand index look-ups answer exactly at the entry of the player asked for, and a departure during the hand re-maps the hand index list through the new player list without filtering the live list in place (as C02.R4/R5)",
			"R3":  "every effect in the method is guarded by the hand call's err == nil; every exit after the hand call returns that err",
			"R4":  "Player<X> invokes Game.<X>; published label equals the action constant of X",
			"R5":  "hand-side single action: validator call first with own index (and own action name); backend call / ready-group signal / state update dominated by validator success; a pay during ante or blind collection becomes the payer's own ready-group signal and never reaches the backend's pay, which acts for the current player (shared with C11.R5)",
			"R6":  "validator definitions: engine-side ok ⇒ status playing ∧ index set; current-player validator ok ⇒ player exists ∧ index == current player; allowed-action validator ok ⇒ player exists ∧ HasAction(index, action); each hand-side validator refuses only for one of its reasons",
			"R10": "the legality test delegated to the hand rules library exists: for each action X handed to the backend, pokerface's player.X returns an error on every path where CheckAction(x) is false, or else the hand wrapper itself tests HasAction(own index, x) before the backend call",
			"R9":  "the hand-state hook stores each new state in the table first and clears the published last action exactly at round close",
			"R8":  "the status the engine-side validator relies on (playing) is stored only after the hand's Start succeeded (shared with C07.R1)",
			"R7":  "last-action store is built from the caller's own id and player index and (wager actions, pass) followed by an action event carrying that same value; action record fields come from their parameters; the naming fields of the published action are filled whenever their source exists (only conditions: a hand state exists / the player index is in range)",
		},
		Assumptions: []string{"pokerface CheckAction rejects disallowed wager actions of the current player (outside the repo)"},
		Run:         checkC10,
		Controls:    controlsC10,
	})
}

var actionLabel = map[string]string{"Ready": "ready", "Pay": "pay", "Pass": "pass", "Fold": "fold", "Check": "check", "Call": "call", "Allin": "allin", "Bet": "bet", "Raise": "raise"}

func checkC10(c *Ctx) {
	p := c.P
	// R9: the published last action is only ever cleared by the hook, when a betting round closes
	checkUpdateHook(c, "R9", "lastaction", "store")
	// R2 (part): the id → hand index translation every action relies on stays valid when somebody leaves
	// during the hand (as C02.R4): re-mapped through the new player list, never filtered in place
	checkDelegatedLegality(c, "R10")
	checkLeaveRemap(c, "R2")
	// a pay is attributed to the payer: while antes or blinds are being collected it is turned into the
	// ready-group signal of the validated index; the backend's pay (which acts for the hand's current
	// player, whoever submitted it) is reached for no collection event (shared with C11.R5)
	checkPayRouting(c, "R5")
	checkInPlaceFilter(c, "R2")
	checkTableLookups(c, "R2", "FindPlayerIdx", "FindGamePlayerIdx")
	// R8: "a hand is being played" (the status the engine-side validator tests) is only
	// ever recorded after the hand's Start succeeded
	if lc := p.lifecycle(); lc.startFn != nil && lc.startCall != nil {
		ev := callErrValue(lc.startCall)
		n := 0
		for _, ss := range p.FieldStores("TableState", "Status") {
			if v, _ := ss.Val.ConstString(); v != "table_game_playing" {
				continue
			}
			n++
			ok := ss.Fn == lc.startFn && nilGuard(p.Guards(ss.Instr), true, func(x *Sym) bool { return x.V == ev })
			c.Check(ok, "R8", "playing-status-after-start:"+FuncName(ss.Fn), p.InstrPos(ss.Instr), "status playing stored only after Start() returned nil", "the table is marked as playing although the hand may not have started: actions then pass the engine-side validator with no hand to act on")
		}
		c.Min("R8", "stores of the playing status", n, 1)
	} else {
		c.Bad("R8", "playing-status-after-start", "-", "start step not found")
	}
	ams := p.engineActionMethods()
	c.Min("R2", "engine methods invoking a Game single action", len(ams), 9)
	locks := p.Locks()
	hw := heapWatch()
	validators := map[*ssa.Function]bool{}
	var pgaBuilders = map[*ssa.Function]bool{}
	for _, am := range ams {
		f := am.Fn
		name := fnName(f)
		where := p.Pos(f.Pos())
		c.Count("engine_action_methods", 1)
		// R1
		held := locks.Held(am.Hand, "tableEngine.lock")
		explicitUnlock := false
		hasDefer := false
		for _, ci := range Calls(f) {
			if op := p.lockOpOf(ci); op != nil && op.Key == "tableEngine.lock" {
				if _, isD := ci.(*ssa.Defer); isD && op.Op == "Unlock" {
					hasDefer = true
				} else if op.Op == "Unlock" {
					explicitUnlock = true
				}
			}
		}
		c.Check(held && hasDefer && !explicitUnlock, "R1", name, where, "engine lock held at hand call, released by defer only",
			fmt.Sprintf("engine lock not must-held at the hand call (held=%v defer-unlock=%v explicit-unlock=%v)", held, hasDefer, explicitUnlock))

		// R4 name agreement
		want := strings.TrimPrefix(name, "Player")
		c.Check(want == am.Action, "R4", name+":callee", p.InstrPos(am.Hand), "Player"+want+" → Game."+am.Action, fmt.Sprintf("%s invokes Game.%s", name, am.Action))

		// R2: index provenance
		if len(f.Params) < 2 {
			c.Bad("R2", name, where, "no player id parameter")
			continue
		}
		idParam := f.Params[1]
		gidx := p.Sym(am.Hand.Call.Args[0]).Strip()
		okIdx := gidx.IsCall("Table.FindGamePlayerIdx") && len(gidx.Args) == 2 && gidx.Args[1].Strip().V == idParam
		c.Check(okIdx, "R2", name+":hand-index", p.InstrPos(am.Hand), "hand index = FindGamePlayerIdx(own id)", "index passed to the hand engine is "+gidx.String()+", not FindGamePlayerIdx(<own player id>)")
		gs := p.Guards(am.Hand)
		// validation guard: some repo call taking exactly gidx, result == nil
		var vcall *Sym
		for _, g := range gs {
			if cm := g.AsCmp(); cm != nil && cm.Op == token.EQL && cm.R.IsNil() {
				l := cm.L.Strip()
				if l.Kind == "call" && len(l.Args) == 2 && l.Args[1].Strip().String() == gidx.String() && l.Call != nil && l.Call.Common().StaticCallee() != nil && p.IsRepoFunc(l.Call.Common().StaticCallee()) {
					vcall = l
				}
			}
		}
		if vcall != nil {
			validators[vcall.Call.Common().StaticCallee()] = true
		}
		c.Check(vcall != nil, "R2", name+":validated", p.InstrPos(am.Hand), "hand call dominated by validation success", "hand call is not dominated by a successful validation of the caller's hand index")
		// player index lookup guard
		var pidx *Sym
		okP := cmpHolds(gs, func(l, r *Sym, op token.Token) bool {
			if op == token.NEQ && r.Strip().Name == "-1" && l.IsCall("Table.FindPlayerIndexFromGamePlayerIndex") && l.Strip().Args[1].Strip().String() == gidx.String() {
				pidx = l.Strip()
				return true
			}
			return false
		})
		c.Check(okP, "R2", name+":player-found", p.InstrPos(am.Hand), "hand call dominated by player-index lookup != unset", "hand call not dominated by a successful FindPlayerIndexFromGamePlayerIndex(<hand index>) lookup")

		// R3: effects guarded by err == nil of the hand call
		errV := callErrValue(am.Hand)
		nEff, badEff := 0, 0
		for _, b := range f.Blocks {
			for _, in := range b.Instrs {
				if in == ssa.Instruction(am.Hand) {
					continue
				}
				isEff := hw.Direct(p, in)
				if ci, ok := in.(ssa.CallInstruction); ok && !isEff {
					if p.lockOpOf(ci) != nil {
						continue
					}
					if len(p.mutatingCallees(ci, hw)) > 0 {
						isEff = true
					}
				}
				if !isEff {
					continue
				}
				nEff++
				if !nilGuard(p.Guards(in), true, func(s *Sym) bool { return s.V == errV }) {
					badEff++
					c.Bad("R3", name+":effect", p.InstrPos(in), "effect not control-dependent on the hand call's success: "+instrText(p, in))
				}
			}
		}
		c.Count("effects_checked", nEff)
		if badEff == 0 {
			c.Ok("R3", name+":effects", where, fmt.Sprintf("%d effect(s), all under err == nil", nEff))
		}
		// returns after the hand call return its error
		okRet := true
		dRet := ""
		for _, b := range f.Blocks {
			for _, in := range b.Instrs {
				if ret, ok := in.(*ssa.Return); ok && Reaches(am.Hand, ret) {
					rv := retValue(ret, errResultIndex(f.Signature))
					if rv != errV {
						okRet, dRet = false, fmt.Sprintf("exit at %s after the hand call returns %s instead of the hand call's error", p.InstrPos(ret), p.Sym(rv))
					}
				}
			}
		}
		c.Check(okRet, "R3", name+":returns-hand-error", where, "method returns the hand call's error", dRet)

		// R7 / R4 label
		var lastStore *StoreSite
		for _, ss := range p.Stores([]*ssa.Function{f}) {
			if ss.Owner == "TableState" && ss.Field == "LastPlayerGameAction" {
				lastStore = ss
			}
		}
		if lastStore == nil {
			c.Bad("R7", name+":last-action", where, "accepted action is not published as the table's last player action")
			continue
		}
		v := lastStore.Val.Strip()
		okPub := v.Kind == "call" && len(v.Args) >= 6 && v.Args[1].Strip().V == idParam && pidx != nil && v.Args[2].Strip().String() == pidx.String()
		c.Check(okPub, "R7", name+":last-action", p.InstrPos(lastStore.Instr), "last action built from own id and own player index", "last action not built from (own player id, own player index): "+v.String())
		if v.Kind == "call" && len(v.Args) >= 6 {
			if v.Call.Common().StaticCallee() != nil {
				pgaBuilders[v.Call.Common().StaticCallee()] = true
			}
			lbl, _ := v.Args[3].ConstString()
			c.Check(lbl == actionLabel[am.Action], "R4", name+":label", p.InstrPos(lastStore.Instr), "label "+lbl, fmt.Sprintf("published label %q for Game.%s (expected %q)", lbl, am.Action, actionLabel[am.Action]))
			// the hand-state player passed is the acting one
			pl := v.Args[5].Strip()
			okPl := pl.IsCall("pokerface.GameState.GetPlayer") && pl.Args[1].Strip().String() == gidx.String()
			c.Check(okPl, "R7", name+":acting-player-snapshot", p.InstrPos(lastStore.Instr), "player snapshot = GetPlayer(own hand index)", "player snapshot in the published action is "+pl.String())
		}
		if am.Action == "Ready" || am.Action == "Pay" {
			c.Except("R7", name+":event", "ready and pay publish the last action without an action event (frozen from the pinned tree)")
		} else {
			found := false
			for _, ci := range Calls(f) {
				cs := p.CallSym(ci)
				if cs.Call.Common().StaticCallee() == nil || len(cs.Args) < 2 {
					continue
				}
				a := cs.Args[1].Strip()
				if a.IsField("TableState", "LastPlayerGameAction") && Dominates(lastStore.Instr, ci) && p.reachesCallback(cs.Call.Common().StaticCallee(), "onGamePlayerActionUpdated") {
					found = true
				}
				// … or the very pointer that is stored, dereferenced for the event (pga := build(); store pga; emit(*pga))
				if ld, isLd := ci.Common().Args[1].(*ssa.UnOp); isLd && ld.Op == token.MUL && ld.X == lastStore.ValV && p.reachesCallback(cs.Call.Common().StaticCallee(), "onGamePlayerActionUpdated") {
					found = true
				}
			}
			c.Check(found, "R7", name+":event", where, "action event emitted with the stored last action", "no action event carrying the stored last action after the store")
		}
	}
	// R7b: action record builder fields
	for b := range pgaBuilders {
		checkPGABuilder(c, b)
	}
	// R6 engine-side validator definition
	for v := range validators {
		checkEngineValidator(c, v)
	}
	c.Min("R6", "engine-side validators", len(validators), 1)
	checkGameSide(c)
}

func instrText(p *Prog, in ssa.Instruction) string {
	if ss := p.storeSite(in); ss != nil {
		return ss.Addr.String() + " = " + ss.Val.String()
	}
	if ci, ok := in.(ssa.CallInstruction); ok {
		return p.CallSym(ci).String()
	}
	return in.String()
}

// retValue looks through defer-spilled named results.
func retValue(ret *ssa.Return, i int) ssa.Value {
	if i < 0 || i >= len(ret.Results) {
		return nil
	}
	v := ret.Results[i]
	if u, ok := v.(*ssa.UnOp); ok && u.Op == token.MUL {
		if a, ok := u.X.(*ssa.Alloc); ok {
			// last store to a in the same block before ret
			b := ret.Block()
			for k := len(b.Instrs) - 1; k >= 0; k-- {
				if st, ok := b.Instrs[k].(*ssa.Store); ok && st.Addr == a {
					return st.Val
				}
			}
		}
	}
	return v
}

// reachesCallback: f (or what it calls) invokes the engine callback field of that name.
func (p *Prog) reachesCallback(f *ssa.Function, field string) bool {
	ri := p.CG().Reach([]*ssa.Function{f}, ReachOpts{SyncOnly: true, RepoOnly: true})
	for _, g := range ri.Order {
		for _, ci := range Calls(g) {
			cm := ci.Common()
			if cm.IsInvoke() || cm.StaticCallee() != nil {
				continue
			}
			if p.Sym(cm.Value).Strip().IsField("", field) {
				return true
			}
		}
	}
	return false
}

func checkPGABuilder(c *Ctx, f *ssa.Function) {
	p := c.P
	where := p.Pos(f.Pos())
	// expected: field ← source
	type exp struct{ field, want string }
	params := map[string]string{}
	for i, pr := range f.Params {
		params[fmt.Sprint(i)] = pr.Name()
	}
	got := map[string]string{}
	for _, ss := range p.Stores([]*ssa.Function{f}) {
		if ss.Owner == "TablePlayerGameAction" {
			got[ss.Field] = ss.Val.Strip().String()
		}
	}
	if len(f.Params) < 6 {
		c.Bad("R7", "action-record-builder", where, "unexpected signature")
		return
	}
	te, id, idx, act, chips := f.Params[0].Name(), f.Params[1].Name(), f.Params[2].Name(), f.Params[3].Name(), f.Params[4].Name()
	exps := []exp{
		{"PlayerID", id}, {"Action", act}, {"Chips", chips},
		{"TableID", te + ".table.ID"}, {"GameCount", te + ".table.State.GameCount"},
		{"GameID", te + ".table.State.GameState.GameID"}, {"Round", te + ".table.State.GameState.Status.Round"},
		{"Seat", te + ".table.State.PlayerStates[" + idx + "].Seat"},
	}
	for _, e := range exps {
		c.Check(got[e.field] == e.want, "R7", "action-record:"+e.field, where, e.field+" ← "+e.want, fmt.Sprintf("published action field %s is %q, expected %q", e.field, got[e.field], e.want))
	}
	// the naming fields are filled whenever their source exists: the only conditions allowed
	// are "a hand state exists" (round, hand id) and "the player index is in range" (seat)
	named := map[string]bool{"PlayerID": true, "Action": true, "Chips": true, "TableID": true, "GameCount": true, "GameID": true, "Round": true, "Seat": true}
	for _, ss := range p.Stores([]*ssa.Function{f}) {
		if ss.Owner != "TablePlayerGameAction" || !named[ss.Field] {
			continue
		}
		ok := true
		for _, g := range p.Guards(ss.Instr) {
			cm := g.AsCmp()
			if cm == nil {
				ok = false
				continue
			}
			l, r := cm.L.Strip(), cm.R.Strip()
			handExists := (ss.Field == "GameID" || ss.Field == "Round") && cm.Op == token.NEQ && r.IsNil() && l.IsField("TableState", "GameState")
			inRange := ss.Field == "Seat" && cm.Op == token.LSS && symIsParam(l, f.Params[2]) && r.IsCall("len") && r.Args[0].Strip().IsField("TableState", "PlayerStates")
			if !handExists && !inRange {
				ok = false
			}
		}
		c.Check(ok, "R7", "action-record-condition:"+ss.Field, p.InstrPos(ss.Instr), "filled whenever its source exists", "the published action's "+ss.Field+" is filled only under an unrelated or inverted condition")
	}
}

func checkEngineValidator(c *Ctx, f *ssa.Function) {
	p := c.P
	where := p.Pos(f.Pos())
	oks, _, _, _, ab := p.ExitsWithGuards(f)
	if ab || len(oks) == 0 {
		c.Undecided("R6", "engine-validator:"+fnName(f), where, "could not enumerate exits")
		return
	}
	good := true
	for _, gs := range oks {
		st := cmpHolds(gs, func(l, r *Sym, op token.Token) bool {
			s, _ := r.ConstString()
			return op == token.EQL && l.Strip().IsField("TableState", "Status") && s == "table_game_playing"
		})
		ix := cmpHolds(gs, func(l, r *Sym, op token.Token) bool {
			return op == token.NEQ && l.Strip().Kind == "param" && r.Strip().Name == "-1"
		})
		if !st || !ix {
			good = false
		}
	}
	c.Check(good, "R6", "engine-validator:"+fnName(f), where, "ok ⇒ status playing ∧ index set", "engine-side validator has a success exit without (status == playing ∧ hand index != unset)")
	// and it is effect-free
	c.Check(!p.MayMutate(f, heapWatch()), "R6", "engine-validator-pure:"+fnName(f), where, "validator has no effects", "validator performs effects")
}

func checkGameSide(c *Ctx) {
	p := c.P
	gt := p.singleImpl("", "Game")
	if gt == nil {
		c.Bad("R5", "anchors", "-", "Game implementation not found")
		return
	}
	hw := heapWatch()
	n := 0
	playValidators := map[*ssa.Function]bool{}
	actValidators := map[*ssa.Function]bool{}
	for _, name := range p.gameSingleActions() {
		f := p.Method(gt, name)
		if f == nil {
			c.Bad("R5", name, "-", "method not found")
			continue
		}
		n++
		where := p.Pos(f.Pos())
		idx := f.Params[1]
		// first call must be a validator on (g, own index[, const])
		var first *ssa.Call
		for _, in := range f.Blocks[0].Instrs {
			if call, ok := in.(*ssa.Call); ok {
				if isLogCall(call) {
					continue
				}
				first = call
				break
			}
		}
		okV := first != nil && first.Common().StaticCallee() != nil && p.IsRepoFunc(first.Common().StaticCallee()) &&
			len(first.Call.Args) >= 2 && first.Call.Args[1] == idx && isErrorType(first.Type())
		if !okV {
			c.Bad("R5", name+":validator-first", where, "the action does not begin with a validator call on its own player index")
			continue
		}
		vf := first.Common().StaticCallee()
		if len(first.Call.Args) == 3 {
			lbl, _ := p.Sym(first.Call.Args[2]).ConstString()
			c.Check(lbl == actionLabel[name], "R5", name+":validator-action", p.InstrPos(first), "validates action "+lbl, fmt.Sprintf("validates action %q, expected %q", lbl, actionLabel[name]))
			actValidators[vf] = true
		} else {
			playValidators[vf] = true
		}
		wantAct := name == "Ready" || name == "Pay"
		c.Check(wantAct == (len(first.Call.Args) == 3), "R5", name+":validator-kind", p.InstrPos(first), "validator kind matches action class", "wager/pass actions must use the current-player validator; ready/pay the allowed-action validator")
		// everything with an effect is dominated by validator success
		bad := 0
		neff := 0
		for _, b := range f.Blocks {
			for _, in := range b.Instrs {
				if in == ssa.Instruction(first) {
					continue
				}
				isEff := hw.Direct(p, in)
				if ci, ok := in.(ssa.CallInstruction); ok && !isEff {
					cm := ci.Common()
					if cm.IsInvoke() { // backend call
						isEff = true
					} else if sc := cm.StaticCallee(); sc != nil {
						if p.IsRepoFunc(sc) && p.MayMutate(sc, hw) {
							isEff = true
						}
						if strings.HasPrefix(calleeName(cm), "syncsaga.") {
							isEff = true
						}
					}
				}
				if !isEff {
					continue
				}
				neff++
				if !nilGuard(p.Guards(in), true, func(s *Sym) bool { return s.V == ssa.Value(first) }) {
					bad++
					c.Bad("R5", name+":effect-before-validation", p.InstrPos(in), "effect not dominated by validator success: "+instrText(p, in))
				}
			}
		}
		if bad == 0 {
			c.Ok("R5", name+":effects", where, fmt.Sprintf("%d effect(s)/backend call(s) all after successful validation", neff))
		}
		// ready-group signals carry the validated index
		for _, ci := range Calls(f) {
			if calleeName(ci.Common()) == "syncsaga.ReadyGroup.Ready" {
				a := p.Sym(ci.Common().Args[1]).Strip()
				c.Check(a.V == idx || a.String() == idx.Name(), "R5", name+":signal-index", p.InstrPos(ci), "ready-group signalled with own index", "ready group signalled with "+a.String())
			}
		}
	}
	c.Min("R5", "hand-side single actions", n, 9)
	for v := range playValidators {
		oks, _, _, _, ab := p.ExitsWithGuards(v)
		good := !ab && len(oks) > 0
		for _, gs := range oks {
			cur := cmpHolds(gs, func(l, r *Sym, op token.Token) bool {
				return op == token.EQL && l.Strip().IsField("Status", "CurrentPlayer") && r.Strip().Kind == "param"
			})
			ex := nilGuard(gs, false, func(s *Sym) bool {
				return s.IsCall("pokerface.GameState.GetPlayer") && s.Args[1].Strip().Kind == "param"
			})
			if !cur || !ex {
				good = false
			}
		}
		c.Check(good, "R6", "current-player-validator:"+fnName(v), p.Pos(v.Pos()), "ok ⇒ player exists ∧ index == current player", "current-player validator has a success exit without (GetPlayer(idx) != nil ∧ CurrentPlayer == idx)")
	}
	// converse (C11 needs answers from asked players to be accepted): a validator refuses only for one of its reasons
	refusalReasons := func(v *ssa.Function, reasons func(gs []Guard) bool, what string) {
		_, errs, _, errRets, ab := p.ExitsWithGuards(v)
		ok := !ab && len(errs) > 0
		where := p.Pos(v.Pos())
		for i, gs := range errs {
			if !reasons(gs) {
				ok = false
				where = p.InstrPos(errRets[i])
			}
		}
		c.Check(ok, "R6", "validator-refuses-only-for-cause:"+fnName(v), where, "every refusal has one of the validator's reasons", "the "+what+" refuses a move although none of its reasons holds (or for the opposite of a reason)")
	}
	for v := range playValidators {
		refusalReasons(v, func(gs []Guard) bool {
			noPlayer := nilGuard(gs, true, func(s *Sym) bool {
				return s.IsCall("pokerface.GameState.GetPlayer") && s.Args[1].Strip().Kind == "param"
			})
			notTurn := cmpHolds(gs, func(l, r *Sym, op token.Token) bool {
				return op == token.NEQ && l.Strip().IsField("Status", "CurrentPlayer") && r.Strip().Kind == "param"
			})
			return noPlayer || notTurn
		}, "current-player validator")
	}
	for v := range actValidators {
		refusalReasons(v, func(gs []Guard) bool {
			noPlayer := nilGuard(gs, true, func(s *Sym) bool {
				return s.IsCall("pokerface.GameState.GetPlayer") && s.Args[1].Strip().Kind == "param"
			})
			notAllowed := guardedBy(gs, false, func(s *Sym) bool {
				return s.IsCall("pokerface.GameState.HasAction") && len(s.Args) == 3 && s.Args[1].Strip().Kind == "param" && s.Args[2].Strip().Kind == "param"
			})
			noGroup := nilGuard(gs, true, func(s *Sym) bool { return s.IsField("game", "rg") })
			return noPlayer || notAllowed || noGroup
		}, "allowed-action validator")
	}
	for v := range actValidators {
		oks, _, _, _, ab := p.ExitsWithGuards(v)
		good := !ab && len(oks) > 0
		for _, gs := range oks {
			has := guardedBy(gs, true, func(s *Sym) bool {
				return s.IsCall("pokerface.GameState.HasAction") && len(s.Args) == 3 && s.Args[1].Strip().Kind == "param" && s.Args[2].Strip().Kind == "param"
			})
			ex := nilGuard(gs, false, func(s *Sym) bool {
				return s.IsCall("pokerface.GameState.GetPlayer") && s.Args[1].Strip().Kind == "param"
			})
			if !has || !ex {
				good = false
			}
		}
		c.Check(good, "R6", "allowed-action-validator:"+fnName(v), p.Pos(v.Pos()), "ok ⇒ player exists ∧ HasAction(idx, action)", "allowed-action validator has a success exit without (GetPlayer(idx) != nil ∧ HasAction(idx, action))")
	}
	c.Min("R6", "hand-side validators", len(playValidators)+len(actValidators), 2)
}

// checkTurnTestOnHandState (C02.R9, the definition half of C10.R6): the backend applies a wager action to whoever is
// current in the state the hand holds — the index the caller names is only *compared*. So the entry an action is
// booked under is the caller's own only if the success exits of the hand's wager validator establish "that index is
// the current player of the hand's own state (g.gs)", not of a copy published elsewhere (the table's mirror lags).
func checkTurnTestOnHandState(c *Ctx, rule string) {
	p := c.P
	gt := p.singleImpl("", "Game")
	if gt == nil {
		c.Bad(rule, "anchors", "-", "hand implementation not found")
		return
	}
	vals := map[*ssa.Function]bool{}
	for _, name := range p.gameSingleActions() {
		f := p.Method(gt, name)
		if f == nil || len(f.Params) < 2 {
			continue
		}
		for _, in := range f.Blocks[0].Instrs {
			if call, ok := in.(*ssa.Call); ok {
				if isLogCall(call) {
					continue
				}
				if sc := call.Common().StaticCallee(); sc != nil && p.IsRepoFunc(sc) && len(call.Call.Args) == 2 && call.Call.Args[1] == f.Params[1] && isErrorType(call.Type()) {
					vals[sc] = true
				}
				break
			}
		}
	}
	for v := range vals {
		oks, _, _, _, ab := p.ExitsWithGuards(v)
		good := !ab && len(oks) > 0
		for _, gs := range oks {
			cur := cmpHolds(gs, func(l, r *Sym, op token.Token) bool {
				l = l.Strip()
				return op == token.EQL && l.IsField("Status", "CurrentPlayer") && l.PathHas("game", "gs") && r.Strip().Kind == "param"
			})
			if !cur {
				good = false
			}
		}
		c.Check(good, rule, "turn-test-on-the-hand's-own-state:"+fnName(v), p.Pos(v.Pos()), "ok ⇒ index == current player of the state the hand holds", "the wager validator can succeed without having compared the caller's index with the current player of the hand's own state: the backend moves whoever is current, and the action is booked under an entry that is not the caller's")
	}
	c.Min(rule, "wager validators of the hand", len(vals), 1)
}
