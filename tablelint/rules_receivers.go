package main

// Receiver discipline (shared by C09, C17, C18, C19, C20).
//
// A method with a value receiver works on a copy of the struct. Two things then go wrong silently — the code
// compiles, sequential tests that never look at the lost state pass:
//   - a store to a field of the receiver (x.f = v, x.f++, through value-typed fields only) is lost when the
//     method returns: a setter that sets nothing, a view time that is never remembered, a runner never attached;
//   - a field of a type from package sync held by value (Mutex, RWMutex, Map, …) is copied: the registry a
//     table is stored into, or the lock taken, is a private one.

import (
	"fmt"
	"go/ast"
	"go/token"
	"go/types"

	"golang.org/x/tools/go/ssa"
)

func holdsSyncByValue(n *types.Named) string {
	st, _ := n.Underlying().(*types.Struct)
	if st == nil {
		return ""
	}
	for i := 0; i < st.NumFields(); i++ {
		if nt, ok := st.Field(i).Type().(*types.Named); ok && nt.Obj().Pkg() != nil && nt.Obj().Pkg().Path() == "sync" {
			return "sync." + nt.Obj().Name()
		}
	}
	return ""
}

func checkReceiverDiscipline(c *Ctx, rule string, pred func(nt *types.Named) bool, min int) {
	p := c.P
	n, bad := 0, 0
	// methods (of the selected types) that assign to a field of their receiver, directly or through another
	// method of the same receiver: calling one of them on a value receiver's copy loses the assignment too
	type mkey struct {
		t *types.Named
		m string
	}
	writers := map[mkey]bool{}
	recvInfo := func(f *ssa.Function) (*types.Named, *ast.FuncDecl, types.Object) {
		if f.Parent() != nil || f.Signature.Recv() == nil || !inModule(p, f) {
			return nil, nil, nil
		}
		rt := f.Signature.Recv().Type()
		if pt, ok := rt.(*types.Pointer); ok {
			rt = pt.Elem()
		}
		nt, _ := rt.(*types.Named)
		fd, _ := f.Syntax().(*ast.FuncDecl)
		pk := p.PkgOf(f)
		if nt == nil || !pred(nt) || fd == nil || fd.Body == nil || pk == nil || fd.Recv == nil || len(fd.Recv.List) == 0 || len(fd.Recv.List[0].Names) == 0 {
			return nt, nil, nil
		}
		return nt, fd, pk.TypesInfo.Defs[fd.Recv.List[0].Names[0]]
	}
	rootedAtRecv := func(f *ssa.Function, recvObj types.Object, e ast.Expr) bool {
		pk := p.PkgOf(f)
		for {
			switch x := e.(type) {
			case *ast.ParenExpr:
				e = x.X
				continue
			case *ast.SelectorExpr:
				if id, ok := x.X.(*ast.Ident); ok {
					return recvObj != nil && pk.TypesInfo.Uses[id] == recvObj
				}
				if tv, ok := pk.TypesInfo.Types[x.X]; ok && tv.Type != nil {
					if _, isP := tv.Type.Underlying().(*types.Pointer); isP {
						return false
					}
				}
				e = x.X
				continue
			}
			return false
		}
	}
	for changed := true; changed; {
		changed = false
		for _, f := range p.Funcs {
			nt, fd, recvObj := recvInfo(f)
			if fd == nil || writers[mkey{nt, f.Name()}] {
				continue
			}
			pk := p.PkgOf(f)
			w := false
			ast.Inspect(fd.Body, func(nd ast.Node) bool {
				switch x := nd.(type) {
				case *ast.AssignStmt:
					if x.Tok != token.DEFINE {
						for _, e := range x.Lhs {
							w = w || rootedAtRecv(f, recvObj, e)
						}
					}
				case *ast.IncDecStmt:
					w = w || rootedAtRecv(f, recvObj, x.X)
				case *ast.CallExpr:
					if sel, ok := x.Fun.(*ast.SelectorExpr); ok {
						if id, isID := sel.X.(*ast.Ident); isID && recvObj != nil && pk.TypesInfo.Uses[id] == recvObj && writers[mkey{nt, sel.Sel.Name}] {
							w = true
						}
					}
				}
				return true
			})
			if w {
				writers[mkey{nt, f.Name()}] = true
				changed = true
			}
		}
	}
	for _, f := range p.Funcs {
		if f.Parent() != nil || f.Signature.Recv() == nil || !inModule(p, f) {
			continue
		}
		rt := f.Signature.Recv().Type()
		isPtr := false
		if pt, ok := rt.(*types.Pointer); ok {
			rt, isPtr = pt.Elem(), true
		}
		nt, _ := rt.(*types.Named)
		if nt == nil || !pred(nt) {
			continue
		}
		n++
		if isPtr {
			continue
		}
		if _, isStruct := nt.Underlying().(*types.Struct); !isStruct {
			continue
		}
		where := p.Pos(f.Pos())
		if s := holdsSyncByValue(nt); s != "" {
			bad++
			c.Bad(rule, "receiver:copies-"+s+":"+fnName(f), where, fmt.Sprintf("%s has a value receiver of type %s, which holds a %s by value: the method works on a private copy of it", fnName(f), canonTypeName(nt.Obj()), s))
		}
		fd, _ := f.Syntax().(*ast.FuncDecl)
		pk := p.PkgOf(f)
		if fd == nil || fd.Body == nil || pk == nil || fd.Recv == nil || len(fd.Recv.List) == 0 || len(fd.Recv.List[0].Names) == 0 {
			continue
		}
		recvObj := pk.TypesInfo.Defs[fd.Recv.List[0].Names[0]]
		// lhs is recv.f1.f2…fn with every intermediate value of non-pointer struct type
		var lost func(e ast.Expr) bool
		lost = func(e ast.Expr) bool {
			switch x := e.(type) {
			case *ast.ParenExpr:
				return lost(x.X)
			case *ast.SelectorExpr:
				if id, ok := x.X.(*ast.Ident); ok {
					return recvObj != nil && pk.TypesInfo.Uses[id] == recvObj
				}
				if tv, ok := pk.TypesInfo.Types[x.X]; ok && tv.Type != nil {
					if _, isP := tv.Type.Underlying().(*types.Pointer); isP {
						return false
					}
				}
				return lost(x.X)
			}
			return false
		}
		ast.Inspect(fd.Body, func(nd ast.Node) bool {
			if _, isLit := nd.(*ast.FuncLit); isLit {
				return true // closures capture the same copy
			}
			var lhs []ast.Expr
			switch x := nd.(type) {
			case *ast.CallExpr:
				if sel, ok := x.Fun.(*ast.SelectorExpr); ok {
					if id, isID := sel.X.(*ast.Ident); isID && recvObj != nil && pk.TypesInfo.Uses[id] == recvObj && writers[mkey{nt, sel.Sel.Name}] {
						bad++
						c.Bad(rule, "receiver:lost-store:"+fnName(f), p.Pos(x.Pos()), fmt.Sprintf("%s has a value receiver and calls %s on it, which assigns to the receiver's fields: the assignment changes a copy and is lost when the method returns", fnName(f), sel.Sel.Name))
					}
				}
			case *ast.AssignStmt:
				if x.Tok != token.DEFINE {
					lhs = x.Lhs
				}
			case *ast.IncDecStmt:
				lhs = []ast.Expr{x.X}
			}
			for _, e := range lhs {
				if lost(e) {
					bad++
					c.Bad(rule, "receiver:lost-store:"+fnName(f), p.Pos(e.Pos()), fmt.Sprintf("%s has a value receiver and assigns to %s: the assignment changes a copy and is lost when the method returns", fnName(f), types.ExprString(e)))
				}
			}
			return true
		})
	}
	if bad == 0 {
		c.Ok(rule, "receiver-discipline", "-", fmt.Sprintf("%d methods: none assigns to a field of a value receiver, none copies a sync.* field through its receiver", n))
	}
	c.Min(rule, "methods under the receiver discipline", n, min)
}

var _ = ssa.BuilderMode(0)

// implementersIn: predicate selecting the named types of a production package that implement one of the
// package's interfaces listed (role-based: a renamed type is still selected).
func (p *Prog) implementersIn(pkgSuffix string, ifaces ...string) func(*types.Named) bool {
	set := map[*types.Named]bool{}
	for _, in := range ifaces {
		if it := p.Iface(pkgSuffix, in); it != nil {
			for _, t := range p.Implementers(it) {
				set[t] = true
			}
		}
	}
	return func(nt *types.Named) bool { return set[nt] }
}
