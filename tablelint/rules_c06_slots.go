package main

import (
	"fmt"
	"go/token"
	"go/types"

	"golang.org/x/tools/go/ssa"
)

// checkLabelSlots (C06.R11): the two loops of the position updater, decided by enumerating
// every path through one iteration and comparing what the iteration does with what the
// dead-button labelling requires, for every combination of the conditions it tests.
//
// Slot count loop: one full circle over the seat manager's seat list from the dealer seat;
// a seat counts as a position slot iff it is the dealer, SB or BB seat, or it holds an
// eligible (occupied, Active) player; never twice.
//
// Hand-out loop: one full circle from the BB seat; the head label is given (and consumed)
// iff the seat exists and holds an eligible player known to the player list; it is consumed
// without being given iff the seat holds no eligible player, the head label is dealer or sb,
// and the seat is the dealer or SB seat (dead button / dead small blind); the loop is left
// when no label remains.
func checkLabelSlots(c *Ctx, updater *ssa.Function, tableFn *ssa.Function, rotateCall *ssa.Call) {
	p := c.P
	rule := "R11"
	isGetter := func(s *Sym, which string) bool { return s.Strip().IsCall("SeatManager.Current" + which + "SeatID") }
	if len(updater.Params) < 3 {
		c.Bad(rule, "slots:anchors", p.Pos(updater.Pos()), "position updater has an unexpected signature")
		return
	}
	maxSeat := updater.Params[1]
	players := updater.Params[2]
	for _, site := range p.CG().AllCallSitesOf(updater) {
		ok := false
		if len(site.Common().Args) >= 3 {
			ok = p.Sym(site.Common().Args[1]).Strip().IsField("TableMeta", "TableMaxSeatCount") && p.Sym(site.Common().Args[2]).Strip().IsField("TableState", "PlayerStates")
		}
		c.Check(ok, rule, "slots:updater-arguments", p.InstrPos(site), "updater given the table's seat count and player list", "the position updater is not given the table's own seat count and player list")
	}

	// ---------- slot count loop
	var countPhi *ssa.Phi
	if tableFn != nil {
		for _, ci := range Calls(updater) {
			if ci.Common().StaticCallee() == tableFn && len(ci.Common().Args) == 1 {
				if ph, ok := ci.Common().Args[0].(*ssa.Phi); ok {
					countPhi = ph
				}
			}
		}
	}
	if countPhi == nil {
		c.Bad(rule, "slot-count", p.Pos(updater.Pos()), "the label table is not selected by a count accumulated in a loop")
	} else {
		header := countPhi.Block()
		incs := map[*ssa.BasicBlock]int{}
		okInit := false
		for _, lf := range p.phiLeaves(countPhi) {
			if bo, isBO := lf.V.(*ssa.BinOp); isBO && bo.Op == token.ADD {
				if k, isK := p.Sym(bo.Y).ConstInt(); isK && k == 1 {
					incs[bo.Block()]++
					continue
				}
			}
			if k, isK := p.Sym(lf.V).ConstInt(); isK && k == 0 {
				okInit = true
				continue
			}
			c.Bad(rule, "slot-count:update", p.Pos(lf.V.Pos()), "the slot count is updated by "+p.Sym(lf.V).String()+", not by +1 from 0")
		}
		c.Check(okInit, rule, "slot-count:starts-at-zero", p.Pos(countPhi.Pos()), "count starts at 0", "the slot count does not start at 0")
		paths, ok := p.loopBodyPaths(header)
		var body []bodyPath
		for _, bp := range paths {
			if len(bp.Order) > 1 {
				body = append(body, bp)
			}
		}
		var seatList *Sym
		// (position in the seat list + dealer seat) % seat count
		isSlotSeat := func(seat *Sym) bool {
			seat = seat.Strip()
			if !(seat.Kind == "binop" && seat.Name == "%" && symIsParam(seat.Args[1], maxSeat)) {
				return false
			}
			sum := seat.Args[0].Strip()
			if sum.Kind == "binop" && sum.Name == "+" {
				x, y := sum.Args[0].Strip(), sum.Args[1].Strip()
				for k := 0; k < 2; k++ {
					if isGetter(y, "Dealer") && fullRange(x, func(z *Sym) bool { return z.IsCall("SeatManager.ListPlayerSeatsFromDealer") }) {
						return true
					}
					x, y = y, x
				}
			}
			return false
		}
		atom := func(g Guard) (string, bool, bool) {
			s := g.Cond.Strip()
			if cm := g.AsCmp(); cm != nil {
				l, r := cm.L.Strip(), cm.R.Strip()
				// seat == dealer / SB / BB seat, spelled as comparisons
				if cm.Op == token.EQL || cm.Op == token.NEQ {
					a, b := l, r
					for k := 0; k < 2; k++ {
						if isSlotSeat(a) {
							for _, w := range []string{"Dealer", "SB", "BB"} {
								if isGetter(b, w) {
									return "is-" + w + "-seat", cm.Op == token.EQL, true
								}
							}
						}
						a, b = b, a
					}
				}
				if r.IsNil() && l.Kind == "index" && l.Args[0].IsCall("SeatManager.ListPlayerSeatsFromDealer") && fullRange(l.Args[1], func(x *Sym) bool { return x.IsCall("SeatManager.ListPlayerSeatsFromDealer") }) {
					seatList = l
					return "occupied", cm.Op == token.NEQ, cm.Op == token.NEQ || cm.Op == token.EQL
				}
				if l.Kind == "ind" && l.Ind.Phi != nil && l.Ind.Phi.Block() == header {
					return "", false, true // the loop's own test
				}
				return "", false, false
			}
			if s.IsCall("SeatPlayer.Active") {
				a := s.Args[0].Strip()
				if a.Kind == "index" && a.Args[0].IsCall("SeatManager.ListPlayerSeatsFromDealer") && fullRange(a.Args[1], func(x *Sym) bool { return x.IsCall("SeatManager.ListPlayerSeatsFromDealer") }) {
					return "active", g.Val, true
				}
				return "", false, false
			}
			if s.IsCall("funk.Contains") && len(s.Args) == 2 {
				vals := sliceLiteralValues(s.Call.Common().Args[0])
				got := map[string]bool{}
				for _, v := range vals {
					for _, w := range []string{"Dealer", "SB", "BB"} {
						if isGetter(p.Sym(v), w) {
							got[w] = true
						}
					}
				}
				seat := s.Args[1].Strip()
				okSeat := seat.Kind == "binop" && seat.Name == "%" && symIsParam(seat.Args[1], maxSeat)
				if okSeat {
					sum := seat.Args[0].Strip()
					okSeat = false
					if sum.Kind == "binop" && sum.Name == "+" {
						x, y := sum.Args[0].Strip(), sum.Args[1].Strip()
						for k := 0; k < 2; k++ {
							if isGetter(y, "Dealer") && fullRange(x, func(z *Sym) bool { return z.IsCall("SeatManager.ListPlayerSeatsFromDealer") }) {
								okSeat = true
							}
							x, y = y, x
						}
					}
				}
				if len(vals) == 3 && got["Dealer"] && got["SB"] && got["BB"] && okSeat {
					return "button-seat", g.Val, true
				}
				return "", false, false
			}
			return "", false, false
		}
		d := ""
		if !ok || len(body) == 0 {
			d = "cannot enumerate the paths of the slot-count loop"
		} else {
			count := func(bp bodyPath) int {
				n := 0
				for b, k := range incs {
					if bp.Blocks[b] {
						n += k
					}
				}
				return n
			}
			d = tableCheck(body, atom, []string{"button-seat", "is-Dealer-seat", "is-SB-seat", "is-BB-seat", "occupied", "active"},
				func(a map[string]bool) bool {
					// "one of the three button seats" is the disjunction of the three comparisons
					return (a["active"] && !a["occupied"]) || a["button-seat"] != (a["is-Dealer-seat"] || a["is-SB-seat"] || a["is-BB-seat"])
				},
				map[string]func(bodyPath) bool{
					"count the seat as a position slot": func(bp bodyPath) bool { return count(bp) >= 1 },
					"count the seat twice":              func(bp bodyPath) bool { return count(bp) >= 2 },
				},
				map[string]func(map[string]bool) bool{
					"count the seat as a position slot": func(a map[string]bool) bool {
						return a["button-seat"] || a["is-Dealer-seat"] || a["is-SB-seat"] || a["is-BB-seat"] || (a["occupied"] && a["active"])
					},
					"count the seat twice": func(a map[string]bool) bool { return false },
				})
		}
		_ = seatList
		c.Check(d == "", rule, "slot-count:definition", p.Pos(countPhi.Pos()), fmt.Sprintf("slot ⇔ dealer/SB/BB seat ∨ (occupied ∧ active); %d paths", len(body)), "number of position slots: "+d)

		// threshold: one-label rows only for more than two slots
		if rotateCall != nil {
			has := func(want token.Token, k int64) bool {
				return cmpHolds(p.Guards(rotateCall), func(l, r *Sym, op token.Token) bool {
					z, isK := r.ConstInt()
					return isK && l.Strip().V == ssa.Value(countPhi) && op == want && z == k
				})
			}
			okT := has(token.GTR, 2) || has(token.GEQ, 3) || (has(token.GEQ, 2) && has(token.NEQ, 2))
			notTwo := true
			c.Check(okT && notTwo, rule, "slot-count:threshold", p.InstrPos(rotateCall), "table rows used for more than two slots", "the label table is not used exactly when there are more than two position slots")
		}
	}

	// ---------- hand-out loop
	var store *StoreSite
	for _, ss := range p.Stores([]*ssa.Function{updater}) {
		if ss.Owner == "TablePlayerState" && ss.Field == "Positions" {
			store = ss
		}
	}
	if store == nil {
		return
	}
	// header: innermost loop header dominating the store
	var header *ssa.BasicBlock
	for b := store.Instr.Block(); b != nil; b = b.Idom() {
		isHdr := false
		for _, pr := range b.Preds {
			if b.Dominates(pr) {
				isHdr = true
			}
		}
		if isHdr && naturalLoop(b)[store.Instr.Block()] {
			header = b
			break
		}
	}
	if header == nil {
		c.Bad(rule, "hand-out", p.InstrPos(store.Instr), "labels are not handed out in a loop over the seats")
		return
	}
	// the seat expression of this loop: ι % maxSeat, ι from the BB seat, one full circle
	var seatStr string
	okCircle := false
	for _, in := range header.Instrs {
		ph, isPhi := in.(*ssa.Phi)
		if !isPhi {
			continue
		}
		iv := p.Sym(ph).Strip()
		if iv.Kind != "ind" {
			continue
		}
		f, b := iv.Ind.First.Strip(), iv.Ind.Bound
		if !isGetter(f, "BB") || b == nil {
			continue
		}
		bs := b.Strip()
		if iv.Ind.Step == 1 && !iv.Ind.Incl && iv.Ind.Op == token.LSS && bs.Kind == "binop" && bs.Name == "+" {
			x, y := bs.Args[0].Strip(), bs.Args[1].Strip()
			for k := 0; k < 2; k++ {
				if symIsParam(x, maxSeat) && isGetter(y, "BB") {
					okCircle = true
				}
				x, y = y, x
			}
		}
		seatStr = "(" + iv.String() + " % " + maxSeat.Name() + ")"
	}
	c.Check(okCircle, rule, "hand-out:one-circle-from-bb", p.Pos(header.Instrs[0].Pos()), "i from the BB seat while i < seat count + BB seat", "labels are not handed out over exactly one circle of seats starting at the big-blind seat")
	isSeat := func(s *Sym) bool {
		s = s.Strip()
		return s.Kind == "binop" && s.Name == "%" && symIsParam(s.Args[1], maxSeat) && s.Args[0].Strip().Kind == "ind" && s.Args[0].Strip().Ind.Phi != nil && s.Args[0].Strip().Ind.Phi.Block() == header
	}
	isSeatPlayer := func(s *Sym) bool { // Seats()[seat]#0
		s = s.Strip()
		return s.Kind == "extract" && s.Name == "0" && s.Args[0].Strip().Kind == "lookup" && s.Args[0].Strip().Args[0].IsCall("SeatManager.Seats") && isSeat(s.Args[0].Strip().Args[1])
	}
	isHead := func(s *Sym) bool {
		s = s.Strip()
		if s.Kind != "index" || symType(s) != "[]string" {
			return false
		}
		k, isK := s.Args[1].ConstInt()
		return isK && k == 0
	}
	atom := func(g Guard) (string, bool, bool) {
		s := g.Cond.Strip()
		if cm := g.AsCmp(); cm != nil {
			l, r := cm.L.Strip(), cm.R.Strip()
			if cm.Op == token.EQL || cm.Op == token.NEQ {
				a, b := l, r
				for k := 0; k < 2; k++ {
					if isSeat(a) {
						for _, w := range []string{"Dealer", "SB"} {
							if isGetter(b, w) {
								return "seat-is-" + w, cm.Op == token.EQL, true
							}
						}
					}
					a, b = b, a
				}
			}
			switch {
			case r.IsNil() && isSeatPlayer(l) && (cm.Op == token.NEQ || cm.Op == token.EQL):
				return "occupied", cm.Op == token.NEQ, true
			case l.Kind == "ind" && l.Ind.Phi != nil && l.Ind.Phi.Block() == header:
				return "", false, true
			case l.IsCall("len") && symType(l.Args[0]) == "[][]string":
				if k, isK := r.ConstInt(); isK && k == 0 && (cm.Op == token.EQL || cm.Op == token.NEQ) {
					return "no-label-left", cm.Op == token.EQL, true
				}
				if k, isK := r.ConstInt(); isK && k == 0 && (cm.Op == token.GTR || cm.Op == token.LEQ) {
					return "no-label-left", cm.Op == token.LEQ, true
				}
			case r.IsCall("len") && symIsParam(r.Args[0], players) && l.Kind == "extract":
				// index found in the id→index map of this very list is always in range
				if cm.Op == token.LSS || cm.Op == token.GEQ {
					return "in-range", cm.Op == token.LSS, true
				}
			}
			return "", false, false
		}
		switch {
		case s.Kind == "extract" && s.Name == "1" && s.Args[0].Strip().Kind == "lookup" && s.Args[0].Strip().Args[0].IsCall("SeatManager.Seats") && isSeat(s.Args[0].Strip().Args[1]):
			return "seat-exists", g.Val, true
		case s.Kind == "extract" && s.Name == "1" && s.Args[0].Strip().Kind == "lookup" && s.Args[0].Strip().Args[1].Strip().IsField("SeatPlayer", "ID") && isSeatPlayer(s.Args[0].Strip().Args[1].Strip().Args[0]):
			return "known-player", g.Val, true
		case s.IsCall("SeatPlayer.Active") && isSeatPlayer(s.Args[0]):
			return "active", g.Val, true
		case s.Kind == "call" && s.Call != nil && s.Call.Common().StaticCallee() != nil && isContainsHelper(p, s.Call.Common().StaticCallee()) && len(s.Args) == 2 && isHead(s.Args[0]):
			if k, isK := s.Args[1].ConstString(); isK && (k == "dealer" || k == "sb") {
				return "head-is-" + k, g.Val, true
			}
			return "", false, false
		case s.IsCall("funk.Contains") && len(s.Args) == 2:
			if isHead(s.Args[0]) {
				if k, isK := s.Args[1].ConstString(); isK && k == "dealer" {
					return "head-is-dealer", g.Val, true
				}
				if k, isK := s.Args[1].ConstString(); isK && k == "sb" {
					return "head-is-sb", g.Val, true
				}
				return "", false, false
			}
			vals := sliceLiteralValues(s.Call.Common().Args[0])
			got := map[string]bool{}
			for _, v := range vals {
				for _, w := range []string{"Dealer", "SB"} {
					if isGetter(p.Sym(v), w) {
						got[w] = true
					}
				}
			}
			if len(vals) == 2 && got["Dealer"] && got["SB"] && isSeat(s.Args[1]) {
				return "dead-seat", g.Val, true
			}
		}
		return "", false, false
	}
	paths, ok := p.loopBodyPaths(header)
	var body []bodyPath
	for _, bp := range paths {
		if len(bp.Order) > 1 {
			body = append(body, bp)
		}
	}
	shiftBlocks := map[*ssa.BasicBlock]int{}
	for b := range naturalLoop(header) {
		for _, in := range b.Instrs {
			if sl, isSl := in.(*ssa.Slice); isSl && typeShort(sl.Type()) == "[][]string" && sl.Low != nil && sl.High == nil {
				if z, isZ := p.Sym(sl.Low).ConstInt(); isZ && z == 1 {
					shiftBlocks[b]++
				}
			}
		}
	}
	// the label list is built from an empty list
	for _, b := range updater.Blocks {
		for _, in := range b.Instrs {
			bad, is := false, false
			switch x := in.(type) {
			case *ssa.MakeSlice:
				if typeShort(x.Type()) == "[][]string" {
					k, isK := p.Sym(x.Len).ConstInt()
					is, bad = true, !(isK && k == 0)
				}
			case *ssa.Alloc: // make with a constant length is an array allocation that is then sliced
				if pt, isP := x.Type().Underlying().(*types.Pointer); isP && x.Comment == "makeslice" {
					if at, isA := pt.Elem().Underlying().(*types.Array); isA && typeShort(at.Elem()) == "[]string" {
						is, bad = true, at.Len() != 0
					}
				}
			}
			if is {
				c.Check(!bad, rule, "hand-out:label-list-initially-empty", p.InstrPos(in), "label list starts empty", "the list of label rows does not start empty: its first row is no label at all")
			}
		}
	}
	d := ""
	if !ok || len(body) == 0 {
		d = "cannot enumerate the paths of the hand-out loop"
	} else {
		shifts := func(bp bodyPath) int {
			n := 0
			for b, k := range shiftBlocks {
				if bp.Blocks[b] {
					n += k
				}
			}
			return n
		}
		eligible := func(a map[string]bool) bool { return a["seat-exists"] && a["occupied"] && a["active"] }
		d = tableCheck(body, atom, []string{"seat-exists", "occupied", "active", "known-player", "in-range", "head-is-dealer", "head-is-sb", "dead-seat", "seat-is-Dealer", "seat-is-SB", "no-label-left"},
			func(a map[string]bool) bool {
				return (a["active"] && !a["occupied"]) || !a["in-range"] || a["dead-seat"] != (a["seat-is-Dealer"] || a["seat-is-SB"])
			},
			map[string]func(bodyPath) bool{
				"give the head label to the seat's player": func(bp bodyPath) bool { return bp.Blocks[store.Instr.Block()] },
				"consume the head label":                   func(bp bodyPath) bool { return shifts(bp) >= 1 },
				"consume two labels":                       func(bp bodyPath) bool { return shifts(bp) >= 2 },
				"leave the loop":                           func(bp bodyPath) bool { return bp.Exit },
			},
			map[string]func(map[string]bool) bool{
				"give the head label to the seat's player": func(a map[string]bool) bool { return eligible(a) && a["known-player"] },
				"consume the head label": func(a map[string]bool) bool {
					return (eligible(a) && a["known-player"]) || (a["seat-exists"] && !(a["occupied"] && a["active"]) && (a["head-is-dealer"] || a["head-is-sb"]) && (a["dead-seat"] || a["seat-is-Dealer"] || a["seat-is-SB"]))
				},
				"consume two labels": func(a map[string]bool) bool { return false },
				"leave the loop":     func(a map[string]bool) bool { return a["no-label-left"] },
			})
	}
	_ = seatStr
	c.Check(d == "", rule, "hand-out:decisions", p.InstrPos(store.Instr), fmt.Sprintf("give ⇔ eligible ∧ known; skip ⇔ ¬eligible ∧ head∈{dealer,sb} ∧ seat∈{dealer,SB seat}; leave ⇔ no label left; %d paths", len(body)), "handing out the labels: "+d)
}

func symType(s *Sym) string {
	s = s.Strip()
	if s == nil || s.V == nil {
		return ""
	}
	return typeShort(s.V.Type())
}

// isContainsHelper: a repository function (list []string, target string) bool whose body is a membership test —
// it returns the constant true only on a path where an element of the list was compared equal to the target,
// and the constant false otherwise.
func isContainsHelper(p *Prog, f *ssa.Function) bool {
	if f == nil || !p.IsRepoFunc(f) || len(f.Params) != 2 || typeShort(f.Params[0].Type()) != "[]string" || typeShort(f.Params[1].Type()) != "string" ||
		f.Signature.Results().Len() != 1 || typeShort(f.Signature.Results().At(0).Type()) != "bool" {
		return false
	}
	nTrue, nFalse := 0, 0
	for _, b := range f.Blocks {
		for _, in := range b.Instrs {
			r, ok := in.(*ssa.Return)
			if !ok {
				continue
			}
			v, isB := p.Sym(r.Results[0]).ConstBool()
			if !isB {
				return false
			}
			eq := cmpHolds(p.Guards(r), func(l, rr *Sym, op token.Token) bool {
				l, rr = l.Strip(), rr.Strip()
				whole := func(ix *Sym) bool {
					return fullRange(ix, func(x *Sym) bool { return symIsParam(x, f.Params[0]) })
				}
				a := (l.Kind == "index" && symIsParam(l.Args[0], f.Params[0]) && whole(l.Args[1]) && symIsParam(rr, f.Params[1])) ||
					(rr.Kind == "index" && symIsParam(rr.Args[0], f.Params[0]) && whole(rr.Args[1]) && symIsParam(l, f.Params[1]))
				return a && op == token.EQL
			})
			if v {
				nTrue++
				if !eq {
					return false
				}
			} else {
				nFalse++
				if eq {
					return false
				}
			}
		}
	}
	return nTrue == 1 && nFalse >= 1
}
