package main

// A8 call resolution: static, interface (CHA restricted to the repo and the three
// weedbox dependencies), and function values (field-based, context-insensitive).

import (
	"fmt"
	"go/types"
	"sort"
	"strings"

	"golang.org/x/tools/go/ssa"
)

type Edge struct {
	Site   ssa.CallInstruction
	Caller *ssa.Function
	Callee *ssa.Function
	Kind   string // static | invoke | func
	Async  bool   // go statement
	Defer  bool
}

type callGraph struct {
	p          *Prog
	implMemo   map[string][]*types.Named
	fieldVals  map[*types.Var][]ssa.Value // values stored to struct fields (func-typed fields only)
	ifaceVals  map[*types.Var][]ssa.Value // values stored to interface-typed struct fields
	callers    map[*ssa.Function][]Edge   // static+invoke
	calleeMemo map[ssa.CallInstruction][]*ssa.Function
	extMemo    map[ssa.CallInstruction]bool
	fvMemo     map[ssa.Value]*fvRes
	built      bool
}

type fvRes struct {
	fns      map[*ssa.Function]bool
	external bool
	busy     bool
}

// packages whose types/functions take part in resolution
func interestingPkg(path string) bool {
	return strings.HasPrefix(path, modPath) && !strings.HasSuffix(path, "/testcases") ||
		strings.HasPrefix(path, "github.com/weedbox/")
}

func (p *Prog) CG() *callGraph {
	if p.cg == nil {
		p.cg = &callGraph{p: p, implMemo: map[string][]*types.Named{}, fieldVals: map[*types.Var][]ssa.Value{}, ifaceVals: map[*types.Var][]ssa.Value{},
			callers: map[*ssa.Function][]Edge{}, calleeMemo: map[ssa.CallInstruction][]*ssa.Function{},
			extMemo: map[ssa.CallInstruction]bool{}, fvMemo: map[ssa.Value]*fvRes{}}
		p.cg.build()
	}
	return p.cg
}

func fieldVar(t types.Type, idx int) *types.Var {
	if pt, ok := t.Underlying().(*types.Pointer); ok {
		t = pt.Elem()
	}
	if st, ok := t.Underlying().(*types.Struct); ok && idx < st.NumFields() {
		return st.Field(idx)
	}
	return nil
}

func isFuncType(t types.Type) bool {
	_, ok := t.Underlying().(*types.Signature)
	return ok
}

func (g *callGraph) interestingFunc(f *ssa.Function) bool {
	for f.Parent() != nil {
		f = f.Parent()
	}
	// test code is user code: its closures are external callbacks, not part of the program
	if f.Pos().IsValid() && strings.HasSuffix(g.p.Fset.Position(f.Pos()).Filename, "_test.go") {
		return false
	}
	if f.Pkg == nil {
		if o := f.Object(); o != nil && o.Pkg() != nil {
			return interestingPkg(o.Pkg().Path())
		}
		return false
	}
	return interestingPkg(f.Pkg.Pkg.Path())
}

func (g *callGraph) build() {
	// field stores of func-typed values
	for _, f := range g.p.AllFuncs {
		if !g.interestingFunc(f) {
			continue
		}
		for _, b := range f.Blocks {
			for _, in := range b.Instrs {
				st, ok := in.(*ssa.Store)
				if !ok {
					continue
				}
				if _, isIface := st.Val.Type().Underlying().(*types.Interface); isIface {
					if fa, ok := st.Addr.(*ssa.FieldAddr); ok {
						if fv := fieldVar(fa.X.Type(), fa.Field); fv != nil {
							g.ifaceVals[fv] = append(g.ifaceVals[fv], st.Val)
						}
					}
					continue
				}
				if !isFuncType(st.Val.Type()) {
					continue
				}
				if fa, ok := st.Addr.(*ssa.FieldAddr); ok {
					if fv := fieldVar(fa.X.Type(), fa.Field); fv != nil {
						g.fieldVals[fv] = append(g.fieldVals[fv], st.Val)
					}
				}
			}
		}
	}
	// callers index (static + invoke)
	for _, f := range g.p.AllFuncs {
		if !g.interestingFunc(f) {
			continue
		}
		for _, ci := range Calls(f) {
			c := ci.Common()
			_, isGo := ci.(*ssa.Go)
			_, isDefer := ci.(*ssa.Defer)
			if c.IsInvoke() {
				for _, callee := range g.invokeTargets(c) {
					g.callers[callee] = append(g.callers[callee], Edge{Site: ci, Caller: f, Callee: callee, Kind: "invoke", Async: isGo, Defer: isDefer})
				}
			} else if sc := c.StaticCallee(); sc != nil {
				g.callers[sc] = append(g.callers[sc], Edge{Site: ci, Caller: f, Callee: sc, Kind: "static", Async: isGo, Defer: isDefer})
			}
		}
	}
	g.built = true
}

func (g *callGraph) implementers(iface types.Type) []*types.Named {
	key := iface.String()
	if r, ok := g.implMemo[key]; ok {
		return r
	}
	it, ok := iface.Underlying().(*types.Interface)
	var out []*types.Named
	if ok {
		// only interfaces declared in interesting packages are resolved
		if n := namedOf(iface); n != nil && n.Obj().Pkg() != nil && interestingPkg(n.Obj().Pkg().Path()) {
			for _, pk := range g.p.AllPkgs {
				if !interestingPkg(pk.PkgPath) || pk.Types == nil || strings.Contains(pk.ID, "[") {
					continue
				}
				sc := pk.Types.Scope()
				for _, nm := range sc.Names() {
					tn, ok := sc.Lookup(nm).(*types.TypeName)
					if !ok {
						continue
					}
					nt, ok := tn.Type().(*types.Named)
					if !ok {
						continue
					}
					if _, isI := nt.Underlying().(*types.Interface); isI {
						continue
					}
					if types.Implements(nt, it) || types.Implements(types.NewPointer(nt), it) {
						out = append(out, nt)
					}
				}
			}
		}
	}
	sort.Slice(out, func(i, j int) bool { return out[i].String() < out[j].String() })
	g.implMemo[key] = out
	return out
}

// concreteTypes: the dynamic types an interface value may hold, when that can be
// decided from the program (field-based for struct fields; constructor results).
func (g *callGraph) concreteTypes(v ssa.Value, depth int) ([]types.Type, bool) {
	if depth > 4 {
		return nil, false
	}
	switch x := v.(type) {
	case *ssa.MakeInterface:
		return []types.Type{x.X.Type()}, true
	case *ssa.ChangeInterface:
		return g.concreteTypes(x.X, depth+1)
	case *ssa.Phi:
		var out []types.Type
		for _, e := range x.Edges {
			ts, ok := g.concreteTypes(e, depth+1)
			if !ok {
				return nil, false
			}
			out = append(out, ts...)
		}
		return out, true
	case *ssa.Const:
		return nil, true // nil interface
	case *ssa.Call:
		sc := x.Call.StaticCallee()
		if sc == nil || sc.Blocks == nil {
			return nil, false
		}
		var out []types.Type
		for _, b := range sc.Blocks {
			for _, in := range b.Instrs {
				if r, ok := in.(*ssa.Return); ok && len(r.Results) >= 1 {
					ts, ok := g.concreteTypes(r.Results[0], depth+1)
					if !ok {
						return nil, false
					}
					out = append(out, ts...)
				}
			}
		}
		return out, true
	case *ssa.UnOp:
		if fa, ok := x.X.(*ssa.FieldAddr); ok {
			fv := fieldVar(fa.X.Type(), fa.Field)
			if fv == nil || !interestingPkg(pkgPathOf(fv)) {
				return nil, false
			}
			// an exported field can be assigned by user code
			if fv.Exported() {
				return nil, false
			}
			vals := g.ifaceVals[fv]
			if len(vals) == 0 {
				return nil, false
			}
			var out []types.Type
			for _, sv := range vals {
				ts, ok := g.concreteTypes(sv, depth+1)
				if !ok {
					return nil, false
				}
				out = append(out, ts...)
			}
			return out, true
		}
	}
	return nil, false
}

func pkgPathOf(v *types.Var) string {
	if v.Pkg() == nil {
		return ""
	}
	return v.Pkg().Path()
}

func (g *callGraph) invokeTargets(c *ssa.CallCommon) []*ssa.Function {
	var out []*ssa.Function
	impls := g.implementers(c.Value.Type())
	if cts, ok := g.concreteTypes(c.Value, 0); ok && len(cts) > 0 {
		// restrict CHA to the types the value can actually hold
		var keep []*types.Named
		for _, nt := range impls {
			for _, ct := range cts {
				if n := namedOf(ct); n != nil && n == nt {
					keep = append(keep, nt)
					break
				}
			}
		}
		if len(keep) > 0 {
			impls = keep
		}
	}
	for _, nt := range impls {
		for _, tt := range []types.Type{types.NewPointer(nt), nt} {
			ms := g.p.SSA.MethodSets.MethodSet(tt)
			sel := ms.Lookup(c.Method.Pkg(), c.Method.Name())
			if sel == nil {
				continue
			}
			f := g.p.SSA.MethodValue(sel)
			if f == nil {
				continue
			}
			// unwrap pointer-receiver wrappers of value methods
			if f.Synthetic != "" {
				if tf := g.p.SSA.FuncValue(sel.Obj().(*types.Func)); tf != nil {
					f = tf
				}
			}
			dup := false
			for _, o := range out {
				if o == f {
					dup = true
				}
			}
			if !dup {
				out = append(out, f)
			}
			break
		}
	}
	return out
}

// Callees resolves a call site. external=true when an unknown (user-supplied or
// unresolvable) function value may be called.
func (g *callGraph) Callees(site ssa.CallInstruction) (fns []*ssa.Function, external bool) {
	if r, ok := g.calleeMemo[site]; ok {
		return r, g.extMemo[site]
	}
	c := site.Common()
	switch {
	case c.IsInvoke():
		fns = g.invokeTargets(c)
		if len(fns) == 0 {
			external = true
		}
	case c.StaticCallee() != nil:
		fns = []*ssa.Function{c.StaticCallee()}
	default:
		if _, isB := c.Value.(*ssa.Builtin); isB {
			break
		}
		r := g.funcValue(c.Value)
		for f := range r.fns {
			fns = append(fns, f)
		}
		sort.Slice(fns, func(i, j int) bool { return fns[i].Pos() < fns[j].Pos() })
		external = r.external
	}
	g.calleeMemo[site] = fns
	g.extMemo[site] = external
	return
}

// funcValue: which functions may a func-typed value denote.
func (g *callGraph) funcValue(v ssa.Value) *fvRes {
	if r, ok := g.fvMemo[v]; ok {
		return r
	}
	r := &fvRes{fns: map[*ssa.Function]bool{}, busy: true}
	g.fvMemo[v] = r
	merge := func(o *fvRes) {
		for f := range o.fns {
			r.fns[f] = true
		}
		if o.external {
			r.external = true
		}
	}
	switch x := v.(type) {
	case *ssa.Function:
		r.fns[x] = true
	case *ssa.MakeClosure:
		if fn, ok := x.Fn.(*ssa.Function); ok {
			r.fns[fn] = true
		}
	case *ssa.Const:
		// nil func
	case *ssa.Phi:
		for _, e := range x.Edges {
			merge(g.funcValue(e))
		}
	case *ssa.ChangeType:
		merge(g.funcValue(x.X))
	case *ssa.MakeInterface:
		merge(g.funcValue(x.X))
	case *ssa.TypeAssert:
		merge(g.funcValue(x.X))
	case *ssa.FreeVar:
		if mc := g.p.parentMC[x.Parent()]; mc != nil {
			for i, fv := range x.Parent().FreeVars {
				if fv == x && i < len(mc.Bindings) {
					merge(g.funcValue(mc.Bindings[i]))
				}
			}
		} else {
			r.external = true
		}
	case *ssa.Alloc:
		for _, st := range g.p.allocStores(x) {
			merge(g.funcValue(st.Val))
		}
	case *ssa.UnOp: // load
		switch a := x.X.(type) {
		case *ssa.FieldAddr:
			if fv := fieldVar(a.X.Type(), a.Field); fv != nil {
				vals := g.fieldVals[fv]
				if len(vals) == 0 {
					r.external = true
				}
				for _, sv := range vals {
					merge(g.funcValue(sv))
				}
			}
		default:
			merge(g.funcValue(x.X))
		}
	case *ssa.Field:
		if fv := fieldVar(x.X.Type(), x.Field); fv != nil {
			vals := g.fieldVals[fv]
			if len(vals) == 0 {
				r.external = true
			}
			for _, sv := range vals {
				merge(g.funcValue(sv))
			}
		}
	case *ssa.Lookup:
		// map of handlers built in the same function: union of MapUpdate values
		if refs := x.X.Referrers(); refs != nil {
			for _, rf := range *refs {
				if mu, ok := rf.(*ssa.MapUpdate); ok && mu.Map == x.X {
					merge(g.funcValue(mu.Value))
				}
			}
		}
	case *ssa.Extract:
		if lk, ok := x.Tuple.(*ssa.Lookup); ok && x.Index == 0 {
			merge(g.funcValue(lk))
		} else {
			r.external = true
		}
	case *ssa.Parameter:
		fn := x.Parent()
		idx := -1
		for i, pr := range fn.Params {
			if pr == x {
				idx = i
			}
		}
		edges := g.callers[fn]
		if len(edges) == 0 || g.isExportedAPI(fn) {
			r.external = true
		}
		for _, e := range edges {
			c := e.Site.Common()
			ai := idx
			if c.IsInvoke() {
				ai = idx - 1 // receiver is not in Args for invoke
			}
			if ai >= 0 && ai < len(c.Args) {
				merge(g.funcValue(c.Args[ai]))
			}
		}
		// functions used as values (passed around) have unknown callers
		if fn.Parent() != nil || g.usedAsValue(fn) {
			r.external = true
		}
	case *ssa.Call:
		// function returning a function: union over returned values of callees
		fns, ext := g.Callees(x)
		if ext {
			r.external = true
		}
		for _, f := range fns {
			for _, b := range f.Blocks {
				for _, in := range b.Instrs {
					if ret, ok := in.(*ssa.Return); ok && len(ret.Results) > 0 {
						merge(g.funcValue(ret.Results[0]))
					}
				}
			}
		}
	default:
		r.external = true
	}
	r.busy = false
	return r
}

func (g *callGraph) usedAsValue(fn *ssa.Function) bool {
	if refs := fn.Referrers(); refs != nil {
		for _, r := range *refs {
			if ci, ok := r.(ssa.CallInstruction); ok && ci.Common().Value == fn {
				continue
			}
			return true
		}
	}
	return false
}

// isExportedAPI: an exported function/method of a production package: its
// function-typed parameters may be supplied by user code.
func (g *callGraph) isExportedAPI(fn *ssa.Function) bool {
	if fn.Parent() != nil || !g.p.IsRepoFunc(fn) {
		return false
	}
	o := fn.Object()
	return o != nil && o.Exported()
}

// SyncCallees: resolved callees reached synchronously from a site (not `go`).
func (g *callGraph) SyncCallees(site ssa.CallInstruction) []*ssa.Function {
	if _, isGo := site.(*ssa.Go); isGo {
		return nil
	}
	fns, _ := g.Callees(site)
	return fns
}

// Reach computes the functions reachable from roots through resolved call edges.
// If syncOnly, `go` edges are not followed. creation=true additionally treats
// every closure created in a reachable function as reachable (over-approximation
// used only where that is the safe direction).
type ReachOpts struct {
	SyncOnly bool
	Creation bool
	RepoOnly bool // do not descend into dependency functions
	Stop     func(*ssa.Function) bool
}

type ReachInfo struct {
	Parent map[*ssa.Function]*ssa.Function
	Via    map[*ssa.Function]ssa.Instruction
	Order  []*ssa.Function
}

func (g *callGraph) Reach(roots []*ssa.Function, o ReachOpts) *ReachInfo {
	ri := &ReachInfo{Parent: map[*ssa.Function]*ssa.Function{}, Via: map[*ssa.Function]ssa.Instruction{}}
	// One level of context for function-typed parameters: when a callee invokes one of
	// its own func-typed parameters directly, the call is resolved against the actual
	// argument of the call site through which the callee was entered (exact), instead
	// of against the union over all of the callee's callers.
	type item struct {
		f    *ssa.Function
		site ssa.CallInstruction // nil: no context
	}
	seenF := map[*ssa.Function]bool{}
	seenCtx := map[string]bool{}
	var q []item
	hasFuncParam := func(f *ssa.Function) bool {
		for _, pr := range f.Params {
			if isFuncType(pr.Type()) {
				return true
			}
		}
		return false
	}
	push := func(f, from *ssa.Function, via ssa.Instruction) {
		if f == nil || f.Blocks == nil {
			return
		}
		if o.RepoOnly && !g.p.IsRepoFunc(f) {
			return
		}
		var site ssa.CallInstruction
		if ci, ok := via.(ssa.CallInstruction); ok && hasFuncParam(f) {
			site = ci
		}
		if !seenF[f] {
			seenF[f] = true
			ri.Parent[f] = from
			ri.Via[f] = via
			ri.Order = append(ri.Order, f)
		} else if site == nil {
			return
		}
		if site != nil {
			k := fmt.Sprintf("%p|%p", f, site)
			if seenCtx[k] {
				return
			}
			seenCtx[k] = true
		}
		if o.Stop != nil && o.Stop(f) {
			return
		}
		q = append(q, item{f, site})
	}
	for _, r := range roots {
		push(r, nil, nil)
	}
	for len(q) > 0 {
		it := q[0]
		q = q[1:]
		f := it.f
		for _, b := range f.Blocks {
			for _, in := range b.Instrs {
				switch x := in.(type) {
				case ssa.CallInstruction:
					if _, isGo := x.(*ssa.Go); isGo && o.SyncOnly {
						continue
					}
					var fns []*ssa.Function
					if pr, isParam := x.Common().Value.(*ssa.Parameter); isParam && !x.Common().IsInvoke() && it.site != nil {
						idx := -1
						for i, fp := range f.Params {
							if fp == pr {
								idx = i
							}
						}
						sc := it.site.Common()
						ai := idx
						if sc.IsInvoke() {
							ai = idx - 1
						}
						if ai >= 0 && ai < len(sc.Args) {
							for fn := range g.funcValue(sc.Args[ai]).fns {
								fns = append(fns, fn)
							}
							sort.Slice(fns, func(i, j int) bool { return fns[i].Pos() < fns[j].Pos() })
						}
					} else {
						fns, _ = g.Callees(x)
					}
					for _, c := range fns {
						push(c, f, in)
					}
				case *ssa.MakeClosure:
					if o.Creation {
						if fn, ok := x.Fn.(*ssa.Function); ok {
							push(fn, f, in)
						}
					}
				}
			}
		}
	}
	return ri
}

// PathTo renders the call path root → f.
func (ri *ReachInfo) PathTo(p *Prog, f *ssa.Function) []string {
	var rev []string
	for x := f; x != nil; x = ri.Parent[x] {
		s := FuncName(x)
		if via := ri.Via[x]; via != nil {
			s += "  ← called at " + p.InstrPos(via)
		}
		rev = append(rev, s)
	}
	for i, j := 0, len(rev)-1; i < j; i, j = i+1, j-1 {
		rev[i], rev[j] = rev[j], rev[i]
	}
	return rev
}

// Callers (static+invoke+resolved func values are NOT included here).
func (g *callGraph) Callers(f *ssa.Function) []Edge { return g.callers[f] }

// AllCallSitesOf: every call site in repo production code that may call f
// (static, invoke, or resolved func value).
func (g *callGraph) AllCallSitesOf(f *ssa.Function) []ssa.CallInstruction {
	var out []ssa.CallInstruction
	for _, caller := range g.p.Funcs {
		for _, ci := range Calls(caller) {
			fns, _ := g.Callees(ci)
			for _, c := range fns {
				if c == f {
					out = append(out, ci)
				}
			}
		}
	}
	return out
}
