package main

// A3 access paths: every SSA value is normalised to a symbolic tree (Sym).

import (
	"fmt"
	"go/constant"
	"go/token"
	"go/types"
	"sort"
	"strings"

	"golang.org/x/tools/go/ssa"
)

type Sym struct {
	Kind  string // param free alloc new field index lookup call extract phi const binop unop conv slice make closure func global rangekey rangeval ind builtin unknown
	Name  string
	Owner string // for field: name of the struct type owning the field
	Args  []*Sym
	V     ssa.Value
	Call  ssa.CallInstruction // for Kind call
	Ind   *Ind
	str   string
}

type Ind struct {
	Phi   *ssa.Phi
	First *Sym // first value taken by the index
	Step  int64
	Bound *Sym // comparison bound (nil if unknown)
	Op    token.Token
	Incl  bool // bound inclusive (<= or >=)
}

func (s *Sym) String() string {
	if s == nil {
		return "<nil>"
	}
	if s.str != "" {
		return s.str
	}
	var r string
	switch s.Kind {
	case "free":
		r = s.Name + "°"
	case "param", "global", "func":
		r = s.Name
	case "alloc":
		r = s.Name + "'"
	case "new":
		r = "&" + s.Name + "{}"
	case "field":
		r = s.Args[0].String() + "." + s.Name
	case "index", "lookup":
		r = s.Args[0].String() + "[" + s.Args[1].String() + "]"
	case "call", "builtin":
		as := make([]string, len(s.Args))
		for i, a := range s.Args {
			as[i] = a.String()
		}
		r = s.Name + "(" + strings.Join(as, ", ") + ")"
	case "extract":
		r = s.Args[0].String() + "#" + s.Name
	case "phi":
		s.str = "φ…" // cycle cut
		as := make([]string, len(s.Args))
		for i, a := range s.Args {
			as[i] = a.String()
		}
		sort.Strings(as)
		r = "φ(" + strings.Join(as, "|") + ")"
	case "const":
		r = s.Name
	case "binop":
		r = "(" + s.Args[0].String() + " " + s.Name + " " + s.Args[1].String() + ")"
	case "unop":
		r = s.Name + s.Args[0].String()
	case "conv":
		r = s.Args[0].String()
	case "slice":
		r = s.Args[0].String() + "[:]"
	case "make":
		r = "make(" + s.Name + ")"
	case "closure":
		r = "closure(" + s.Name + ")"
	case "rangekey":
		r = "key(range " + s.Args[0].String() + ")"
	case "rangeval":
		r = "val(range " + s.Args[0].String() + ")"
	case "ind":
		b := "?"
		if s.Ind.Bound != nil {
			b = s.Ind.Bound.String()
		}
		cl := ")"
		if s.Ind.Incl {
			cl = "]"
		}
		r = fmt.Sprintf("ι[%s..%s%s", s.Ind.First.String(), b, cl)
		if s.Ind.Step != 1 {
			r += fmt.Sprintf("%+d", s.Ind.Step)
		}
	default:
		r = "?" + s.Kind + ":" + s.Name
	}
	s.str = r
	return r
}

// Strip removes transparent conversions.
func (s *Sym) Strip() *Sym {
	for s != nil && s.Kind == "conv" {
		s = s.Args[0]
	}
	return s
}

// Base returns the container of a field/index/lookup step (stripped).
func (s *Sym) Base() *Sym {
	s = s.Strip()
	switch s.Kind {
	case "field", "index", "lookup", "slice":
		return s.Args[0].Strip()
	}
	return nil
}

func (s *Sym) Root() *Sym {
	s = s.Strip()
	for {
		b := s.Base()
		if b == nil {
			return s
		}
		s = b
	}
}

// FieldPath returns the field names along the path, outermost first (index steps are "[]").
func (s *Sym) FieldPath() []string {
	var out []string
	for s = s.Strip(); s != nil; s = s.Base() {
		switch s.Kind {
		case "field":
			out = append(out, s.Name)
		case "index", "lookup":
			out = append(out, "[]")
		case "slice":
		default:
			out = append(out, "^"+s.Kind)
		}
		if s.Base() == nil {
			break
		}
	}
	for i, j := 0, len(out)-1; i < j; i, j = i+1, j-1 {
		out[i], out[j] = out[j], out[i]
	}
	return out
}

// IsField reports whether the sym is field `name` of struct type `owner` ("" = any owner).
func (s *Sym) IsField(owner, name string) bool {
	s = s.Strip()
	return s != nil && s.Kind == "field" && s.Name == name && (owner == "" || s.Owner == owner)
}

// PathHas reports whether some step on the path is field owner.name.
func (s *Sym) PathHas(owner, name string) bool {
	for s = s.Strip(); s != nil; s = s.Base() {
		if s.IsField(owner, name) {
			return true
		}
	}
	return false
}

// Walk visits the tree (pre-order), cutting cycles.
func (s *Sym) Walk(f func(*Sym) bool) {
	seen := map[*Sym]bool{}
	var w func(*Sym)
	w = func(x *Sym) {
		if x == nil || seen[x] {
			return
		}
		seen[x] = true
		if !f(x) {
			return
		}
		for _, a := range x.Args {
			w(a)
		}
	}
	w(s)
}

// Contains reports whether any node satisfies pred.
func (s *Sym) Contains(pred func(*Sym) bool) bool {
	found := false
	s.Walk(func(x *Sym) bool {
		if found {
			return false
		}
		if pred(x) {
			found = true
			return false
		}
		return true
	})
	return found
}

func (s *Sym) IsConst() bool { s = s.Strip(); return s != nil && s.Kind == "const" }
func (s *Sym) IsNil() bool   { s = s.Strip(); return s != nil && s.Kind == "const" && s.Name == "nil" }
func (s *Sym) IsCall(names ...string) bool {
	s = s.Strip()
	if s == nil || (s.Kind != "call" && s.Kind != "builtin") {
		return false
	}
	if len(names) == 0 {
		return true
	}
	for _, n := range names {
		if s.Name == n {
			return true
		}
	}
	return false
}

// ConstInt returns the integer value of a constant sym.
func (s *Sym) ConstInt() (int64, bool) {
	s = s.Strip()
	if s == nil || s.Kind != "const" {
		return 0, false
	}
	if c, ok := s.V.(*ssa.Const); ok && c.Value != nil && c.Value.Kind() == constant.Int {
		return c.Int64(), true
	}
	return 0, false
}

func (s *Sym) ConstString() (string, bool) {
	s = s.Strip()
	if s == nil || s.Kind != "const" {
		return "", false
	}
	if c, ok := s.V.(*ssa.Const); ok && c.Value != nil && c.Value.Kind() == constant.String {
		return constant.StringVal(c.Value), true
	}
	return "", false
}

func (s *Sym) ConstBool() (bool, bool) {
	s = s.Strip()
	if s == nil || s.Kind != "const" {
		return false, false
	}
	if c, ok := s.V.(*ssa.Const); ok && c.Value != nil && c.Value.Kind() == constant.Bool {
		return constant.BoolVal(c.Value), true
	}
	return false, false
}

func namedOf(t types.Type) *types.Named {
	for {
		switch x := t.(type) {
		case *types.Pointer:
			t = x.Elem()
		case *types.Named:
			return x
		default:
			return nil
		}
	}
}

func typeShort(t types.Type) string {
	s := types.TypeString(t, func(p *types.Package) string {
		if strings.HasPrefix(p.Path(), modPath) {
			return ""
		}
		return p.Name()
	})
	for tn, cn := range canon.typ {
		if tn.Name() != cn && strings.Contains(s, tn.Name()) {
			s = replaceWord(s, tn.Name(), cn)
		}
	}
	return s
}

// replaceWord replaces whole-identifier occurrences of old by new.
func replaceWord(s, old, new string) string {
	var b strings.Builder
	for i := 0; i < len(s); {
		if strings.HasPrefix(s[i:], old) {
			before := i == 0 || !isIdentByte(s[i-1])
			after := i+len(old) >= len(s) || !isIdentByte(s[i+len(old)])
			if before && after {
				b.WriteString(new)
				i += len(old)
				continue
			}
		}
		b.WriteByte(s[i])
		i++
	}
	return b.String()
}

func isIdentByte(c byte) bool {
	return c == '_' || (c >= '0' && c <= '9') || (c >= 'a' && c <= 'z') || (c >= 'A' && c <= 'Z')
}

func structFieldName(t types.Type, idx int) (owner, name string) {
	if pt, ok := t.Underlying().(*types.Pointer); ok {
		t = pt.Elem()
	}
	if n := namedOf(t); n != nil {
		owner = canonTypeName(n.Obj())
	}
	if st, ok := t.Underlying().(*types.Struct); ok && idx < st.NumFields() {
		name = canonFieldName(st.Field(idx))
	}
	return
}

// calleeName gives a stable, package-qualified short name of the callee.
func calleeName(c *ssa.CallCommon) string {
	if c.IsInvoke() {
		recv := c.Value.Type()
		rn := typeShort(recv)
		return rn + "." + c.Method.Name()
	}
	switch f := c.Value.(type) {
	case *ssa.Function:
		return shortFuncName(f)
	case *ssa.Builtin:
		return f.Name()
	case *ssa.MakeClosure:
		if fn, ok := f.Fn.(*ssa.Function); ok {
			return "closure:" + shortFuncName(fn)
		}
	}
	return "dyn"
}

func shortFuncName(f *ssa.Function) string {
	if f.Signature != nil && f.Signature.Recv() != nil {
		rt := f.Signature.Recv().Type()
		return strings.TrimPrefix(typeShort(rt), "*") + "." + fnName(f)
	}
	if f.Parent() != nil {
		return shortFuncName(f.Parent()) + "$" + strings.TrimPrefix(f.Name(), f.Parent().Name()+"$")
	}
	if f.Pkg != nil {
		return f.Pkg.Pkg.Name() + "." + fnName(f)
	}
	// instantiated generics / synthetic
	if o := f.Object(); o != nil && o.Pkg() != nil {
		return o.Pkg().Name() + "." + f.Name()
	}
	return f.Name()
}

func (p *Prog) Sym(v ssa.Value) *Sym {
	if v == nil {
		return &Sym{Kind: "unknown", Name: "nil-value"}
	}
	if s, ok := p.symMemo[v]; ok {
		return s
	}
	s := &Sym{V: v}
	p.symMemo[v] = s
	switch x := v.(type) {
	case *ssa.Parameter:
		s.Kind, s.Name = "param", x.Name()
	case *ssa.FreeVar:
		// resolve through the (unique) MakeClosure of the enclosing function
		if mc := p.parentMC[x.Parent()]; mc != nil {
			for i, fv := range x.Parent().FreeVars {
				if fv == x && i < len(mc.Bindings) {
					inner := p.Sym(mc.Bindings[i])
					switch inner.Strip().Kind {
					case "param", "alloc", "new", "closure", "func", "make", "global":
						// a captured parameter / variable: the same object in the closure
						*s = *inner
						s.str = ""
						p.symMemo[v] = s
						return s
					}
					// a captured variable holding a value COMPUTED in the enclosing function
					// (a call result, a field read, arithmetic): it was evaluated when the
					// closure was created, not when the closure runs — keep it distinct
					s.Kind, s.Name = "free", x.Name()
					s.Args = []*Sym{inner}
					return s
				}
			}
		}
		s.Kind, s.Name = "free", x.Name()
	case *ssa.Alloc:
		p.symAlloc(s, x)
	case *ssa.FieldAddr:
		s.Kind = "field"
		s.Owner, s.Name = structFieldName(x.X.Type(), x.Field)
		s.Args = []*Sym{p.Sym(x.X)}
	case *ssa.Field:
		s.Kind = "field"
		s.Owner, s.Name = structFieldName(x.X.Type(), x.Field)
		s.Args = []*Sym{p.Sym(x.X)}
	case *ssa.IndexAddr:
		s.Kind = "index"
		s.Args = []*Sym{p.Sym(x.X), p.Sym(x.Index)}
	case *ssa.Index:
		s.Kind = "index"
		s.Args = []*Sym{p.Sym(x.X), p.Sym(x.Index)}
	case *ssa.Lookup:
		s.Kind = "lookup"
		s.Args = []*Sym{p.Sym(x.X), p.Sym(x.Index)}
	case *ssa.UnOp:
		switch x.Op {
		case token.MUL: // load: transparent
			inner := p.Sym(x.X)
			*s = *inner
			s.str = ""
			s.V = v
			if inner.Kind == "alloc" || inner.Kind == "param" || inner.Kind == "new" {
				s.V = inner.V
			}
			// keep the load instruction identity for old-value rules
			s.V = v
			p.symMemo[v] = s
			return s
		case token.ARROW:
			s.Kind, s.Name, s.Args = "unop", "<-", []*Sym{p.Sym(x.X)}
		default:
			s.Kind, s.Name, s.Args = "unop", x.Op.String(), []*Sym{p.Sym(x.X)}
		}
	case *ssa.BinOp:
		if ind := p.induction(v); ind != nil {
			s.Kind, s.Ind = "ind", ind
			s.Args = []*Sym{ind.First}
			if ind.Bound != nil {
				s.Args = append(s.Args, ind.Bound)
			}
			break
		}
		s.Kind, s.Name = "binop", x.Op.String()
		s.Args = []*Sym{p.Sym(x.X), p.Sym(x.Y)}
		canonBinop(s, x.Op)
	case *ssa.Call:
		p.symCall(s, x)
	case *ssa.Extract:
		tup := p.Sym(x.Tuple)
		if tup.Kind == "next" {
			rng := tup.Args[0]
			switch x.Index {
			case 1:
				s.Kind, s.Args = "rangekey", []*Sym{rng}
			case 2:
				s.Kind, s.Args = "rangeval", []*Sym{rng}
			default:
				s.Kind, s.Name, s.Args = "extract", "ok", []*Sym{tup}
			}
			break
		}
		s.Kind, s.Name, s.Args = "extract", fmt.Sprint(x.Index), []*Sym{tup}
	case *ssa.Next:
		s.Kind = "next"
		if r, ok := x.Iter.(*ssa.Range); ok {
			s.Args = []*Sym{p.Sym(r.X)}
		} else {
			s.Args = []*Sym{p.Sym(x.Iter)}
		}
	case *ssa.Range:
		s.Kind, s.Args = "range", []*Sym{p.Sym(x.X)}
	case *ssa.Phi:
		if ind := p.induction(v); ind != nil {
			s.Kind, s.Ind = "ind", ind
			s.Args = []*Sym{ind.First}
			if ind.Bound != nil {
				s.Args = append(s.Args, ind.Bound)
			}
			break
		}
		s.Kind = "phi"
		s.Name = x.Comment
		for _, e := range x.Edges {
			s.Args = append(s.Args, p.Sym(e))
		}
	case *ssa.Const:
		s.Kind = "const"
		if x.Value == nil {
			if _, ok := x.Type().Underlying().(*types.Basic); ok {
				s.Name = "zero"
			} else {
				s.Name = "nil"
			}
			if _, ok := x.Type().Underlying().(*types.Struct); ok {
				s.Name = "zero"
			}
		} else {
			s.Name = x.Value.ExactString()
		}
	case *ssa.Convert:
		s.Kind, s.Name, s.Args = "conv", typeShort(x.Type()), []*Sym{p.Sym(x.X)}
	case *ssa.ChangeType:
		s.Kind, s.Name, s.Args = "conv", typeShort(x.Type()), []*Sym{p.Sym(x.X)}
	case *ssa.ChangeInterface:
		s.Kind, s.Name, s.Args = "conv", typeShort(x.Type()), []*Sym{p.Sym(x.X)}
	case *ssa.MakeInterface:
		s.Kind, s.Name, s.Args = "conv", typeShort(x.Type()), []*Sym{p.Sym(x.X)}
	case *ssa.TypeAssert:
		s.Kind, s.Name, s.Args = "conv", typeShort(x.AssertedType), []*Sym{p.Sym(x.X)}
	case *ssa.Slice:
		s.Kind, s.Args = "slice", []*Sym{p.Sym(x.X)}
		if x.Low != nil {
			s.Args = append(s.Args, p.Sym(x.Low))
		} else {
			s.Args = append(s.Args, &Sym{Kind: "const", Name: "0"})
		}
		if x.High != nil {
			s.Args = append(s.Args, p.Sym(x.High))
		}
	case *ssa.MakeSlice:
		s.Kind, s.Name = "make", typeShort(x.Type())
		s.Args = []*Sym{p.Sym(x.Len)}
	case *ssa.MakeMap:
		s.Kind, s.Name = "make", typeShort(x.Type())
	case *ssa.MakeChan:
		s.Kind, s.Name = "make", typeShort(x.Type())
	case *ssa.MakeClosure:
		s.Kind = "closure"
		if fn, ok := x.Fn.(*ssa.Function); ok {
			s.Name = shortFuncName(fn)
		}
	case *ssa.Function:
		s.Kind, s.Name = "func", shortFuncName(x)
	case *ssa.Global:
		s.Kind = "global"
		s.Name = x.Pkg.Pkg.Name() + "." + x.Name()
	case *ssa.Builtin:
		s.Kind, s.Name = "func", x.Name()
	default:
		s.Kind, s.Name = "unknown", fmt.Sprintf("%T", v)
	}
	return s
}

func (p *Prog) symCall(s *Sym, x *ssa.Call) {
	c := &x.Call
	s.Kind = "call"
	s.Call = x
	s.Name = calleeName(c)
	if g := c.StaticCallee(); g != nil && len(c.Args) == 2 && p.containsHelper(g) {
		s.Name = "funk.Contains" // a repository membership loop is read as the library call it replaces
	}
	if _, ok := c.Value.(*ssa.Builtin); ok {
		s.Kind = "builtin"
	}
	if c.IsInvoke() {
		s.Args = append(s.Args, p.Sym(c.Value))
	} else if s.Name == "dyn" {
		s.Args = append(s.Args, p.Sym(c.Value))
	}
	for _, a := range c.Args {
		s.Args = append(s.Args, p.Sym(a))
	}
}

// allocStores returns every Store whose address is exactly this alloc, including
// stores made through free variables of closures that capture it.
func (p *Prog) allocStores(a *ssa.Alloc) []*ssa.Store {
	var out []*ssa.Store
	var visit func(v ssa.Value)
	seen := map[ssa.Value]bool{}
	visit = func(v ssa.Value) {
		if seen[v] {
			return
		}
		seen[v] = true
		refs := v.Referrers()
		if refs == nil {
			return
		}
		for _, r := range *refs {
			switch x := r.(type) {
			case *ssa.Store:
				if x.Addr == v {
					out = append(out, x)
				}
			case *ssa.MakeClosure:
				fn, _ := x.Fn.(*ssa.Function)
				if fn == nil {
					continue
				}
				for i, b := range x.Bindings {
					if b == v && i < len(fn.FreeVars) {
						visit(fn.FreeVars[i])
					}
				}
			}
		}
	}
	visit(a)
	return out
}

func (p *Prog) symAlloc(s *Sym, a *ssa.Alloc) {
	t := a.Type().Underlying().(*types.Pointer).Elem()
	if a.Comment == "complit" || a.Comment == "new" || strings.HasPrefix(a.Comment, "&") {
		s.Kind, s.Name = "new", typeShort(t)
		return
	}
	stores := p.allocStores(a)
	if len(stores) == 1 && stores[0].Parent() == a.Parent() {
		st := stores[0]
		// spilled parameter or single-assignment local: denote by its value when the
		// store dominates every other use of the variable in this function
		dom := true
		if refs := a.Referrers(); refs != nil {
			for _, r := range *refs {
				if r == ssa.Instruction(st) {
					continue
				}
				if _, isDbg := r.(*ssa.DebugRef); isDbg {
					continue
				}
				if !Dominates(st, r) {
					dom = false
				}
			}
		}
		if dom {
			inner := p.Sym(st.Val)
			*s = *inner
			s.str = ""
			return
		}
	}
	s.Kind = "alloc"
	s.Name = a.Comment
	if s.Name == "" {
		s.Name = "tmp"
	}
}

// isRangeIndexPhi: the phi of a range-over-slice loop (starts at -1, the BinOp
// phi+1 is the current index and is what the loop condition tests).
func isRangeIndexPhi(phi *ssa.Phi) bool {
	if refs := phi.Referrers(); refs != nil {
		n := 0
		for _, r := range *refs {
			if _, ok := r.(*ssa.DebugRef); ok {
				continue
			}
			n++
			if _, ok := r.(*ssa.BinOp); !ok {
				return false
			}
		}
		return n == 1
	}
	return false
}

// canonBinop puts comparisons and commutative operations into a canonical operand
// order so that `nil != x`, `2 == n`, `max > i` and `1 + n` match the same rules as
// `x != nil`, `n == 2`, `i < max` and `n + 1`: constants go right; a loop counter goes left.
func canonBinop(s *Sym, op token.Token) {
	l, r := s.Args[0].Strip(), s.Args[1].Strip()
	swap := false
	switch {
	case l.Kind == "const" && r.Kind != "const":
		swap = true
	case r.Kind == "ind" && l.Kind != "ind" && l.Kind != "const":
		swap = true
	}
	if swap {
		switch op {
		case token.EQL, token.NEQ, token.ADD, token.MUL, token.AND, token.OR, token.XOR:
			s.Args[0], s.Args[1] = s.Args[1], s.Args[0]
		case token.LSS, token.GTR, token.LEQ, token.GEQ:
			s.Args[0], s.Args[1] = s.Args[1], s.Args[0]
			s.Name = flipOp(op).String()
		}
	}
	// a length is never negative: the spellings of "non-empty" and "empty" are one comparison each
	//   len(x) != 0, len(x) >= 1  →  len(x) > 0        len(x) < 1, len(x) <= 0  →  len(x) == 0
	l, r = s.Args[0].Strip(), s.Args[1].Strip()
	if l.Kind == "builtin" && l.Name == "len" && r.Kind == "const" {
		if k, isK := r.ConstInt(); isK {
			zero := func() {
				if k != 0 {
					s.Args[1] = &Sym{Kind: "const", Name: "0", V: ssa.NewConst(constant.MakeInt64(0), types.Typ[types.Int])}
				}
			}
			switch {
			case s.Name == "!=" && k == 0, s.Name == ">=" && k == 1:
				s.Name = ">"
				zero()
			case s.Name == "<" && k == 1, s.Name == "<=" && k == 0:
				s.Name = "=="
				zero()
			}
		}
	}
}

func isParamVal(v ssa.Value) bool { _, ok := v.(*ssa.Parameter); return ok }

// inLoop: block is part of a CFG cycle.
func (p *Prog) inLoop(b *ssa.BasicBlock) bool {
	seen := map[*ssa.BasicBlock]bool{}
	var st []*ssa.BasicBlock
	st = append(st, b.Succs...)
	for len(st) > 0 {
		x := st[len(st)-1]
		st = st[:len(st)-1]
		if x == b {
			return true
		}
		if seen[x] {
			continue
		}
		seen[x] = true
		st = append(st, x.Succs...)
	}
	return false
}

// induction recognises loop index values:
//
//	classic:  i = phi[init, i+step];  if i < bound        (the phi is the current index)
//	range:    p = phi[-1, p+1]; i = p+1; if i < len(s)    (the BinOp is the current index)
func (p *Prog) induction(v ssa.Value) *Ind {
	mk := func(phi *ssa.Phi, cur ssa.Value, first *Sym, step int64) *Ind {
		ind := &Ind{Phi: phi, First: first, Step: step}
		// find the comparison on cur
		if refs := cur.Referrers(); refs != nil {
			for _, r := range *refs {
				if bo, ok := r.(*ssa.BinOp); ok {
					switch bo.Op {
					case token.LSS, token.LEQ, token.GTR, token.GEQ:
						op, bound := bo.Op, bo.Y
						if bo.Y == cur && bo.X != cur {
							op, bound = flipOp(bo.Op), bo.X // `max > i` is `i < max`
						} else if bo.X != cur {
							continue
						}
						// must control a loop exit: used by an If
						if brefs := bo.Referrers(); brefs != nil {
							for _, br := range *brefs {
								if _, ok := br.(*ssa.If); ok {
									ind.Op = op
									ind.Incl = op == token.LEQ || op == token.GEQ
									ind.Bound = p.Sym(bound)
								}
							}
						}
					}
				}
			}
		}
		return ind
	}
	stepOf := func(phi *ssa.Phi) (init ssa.Value, inc *ssa.BinOp, step int64, ok bool) {
		// all edges but one must be the same `phi ± const` value (several back edges
		// arise from `continue`)
		for _, e := range phi.Edges {
			bo, isB := e.(*ssa.BinOp)
			if !isB || (bo.Op != token.ADD && bo.Op != token.SUB) || bo.X != phi {
				continue
			}
			c, isC := bo.Y.(*ssa.Const)
			if !isC || c.Value == nil || c.Value.Kind() != constant.Int {
				continue
			}
			st := c.Int64()
			if bo.Op == token.SUB {
				st = -st
			}
			var other ssa.Value
			good := true
			for _, e2 := range phi.Edges {
				if e2 == e {
					continue
				}
				if other == nil {
					other = e2
				} else if other != e2 {
					good = false
				}
			}
			if good && other != nil {
				return other, bo, st, true
			}
		}
		return
	}
	switch x := v.(type) {
	case *ssa.Phi:
		init, _, step, ok := stepOf(x)
		if !ok {
			return nil
		}
		// range form uses the BinOp as current index; the phi itself then starts at -1
		if c, isC := init.(*ssa.Const); isC && c.Value != nil && c.Value.Kind() == constant.Int && c.Int64() == -1 && isRangeIndexPhi(x) {
			return nil
		}
		return mk(x, x, p.Sym(init), step)
	case *ssa.BinOp:
		phi, isPhi := x.X.(*ssa.Phi)
		if !isPhi || x.Op != token.ADD {
			return nil
		}
		init, inc, step, ok := stepOf(phi)
		if !ok || inc != x || step != 1 {
			return nil
		}
		c, isC := init.(*ssa.Const)
		if !isC || c.Value == nil || c.Value.Kind() != constant.Int || c.Int64() != -1 || !isRangeIndexPhi(phi) {
			return nil
		}
		return mk(phi, x, &Sym{Kind: "const", Name: "0", V: ssa.NewConst(constant.MakeInt64(0), types.Typ[types.Int])}, 1)
	}
	return nil
}

// ---------------------------------------------------------------------------
// Stores

type StoreSite struct {
	Fn    *ssa.Function
	Instr ssa.Instruction
	Addr  *Sym
	Val   *Sym
	ValV  ssa.Value
	Owner string // struct owning the stored field ("" if not a field store)
	Field string
}

func (p *Prog) storeSite(in ssa.Instruction) *StoreSite {
	switch x := in.(type) {
	case *ssa.Store:
		ss := &StoreSite{Fn: x.Parent(), Instr: x, Addr: p.Sym(x.Addr), Val: p.Sym(x.Val), ValV: x.Val}
		if al, isAlloc := x.Addr.(*ssa.Alloc); isAlloc {
			// the address of a local variable is the variable, not the value it holds
			nm := al.Comment
			if nm == "" {
				nm = "tmp"
			}
			ss.Addr = &Sym{Kind: "alloc", Name: nm, V: al}
		}
		a := ss.Addr.Strip()
		if a.Kind == "field" {
			ss.Owner, ss.Field = a.Owner, a.Name
		}
		return ss
	case *ssa.MapUpdate:
		ss := &StoreSite{Fn: x.Parent(), Instr: x, Val: p.Sym(x.Value), ValV: x.Value}
		ss.Addr = &Sym{Kind: "lookup", Args: []*Sym{p.Sym(x.Map), p.Sym(x.Key)}}
		return ss
	}
	return nil
}

// Stores enumerates all stores in the given functions.
func (p *Prog) Stores(fns []*ssa.Function) []*StoreSite {
	var out []*StoreSite
	for _, f := range fns {
		for _, b := range f.Blocks {
			for _, in := range b.Instrs {
				if ss := p.storeSite(in); ss != nil {
					out = append(out, ss)
				}
			}
		}
	}
	return out
}

// FieldStores: stores to field owner.name anywhere in the repo's production code.
func (p *Prog) FieldStores(owner, name string) []*StoreSite {
	var out []*StoreSite
	for _, ss := range p.Stores(p.Funcs) {
		if ss.Owner == owner && ss.Field == name {
			out = append(out, ss)
		}
	}
	return out
}

// Calls enumerates call instructions (call, go, defer) in a function.
func Calls(f *ssa.Function) []ssa.CallInstruction {
	var out []ssa.CallInstruction
	for _, b := range f.Blocks {
		for _, in := range b.Instrs {
			if c, ok := in.(ssa.CallInstruction); ok {
				out = append(out, c)
			}
		}
	}
	return out
}

// CallSym renders any call instruction (call/go/defer) as a Sym.
func (p *Prog) CallSym(ci ssa.CallInstruction) *Sym {
	if c, ok := ci.(*ssa.Call); ok {
		return p.Sym(c)
	}
	s := &Sym{Kind: "call", Call: ci, Name: calleeName(ci.Common())}
	c := ci.Common()
	if c.IsInvoke() || s.Name == "dyn" {
		s.Args = append(s.Args, p.Sym(c.Value))
	}
	for _, a := range c.Args {
		s.Args = append(s.Args, p.Sym(a))
	}
	return s
}

// addrEscapes: every use of addresses of field owner.name must be a Store to it or a
// load from it; anything else (passed to a call, stored elsewhere) is an escape.
func (p *Prog) addrEscapes(owner, name string) []ssa.Instruction {
	var out []ssa.Instruction
	for _, f := range p.Funcs {
		for _, b := range f.Blocks {
			for _, in := range b.Instrs {
				fa, ok := in.(*ssa.FieldAddr)
				if !ok {
					continue
				}
				o, n := structFieldName(fa.X.Type(), fa.Field)
				if o != owner || n != name {
					continue
				}
				if refs := fa.Referrers(); refs != nil {
					for _, r := range *refs {
						switch x := r.(type) {
						case *ssa.Store:
							if x.Addr != fa {
								out = append(out, r)
							}
						case *ssa.UnOp:
							if x.Op != token.MUL {
								out = append(out, r)
							}
						case *ssa.DebugRef:
						default:
							out = append(out, r)
						}
					}
				}
			}
		}
	}
	return out
}

// containsHelper memoises isContainsHelper (and breaks the recursion through p.Sym of the helper's own body).
func (p *Prog) containsHelper(f *ssa.Function) bool {
	if f.Signature.Params().Len() != 2 || f.Signature.Results().Len() != 1 || f.Blocks == nil {
		return false
	}
	if p.containsMemo == nil {
		p.containsMemo = map[*ssa.Function]int{}
	}
	switch p.containsMemo[f] {
	case 1:
		return true
	case 2, 3:
		return false
	}
	p.containsMemo[f] = 3 // in progress
	if isContainsHelper(p, f) {
		p.containsMemo[f] = 1
		return true
	}
	p.containsMemo[f] = 2
	return false
}
