package main

import (
	"go/ast"
	"strings"
)

// helper: find method of the single implementer of an interface
func (p *Prog) implMethod(pkgSuffix, iface, method string) (fn interface{ Syntax() ast.Node }, ok bool) {
	return nil, false
}

func controlsC17() []Control {
	mgr := func(p *Prog, name string) (*ast.FuncDecl, error) {
		mi := p.Iface("", "Manager")
		impls := p.Implementers(mi)
		if len(impls) != 1 {
			return nil, errNotFound("manager type")
		}
		f := p.Method(impls[0], name)
		if f == nil || p.FuncDecl(f) == nil {
			return nil, errNotFound("manager." + name)
		}
		return p.FuncDecl(f), nil
	}
	return []Control{
		{Name: "table registered in a copy of the manager (value receiver)", Expect: "G4", Mutate: replaceIn("(*manager).CreateTable", "func (m *manager) CreateTable(", "func (m manager) CreateTable(", 0)},
		{Name: "forward PlayerFold to PlayerCheck", Expect: "F3", Mutate: func(p *Prog) (string, []byte, error) {
			fd, err := mgr(p, "PlayerFold")
			if err != nil {
				return "", nil, err
			}
			var sel *ast.SelectorExpr
			ast.Inspect(fd, func(n ast.Node) bool {
				if s, ok := n.(*ast.SelectorExpr); ok && s.Sel.Name == "PlayerFold" {
					sel = s
				}
				return true
			})
			if sel == nil {
				return "", nil, errNotFound("PlayerFold selector")
			}
			return p.replaceNode(sel.Sel, "PlayerCheck")
		}},
		{Name: "look the engine up by a constant id in PlayerCall", Expect: "F1", Mutate: func(p *Prog) (string, []byte, error) {
			fd, err := mgr(p, "PlayerCall")
			if err != nil {
				return "", nil, err
			}
			var arg ast.Expr
			ast.Inspect(fd, func(n ast.Node) bool {
				if ce, ok := n.(*ast.CallExpr); ok && strings.HasSuffix(p.nodeText(ce.Fun), "GetTableEngine") && len(ce.Args) == 1 {
					arg = ce.Args[0]
				}
				return true
			})
			if arg == nil {
				return "", nil, errNotFound("GetTableEngine call")
			}
			return p.replaceNode(arg, `"table-0"`)
		}},
		{Name: "drop the registry Delete in CloseTable", Expect: "F5", Mutate: func(p *Prog) (string, []byte, error) {
			fd, err := mgr(p, "CloseTable")
			if err != nil {
				return "", nil, err
			}
			var st ast.Stmt
			ast.Inspect(fd, func(n ast.Node) bool {
				if es, ok := n.(*ast.ExprStmt); ok && p.isCallTo(es.X, ".Delete") {
					st = es
				}
				return true
			})
			if st == nil {
				return "", nil, errNotFound("Delete stmt")
			}
			return p.replaceNode(st, "")
		}},
		{Name: "swap the two string parameters in PlayerJoin forward", Expect: "F3", Mutate: func(p *Prog) (string, []byte, error) {
			fd, err := mgr(p, "PlayerJoin")
			if err != nil {
				return "", nil, err
			}
			var arg ast.Expr
			ast.Inspect(fd, func(n ast.Node) bool {
				if ce, ok := n.(*ast.CallExpr); ok && strings.HasSuffix(p.nodeText(ce.Fun), ".PlayerJoin") && len(ce.Args) == 1 {
					arg = ce.Args[0]
				}
				return true
			})
			if arg == nil {
				return "", nil, errNotFound("PlayerJoin forward")
			}
			return p.replaceNode(arg, "tableID")
		}},
		{Name: "return nil instead of the sentinel in PlayerPass", Expect: "F2", Mutate: func(p *Prog) (string, []byte, error) {
			fd, err := mgr(p, "PlayerPass")
			if err != nil {
				return "", nil, err
			}
			var id *ast.Ident
			ast.Inspect(fd, func(n ast.Node) bool {
				if i, ok := n.(*ast.Ident); ok && i.Name == "ErrManagerTableNotFound" {
					id = i
				}
				return true
			})
			if id == nil {
				return "", nil, errNotFound("sentinel")
			}
			return p.replaceNode(id, "nil")
		}},
		{Name: "manager registers the reserved callback under the state setter", Expect: "F7", Mutate: replaceIn("(*manager).CreateTable", "tableEngine.OnTablePlayerStateUpdated(engineCallbacks.OnTablePlayerStateUpdated)", "tableEngine.OnTablePlayerStateUpdated(engineCallbacks.OnTablePlayerReserved)", 0)},
		{Name: "manager ignores the caller callbacks", Expect: "F7", Mutate: replaceIn("(*manager).CreateTable", "if callbacks != nil {", "if callbacks == nil {", 0)},
		{Name: "option constructor hands out one shared default object", Expect: "G3", Mutate: withDecl(replaceIn("NewTableEngineOptions", "return &TableEngineOptions{\n\t\tGameContinueInterval: 1, // 1 second by default\n\t\tOpenGameTimeout:      2,\n\t}", "return &sharedDefaultOptions", 0), "var sharedDefaultOptions = TableEngineOptions{GameContinueInterval: 1, OpenGameTimeout: 2}")},
	}
}
