package main

// A4 guards: conditions established by edge dominance.

import (
	"go/token"

	"golang.org/x/tools/go/ssa"
)

type Guard struct {
	Cond *Sym
	V    ssa.Value
	Val  bool
	If   *ssa.If
}

func (g Guard) String() string {
	if g.Val {
		return g.Cond.String()
	}
	return "!" + g.Cond.String()
}

// edgeDominates: the CFG edge d->s (s = d.Succs[i]) dominates block b.
func edgeDominates(d *ssa.BasicBlock, i int, b *ssa.BasicBlock) bool {
	s := d.Succs[i]
	if len(d.Succs) == 2 && d.Succs[0] == d.Succs[1] {
		return false
	}
	if !s.Dominates(b) {
		return false
	}
	for _, pr := range s.Preds {
		if pr == d {
			continue
		}
		if !s.Dominates(pr) {
			return false
		}
	}
	// d must appear once among preds
	n := 0
	for _, pr := range s.Preds {
		if pr == d {
			n++
		}
	}
	return n == 1
}

// GuardsAtBlock returns the branch conditions known to hold on entry to b.
func (p *Prog) GuardsAtBlock(b *ssa.BasicBlock) []Guard {
	var out []Guard
	for d := b.Idom(); d != nil; d = d.Idom() {
		out = append(out, p.edgeGuards(d, b)...)
	}
	return out
}

func (p *Prog) edgeGuards(d, b *ssa.BasicBlock) []Guard {
	var out []Guard
	if len(d.Instrs) == 0 {
		return nil
	}
	iff, ok := d.Instrs[len(d.Instrs)-1].(*ssa.If)
	if !ok {
		return nil
	}
	for i := 0; i < 2; i++ {
		if edgeDominates(d, i, b) {
			out = append(out, p.unfold(iff.Cond, i == 0, iff, 0)...)
		}
	}
	return out
}

// Guards returns the conditions known at an instruction.
func (p *Prog) Guards(in ssa.Instruction) []Guard {
	return p.GuardsAtBlock2(in.Block())
}

// GuardsAtBlock2 includes guards of the block itself being a dominator target
// (a block is dominated by itself, so edges into it count).
func (p *Prog) GuardsAtBlock2(b *ssa.BasicBlock) []Guard {
	var out []Guard
	for d := b.Idom(); d != nil; d = d.Idom() {
		out = append(out, p.edgeGuards(d, b)...)
	}
	return out
}

// unfold decomposes a boolean value known to equal val into atomic guards.
func (p *Prog) unfold(v ssa.Value, val bool, iff *ssa.If, depth int) []Guard {
	if depth > 8 {
		return []Guard{{Cond: p.Sym(v), V: v, Val: val, If: iff}}
	}
	switch x := v.(type) {
	case *ssa.UnOp:
		if x.Op == token.NOT {
			return p.unfold(x.X, !val, iff, depth+1)
		}
	case *ssa.Phi:
		// a && b  ==> phi[false, b];  a || b ==> phi[true, b]
		var rem []int
		for i, e := range x.Edges {
			if c, ok := e.(*ssa.Const); ok && c.Value != nil {
				if bv, isB := p.Sym(c).ConstBool(); isB && bv != val {
					continue
				}
			}
			rem = append(rem, i)
		}
		if len(rem) == 1 {
			i := rem[0]
			pred := x.Block().Preds[i]
			var out []Guard
			if _, isC := x.Edges[i].(*ssa.Const); !isC {
				out = append(out, p.unfold(x.Edges[i], val, iff, depth+1)...)
			}
			// conditions for having come through pred
			out = append(out, p.GuardsAtBlock2(pred)...)
			if len(pred.Instrs) > 0 {
				if pif, ok := pred.Instrs[len(pred.Instrs)-1].(*ssa.If); ok && len(pred.Succs) == 2 && pred.Succs[0] != pred.Succs[1] {
					for k := 0; k < 2; k++ {
						if pred.Succs[k] == x.Block() {
							out = append(out, p.unfold(pif.Cond, k == 0, pif, depth+1)...)
						}
					}
				}
			}
			return out
		}
	}
	return []Guard{{Cond: p.Sym(v), V: v, Val: val, If: iff}}
}

// Cmp is a normalised comparison guard:  L op R  holds.
type Cmp struct {
	L, R *Sym
	Op   token.Token // EQL NEQ LSS LEQ GTR GEQ
}

func negOp(op token.Token) token.Token {
	switch op {
	case token.EQL:
		return token.NEQ
	case token.NEQ:
		return token.EQL
	case token.LSS:
		return token.GEQ
	case token.GEQ:
		return token.LSS
	case token.GTR:
		return token.LEQ
	case token.LEQ:
		return token.GTR
	}
	return op
}

func flipOp(op token.Token) token.Token {
	switch op {
	case token.LSS:
		return token.GTR
	case token.GTR:
		return token.LSS
	case token.LEQ:
		return token.GEQ
	case token.GEQ:
		return token.LEQ
	}
	return op
}

// AsCmp turns a guard into the comparison that holds (nil if not a comparison).
func (g Guard) AsCmp() *Cmp {
	c := g.Cond.Strip()
	if c.Kind != "binop" {
		return nil
	}
	var op token.Token
	switch c.Name {
	case "==":
		op = token.EQL
	case "!=":
		op = token.NEQ
	case "<":
		op = token.LSS
	case "<=":
		op = token.LEQ
	case ">":
		op = token.GTR
	case ">=":
		op = token.GEQ
	default:
		return nil
	}
	if !g.Val {
		op = negOp(op)
	}
	return &Cmp{L: c.Args[0], R: c.Args[1], Op: op}
}

// Holds reports whether the guards establish `l op r` (either operand order).
func cmpHolds(gs []Guard, match func(l, r *Sym, op token.Token) bool) bool {
	for _, g := range gs {
		if c := g.AsCmp(); c != nil {
			if match(c.L, c.R, c.Op) || match(c.R, c.L, flipOp(c.Op)) {
				return true
			}
		}
	}
	return false
}

// guardedByCall: some guard is a boolean call (or field) satisfying pred with the given polarity.
func guardedBy(gs []Guard, val bool, pred func(*Sym) bool) bool {
	for _, g := range gs {
		if g.Val == val && pred(g.Cond.Strip()) {
			return true
		}
	}
	return false
}

// nilGuard: guards establish v == nil (isNil=true) or v != nil for a sym satisfying pred.
func nilGuard(gs []Guard, isNil bool, pred func(*Sym) bool) bool {
	want := token.NEQ
	if isNil {
		want = token.EQL
	}
	return cmpHolds(gs, func(l, r *Sym, op token.Token) bool {
		return op == want && r.IsNil() && pred(l.Strip())
	})
}

// instrIndex in block
func instrIndex(in ssa.Instruction) int {
	for i, x := range in.Block().Instrs {
		if x == in {
			return i
		}
	}
	return -1
}

// Before: a is executed before b on every path reaching b (a dominates b).
func Dominates(a, b ssa.Instruction) bool {
	if a.Parent() != b.Parent() {
		return false
	}
	if a.Block() == b.Block() {
		return instrIndex(a) < instrIndex(b)
	}
	return a.Block().Dominates(b.Block())
}

// reachableFrom: b's instruction is reachable from a's in the CFG (a may precede b).
func Reaches(a, b ssa.Instruction) bool {
	if a.Parent() != b.Parent() {
		return false
	}
	if a.Block() == b.Block() && instrIndex(a) < instrIndex(b) {
		return true
	}
	seen := map[*ssa.BasicBlock]bool{}
	st := append([]*ssa.BasicBlock{}, a.Block().Succs...)
	for len(st) > 0 {
		x := st[len(st)-1]
		st = st[:len(st)-1]
		if seen[x] {
			continue
		}
		seen[x] = true
		if x == b.Block() {
			return true
		}
		st = append(st, x.Succs...)
	}
	return false
}
