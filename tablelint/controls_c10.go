package main

func controlsC10() []Control {
	return []Control{
		{Name: "pass no longer tested against the allowed actions by the wrapper (the library ignores it)", Expect: "R10", Mutate: replaceIn("(*game).Pass", "if !g.gs.HasAction(playerIdx, \"pass\") {", "if false {", 0)},
		{Name: "ante pay no longer falls through to the ready-group signal", Expect: "R5", Mutate: replaceIn("(*game).Pay", "\tcase pokerface.GameEvent_AnteRequested:\n\t\tfallthrough\n", "\tcase pokerface.GameEvent_AnteRequested:\n", 0)},
		{Name: "PlayerCall invokes Game.Check", Expect: "R4", Mutate: replaceIn("(*tableEngine).PlayerCall", "te.game.Call(gamePlayerIdx)", "te.game.Check(gamePlayerIdx)", 0)},
		{Name: "statistics bump outside the success branch in PlayerCheck", Expect: "R3", Mutate: replaceIn("(*tableEngine).PlayerCheck", "\treturn err\n}", "\tte.table.State.PlayerStates[playerIdx].GameStatistics.ActionTimes++\n\treturn err\n}", 0)},
		{Name: "PlayerFold skips validateGameMove", Expect: "R2", Mutate: replaceIn("(*tableEngine).PlayerFold", "te.validateGameMove(gamePlayerIdx)", "error(nil)", 0)},
		{Name: "PlayerBet passes the table player index to the hand", Expect: "R2", Mutate: replaceIn("(*tableEngine).PlayerBet", "te.game.Bet(gamePlayerIdx, chips)", "te.game.Bet(playerIdx, chips)", 0)},
		{Name: "game.Call uses the allowed-action validator", Expect: "R5", Mutate: replaceIn("(*game).Call", "g.validatePlayMove(playerIdx)", "g.validateActionMove(playerIdx, \"call\")", 0)},
		{Name: "game.Fold calls the backend before validating", Expect: "R5", Mutate: replaceIn("(*game).Fold", "\tif err := g.validatePlayMove(playerIdx); err != nil {\n\t\treturn g.GetGameState(), err\n\t}\n\n\tgs, err := g.backend.Fold(g.gs)", "\tgs, err := g.backend.Fold(g.gs)\n\tif err := g.validatePlayMove(playerIdx); err != nil {\n\t\treturn g.GetGameState(), err\n\t}\n", 0)},
		{Name: "validatePlayMove drops the current-player test", Expect: "R6", Mutate: replaceIn("(*game).validatePlayMove", "g.gs.Status.CurrentPlayer != playerIdx", "false", 0)},
		{Name: "validateGameMove drops the status test", Expect: "R6", Mutate: replaceIn("(*tableEngine).validateGameMove", "te.table.State.Status != TableStateStatus_TableGamePlaying", "false", 0)},
		{Name: "PlayerRaise publishes label bet", Expect: "R4", Mutate: replaceIn("(*tableEngine).PlayerRaise", "WagerAction_Raise", "WagerAction_Bet", 0)},
		{Name: "PlayerCheck returns nil after a failed hand call", Expect: "R3", Mutate: replaceIn("(*tableEngine).PlayerCheck", "\treturn err\n}", "\t_ = err\n\treturn nil\n}", 0)},
		{Name: "PlayerPass drops the action event", Expect: "R7", Mutate: replaceIn("(*tableEngine).PlayerPass", "te.emitGamePlayerActionEvent(*te.table.State.LastPlayerGameAction)", "", 0)},
		{Name: "PlayerCall releases the engine lock early", Expect: "R1", Mutate: replaceIn("(*tableEngine).PlayerCall", "defer te.lock.Unlock()", "te.lock.Unlock()", 0)},
		{Name: "status playing before the hand started", Expect: "R8", Mutate: replaceIn("(*tableEngine).startGame", "\t// start game\n\tif _, err := te.game.Start(); err != nil {\n\t\treturn err\n\t}\n\n\tte.table.State.Status = TableStateStatus_TableGamePlaying\n", "\tte.table.State.Status = TableStateStatus_TableGamePlaying\n\tif _, err := te.game.Start(); err != nil {\n\t\treturn err\n\t}\n", 0)},
		{Name: "last action never cleared at round close", Expect: "R9", Mutate: replaceIn("(*tableEngine).updateGameState", "if event == pokerface.GameEvent_RoundClosed {", "if event != pokerface.GameEvent_RoundClosed {", 0)},
		{Name: "published action carries round and hand id only when no hand exists", Expect: "R7", Mutate: replaceIn("(*tableEngine).createPlayerGameAction", "if te.table.State.GameState != nil {", "if te.table.State.GameState == nil {", 0)},
		{Name: "published action carries the seat only for out-of-range indexes", Expect: "R7", Mutate: replaceIn("(*tableEngine).createPlayerGameAction", "if playerIdx < len(te.table.State.PlayerStates) {", "if playerIdx >= len(te.table.State.PlayerStates) {", 0)},
		{Name: "allowed-action validator refuses whenever a ready group exists", Expect: "R6", Mutate: replaceIn("(*game).validateActionMove", "if g.rg == nil {", "if g.rg != nil {", 0)},
	}
}
