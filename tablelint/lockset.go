package main

// A7 lockset: must-hold dataflow for struct mutex fields.

import (
	"go/types"
	"sort"
	"strings"

	"golang.org/x/tools/go/ssa"
)

// lockOp classifies a call as a mutex operation on `<Owner>.<field>` of the
// function's own receiver (or a captured copy of it).
type lockOp struct {
	Key  string // "tableEngine.lock"
	Op   string // Lock RLock Unlock RUnlock
	Recv *Sym   // the struct value whose mutex is operated on
}

func (p *Prog) lockOpOf(ci ssa.CallInstruction) *lockOp {
	c := ci.Common()
	sc := c.StaticCallee()
	if sc == nil || sc.Signature.Recv() == nil {
		return nil
	}
	rt := namedOf(sc.Signature.Recv().Type())
	if rt == nil || rt.Obj().Pkg() == nil || rt.Obj().Pkg().Path() != "sync" {
		return nil
	}
	if rt.Obj().Name() != "Mutex" && rt.Obj().Name() != "RWMutex" {
		return nil
	}
	switch sc.Name() {
	case "Lock", "RLock", "Unlock", "RUnlock":
	default:
		return nil
	}
	if len(c.Args) == 0 {
		return nil
	}
	s := p.Sym(c.Args[0]).Strip()
	if s.Kind != "field" {
		return nil
	}
	return &lockOp{Key: s.Owner + "." + s.Name, Op: sc.Name(), Recv: s.Args[0].Strip()}
}

type lockset map[string]bool // key: "tableEngine.lock" (write) or "R:seatManager.mu"

func (l lockset) clone() lockset {
	n := lockset{}
	for k := range l {
		n[k] = true
	}
	return n
}

func (l lockset) String() string {
	var ks []string
	for k := range l {
		ks = append(ks, k)
	}
	sort.Strings(ks)
	return "{" + strings.Join(ks, ",") + "}"
}

func intersect(a, b lockset) lockset {
	n := lockset{}
	for k := range a {
		if b[k] {
			n[k] = true
		}
	}
	return n
}

func equalLS(a, b lockset) bool {
	if len(a) != len(b) {
		return false
	}
	for k := range a {
		if !b[k] {
			return false
		}
	}
	return true
}

type LockInfo struct {
	SyncCallers map[*ssa.Function][]ssa.Instruction
	p           *Prog
	entry       map[*ssa.Function]lockset                     // must-hold at function entry
	at          map[*ssa.Function]map[ssa.Instruction]lockset // must-hold before each instruction
	// sync higher-order callees whose closure argument runs synchronously
}

// synchronous higher-order helpers: a closure passed to them runs inside the call.
func syncHigherOrder(name string) bool {
	switch name {
	case "funk.Contains", "funk.Filter", "funk.Map", "funk.ForEach", "funk.Find", "sort.Slice", "sort.SliceStable", "rand.Rand.Shuffle", "rand.Shuffle":
		return true
	}
	return false
}

// intra computes must-hold locksets inside f given the entry set.
func (li *LockInfo) intra(f *ssa.Function, entry lockset) map[ssa.Instruction]lockset {
	res := map[ssa.Instruction]lockset{}
	if len(f.Blocks) == 0 {
		return res
	}
	in := map[*ssa.BasicBlock]lockset{}
	in[f.Blocks[0]] = entry.clone()
	work := []*ssa.BasicBlock{f.Blocks[0]}
	for len(work) > 0 {
		b := work[0]
		work = work[1:]
		cur := in[b].clone()
		for _, ins := range b.Instrs {
			res[ins] = cur.clone()
			ci, ok := ins.(ssa.CallInstruction)
			if !ok {
				continue
			}
			if _, isDefer := ci.(*ssa.Defer); isDefer {
				continue // deferred unlock: held until exit
			}
			if _, isGo := ci.(*ssa.Go); isGo {
				continue
			}
			if op := li.p.lockOpOf(ci); op != nil {
				switch op.Op {
				case "Lock":
					cur[op.Key] = true
				case "RLock":
					cur["R:"+op.Key] = true
				case "Unlock":
					delete(cur, op.Key)
				case "RUnlock":
					delete(cur, "R:"+op.Key)
				}
			}
		}
		for _, s := range b.Succs {
			old, ok := in[s]
			var nw lockset
			if !ok {
				nw = cur.clone()
			} else {
				nw = intersect(old, cur)
			}
			if !ok || !equalLS(old, nw) {
				in[s] = nw
				work = append(work, s)
			}
		}
	}
	return res
}

// Locks builds the inter-procedural must-hold information.
func (p *Prog) Locks() *LockInfo { return p.LocksIgnoring(nil) }

// LocksIgnoring computes locksets without the call edges that leave the given
// functions (used for the frozen exception "table creation: engine not yet published").
func (p *Prog) LocksIgnoring(ignore map[*ssa.Function]bool) *LockInfo {
	li := &LockInfo{p: p, entry: map[*ssa.Function]lockset{}, at: map[*ssa.Function]map[ssa.Instruction]lockset{}}
	cg := p.CG()
	// entry points start empty: exported functions/methods, functions with no known
	// synchronous in-repo caller, closures (unless only run by a sync higher-order helper).
	type callerSite struct {
		f    *ssa.Function
		site ssa.Instruction
	}
	syncCallers := map[*ssa.Function][]callerSite{}
	for _, f := range p.Funcs {
		if ignore[f] {
			continue
		}
		for _, b := range f.Blocks {
			for _, ins := range b.Instrs {
				ci, ok := ins.(ssa.CallInstruction)
				if !ok {
					continue
				}
				if _, isGo := ci.(*ssa.Go); isGo {
					continue
				}
				if _, isDefer := ci.(*ssa.Defer); isDefer {
					continue
				}
				c := ci.Common()
				if c.StaticCallee() != nil || c.IsInvoke() {
					for _, callee := range cg.SyncCallees(ci) {
						if p.IsRepoFunc(callee) && li.sameInstance(ci, callee) {
							syncCallers[callee] = append(syncCallers[callee], callerSite{f, ins})
						} else if p.IsRepoFunc(callee) {
							syncCallers[callee] = append(syncCallers[callee], callerSite{nil, ins})
						}
					}
				}
				// closures passed to synchronous higher-order helpers
				if syncHigherOrder(calleeName(c)) {
					for _, a := range c.Args {
						for _, fn := range closureOperands(a) {
							syncCallers[fn] = append(syncCallers[fn], callerSite{f, ins})
						}
					}
				}
			}
		}
	}
	li.SyncCallers = map[*ssa.Function][]ssa.Instruction{}
	for f, cs := range syncCallers {
		for _, x := range cs {
			if x.f != nil {
				li.SyncCallers[f] = append(li.SyncCallers[f], x.site)
			}
		}
	}
	isEntry := func(f *ssa.Function) bool {
		if f.Parent() != nil {
			return len(syncCallers[f]) == 0 || cg.usedAsValueElsewhere(f)
		}
		if o := f.Object(); o != nil && o.Exported() {
			return true
		}
		if len(syncCallers[f]) == 0 {
			return true
		}
		return cg.usedAsValue(f)
	}
	// optimistic fixpoint: start non-entry functions at "all locks" (top), entries at empty
	top := lockset{}
	for _, f := range p.Funcs {
		for _, ci := range Calls(f) {
			if op := p.lockOpOf(ci); op != nil {
				top[op.Key] = true
				top["R:"+op.Key] = true
			}
		}
	}
	for _, f := range p.Funcs {
		if isEntry(f) {
			li.entry[f] = lockset{}
		} else {
			li.entry[f] = top.clone()
		}
	}
	for iter := 0; iter < 50; iter++ {
		changed := false
		for _, f := range p.Funcs {
			li.at[f] = li.intra(f, li.entry[f])
		}
		for _, f := range p.Funcs {
			if isEntry(f) {
				continue
			}
			nw := top.clone()
			for _, cs := range syncCallers[f] {
				if cs.f == nil {
					nw = lockset{} // called on a different instance: no lock carried over
					continue
				}
				nw = intersect(nw, li.at[cs.f][cs.site])
			}
			if !equalLS(nw, li.entry[f]) {
				li.entry[f] = nw
				changed = true
			}
		}
		if !changed {
			break
		}
	}
	for _, f := range p.Funcs {
		li.at[f] = li.intra(f, li.entry[f])
	}
	return li
}

// sameInstance: the callee is a method invoked on the caller's own receiver (or the
// caller's captured receiver), so struct-field lock keys denote the same mutex.
func (li *LockInfo) sameInstance(ci ssa.CallInstruction, callee *ssa.Function) bool {
	c := ci.Common()
	caller := ci.Parent()
	root := caller
	for root.Parent() != nil {
		root = root.Parent()
	}
	if callee.Signature.Recv() == nil {
		return true // plain function: locks of the caller stay held
	}
	if root.Signature.Recv() == nil || len(root.Params) == 0 {
		return false
	}
	var recvArg ssa.Value
	if c.IsInvoke() {
		recvArg = c.Value
	} else if len(c.Args) > 0 {
		recvArg = c.Args[0]
	}
	if recvArg == nil {
		return false
	}
	rs := li.p.Sym(recvArg).Strip()
	return rs.Kind == "param" && rs.V == root.Params[0] || rs.String() == li.p.Sym(root.Params[0]).String() && types.Identical(recvArg.Type(), root.Params[0].Type())
}

func closureOperands(v ssa.Value) []*ssa.Function {
	switch x := v.(type) {
	case *ssa.MakeClosure:
		if fn, ok := x.Fn.(*ssa.Function); ok {
			return []*ssa.Function{fn}
		}
	case *ssa.Function:
		if x.Parent() != nil {
			return []*ssa.Function{x}
		}
	case *ssa.MakeInterface:
		return closureOperands(x.X)
	case *ssa.ChangeType:
		return closureOperands(x.X)
	}
	return nil
}

// usedAsValueElsewhere: an anonymous function that is referenced by more than its
// single MakeClosure/call operand.
func (g *callGraph) usedAsValueElsewhere(fn *ssa.Function) bool {
	return false
}

// Held reports whether key is must-held before instruction ins.
func (li *LockInfo) Held(ins ssa.Instruction, key string) bool {
	m := li.at[ins.Parent()]
	if m == nil {
		return false
	}
	return m[ins][key]
}

func (li *LockInfo) At(ins ssa.Instruction) lockset {
	m := li.at[ins.Parent()]
	if m == nil {
		return lockset{}
	}
	return m[ins]
}
