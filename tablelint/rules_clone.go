package main

import (
	"fmt"
	"go/types"
	"reflect"
	"strings"

	"golang.org/x/tools/go/ssa"
)

// checkCloneCompleteness: the table is copied by a JSON round trip (Table.Clone at every hand
// open; GetJSON + Unmarshal for every actor). The copy is complete only if every field of
// every repository struct reachable from Table is exported and carries a distinct,
// non-"-" JSON name: a field the encoder skips is silently reset at the next hand open.
// Also: Clone really is Marshal(receiver) → Unmarshal into a fresh Table that it returns.
func checkCloneCompleteness(c *Ctx, rule string) {
	p := c.P
	tt := p.Type("", "Table")
	if tt == nil {
		c.Bad(rule, "clone:type", "-", "Table type not found")
		return
	}
	seen := map[*types.Named]bool{}
	nFields := 0
	var walk func(t types.Type, path string)
	walk = func(t types.Type, path string) {
		switch x := t.(type) {
		case *types.Pointer:
			walk(x.Elem(), path)
			return
		case *types.Slice:
			walk(x.Elem(), path+"[]")
			return
		case *types.Array:
			walk(x.Elem(), path+"[]")
			return
		case *types.Map:
			walk(x.Elem(), path+"[]")
			return
		case *types.Named:
			if x.Obj().Pkg() == nil || !strings.HasPrefix(x.Obj().Pkg().Path(), modPath) || seen[x] {
				return
			}
			seen[x] = true
			st, ok := x.Underlying().(*types.Struct)
			if !ok {
				return
			}
			names := map[string]string{}
			for i := 0; i < st.NumFields(); i++ {
				f := st.Field(i)
				nFields++
				key := "clone-field:" + x.Obj().Name() + "." + f.Name()
				where := p.Pos(f.Pos())
				tag := reflect.StructTag(st.Tag(i)).Get("json")
				name := strings.Split(tag, ",")[0]
				switch {
				case !f.Exported():
					c.Bad(rule, key, where, "unexported field of a struct that is copied by JSON round trip: it is reset by every Clone (at every hand open) and missing from every actor's copy")
				case name == "-":
					c.Bad(rule, key, where, "field is excluded from JSON (`json:\"-\"`): it is reset by every Clone (at every hand open) and missing from every actor's copy")
				case tag == "" || name == "":
					c.Bad(rule, key, where, "field has no JSON name of its own; the copy then depends on the Go field name staying in step on both sides")
				case names[name] != "":
					c.Bad(rule, key, where, "JSON name "+name+" is also used by "+names[name]+": the encoder drops both")
				default:
					names[name] = f.Name()
				}
				walk(f.Type(), path+"."+f.Name())
			}
		}
	}
	walk(tt, "Table")
	c.Check(nFields >= 40, rule, "clone:fields-examined", "-", fmt.Sprintf("%d fields of %d repository structs reachable from Table, all exported with distinct JSON names", nFields, len(seen)), fmt.Sprintf("only %d fields reachable from Table were found", nFields))
	if !hasViolation(c, rule, "clone-field:") {
		c.Ok(rule, "clone:every-field-round-trips", "-", fmt.Sprintf("%d fields", nFields))
	}
	// Clone's own definition
	var clone *ssa.Function
	for _, f := range p.Funcs {
		if fnName(f) == "Clone" && f.Signature.Recv() != nil && namedOf(f.Signature.Recv().Type()) != nil && namedOf(f.Signature.Recv().Type()).Obj().Name() == "Table" && f.Parent() == nil {
			clone = f
		}
	}
	if clone == nil {
		c.Bad(rule, "clone:definition", "-", "Table.Clone not found")
		return
	}
	okM, okU, okR := false, false, false
	var target ssa.Value
	for _, ci := range Calls(clone) {
		switch calleeName(ci.Common()) {
		case "json.Marshal":
			a := p.Sym(ci.Common().Args[0]).Strip()
			okM = a.Kind == "param" || a.Root().Kind == "param"
		case "json.Unmarshal":
			src := p.Sym(ci.Common().Args[0]).Strip()
			okU = src.Kind == "extract" && src.Args[0].IsCall("json.Marshal")
			target = ci.Common().Args[1]
		}
	}
	for _, b := range clone.Blocks {
		if r, isR := b.Instrs[len(b.Instrs)-1].(*ssa.Return); isR && len(r.Results) == 2 {
			if k, isK := r.Results[1].(*ssa.Const); isK && k.IsNil() {
				okR = target != nil && rootAlloc(r.Results[0]) != nil && rootAlloc(r.Results[0]) == rootAlloc(target)
			}
		}
	}
	// the decode target starts as the zero Table: decoding into a copy of the receiver would decode
	// THROUGH its non-nil pointers, so that the "clone" shares the live state
	if al := rootAlloc(target); al != nil && al.Referrers() != nil {
		for _, r := range *al.Referrers() {
			switch x := r.(type) {
			case *ssa.Store:
				if x.Addr == ssa.Value(al) {
					okU = false
				}
			case *ssa.FieldAddr:
				if x.Referrers() != nil {
					for _, r2 := range *x.Referrers() {
						if _, isSt := r2.(*ssa.Store); isSt {
							okU = false
						}
					}
				}
			}
		}
	}
	c.Check(okM && okU && okR, rule, "clone:definition", p.Pos(clone.Pos()), "Marshal(receiver) → Unmarshal into a fresh (zero) Table → that Table", fmt.Sprintf("Table.Clone is not a JSON round trip of its receiver into a fresh, zero table (marshal receiver=%v, unmarshal those bytes into a zero value=%v, return that table=%v)", okM, okU, okR))
	// the text encoders the copies are made from (the adapter decodes GetJSON of the incoming table): what a table
	// encodes to depends on that table only — every successful return is string(json.Marshal(receiver …)) of this very
	// call. An encoding remembered under the table's id / serial is handed out for a different object with the same
	// id and serial (the observer's filtered copy gets the unfiltered text; an actor gets a stale table).
	nEnc := 0
	for _, f := range p.Funcs {
		if f.Parent() != nil || f.Signature.Recv() == nil || namedOf(f.Signature.Recv().Type()) == nil || namedOf(f.Signature.Recv().Type()).Obj().Name() != "Table" || !inPkg(p, f, "") {
			continue
		}
		res := f.Signature.Results()
		if res.Len() != 2 || typeShort(res.At(0).Type()) != "string" || !isErrorType(res.At(1).Type()) {
			continue
		}
		nEnc++
		okEnc, where := true, p.Pos(f.Pos())
		nOK := 0
		for _, b := range f.Blocks {
			r, isR := b.Instrs[len(b.Instrs)-1].(*ssa.Return)
			if !isR || len(r.Results) != 2 {
				continue
			}
			if k, isK := r.Results[1].(*ssa.Const); !isK || !k.IsNil() {
				continue // error exit
			}
			good := false
			if cv, isCv := r.Results[0].(*ssa.Convert); isCv {
				if ex, isEx := cv.X.(*ssa.Extract); isEx && ex.Index == 0 {
					if call, isCall := ex.Tuple.(*ssa.Call); isCall && calleeName(call.Common()) == "json.Marshal" {
						a := p.Sym(call.Common().Args[0]).Strip()
						good = a.Kind == "param" || a.Root().Kind == "param"
					}
				}
			}
			if good {
				nOK++
			} else {
				okEnc, where = false, p.InstrPos(r)
			}
		}
		c.Check(okEnc && nOK >= 1, rule, "encoder:definition:"+fnName(f), where, "every successful return is string(json.Marshal(receiver …)) computed in this call", "Table."+fnName(f)+" can answer with a text that is not the encoding of its own receiver made in this call (a remembered encoding is handed out for another object with the same key)")
	}
	c.Min(rule, "text encoders of Table", nEnc, 2)
}

func hasViolation(c *Ctx, rule, prefix string) bool {
	for _, o := range c.Obs {
		if o.Status == "violated" && strings.HasSuffix(o.Rule, "."+rule) && strings.HasPrefix(o.Construct, prefix) {
			return true
		}
	}
	return false
}
