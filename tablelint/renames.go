package main

import (
	"encoding/json"
	"flag"
	"fmt"
	"go/ast"
	"go/types"
	"os"
	"os/exec"
	"path/filepath"
	"sort"
	"strings"
	"sync"

	"golang.org/x/tools/go/packages"
)

// cmdRenames: behaviour-preserving refactors that span files — every unexported function,
// method and struct field of the repository is renamed (declaration and all uses, through
// the loader's overlay; test files are not loaded) and all quick checks are run on the
// result. An alarm on such a variant means a rule finds its instances by an unexported
// NAME instead of by role. Informational tool, not a check.
func cmdRenames(args []string) int {
	fs := flag.NewFlagSet("renames", flag.ExitOnError)
	repo := fs.String("repo", "/repo", "")
	verif := fs.String("verif", "/verif", "")
	jobs := fs.Int("j", 8, "parallel children")
	only := fs.String("only", "", "substring filter on the renamed identifier")
	out := fs.String("out", "", "result file (json)")
	fs.Parse(args)
	os.Unsetenv("GOWORK")
	pc := &packages.Config{Mode: packages.LoadSyntax, Dir: *repo,
		Env: append(os.Environ(), "GOFLAGS=-mod=mod", "GOPROXY=off", "GOSUMDB=off", "GOTOOLCHAIN=local", "GOWORK=off")}
	pkgs, err := packages.Load(pc, "./...")
	if err != nil || len(pkgs) == 0 {
		fmt.Fprintln(os.Stderr, "load failed:", err)
		return 2
	}
	type edit struct{ off, end int }
	type job struct {
		Name  string            `json:"name"`
		Kind  string            `json:"kind"`
		Pkg   string            `json:"pkg"`
		Fired []string          `json:"fired"`
		Keys  []string          `json:"keys,omitempty"`
		Loads bool              `json:"loads"`
		edits map[string][]edit // file → spans
	}
	var jobsList []*job
	srcs := map[string][]byte{}
	for _, pk := range pkgs {
		if !strings.HasPrefix(pk.PkgPath, modPath) {
			continue
		}
		for _, f := range pk.CompiledGoFiles {
			if b, err := os.ReadFile(f); err == nil {
				srcs[f] = b
			}
		}
		objs := map[types.Object]*job{}
		consider := func(o types.Object) *job {
			if o == nil || o.Pkg() == nil || o.Pkg() != pk.Types || o.Exported() || o.Name() == "_" || o.Name() == "init" || o.Name() == "main" {
				return nil
			}
			kind := ""
			switch x := o.(type) {
			case *types.Func:
				kind = "func"
				if sig, ok := x.Type().(*types.Signature); ok && sig.Recv() != nil {
					kind = "method"
					// a method that implements an interface method cannot be renamed alone
					for _, p2 := range pkgs {
						if p2.Types == nil {
							continue
						}
						for _, n := range p2.Types.Scope().Names() {
							if tn, isTN := p2.Types.Scope().Lookup(n).(*types.TypeName); isTN {
								if it, isI := tn.Type().Underlying().(*types.Interface); isI {
									for i := 0; i < it.NumMethods(); i++ {
										if it.Method(i).Name() == o.Name() {
											return nil
										}
									}
								}
							}
						}
					}
				}
			case *types.Var:
				if !x.IsField() {
					return nil
				}
				kind = "field"
			case *types.TypeName:
				if _, isNamed := x.Type().(*types.Named); !isNamed {
					return nil
				}
				kind = "type"
			default:
				return nil
			}
			if j, ok := objs[o]; ok {
				return j
			}
			j := &job{Name: o.Name(), Kind: kind, Pkg: pk.PkgPath, edits: map[string][]edit{}}
			objs[o] = j
			return j
		}
		add := func(id *ast.Ident, o types.Object) {
			j := consider(o)
			if j == nil {
				return
			}
			pos := pk.Fset.Position(id.Pos())
			if strings.HasSuffix(pos.Filename, "_test.go") {
				return
			}
			j.edits[pos.Filename] = append(j.edits[pos.Filename], edit{pos.Offset, pos.Offset + len(id.Name)})
		}
		for id, o := range pk.TypesInfo.Defs {
			add(id, o)
		}
		for id, o := range pk.TypesInfo.Uses {
			add(id, o)
		}
		// struct literal keys and embedded selections are in Uses; JSON tags are untouched
		for _, j := range objs {
			if len(j.edits) > 0 && (*only == "" || strings.Contains(j.Name, *only)) {
				jobsList = append(jobsList, j)
			}
		}
	}
	sort.Slice(jobsList, func(a, b int) bool {
		if jobsList[a].Pkg != jobsList[b].Pkg {
			return jobsList[a].Pkg < jobsList[b].Pkg
		}
		return jobsList[a].Name < jobsList[b].Name
	})
	exe, _ := os.Executable()
	tmp, _ := os.MkdirTemp("", "tablelint-renames")
	defer os.RemoveAll(tmp)
	var wg sync.WaitGroup
	sem := make(chan struct{}, *jobs)
	for i, j := range jobsList {
		wg.Add(1)
		sem <- struct{}{}
		go func(i int, j *job) {
			defer wg.Done()
			defer func() { <-sem }()
			ov := map[string]string{}
			for file, es := range j.edits {
				sort.Slice(es, func(a, b int) bool { return es[a].off > es[b].off })
				b := append([]byte{}, srcs[file]...)
				last := -1
				for _, e := range es {
					if e.off == last {
						continue
					}
					last = e.off
					b = append(append(append([]byte{}, b[:e.end]...), []byte("Rn")...), b[e.end:]...)
				}
				cf := filepath.Join(tmp, fmt.Sprintf("%d_%s", i, filepath.Base(file)))
				os.WriteFile(cf, b, 0o644)
				ov[file] = cf
			}
			of := filepath.Join(tmp, fmt.Sprintf("%d.overlay.json", i))
			ob, _ := json.Marshal(ov)
			os.WriteFile(of, ob, 0o644)
			cmd := exec.Command(exe, "variant", "-repo", *repo, "-verif", *verif, "-overlay", of)
			res, err := cmd.Output()
			if err != nil {
				return
			}
			var r struct {
				Fired []string `json:"fired"`
				Keys  []string `json:"keys"`
			}
			if json.Unmarshal(res, &r) == nil {
				j.Loads = true
				j.Fired, j.Keys = r.Fired, r.Keys
			}
		}(i, j)
	}
	wg.Wait()
	nLoad, nAlarm := 0, 0
	for _, j := range jobsList {
		if j.Loads {
			nLoad++
			if len(j.Fired) > 0 {
				nAlarm++
				fmt.Printf("ALARM %-7s %s.%s → %v %v\n", j.Kind, filepath.Base(j.Pkg), j.Name, j.Fired, j.Keys)
			}
		} else {
			fmt.Printf("noload %-7s %s.%s\n", j.Kind, filepath.Base(j.Pkg), j.Name)
		}
	}
	fmt.Printf("rename sweep: %d identifiers, %d type-check, %d silent, %d raise at least one rule\n", len(jobsList), nLoad, nLoad-nAlarm, nAlarm)
	if *out != "" {
		b, _ := json.MarshalIndent(jobsList, "", " ")
		os.WriteFile(*out, b, 0o644)
	}
	return 0
}
