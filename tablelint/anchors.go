package main

// Role discovery shared by several properties.

import (
	"go/types"
	"strings"

	"golang.org/x/tools/go/ssa"
)

// singleImpl returns the unique production implementer of an interface.
func (p *Prog) singleImpl(pkgSuffix, iface string) *types.Named {
	i := p.Iface(pkgSuffix, iface)
	if i == nil {
		return nil
	}
	im := p.Implementers(i)
	if len(im) != 1 {
		return nil
	}
	return im[0]
}

// gameSingleActions: methods of the Game interface whose first parameter is the
// player index (Ready, Pay, Pass, Fold, Check, Call, Allin, Bet, Raise).
func (p *Prog) gameSingleActions() []string {
	gi := p.Iface("", "Game")
	var out []string
	if gi == nil {
		return nil
	}
	for k := 0; k < gi.NumMethods(); k++ {
		m := gi.Method(k)
		sig := m.Type().(*types.Signature)
		if sig.Params().Len() >= 1 && sig.Results().Len() == 2 {
			if b, ok := sig.Params().At(0).Type().Underlying().(*types.Basic); ok && b.Kind() == types.Int {
				out = append(out, m.Name())
			}
		}
	}
	return out
}

type actionMethod struct {
	Fn     *ssa.Function
	Action string    // Game method name
	Hand   *ssa.Call // the te.game.X(...) call
}

// engineActionMethods: methods of the engine type that invoke a Game single action.
func (p *Prog) engineActionMethods() []actionMethod {
	et := p.singleImpl("", "TableEngine")
	if et == nil {
		return nil
	}
	single := map[string]bool{}
	for _, n := range p.gameSingleActions() {
		single[n] = true
	}
	var out []actionMethod
	for _, f := range p.Methods(et) {
		for _, ci := range Calls(f) {
			call, ok := ci.(*ssa.Call)
			if !ok {
				continue
			}
			cm := call.Common()
			if cm.IsInvoke() && namedOf(cm.Value.Type()) != nil && namedOf(cm.Value.Type()).Obj().Name() == "Game" && single[cm.Method.Name()] {
				out = append(out, actionMethod{Fn: f, Action: cm.Method.Name(), Hand: call})
			}
		}
	}
	return out
}

// heapWatch: any store to memory not rooted at a fresh local allocation, and any
// invocation of a user callback (dynamic call through an engine callback field).
func heapWatch() *Watch {
	return &Watch{Name: "heap", Direct: func(p *Prog, in ssa.Instruction) bool {
		if ss := p.storeSite(in); ss != nil {
			return !storeIsLocal(in)
		}
		if ci, ok := in.(ssa.CallInstruction); ok {
			c := ci.Common()
			if !c.IsInvoke() && c.StaticCallee() == nil {
				if _, isB := c.Value.(*ssa.Builtin); !isB {
					// dynamic call: a callback
					if _, isMC := c.Value.(*ssa.MakeClosure); !isMC {
						return true
					}
				}
			}
			// channel close / send are effects too
			if b, isB := c.Value.(*ssa.Builtin); isB && b.Name() == "close" {
				return true
			}
		}
		if _, ok := in.(*ssa.Send); ok {
			return true
		}
		return false
	}}
}

func isLocalRoot(a *Sym) bool {
	r := a.Root()
	switch r.Kind {
	case "new", "alloc", "make":
		return true
	case "builtin":
		return r.Name == "append"
	}
	return false
}

// rawLocal: the address denotes (part of) a local variable or an object freshly
// allocated in this function — decided on the raw SSA address chain, so that a
// spilled by-value parameter (Alloc) is local even though its Sym is the parameter.
func rawLocal(v ssa.Value) bool { return rawLocalSeen(v, map[ssa.Value]bool{}) }

func rawLocalSeen(v ssa.Value, seen map[ssa.Value]bool) bool {
	for i := 0; i < 32; i++ {
		if seen[v] {
			return true // a cycle through phis: decided by the other edges
		}
		seen[v] = true
		switch x := v.(type) {
		case *ssa.Alloc, *ssa.MakeSlice, *ssa.MakeMap:
			return true
		case *ssa.FieldAddr:
			v = x.X
		case *ssa.IndexAddr:
			v = x.X
		case *ssa.Slice:
			v = x.X
		case *ssa.Phi:
			for _, e := range x.Edges {
				if e != v && !rawLocalSeen(e, seen) {
					if _, isPhi := e.(*ssa.Phi); isPhi {
						continue
					}
					return false
				}
			}
			return true
		case *ssa.Call:
			if b, ok := x.Call.Value.(*ssa.Builtin); ok && b.Name() == "append" {
				v = x.Call.Args[0]
				continue
			}
			return false
		default:
			return false
		}
	}
	return false
}

func storeIsLocal(in ssa.Instruction) bool {
	switch x := in.(type) {
	case *ssa.Store:
		return rawLocal(x.Addr) && !publishedBefore(x.Addr, in)
	case *ssa.MapUpdate:
		return rawLocal(x.Map) && !publishedBefore(x.Map, in)
	}
	return false
}

// publishedBefore: the address is (a field of) a local variable whose address has already been put into
// shared storage — sp := new(); m[k] = &sp; sp.f = v — at a point that can precede this instruction:
// the write then lands in the shared object, it is not the initialisation of a private one.
func publishedBefore(addr ssa.Value, in ssa.Instruction) bool {
	var al *ssa.Alloc
	v := addr
	for i := 0; i < 8 && al == nil; i++ {
		switch x := v.(type) {
		case *ssa.Alloc:
			al = x
		case *ssa.FieldAddr:
			v = x.X
		default:
			return false
		}
	}
	if al == nil || al.Referrers() == nil {
		return false
	}
	for _, r := range *al.Referrers() {
		switch x := r.(type) {
		case *ssa.Store:
			if x.Val == ssa.Value(al) && !rawLocal(x.Addr) && ssa.Instruction(x) != in && Reaches(x, in) {
				return true
			}
		case *ssa.MapUpdate:
			if x.Value == ssa.Value(al) && !rawLocal(x.Map) && ssa.Instruction(x) != in && Reaches(x, in) {
				return true
			}
		}
	}
	return false
}

func lowerFirst(s string) string { return strings.ToLower(s) }

// fieldLoadOf: sym is a (load of a) field owner.name
func symIsFieldOf(s *Sym, owner, name string) bool { return s.Strip().IsField(owner, name) }

// isLogCall: a call that only writes a log line — the print/println builtins, fmt.Print*/Fprint* and the log
// package. Rules about what a function does "first" or about "no other call" look through these.
func isLogCall(ci ssa.CallInstruction) bool {
	cm := ci.Common()
	if b, ok := cm.Value.(*ssa.Builtin); ok {
		return b.Name() == "print" || b.Name() == "println"
	}
	sc := cm.StaticCallee()
	if sc == nil || sc.Pkg == nil {
		return false
	}
	switch sc.Pkg.Pkg.Path() {
	case "fmt":
		return strings.HasPrefix(sc.Name(), "Print") || strings.HasPrefix(sc.Name(), "Fprint")
	case "log":
		return true
	}
	return false
}
