package main

import (
	"fmt"
	"go/token"
	"strings"

	"golang.org/x/tools/go/ssa"
)

func loopHeaders(f *ssa.Function) []*ssa.BasicBlock {
	var out []*ssa.BasicBlock
	for _, b := range f.Blocks {
		for _, pr := range b.Preds {
			if b.Dominates(pr) {
				out = append(out, b)
				break
			}
		}
	}
	return out
}

// sentinelReturned: the package-level error stored as / returned by the exit block b ("" if none).
func sentinelReturned(p *Prog, b *ssa.BasicBlock) string {
	if len(b.Instrs) == 0 {
		return ""
	}
	r, ok := b.Instrs[len(b.Instrs)-1].(*ssa.Return)
	if !ok || len(r.Results) == 0 {
		return ""
	}
	name := func(v ssa.Value) string {
		s := p.Sym(v).Strip()
		if s.Kind == "global" {
			return s.Name[strings.LastIndex(s.Name, ".")+1:]
		}
		return ""
	}
	if n := name(r.Results[len(r.Results)-1]); n != "" {
		return n
	}
	// defer-spilled: the value stored to the result slot in this block
	for i := len(b.Instrs) - 1; i >= 0; i-- {
		if st, isSt := b.Instrs[i].(*ssa.Store); isSt {
			if _, isAl := st.Addr.(*ssa.Alloc); isAl && isErrorType(st.Val.Type()) {
				if n := name(st.Val); n != "" {
					return n
				}
				if k, isK := st.Val.(*ssa.Const); isK && k.IsNil() {
					return "nil"
				}
				return "?"
			}
		}
	}
	return ""
}

// checkAssignValidation (C03.R2, exact form): the validation loops of the two assigners
// reject a batch exactly when it names a player twice, a seat twice, a seat held by somebody
// else, or a player who is already seated; every accepted entry is remembered for the
// following entries; the assignment is made only after all of that and covers the whole batch.
func checkAssignValidation(c *Ctx) {
	p := c.P
	rule := "R2"
	smT := p.singleImpl("/seat_manager", "SeatManager")
	if smT == nil {
		c.Bad(rule, "validation", "-", "seat manager not found")
		return
	}
	exitSentinel := func(bp bodyPath) string {
		if !bp.Exit {
			return ""
		}
		b := bp.ExitTo
		if b == nil && len(bp.Order) > 0 {
			b = bp.Order[len(bp.Order)-1]
		}
		for i := 0; i < 6 && b != nil; i++ {
			if s := sentinelReturned(p, b); s != "" {
				return s
			}
			if len(b.Succs) != 1 {
				return ""
			}
			b = b.Succs[0]
		}
		return ""
	}
	exitEvent := func(name string) func(bp bodyPath) bool {
		return func(bp bodyPath) bool { return exitSentinel(bp) == name }
	}
	records := func(bp bodyPath, m ssa.Value, key func(*Sym) bool) bool {
		for _, b := range bp.Order {
			for _, in := range b.Instrs {
				if mu, isMU := in.(*ssa.MapUpdate); isMU && sameObj(p, mu.Map, m) && key(p.Sym(mu.Key).Strip()) {
					return true
				}
			}
		}
		return false
	}
	bodyOf := func(h *ssa.BasicBlock) ([]bodyPath, bool) {
		paths, ok := p.loopBodyPaths(h)
		var body []bodyPath
		for _, bp := range paths {
			if len(bp.Order) > 1 {
				body = append(body, bp)
			}
		}
		return body, ok && len(body) > 0
	}
	hasReturn := func(h *ssa.BasicBlock) bool {
		for b := range naturalLoop(h) {
			for _, s := range b.Succs {
				if !naturalLoop(h)[s] && sentinelReturned(p, s) != "" && sentinelReturned(p, s) != "nil" {
					return true
				}
			}
			if sentinelReturned(p, b) != "" {
				return true
			}
		}
		return false
	}

	// ---------------- AssignSeats
	if f := p.Method(smT, "AssignSeats"); f != nil && len(f.Params) == 2 {
		batch := f.Params[1]
		isKey := func(s *Sym) bool { return s.Strip().Kind == "rangekey" && symIsParam(s.Strip().Args[0], batch) }
		isVal := func(s *Sym) bool { return s.Strip().Kind == "rangeval" && symIsParam(s.Strip().Args[0], batch) }
		var idMap, seatMapV ssa.Value
		nLoops := 0
		for _, h := range loopHeaders(f) {
			if !hasReturn(h) {
				continue
			}
			body, ok := bodyOf(h)
			// which loop: over the batch, or over the seats
			overBatch := false
			for _, in := range h.Instrs {
				if nx, isNx := in.(*ssa.Next); isNx {
					if rg, isRg := nx.Iter.(*ssa.Range); isRg && symIsParam(p.Sym(rg.X), batch) {
						overBatch = true
					}
				}
			}
			nLoops++
			if overBatch {
				atom := func(g Guard) (string, bool, bool) {
					s := g.Cond.Strip()
					if cm := g.AsCmp(); cm != nil {
						l, r := cm.L.Strip(), cm.R.Strip()
						if r.IsNil() && l.Kind == "extract" && l.Name == "0" && l.Args[0].Strip().Kind == "lookup" && l.Args[0].Strip().Args[0].Strip().IsField("seatManager", "SeatData") && isVal(l.Args[0].Strip().Args[1]) && (cm.Op == token.NEQ || cm.Op == token.EQL) {
							return "seat-occupied", cm.Op == token.NEQ, true
						}
						for k := 0; k < 2; k++ {
							if l.IsField("SeatPlayer", "ID") && isKey(r) && (cm.Op == token.NEQ || cm.Op == token.EQL) {
								return "by-someone-else", cm.Op == token.NEQ, true
							}
							l, r = r, l
						}
						return "", false, false
					}
					if s.Kind == "extract" && s.Name == "ok" || strings.HasPrefix(s.String(), "?next") {
						return "", false, true
					}
					if s.Kind == "extract" && s.Name == "1" && s.Args[0].Strip().Kind == "lookup" {
						lk := s.Args[0].Strip()
						switch {
						case lk.Args[0].Strip().IsField("seatManager", "SeatData") && isVal(lk.Args[1]):
							return "seat-known", g.Val, true
						case symType(lk.Args[0]) == "map[string]bool" && isKey(lk.Args[1]):
							idMap = lk.V.(*ssa.Lookup).X
							return "player-twice", g.Val, true
						case symType(lk.Args[0]) == "map[int]bool" && isVal(lk.Args[1]):
							seatMapV = lk.V.(*ssa.Lookup).X
							return "seat-twice", g.Val, true
						}
					}
					if s.Kind == "extract" && s.Name == "0" && s.Args[0].Strip().Kind == "next" {
						return "", false, true
					}
					return "", false, false
				}
				d := "cannot enumerate the paths of the batch validation loop"
				if ok {
					// first pass to discover the maps
					for _, bp := range body {
						for _, g := range bp.Guards {
							atom(g)
						}
					}
					taken := func(a map[string]bool) bool {
						return !a["player-twice"] && !a["seat-twice"] && a["seat-known"] && a["seat-occupied"] && a["by-someone-else"]
					}
					d = tableCheck(body, atom, []string{"player-twice", "seat-twice", "seat-known", "seat-occupied", "by-someone-else"},
						func(a map[string]bool) bool {
							return (a["seat-occupied"] && !a["seat-known"]) || (a["by-someone-else"] && !a["seat-occupied"])
						},
						map[string]func(bodyPath) bool{
							"reject with duplicate-players":     exitEvent("ErrDuplicatePlayers"),
							"reject with duplicate-seats":       exitEvent("ErrDuplicateSeats"),
							"reject with seat-taken":            exitEvent("ErrSeatAlreadyIsTaken"),
							"remember the player for the batch": func(bp bodyPath) bool { return idMap != nil && records(bp, idMap, isKey) },
							"remember the seat for the batch":   func(bp bodyPath) bool { return seatMapV != nil && records(bp, seatMapV, isVal) },
						},
						map[string]func(map[string]bool) bool{
							"reject with duplicate-players":     func(a map[string]bool) bool { return a["player-twice"] },
							"reject with duplicate-seats":       func(a map[string]bool) bool { return !a["player-twice"] && a["seat-twice"] },
							"reject with seat-taken":            taken,
							"remember the player for the batch": func(a map[string]bool) bool { return !a["player-twice"] },
							"remember the seat for the batch": func(a map[string]bool) bool {
								return !a["player-twice"] && !a["seat-twice"] && !taken(a)
							},
						})
				}
				c.Check(d == "", rule, "AssignSeats:batch-validation", p.Pos(f.Pos()), fmt.Sprintf("rejects exactly duplicate player / duplicate seat / seat held by another; remembers accepted entries; %d paths", len(body)), "fixed-seat batch validation: "+d)
			} else {
				atom := func(g Guard) (string, bool, bool) {
					s := g.Cond.Strip()
					if cm := g.AsCmp(); cm != nil {
						l, r := cm.L.Strip(), cm.R.Strip()
						if r.IsNil() && l.Kind == "rangeval" && l.Args[0].Strip().IsField("seatManager", "SeatData") && (cm.Op == token.NEQ || cm.Op == token.EQL) {
							return "occupied", cm.Op == token.NEQ, true
						}
						return "", false, false
					}
					if s.IsCall("funk.Contains") && len(s.Args) == 2 {
						id := s.Args[1].Strip()
						if idMap != nil && s.Call.Common().Args[0] != nil && sameMapArg(p, s.Call.Common().Args[0], idMap) && id.IsField("SeatPlayer", "ID") && id.Args[0].Strip().Kind == "rangeval" {
							return "in-batch", g.Val, true
						}
						return "", false, false
					}
					if s.Kind == "extract" && s.Args[0].Strip().Kind == "next" {
						return "", false, true
					}
					if strings.HasPrefix(s.String(), "?next") {
						return "", false, true
					}
					return "", false, false
				}
				d := "cannot enumerate the paths of the already-seated check"
				if ok {
					d = tableCheck(body, atom, []string{"occupied", "in-batch"},
						func(a map[string]bool) bool { return a["in-batch"] && !a["occupied"] },
						map[string]func(bodyPath) bool{"reject with duplicate-players": exitEvent("ErrDuplicatePlayers")},
						map[string]func(map[string]bool) bool{"reject with duplicate-players": func(a map[string]bool) bool { return a["occupied"] && a["in-batch"] }})
				}
				c.Check(d == "", rule, "AssignSeats:already-seated", p.Pos(f.Pos()), "rejects exactly when a seated player is in the batch", "already-seated check: "+d)
			}
		}
		c.Min(rule, "validation loops in AssignSeats", nLoops, 2)
		// capacity test and the assignment itself
		for _, b := range f.Blocks {
			for _, in := range b.Instrs {
				mu, isMU := in.(*ssa.MapUpdate)
				if !isMU || !p.Sym(mu.Map).Strip().IsField("seatManager", "SeatData") {
					continue
				}
				capOK := cmpHolds(p.Guards(mu), func(l, r *Sym, op token.Token) bool {
					return op == token.GEQ && l.Strip().IsCall("len") && l.Strip().Args[0].IsCall("seatManager.getEmptySeatIDs") && r.Strip().IsCall("len") && symIsParam(r.Strip().Args[0], batch)
				})
				c.Check(capOK, rule, "AssignSeats:capacity", p.InstrPos(mu), "assignment only when empty seats ≥ batch size", "seats are assigned without the batch being known to fit into the empty seats")
				k, v := p.Sym(mu.Key).Strip(), p.Sym(mu.Value).Strip()
				whole := isVal(k) && v.Contains(func(x *Sym) bool {
					return x.IsCall("seatManager.newSeatPlayer") && len(x.Args) >= 2 && isKey(x.Args[1])
				})
				c.Check(whole, rule, "AssignSeats:assigns-batch", p.InstrPos(mu), "seat v ← new seat player(k) for every (k, v) of the batch", "the assignment does not give every player of the batch the seat requested for that player")
			}
		}
	} else {
		c.Bad(rule, "AssignSeats:batch-validation", "-", "fixed-seat assigner not found")
	}

	// ---------------- RandomAssignSeats
	if f := p.Method(smT, "RandomAssignSeats"); f != nil && len(f.Params) == 2 {
		batch := f.Params[1]
		isID := func(s *Sym) bool {
			s = s.Strip()
			return s.Kind == "index" && symIsParam(s.Args[0], batch) && fullRange(s.Args[1], func(x *Sym) bool { return symIsParam(x, batch) })
		}
		var bm ssa.Value
		n := 0
		for _, h := range loopHeaders(f) {
			if !hasReturn(h) {
				continue
			}
			n++
			body, ok := bodyOf(h)
			atom := func(g Guard) (string, bool, bool) {
				s := g.Cond.Strip()
				if cm := g.AsCmp(); cm != nil {
					if l := cm.L.Strip(); l.Kind == "ind" && l.Ind.Phi != nil && l.Ind.Phi.Block() == h {
						return "", false, true
					}
					return "", false, false
				}
				if s.Kind == "extract" && s.Name == "1" && s.Args[0].Strip().Kind == "lookup" && s.Args[0].Strip().Args[0].IsCall("seatManager.getOccupiedPlayerSeatIDs") && isID(s.Args[0].Strip().Args[1]) {
					return "already-seated", g.Val, true
				}
				if s.Kind == "lookup" && symType(s.Args[0]) == "map[string]bool" && isID(s.Args[1]) {
					bm = s.V.(*ssa.Lookup).X
					return "twice-in-batch", g.Val, true
				}
				return "", false, false
			}
			d := "cannot enumerate the paths of the random-seat batch validation"
			if ok {
				for _, bp := range body {
					for _, g := range bp.Guards {
						atom(g)
					}
				}
				recTrue := func(bp bodyPath) bool {
					if bm == nil {
						return false
					}
					for _, b := range bp.Order {
						for _, in := range b.Instrs {
							if mu, isMU := in.(*ssa.MapUpdate); isMU && sameObj(p, mu.Map, bm) && isID(p.Sym(mu.Key)) {
								if v, isB := p.Sym(mu.Value).ConstBool(); isB && v {
									return true
								}
							}
						}
					}
					return false
				}
				d = tableCheck(body, atom, []string{"already-seated", "twice-in-batch"}, nil,
					map[string]func(bodyPath) bool{
						"reject with duplicate-players":     exitEvent("ErrDuplicatePlayers"),
						"remember the player for the batch": recTrue,
					},
					map[string]func(map[string]bool) bool{
						"reject with duplicate-players":     func(a map[string]bool) bool { return a["already-seated"] || a["twice-in-batch"] },
						"remember the player for the batch": func(a map[string]bool) bool { return !a["already-seated"] && !a["twice-in-batch"] },
					})
			}
			c.Check(d == "", rule, "RandomAssignSeats:batch-validation", p.Pos(f.Pos()), "rejects exactly a seated player or a repeated id; remembers accepted ids", "random-seat batch validation: "+d)
		}
		c.Min(rule, "validation loops in RandomAssignSeats", n, 1)
		for _, b := range f.Blocks {
			for _, in := range b.Instrs {
				mu, isMU := in.(*ssa.MapUpdate)
				if !isMU || !p.Sym(mu.Map).Strip().IsField("seatManager", "SeatData") {
					continue
				}
				k, v := p.Sym(mu.Key).Strip(), p.Sym(mu.Value).Strip()
				// seat = drawn[i], player = batch[i], i over the whole batch; only when the draw succeeded
				okPair := k.Kind == "index" && k.Args[0].Strip().Kind == "extract" && k.Args[0].Strip().Args[0].IsCall("seatManager.randomSeatIDs") &&
					fullRange(k.Args[1], func(x *Sym) bool { return symIsParam(x, batch) }) &&
					v.Contains(func(x *Sym) bool {
						return x.IsCall("seatManager.newSeatPlayer") && len(x.Args) >= 2 && isID(x.Args[1]) && x.Args[1].Strip().Args[1].Strip().String() == k.Args[1].Strip().String()
					})
				c.Check(okPair, rule, "RandomAssignSeats:assigns-batch", p.InstrPos(mu), "drawn seat i ← new seat player(batch i) for every i", "the assignment does not pair every player of the batch with one drawn seat")
				drawOK := false
				if k.Kind == "index" && k.Args[0].Strip().Kind == "extract" {
					if call, isCall := k.Args[0].Strip().Args[0].Strip().V.(*ssa.Call); isCall {
						drawOK = nilGuard(p.Guards(mu), true, func(x *Sym) bool { return isErrOf(x, call) })
						// the draw is for as many seats as the batch has players
						a := p.Sym(call.Call.Args[len(call.Call.Args)-1]).Strip()
						if !(a.IsCall("len") && symIsParam(a.Args[0], batch)) {
							drawOK = false
						}
					}
				}
				c.Check(drawOK, rule, "RandomAssignSeats:draw-succeeded", p.InstrPos(mu), "assignment only after drawing len(batch) seats succeeded", "seats are assigned without a successful draw of as many free seats as the batch has players")
			}
		}
	} else {
		c.Bad(rule, "RandomAssignSeats:batch-validation", "-", "random-seat assigner not found")
	}
}

// sameMapArg: v (possibly wrapped into an interface) is the map value m.
func sameMapArg(p *Prog, v ssa.Value, m ssa.Value) bool {
	for i := 0; i < 4; i++ {
		switch x := v.(type) {
		case *ssa.MakeInterface:
			v = x.X
			continue
		case *ssa.ChangeType:
			v = x.X
			continue
		}
		break
	}
	return sameObj(p, v, m)
}

// sameObj: two SSA values denote the same object (directly, or as loads of one local
// that is assigned once — locals captured by a closure are spilled to a cell).
func sameObj(p *Prog, a, b ssa.Value) bool {
	if a == b {
		return true
	}
	sa, sb := p.Sym(a).Strip(), p.Sym(b).Strip()
	ua, isA := a.(*ssa.UnOp)
	ub, isB := b.(*ssa.UnOp)
	if isA && isB && ua.Op == token.MUL && ub.Op == token.MUL && ua.X == ub.X {
		return sa.String() == sb.String()
	}
	if (sa.Kind == "make" || sa.Kind == "new" || sa.Kind == "alloc") && sa.Kind == sb.Kind {
		return sa.String() == sb.String() && (sa.V == sb.V || isA || isB)
	}
	return false
}

// isErrOf: x is the error result of this very call (also when read back from a spilled local).
func isErrOf(x *Sym, call *ssa.Call) bool {
	x = x.Strip()
	if ev := callErrValue(call); ev != nil && x.V == ev {
		return true
	}
	switch x.Kind {
	case "extract":
		a := x.Args[0].Strip()
		return a.Kind == "call" && a.Call == ssa.CallInstruction(call) && x.V != nil && isErrorType(x.V.Type())
	case "call":
		return x.Call == ssa.CallInstruction(call)
	}
	return false
}
