package main

import (
	"fmt"
	"go/token"
	"strings"

	"golang.org/x/tools/go/ssa"
)

func loopHeaders(f *ssa.Function) []*ssa.BasicBlock {
	var out []*ssa.BasicBlock
	for _, b := range f.Blocks {
		for _, pr := range b.Preds {
			if b.Dominates(pr) {
				out = append(out, b)
				break
			}
		}
	}
	return out
}

// sentinelReturned: the package-level error stored as / returned by the exit block b ("" if none).
func sentinelReturned(p *Prog, b *ssa.BasicBlock) string {
	if len(b.Instrs) == 0 {
		return ""
	}
	r, ok := b.Instrs[len(b.Instrs)-1].(*ssa.Return)
	if !ok || len(r.Results) == 0 {
		return ""
	}
	name := func(v ssa.Value) string {
		s := p.Sym(v).Strip()
		if s.Kind == "global" {
			return s.Name[strings.LastIndex(s.Name, ".")+1:]
		}
		return ""
	}
	if n := name(r.Results[len(r.Results)-1]); n != "" {
		return n
	}
	// defer-spilled: the value stored to the result slot in this block
	for i := len(b.Instrs) - 1; i >= 0; i-- {
		if st, isSt := b.Instrs[i].(*ssa.Store); isSt {
			if _, isAl := st.Addr.(*ssa.Alloc); isAl && isErrorType(st.Val.Type()) {
				if n := name(st.Val); n != "" {
					return n
				}
				if k, isK := st.Val.(*ssa.Const); isK && k.IsNil() {
					return "nil"
				}
				return "?"
			}
		}
	}
	return ""
}

// checkAssignValidation (C03.R2, exact form): the validation loops of the two assigners
// reject a batch exactly when it names a player twice, a seat twice, a seat held by somebody
// else, or a player who is already seated; every accepted entry is remembered for the
// following entries; the assignment is made only after all of that and covers the whole batch.
func checkAssignValidation(c *Ctx) {
	p := c.P
	rule := "R2"
	smT := p.singleImpl("/seat_manager", "SeatManager")
	if smT == nil {
		c.Bad(rule, "validation", "-", "seat manager not found")
		return
	}
	exitSentinel := func(bp bodyPath) string {
		if !bp.Exit {
			return ""
		}
		b := bp.ExitTo
		if b == nil && len(bp.Order) > 0 {
			b = bp.Order[len(bp.Order)-1]
		}
		for i := 0; i < 6 && b != nil; i++ {
			if s := sentinelReturned(p, b); s != "" {
				return s
			}
			if len(b.Succs) != 1 {
				return ""
			}
			b = b.Succs[0]
		}
		return ""
	}
	exitEvent := func(name string) func(bp bodyPath) bool {
		return func(bp bodyPath) bool { return exitSentinel(bp) == name }
	}
	records := func(bp bodyPath, m ssa.Value, key func(*Sym) bool) bool {
		for _, b := range bp.Order {
			for _, in := range b.Instrs {
				if mu, isMU := in.(*ssa.MapUpdate); isMU && sameObj(p, mu.Map, m) && key(p.Sym(mu.Key).Strip()) {
					return true
				}
			}
		}
		return false
	}
	bodyOf := func(h *ssa.BasicBlock) ([]bodyPath, bool) {
		paths, ok := p.loopBodyPaths(h)
		var body []bodyPath
		for _, bp := range paths {
			if len(bp.Order) > 1 {
				body = append(body, bp)
			}
		}
		return body, ok && len(body) > 0
	}
	hasReturn := func(h *ssa.BasicBlock) bool {
		for b := range naturalLoop(h) {
			for _, s := range b.Succs {
				if !naturalLoop(h)[s] && sentinelReturned(p, s) != "" && sentinelReturned(p, s) != "nil" {
					return true
				}
			}
			if sentinelReturned(p, b) != "" {
				return true
			}
		}
		return false
	}

	// ---------------- AssignSeats
	if f := p.Method(smT, "AssignSeats"); f != nil && len(f.Params) == 2 {
		batch := f.Params[1]
		isKey := func(s *Sym) bool { return s.Strip().Kind == "rangekey" && symIsParam(s.Strip().Args[0], batch) }
		isVal := func(s *Sym) bool { return s.Strip().Kind == "rangeval" && symIsParam(s.Strip().Args[0], batch) }
		var idMap, seatMapV ssa.Value
		nLoops := 0
		for _, h := range loopHeaders(f) {
			if !hasReturn(h) {
				continue
			}
			body, ok := bodyOf(h)
			// which loop: over the batch, or over the seats
			overBatch := false
			for _, in := range h.Instrs {
				if nx, isNx := in.(*ssa.Next); isNx {
					if rg, isRg := nx.Iter.(*ssa.Range); isRg && symIsParam(p.Sym(rg.X), batch) {
						overBatch = true
					}
				}
			}
			nLoops++
			if overBatch {
				atom := func(g Guard) (string, bool, bool) {
					s := g.Cond.Strip()
					if cm := g.AsCmp(); cm != nil {
						l, r := cm.L.Strip(), cm.R.Strip()
						if r.IsNil() && l.Kind == "extract" && l.Name == "0" && l.Args[0].Strip().Kind == "lookup" && l.Args[0].Strip().Args[0].Strip().IsField("seatManager", "SeatData") && isVal(l.Args[0].Strip().Args[1]) && (cm.Op == token.NEQ || cm.Op == token.EQL) {
							return "seat-occupied", cm.Op == token.NEQ, true
						}
						for k := 0; k < 2; k++ {
							if l.IsField("SeatPlayer", "ID") && isKey(r) && (cm.Op == token.NEQ || cm.Op == token.EQL) {
								return "by-someone-else", cm.Op == token.NEQ, true
							}
							l, r = r, l
						}
						return "", false, false
					}
					if s.Kind == "extract" && s.Name == "ok" || strings.HasPrefix(s.String(), "?next") {
						return "", false, true
					}
					if s.Kind == "extract" && s.Name == "1" && s.Args[0].Strip().Kind == "lookup" {
						lk := s.Args[0].Strip()
						switch {
						case lk.Args[0].Strip().IsField("seatManager", "SeatData") && isVal(lk.Args[1]):
							return "seat-known", g.Val, true
						case symType(lk.Args[0]) == "map[string]bool" && isKey(lk.Args[1]):
							idMap = lk.V.(*ssa.Lookup).X
							return "player-twice", g.Val, true
						case symType(lk.Args[0]) == "map[int]bool" && isVal(lk.Args[1]):
							seatMapV = lk.V.(*ssa.Lookup).X
							return "seat-twice", g.Val, true
						}
					}
					if s.Kind == "extract" && s.Name == "0" && s.Args[0].Strip().Kind == "next" {
						return "", false, true
					}
					return "", false, false
				}
				d := "cannot enumerate the paths of the batch validation loop"
				if ok {
					// first pass to discover the maps
					for _, bp := range body {
						for _, g := range bp.Guards {
							atom(g)
						}
					}
					taken := func(a map[string]bool) bool {
						return !a["player-twice"] && !a["seat-twice"] && a["seat-known"] && a["seat-occupied"] && a["by-someone-else"]
					}
					d = tableCheck(body, atom, []string{"player-twice", "seat-twice", "seat-known", "seat-occupied", "by-someone-else"},
						func(a map[string]bool) bool {
							return (a["seat-occupied"] && !a["seat-known"]) || (a["by-someone-else"] && !a["seat-occupied"])
						},
						map[string]func(bodyPath) bool{
							"reject with duplicate-players":     exitEvent("ErrDuplicatePlayers"),
							"reject with duplicate-seats":       exitEvent("ErrDuplicateSeats"),
							"reject with seat-taken":            exitEvent("ErrSeatAlreadyIsTaken"),
							"remember the player for the batch": func(bp bodyPath) bool { return idMap != nil && records(bp, idMap, isKey) },
							"remember the seat for the batch":   func(bp bodyPath) bool { return seatMapV != nil && records(bp, seatMapV, isVal) },
						},
						map[string]func(map[string]bool) bool{
							"reject with duplicate-players":     func(a map[string]bool) bool { return a["player-twice"] },
							"reject with duplicate-seats":       func(a map[string]bool) bool { return !a["player-twice"] && a["seat-twice"] },
							"reject with seat-taken":            taken,
							"remember the player for the batch": func(a map[string]bool) bool { return !a["player-twice"] },
							"remember the seat for the batch": func(a map[string]bool) bool {
								return !a["player-twice"] && !a["seat-twice"] && !taken(a)
							},
						})
				}
				c.Check(d == "", rule, "AssignSeats:batch-validation", p.Pos(f.Pos()), fmt.Sprintf("rejects exactly duplicate player / duplicate seat / seat held by another; remembers accepted entries; %d paths", len(body)), "fixed-seat batch validation: "+d)
			} else {
				atom := func(g Guard) (string, bool, bool) {
					s := g.Cond.Strip()
					if cm := g.AsCmp(); cm != nil {
						l, r := cm.L.Strip(), cm.R.Strip()
						if r.IsNil() && l.Kind == "rangeval" && l.Args[0].Strip().IsField("seatManager", "SeatData") && (cm.Op == token.NEQ || cm.Op == token.EQL) {
							return "occupied", cm.Op == token.NEQ, true
						}
						return "", false, false
					}
					if s.IsCall("funk.Contains") && len(s.Args) == 2 {
						id := s.Args[1].Strip()
						if idMap != nil && s.Call.Common().Args[0] != nil && sameMapArg(p, s.Call.Common().Args[0], idMap) && id.IsField("SeatPlayer", "ID") && id.Args[0].Strip().Kind == "rangeval" {
							return "in-batch", g.Val, true
						}
						return "", false, false
					}
					if s.Kind == "extract" && s.Args[0].Strip().Kind == "next" {
						return "", false, true
					}
					if strings.HasPrefix(s.String(), "?next") {
						return "", false, true
					}
					return "", false, false
				}
				d := "cannot enumerate the paths of the already-seated check"
				if ok {
					d = tableCheck(body, atom, []string{"occupied", "in-batch"},
						func(a map[string]bool) bool { return a["in-batch"] && !a["occupied"] },
						map[string]func(bodyPath) bool{"reject with duplicate-players": exitEvent("ErrDuplicatePlayers")},
						map[string]func(map[string]bool) bool{"reject with duplicate-players": func(a map[string]bool) bool { return a["occupied"] && a["in-batch"] }})
				}
				c.Check(d == "", rule, "AssignSeats:already-seated", p.Pos(f.Pos()), "rejects exactly when a seated player is in the batch", "already-seated check: "+d)
			}
		}
		c.Min(rule, "validation loops in AssignSeats", nLoops, 2)
		// capacity test and the assignment itself
		for _, b := range f.Blocks {
			for _, in := range b.Instrs {
				mu, isMU := in.(*ssa.MapUpdate)
				if !isMU || !p.Sym(mu.Map).Strip().IsField("seatManager", "SeatData") {
					continue
				}
				capOK := cmpHolds(p.Guards(mu), func(l, r *Sym, op token.Token) bool {
					return op == token.GEQ && l.Strip().IsCall("len") && l.Strip().Args[0].IsCall("seatManager.getEmptySeatIDs") && r.Strip().IsCall("len") && symIsParam(r.Strip().Args[0], batch)
				})
				c.Check(capOK, rule, "AssignSeats:capacity", p.InstrPos(mu), "assignment only when empty seats ≥ batch size", "seats are assigned without the batch being known to fit into the empty seats")
				k, v := p.Sym(mu.Key).Strip(), p.Sym(mu.Value).Strip()
				whole := isVal(k) && v.Contains(func(x *Sym) bool {
					return x.IsCall("seatManager.newSeatPlayer") && len(x.Args) >= 2 && isKey(x.Args[1])
				})
				c.Check(whole, rule, "AssignSeats:assigns-batch", p.InstrPos(mu), "seat v ← new seat player(k) for every (k, v) of the batch", "the assignment does not give every player of the batch the seat requested for that player")
			}
		}
	} else {
		c.Bad(rule, "AssignSeats:batch-validation", "-", "fixed-seat assigner not found")
	}

	// ---------------- RandomAssignSeats
	if f := p.Method(smT, "RandomAssignSeats"); f != nil && len(f.Params) == 2 {
		batch := f.Params[1]
		isID := func(s *Sym) bool {
			s = s.Strip()
			return s.Kind == "index" && symIsParam(s.Args[0], batch) && fullRange(s.Args[1], func(x *Sym) bool { return symIsParam(x, batch) })
		}
		var bm ssa.Value
		n := 0
		for _, h := range loopHeaders(f) {
			if !hasReturn(h) {
				continue
			}
			n++
			body, ok := bodyOf(h)
			atom := func(g Guard) (string, bool, bool) {
				s := g.Cond.Strip()
				if cm := g.AsCmp(); cm != nil {
					if l := cm.L.Strip(); l.Kind == "ind" && l.Ind.Phi != nil && l.Ind.Phi.Block() == h {
						return "", false, true
					}
					return "", false, false
				}
				if s.Kind == "extract" && s.Name == "1" && s.Args[0].Strip().Kind == "lookup" && s.Args[0].Strip().Args[0].IsCall("seatManager.getOccupiedPlayerSeatIDs") && isID(s.Args[0].Strip().Args[1]) {
					return "already-seated", g.Val, true
				}
				if s.Kind == "lookup" && symType(s.Args[0]) == "map[string]bool" && isID(s.Args[1]) {
					bm = s.V.(*ssa.Lookup).X
					return "twice-in-batch", g.Val, true
				}
				return "", false, false
			}
			d := "cannot enumerate the paths of the random-seat batch validation"
			if ok {
				for _, bp := range body {
					for _, g := range bp.Guards {
						atom(g)
					}
				}
				recTrue := func(bp bodyPath) bool {
					if bm == nil {
						return false
					}
					for _, b := range bp.Order {
						for _, in := range b.Instrs {
							if mu, isMU := in.(*ssa.MapUpdate); isMU && sameObj(p, mu.Map, bm) && isID(p.Sym(mu.Key)) {
								if v, isB := p.Sym(mu.Value).ConstBool(); isB && v {
									return true
								}
							}
						}
					}
					return false
				}
				d = tableCheck(body, atom, []string{"already-seated", "twice-in-batch"}, nil,
					map[string]func(bodyPath) bool{
						"reject with duplicate-players":     exitEvent("ErrDuplicatePlayers"),
						"remember the player for the batch": recTrue,
					},
					map[string]func(map[string]bool) bool{
						"reject with duplicate-players":     func(a map[string]bool) bool { return a["already-seated"] || a["twice-in-batch"] },
						"remember the player for the batch": func(a map[string]bool) bool { return !a["already-seated"] && !a["twice-in-batch"] },
					})
			}
			c.Check(d == "", rule, "RandomAssignSeats:batch-validation", p.Pos(f.Pos()), "rejects exactly a seated player or a repeated id; remembers accepted ids", "random-seat batch validation: "+d)
		}
		c.Min(rule, "validation loops in RandomAssignSeats", n, 1)
		for _, b := range f.Blocks {
			for _, in := range b.Instrs {
				mu, isMU := in.(*ssa.MapUpdate)
				if !isMU || !p.Sym(mu.Map).Strip().IsField("seatManager", "SeatData") {
					continue
				}
				k, v := p.Sym(mu.Key).Strip(), p.Sym(mu.Value).Strip()
				// seat = drawn[i], player = batch[i], i over the whole batch; only when the draw succeeded
				okPair := k.Kind == "index" && k.Args[0].Strip().Kind == "extract" && k.Args[0].Strip().Args[0].IsCall("seatManager.randomSeatIDs") &&
					fullRange(k.Args[1], func(x *Sym) bool { return symIsParam(x, batch) }) &&
					v.Contains(func(x *Sym) bool {
						return x.IsCall("seatManager.newSeatPlayer") && len(x.Args) >= 2 && isID(x.Args[1]) && x.Args[1].Strip().Args[1].Strip().String() == k.Args[1].Strip().String()
					})
				c.Check(okPair, rule, "RandomAssignSeats:assigns-batch", p.InstrPos(mu), "drawn seat i ← new seat player(batch i) for every i", "the assignment does not pair every player of the batch with one drawn seat")
				drawOK := false
				if k.Kind == "index" && k.Args[0].Strip().Kind == "extract" {
					if call, isCall := k.Args[0].Strip().Args[0].Strip().V.(*ssa.Call); isCall {
						drawOK = nilGuard(p.Guards(mu), true, func(x *Sym) bool { return isErrOf(x, call) })
						// the draw is for as many seats as the batch has players
						a := p.Sym(call.Call.Args[len(call.Call.Args)-1]).Strip()
						if !(a.IsCall("len") && symIsParam(a.Args[0], batch)) {
							drawOK = false
						}
					}
				}
				c.Check(drawOK, rule, "RandomAssignSeats:draw-succeeded", p.InstrPos(mu), "assignment only after drawing len(batch) seats succeeded", "seats are assigned without a successful draw of as many free seats as the batch has players")
			}
		}
	} else {
		c.Bad(rule, "RandomAssignSeats:batch-validation", "-", "random-seat assigner not found")
	}
}

// sameMapArg: v (possibly wrapped into an interface) is the map value m.
func sameMapArg(p *Prog, v ssa.Value, m ssa.Value) bool {
	for i := 0; i < 4; i++ {
		switch x := v.(type) {
		case *ssa.MakeInterface:
			v = x.X
			continue
		case *ssa.ChangeType:
			v = x.X
			continue
		}
		break
	}
	return sameObj(p, v, m)
}

// sameObj: two SSA values denote the same object (directly, or as loads of one local
// that is assigned once — locals captured by a closure are spilled to a cell).
func sameObj(p *Prog, a, b ssa.Value) bool {
	if a == b {
		return true
	}
	sa, sb := p.Sym(a).Strip(), p.Sym(b).Strip()
	ua, isA := a.(*ssa.UnOp)
	ub, isB := b.(*ssa.UnOp)
	if isA && isB && ua.Op == token.MUL && ub.Op == token.MUL && ua.X == ub.X {
		return sa.String() == sb.String()
	}
	if (sa.Kind == "make" || sa.Kind == "new" || sa.Kind == "alloc") && sa.Kind == sb.Kind {
		return sa.String() == sb.String() && (sa.V == sb.V || isA || isB)
	}
	return false
}

// isErrOf: x is the error result of this very call (also when read back from a spilled local).
func isErrOf(x *Sym, call *ssa.Call) bool {
	x = x.Strip()
	if ev := callErrValue(call); ev != nil && x.V == ev {
		return true
	}
	switch x.Kind {
	case "extract":
		a := x.Args[0].Strip()
		return a.Kind == "call" && a.Call == ssa.CallInstruction(call) && x.V != nil && isErrorType(x.V.Type())
	case "call":
		return x.Call == ssa.CallInstruction(call)
	}
	return false
}

// checkJoinOperation (C03.R7): PlayerJoin, path by path: unknown id → not-found; known but
// without a seat → invalid action; already seated-in → nothing; otherwise the player is
// marked seated-in AND the seat manager is told, and its error is returned.
func checkJoinOperation(c *Ctx, rule string) {
	p := c.P
	var join *ssa.Function
	for _, ss := range p.FieldStores("TablePlayerState", "IsIn") {
		if b, isB := ss.Val.ConstBool(); isB && b && !storeIsLocal(ss.Instr) {
			join = ss.Fn
		}
	}
	if join == nil || len(join.Params) != 2 {
		c.Bad(rule, "join-operation", "-", "join operation not found")
		return
	}
	id := join.Params[1]
	atom := func(g Guard) (string, bool, bool) {
		s := g.Cond.Strip()
		if cm := g.AsCmp(); cm != nil {
			l, r := cm.L.Strip(), cm.R.Strip()
			z, isZ := r.ConstInt()
			if isZ && z == -1 && (cm.Op == token.EQL || cm.Op == token.NEQ) {
				if l.IsCall("Table.FindPlayerIdx") && symIsParam(l.Args[len(l.Args)-1], id) {
					return "known", cm.Op == token.NEQ, true
				}
				if l.IsField("TablePlayerState", "Seat") {
					return "has-seat", cm.Op == token.NEQ, true
				}
			}
			if r.IsNil() && l.IsCall("SeatManager.JoinPlayers") {
				return "", false, true // the seat manager's answer: not an input condition
			}
			return "", false, true // conditions about the ready group etc. do not decide membership
		}
		if s.IsField("TablePlayerState", "IsIn") {
			return "already-in", g.Val, true
		}
		return "", false, true
	}
	isMark := func(in ssa.Instruction) bool {
		ss := p.storeSite(in)
		return ss != nil && ss.Owner == "TablePlayerState" && ss.Field == "IsIn"
	}
	isTell := func(in ssa.Instruction) bool {
		ci, isC := in.(ssa.CallInstruction)
		return isC && calleeName(ci.Common()) == "SeatManager.JoinPlayers"
	}
	d, nExit := "", 0
	wk := &Walker{P: p, Fn: join, IsEvent: func(in ssa.Instruction) bool { return isMark(in) || isTell(in) }, OnExit: func(in ssa.Instruction, st *WState) {
		r, isR := in.(*ssa.Return)
		if !isR || d != "" {
			return
		}
		nExit++
		known := map[string]bool{}
		for _, g := range st.PathGuards(p) {
			nm, v, _ := atom(g)
			if nm != "" {
				known[nm] = v
			}
		}
		marked, told := false, false
		for _, e := range st.Events {
			marked = marked || isMark(e)
			told = told || isTell(e)
		}
		res := p.Sym(retValue(r, 0)).Strip()
		sent := ""
		if res.Kind == "global" {
			sent = res.Name[strings.LastIndex(res.Name, ".")+1:]
		}
		k, kk := known["known"]
		hs, hk := known["has-seat"]
		ai, ak := known["already-in"]
		switch {
		case kk && !k:
			if sent != "ErrTablePlayerNotFound" || marked || told {
				d = "an unknown player id is not refused with the not-found error before anything is changed"
			}
		case !kk:
			d = "the join operation does not test whether the player is at the table"
		case hk && !hs:
			if sent != "ErrTablePlayerInvalidAction" || marked || told {
				d = "a player without a seat is not refused before anything is changed"
			}
		case !hk:
			d = "the join operation does not test whether the player holds a seat"
		case ak && ai:
			if !res.IsNil() || marked || told {
				d = "joining twice is not a no-op"
			}
		case !ak:
			d = "the join operation does not test whether the player is already seated-in"
		default:
			if !marked || !told {
				d = "a seated, not yet seated-in player can leave the join operation without being marked seated-in in both the table and the seat manager (exit at " + p.InstrPos(r) + ")"
			} else if !(res.IsNil() || isJoinErr(res)) {
				d = "the join operation returns " + res.String()
			}
		}
	}}
	wk.Run()
	if wk.Aborted || nExit == 0 {
		d = "cannot enumerate the exits of the join operation"
	}
	c.Check(d == "", rule, "join-operation:decisions", p.Pos(join.Pos()), fmt.Sprintf("%d exit state(s): refuse unknown / unseated; no-op when already in; otherwise mark + tell the seat manager", nExit), "join: "+d)
}

func isJoinErr(s *Sym) bool {
	s = s.Strip()
	return s.IsCall("SeatManager.JoinPlayers") || (s.Kind == "extract" && s.Args[0].IsCall("SeatManager.JoinPlayers"))
}

// checkReserveBranches (C03.R5 part): buy-in (a new seat) exactly when the id is not at the
// table, top-up otherwise; the batch update applies each half whenever its list is non-empty.
func checkReserveBranches(c *Ctx, rule string) {
	p := c.P
	known := func(gs []Guard, want bool) bool {
		return cmpHolds(gs, func(l, r *Sym, op token.Token) bool {
			z, isZ := r.ConstInt()
			wantOp := token.NEQ
			if !want {
				wantOp = token.EQL
			}
			return isZ && z == -1 && op == wantOp && l.Strip().IsCall("Table.FindPlayerIdx")
		})
	}
	n := 0
	for _, f := range p.Funcs {
		if !inPkg(p, f, "") || f.Parent() != nil {
			continue
		}
		var add ssa.CallInstruction
		for _, ci := range Calls(f) {
			if calleeName(ci.Common()) == "tableEngine.batchAddPlayers" {
				add = ci
			}
		}
		if add == nil {
			continue
		}
		var topups []*StoreSite
		for _, ss := range p.Stores([]*ssa.Function{f}) {
			if ss.Owner == "TablePlayerState" && ss.Field == "Bankroll" && !storeIsLocal(ss.Instr) {
				topups = append(topups, ss)
			}
		}
		if len(topups) == 0 {
			continue
		}
		n++
		c.Check(known(p.Guards(add), false), rule, "reserve:buy-in-only-unknown", p.InstrPos(add), "new seat only for an id not at the table", "a reservation adds a new player entry although (or only when) the id is already at the table")
		for _, ss := range topups {
			c.Check(known(p.Guards(ss.Instr), true), rule, "reserve:top-up-only-known", p.InstrPos(ss.Instr), "top-up only for an id at the table", "a reservation tops up a player without that id having been found at the table")
		}
	}
	c.Min(rule, "operations choosing between buy-in and top-up", n, 1)
	// batch update halves
	for _, f := range p.Funcs {
		if !inPkg(p, f, "") || f.Parent() != nil {
			continue
		}
		var add, rem ssa.CallInstruction
		for _, ci := range Calls(f) {
			switch calleeName(ci.Common()) {
			case "tableEngine.batchAddPlayers":
				add = ci
			case "tableEngine.batchRemovePlayers":
				rem = ci
			}
		}
		if add == nil || rem == nil || len(f.Params) != 3 {
			continue
		}
		half := func(ci ssa.CallInstruction, list *ssa.Parameter, what string) {
			ok := true
			for _, g := range p.Guards(ci) {
				cm := g.AsCmp()
				if cm == nil {
					ok = false
					continue
				}
				l, r := cm.L.Strip(), cm.R.Strip()
				z, isZ := r.ConstInt()
				nonEmpty := l.IsCall("len") && symIsParam(l.Args[0], list) && isZ && ((cm.Op == token.GTR && z == 0) || (cm.Op == token.GEQ && z <= 1) || (cm.Op == token.NEQ && z == 0))
				otherErr := r.IsNil() && cm.Op == token.EQL
				loopDone := l.Kind == "ind" // a preceding loop over the list has finished
				if !nonEmpty && !otherErr && !loopDone {
					ok = false
				}
			}
			a := p.Sym(ci.Common().Args[len(ci.Common().Args)-1])
			c.Check(ok && symIsParam(a, list), rule, "batch-update:"+what, p.InstrPos(ci), what+" applied with its own list whenever that list is non-empty", "the "+what+" half of a batch update is skipped for a non-empty list or given another list")
		}
		half(rem, f.Params[2], "leave")
		half(add, f.Params[1], "join")
	}
}
