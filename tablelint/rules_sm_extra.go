package main

import (
	"fmt"
	"go/token"

	"golang.org/x/tools/go/ssa"
)

// checkSeatManagerConstruction (C03.R8 part): a new seat manager has exactly the seats
// 0..MaxSeat-1, all empty, nothing initialised; a newly seated player is not seated-in,
// has chips, is not waiting; the seat count is never written again.
func checkSeatManagerConstruction(c *Ctx, rule string) {
	p := c.P
	var ctor *ssa.Function
	for _, f := range p.Funcs {
		if inSeatManagerPkg(p, f) && f.Signature.Recv() == nil && f.Signature.Results().Len() == 1 && typeShort(f.Signature.Results().At(0).Type()) == "SeatManager" && len(f.Params) == 2 {
			ctor = f
		}
	}
	if ctor == nil {
		c.Bad(rule, "seat-manager-constructor", "-", "constructor not found")
		return
	}
	// every key 0..maxSeats-1 present and nil
	ok, d, n := true, "", 0
	for _, b := range ctor.Blocks {
		for _, in := range b.Instrs {
			mu, isMU := in.(*ssa.MapUpdate)
			if !isMU || typeShort(mu.Map.Type()) != "map[int]*SeatPlayer" {
				continue
			}
			n++
			k := p.Sym(mu.Key).Strip()
			full := k.Kind == "ind" && k.Ind.Step == 1 && !k.Ind.Incl && k.Ind.Op == token.LSS && k.Ind.Bound != nil && symIsParam(k.Ind.Bound, ctor.Params[0])
			if full {
				z, isZ := k.Ind.First.ConstInt()
				full = isZ && z == 0
			}
			if !full {
				ok, d = false, "the seats created are "+k.String()+", not 0 … seat count-1"
			}
			if !p.Sym(mu.Value).IsNil() {
				ok, d = false, "a new seat is created holding "+p.Sym(mu.Value).String()
			}
		}
	}
	if n == 0 {
		ok, d = false, "no seat is created"
	}
	c.Check(ok, rule, "seat-manager-constructor:seats", p.Pos(ctor.Pos()), "seats 0 … count-1, all empty", "new seat manager: "+d)
	want := map[string]func(*Sym) bool{
		"MaxSeat":      func(s *Sym) bool { return symIsParam(s, ctor.Params[0]) },
		"Rule":         func(s *Sym) bool { return symIsParam(s, ctor.Params[1]) },
		"DealerSeatID": func(s *Sym) bool { z, isZ := s.ConstInt(); return isZ && z == -1 },
		"SBSeatID":     func(s *Sym) bool { z, isZ := s.ConstInt(); return isZ && z == -1 },
		"BBSeatID":     func(s *Sym) bool { z, isZ := s.ConstInt(); return isZ && z == -1 },
		"IsInit":       func(s *Sym) bool { b, isB := s.ConstBool(); return isB && !b },
	}
	seen := map[string]bool{}
	for _, ss := range p.Stores([]*ssa.Function{ctor}) {
		if ss.Owner != "seatManager" {
			continue
		}
		if w, has := want[ss.Field]; has {
			seen[ss.Field] = true
			c.Check(w(ss.Val), rule, "seat-manager-constructor:"+ss.Field, p.InstrPos(ss.Instr), "initial "+ss.Field, "a new seat manager starts with "+ss.Field+" = "+ss.Val.String())
		}
	}
	for _, f := range []string{"MaxSeat", "DealerSeatID", "SBSeatID", "BBSeatID"} {
		if !seen[f] {
			c.Bad(rule, "seat-manager-constructor:"+f, p.Pos(ctor.Pos()), "a new seat manager does not set "+f)
		}
	}
	// the seat count is written nowhere else
	for _, ss := range p.FieldStores("seatManager", "MaxSeat") {
		c.Check(ss.Fn == ctor, rule, "seat-count-writer:"+FuncName(ss.Fn), p.InstrPos(ss.Instr), "seat count set at construction only", "the seat count is overwritten with "+ss.Val.String()+" after construction")
	}
	// new seat player
	nSP := 0
	for _, f := range p.Funcs {
		if !inSeatManagerPkg(p, f) || f.Signature.Results().Len() != 1 || typeShort(f.Signature.Results().At(0).Type()) != "SeatPlayer" {
			continue
		}
		nSP++
		flags := map[string]string{}
		for _, ss := range p.Stores([]*ssa.Function{f}) {
			if ss.Owner == "SeatPlayer" {
				flags[ss.Field] = ss.Val.Strip().String()
				if ss.Field == "ID" && !(len(f.Params) == 2 && symIsParam(ss.Val, f.Params[1])) {
					flags["ID"] = "?"
				}
			}
		}
		okF := flags["IsIn"] == "false" && flags["HasChips"] == "true" && (flags["IsBetweenDealerBB"] == "" || flags["IsBetweenDealerBB"] == "false") && flags["ID"] != "?" && flags["ID"] != ""
		c.Check(okF, rule, "new-seat-player", p.Pos(f.Pos()), "ID ← given id, not seated-in, has chips, not waiting", fmt.Sprintf("a newly seated player starts as %v", flags))
	}
	c.Min(rule, "seat-player constructors", nSP, 1)
	// the seated-in flag is set only by the join operation
	for _, ss := range p.FieldStores("SeatPlayer", "IsIn") {
		if storeIsLocal(ss.Instr) {
			continue
		}
		c.Check(fnName(ss.Fn) == "JoinPlayers", rule, "seated-in-writer:"+FuncName(ss.Fn), p.InstrPos(ss.Instr), "written by the join operation", "the seat manager's seated-in flag is written outside the join operation")
	}
}

// checkRotationArcArguments (C05.R6 part): the rotation re-evaluates the waiting flag of a
// seat with arc(<a value it stores as the new dealer seat>, <the value it stores as the new
// big-blind seat>, <that seat's own key>).
func checkRotationArcArguments(c *Ctx, rule string) {
	p := c.P
	smT := p.singleImpl("/seat_manager", "SeatManager")
	if smT == nil {
		return
	}
	rotW := p.Method(smT, "RotatePositions")
	if rotW == nil {
		return
	}
	ri := p.CG().Reach([]*ssa.Function{rotW}, ReachOpts{SyncOnly: true, RepoOnly: true})
	n := 0
	for _, f := range ri.Order {
		dealers, bbs := map[string]bool{}, map[string]bool{}
		for _, ss := range p.Stores([]*ssa.Function{f}) {
			if ss.Owner == "seatManager" && ss.Field == "DealerSeatID" {
				dealers[ss.Val.Strip().String()] = true
			}
			if ss.Owner == "seatManager" && ss.Field == "BBSeatID" {
				bbs[ss.Val.Strip().String()] = true
			}
		}
		for _, ss := range p.Stores([]*ssa.Function{f}) {
			if ss.Owner != "SeatPlayer" || ss.Field != "IsBetweenDealerBB" || storeIsLocal(ss.Instr) {
				continue
			}
			n++
			v := ss.Val.Strip()
			seat := ss.Addr.Strip().Args[0].Strip() // SeatData[seatID], or the value variable of "range SeatData"
			seatKey := ""
			switch seat.Kind {
			case "lookup":
				seatKey = seat.Args[1].Strip().String()
			case "rangeval":
				seatKey = (&Sym{Kind: "rangekey", Args: seat.Args}).String()
			}
			ok := v.Kind == "call" && len(v.Args) == 4 && seatKey != "" &&
				bbs[v.Args[2].Strip().String()] && dealers[v.Args[1].Strip().String()] &&
				v.Args[3].Strip().String() == seatKey && v.Args[3].Strip().Kind == "rangekey"
			c.Check(ok, rule, "rotation-waiting-flag:arguments", p.InstrPos(ss.Instr), "arc(new dealer candidate, new BB, the seat itself)", "the rotation re-evaluates a seat's waiting flag with "+v.String()+": not the arc from the next dealer seat to the next big-blind seat around that very seat")
		}
	}
	c.Min(rule, "waiting-flag re-evaluations (arguments)", n, 2)
}

// checkInitPositionsSpine (C04.R7 part): the initial positioning succeeds only after it has
// set the dealer seat; a seat found by a backwards search is used only when the search
// found one; the heads-up "other seat" search selects exactly an occupied, active seat
// different from the first.
func checkInitPositionsSpine(c *Ctx, rule string, initFn *ssa.Function) {
	p := c.P
	exactly2 := func(gs []Guard) (bool, bool) {
		for _, g := range gs {
			if cm := g.AsCmp(); cm != nil && cm.L.IsCall("seatManager.getActivePlayerCount") {
				if z, isZ := cm.R.ConstInt(); isZ && z == 2 && cm.Op == token.EQL {
					return true, true
				}
			}
		}
		return false, false
	}
	isDealerStore := func(in ssa.Instruction) bool {
		ss := p.storeSite(in)
		return ss != nil && ss.Owner == "seatManager" && ss.Field == "DealerSeatID"
	}
	ok, d, nOk := true, "", 0
	wk := &Walker{P: p, Fn: initFn, IsEvent: isDealerStore, OnExit: func(in ssa.Instruction, st *WState) {
		r, isR := in.(*ssa.Return)
		if !isR {
			return
		}
		if cls, _ := RetClass(st, r); cls != "err" {
			nOk++
			if len(st.Events) == 0 {
				// the heads-up search loop may in principle find nobody; that exit is the loop's, not a skipped branch:
				// accept only if the path went through the search loop
				ok, d = false, "the initial positioning can report success at "+p.InstrPos(r)+" without having set a dealer seat"
			}
		}
	}}
	wk.Run()
	if wk.Aborted {
		ok, d = false, "cannot enumerate the exits of the initial positioning"
	}
	// tolerated: the heads-up loop exit without a match (dealer not set) is reachable in the CFG but not
	// when two active players exist; recognise it: a success exit whose path guards include exactly2
	if !ok {
		ok2 := true
		wk2 := &Walker{P: p, Fn: initFn, IsEvent: isDealerStore, OnExit: func(in ssa.Instruction, st *WState) {
			r, isR := in.(*ssa.Return)
			if !isR {
				return
			}
			if cls, _ := RetClass(st, r); cls != "err" && len(st.Events) == 0 {
				gs := st.PathGuards(p)
				_, isTwo := exactly2(gs)
				viaLoop := false
				for _, g := range gs {
					if s := g.Cond.Strip(); s.Kind == "extract" && s.Args[0].Strip().Kind == "next" || len(s.String()) > 5 && s.String()[:5] == "?next" {
						viaLoop = true
					}
				}
				if !(isTwo && viaLoop) {
					ok2 = false
				}
			}
		}}
		wk2.Run()
		if ok2 && !wk2.Aborted {
			ok, d = true, ""
		}
	}
	c.Check(ok && nOk >= 1, rule, "init:success-sets-dealer", p.Pos(initFn.Pos()), fmt.Sprintf("%d success exit state(s), each after a dealer-seat store", nOk), d)

	// found-guards
	for _, ss := range p.Stores([]*ssa.Function{initFn}) {
		if ss.Owner != "seatManager" || (ss.Field != "SBSeatID" && ss.Field != "DealerSeatID") {
			continue
		}
		v := ss.Val.Strip()
		if v.Kind != "call" || !v.Contains(func(x *Sym) bool { return x.Kind == "call" }) {
			continue
		}
		if sc := v.Call.Common().StaticCallee(); sc == nil || !inSeatManagerPkg(p, sc) || typeShort(sc.Signature.Results().At(0).Type()) != "int" {
			continue
		}
		found := cmpHolds(p.Guards(ss.Instr), func(l, r *Sym, op token.Token) bool {
			z, isZ := r.ConstInt()
			return isZ && z == -1 && op == token.NEQ && l.Strip().String() == v.String()
		})
		c.Check(found, rule, "init:"+ss.Field+":found", p.InstrPos(ss.Instr), "stored only when the search found a seat", "the initial "+ss.Field+" is stored from a backwards search without the search having found a seat (the unset value would be stored)")
	}

	// heads-up "the other seat" loop
	for _, sc := range p.seatScans(initFn) {
		var first *Sym
		base := seatScanAtoms(initFn)
		atom := func(g Guard) (string, bool, bool) {
			if cm := g.AsCmp(); cm != nil && (cm.Op == token.EQL || cm.Op == token.NEQ) {
				l, r := cm.L.Strip(), cm.R.Strip()
				for k := 0; k < 2; k++ {
					if isSeatKey(l) && !r.IsNil() && r.Kind != "param" {
						first = r
						return "other-seat", cm.Op == token.NEQ, true
					}
					l, r = r, l
				}
			}
			return base(g)
		}
		d := "cannot enumerate the heads-up search"
		if sc.OK {
			d = tableCheck(sc.Body, atom, []string{"occupied", "active", "other-seat"},
				func(a map[string]bool) bool { return a["active"] && !a["occupied"] },
				map[string]func(bodyPath) bool{"take the seat as dealer and small blind": func(bp bodyPath) bool { return bp.Exit }},
				map[string]func(map[string]bool) bool{"take the seat as dealer and small blind": func(a map[string]bool) bool {
					return a["occupied"] && a["active"] && a["other-seat"]
				}})
		}
		_ = first
		c.Check(d == "", rule, "init:heads-up-other-seat", p.Pos(initFn.Pos()), "the occupied, active seat that is not the big blind", "heads-up initial dealer: "+d)
	}
}

// checkPreviousOccupied (C04.R5 part): the backwards search with an "eligible only" switch.
func checkPreviousOccupied(c *Ctx, rule string) {
	p := c.P
	smT := p.singleImpl("/seat_manager", "SeatManager")
	if smT == nil {
		return
	}
	for _, f := range p.Methods(smT) {
		if len(f.Params) != 3 || typeShort(f.Params[2].Type()) != "bool" || f.Signature.Results().Len() != 1 || typeShort(f.Signature.Results().At(0).Type()) != "int" {
			continue
		}
		sw := f.Params[2]
		for _, h := range loopHeaders(f) {
			paths, ok := p.loopBodyPaths(h)
			var body []bodyPath
			for _, bp := range paths {
				if len(bp.Order) > 1 {
					body = append(body, bp)
				}
			}
			atom := func(g Guard) (string, bool, bool) {
				s := g.Cond.Strip()
				if cm := g.AsCmp(); cm != nil {
					l, r := cm.L.Strip(), cm.R.Strip()
					if l.Kind == "ind" && l.Ind.Phi != nil && l.Ind.Phi.Block() == h {
						return "", false, true
					}
					if r.IsNil() && l.Kind == "extract" && l.Name == "0" && l.Args[0].Strip().Kind == "lookup" && (cm.Op == token.NEQ || cm.Op == token.EQL) {
						return "occupied", cm.Op == token.NEQ, true
					}
					return "", false, false
				}
				switch {
				case symIsParam(s, sw):
					return "eligible-only", g.Val, true
				case s.Kind == "extract" && s.Name == "1" && s.Args[0].Strip().Kind == "lookup":
					return "seat-exists", g.Val, true
				case s.IsCall("SeatPlayer.Active"):
					return "active", g.Val, true
				}
				return "", false, false
			}
			d := "cannot enumerate the backwards search"
			if ok && len(body) > 0 {
				d = tableCheck(body, atom, []string{"seat-exists", "occupied", "active", "eligible-only"},
					func(a map[string]bool) bool {
						return (a["occupied"] && !a["seat-exists"]) || (a["active"] && !a["occupied"])
					},
					map[string]func(bodyPath) bool{"return the seat": func(bp bodyPath) bool { return bp.Exit }},
					map[string]func(map[string]bool) bool{"return the seat": func(a map[string]bool) bool {
						return a["seat-exists"] && a["occupied"] && (!a["eligible-only"] || a["active"])
					}})
			}
			c.Check(d == "", rule, "helper-definition:"+fnName(f), p.Pos(f.Pos()), "first occupied seat backwards; with the switch on, first eligible one", "backwards seat search: "+d)
		}
	}
}

// checkRandomSeatDraw (C03.R2 part): the draw hands out a prefix of the empty seats only
// when there are at least as many as asked for.
func checkRandomSeatDraw(c *Ctx, rule string) {
	p := c.P
	smT := p.singleImpl("/seat_manager", "SeatManager")
	if smT == nil {
		return
	}
	f := p.Method(smT, "randomSeatIDs")
	if f == nil || len(f.Params) != 2 {
		c.Bad(rule, "random-draw", "-", "random seat draw not found")
		return
	}
	n := 0
	for _, b := range f.Blocks {
		for _, in := range b.Instrs {
			sl, isSl := in.(*ssa.Slice)
			if !isSl || sl.High == nil || !symIsParam(p.Sym(sl.High), f.Params[1]) {
				continue
			}
			n++
			src := p.Sym(sl.X).Strip()
			ok := src.IsCall("seatManager.getEmptySeatIDs") && (sl.Low == nil) && cmpHolds(p.Guards(sl), func(l, r *Sym, op token.Token) bool {
				return op == token.GEQ && l.Strip().IsCall("len") && l.Strip().Args[0].IsCall("seatManager.getEmptySeatIDs") && symIsParam(r, f.Params[1])
			})
			c.Check(ok, rule, "random-draw:from-empty-seats", p.InstrPos(sl), "first `count` of the (shuffled) empty seats, when enough exist", "the random draw does not hand out `count` distinct empty seats guarded by empty seats ≥ count")
		}
	}
	c.Min(rule, "random seat draws", n, 1)
}
