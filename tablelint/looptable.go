package main

import (
	"fmt"
	"go/token"
	"sort"

	"golang.org/x/tools/go/ssa"
)

// bodyPath is one acyclic path through a loop body: from the header back to the header
// (Exit=false) or out of the loop (Exit=true), with the branch decisions taken on the way.
type bodyPath struct {
	Guards []Guard
	Blocks map[*ssa.BasicBlock]bool
	Order  []*ssa.BasicBlock
	Exit   bool
	ExitTo *ssa.BasicBlock // first block outside the loop (nil when the path ends inside, e.g. a return in the body)
}

// naturalLoop returns the blocks of the natural loop(s) with the given header.
func naturalLoop(header *ssa.BasicBlock) map[*ssa.BasicBlock]bool {
	in := map[*ssa.BasicBlock]bool{header: true}
	var stack []*ssa.BasicBlock
	for _, pr := range header.Preds {
		if header.Dominates(pr) && !in[pr] {
			in[pr] = true
			stack = append(stack, pr)
		}
	}
	for len(stack) > 0 {
		b := stack[len(stack)-1]
		stack = stack[:len(stack)-1]
		for _, pr := range b.Preds {
			if !in[pr] {
				in[pr] = true
				stack = append(stack, pr)
			}
		}
	}
	return in
}

// loopBodyPaths enumerates the paths through one iteration of the loop headed by header.
// ok=false when the body contains an inner loop or more than 4096 paths.
func (p *Prog) loopBodyPaths(header *ssa.BasicBlock) ([]bodyPath, bool) {
	loop := naturalLoop(header)
	if len(loop) < 2 {
		return nil, false
	}
	var out []bodyPath
	ok := true
	var dfs func(b *ssa.BasicBlock, gs []Guard, order []*ssa.BasicBlock, on map[*ssa.BasicBlock]bool)
	dfs = func(b *ssa.BasicBlock, gs []Guard, order []*ssa.BasicBlock, on map[*ssa.BasicBlock]bool) {
		if !ok {
			return
		}
		if len(out) > 4096 {
			ok = false
			return
		}
		on[b] = true
		order = append(order, b)
		defer delete(on, b)
		finish := func(exit bool, g2 []Guard, to *ssa.BasicBlock) {
			bl := map[*ssa.BasicBlock]bool{}
			for _, x := range order {
				bl[x] = true
			}
			out = append(out, bodyPath{Guards: append([]Guard(nil), g2...), Blocks: bl, Order: append([]*ssa.BasicBlock(nil), order...), Exit: exit, ExitTo: to})
		}
		next := func(s *ssa.BasicBlock, g2 []Guard) {
			switch {
			case s == header:
				finish(false, g2, nil)
			case !loop[s]:
				finish(true, g2, s)
			case on[s]:
				ok = false // inner loop
			default:
				dfs(s, g2, order, on)
			}
		}
		if len(b.Succs) == 0 {
			finish(true, gs, nil) // return / panic inside the loop
			return
		}
		if iff, isIf := b.Instrs[len(b.Instrs)-1].(*ssa.If); isIf && len(b.Succs) == 2 && b.Succs[0] != b.Succs[1] {
			// a condition that is a phi of this path (a := x || y; if a && z …) is replaced
			// by the value it has on this path
			cond := resolvePhiOnPath(iff.Cond, order)
			for k := 0; k < 2; k++ {
				if cst, isC := cond.(*ssa.Const); isC {
					if v, isB := constBool(cst); isB && v != (k == 0) {
						continue // branch not taken on this path
					}
				}
				g2 := append([]Guard(nil), gs...)
				if _, isC := cond.(*ssa.Const); !isC {
					g2 = append(g2, p.unfold(cond, k == 0, iff, 0)...)
				}
				next(b.Succs[k], g2)
			}
			return
		}
		next(b.Succs[0], gs)
	}
	dfs(header, nil, nil, map[*ssa.BasicBlock]bool{})
	return out, ok
}

// atomFn2 classifies a guard: name "" = irrelevant; ok=false = unrecognised.
type atomFn2 func(g Guard) (name string, val bool, ok bool)

// tableCheck compares, for every feasible path and every completion of the atoms the path
// did not test, what happened on the path (events) with what should happen (expect).
func tableCheck(paths []bodyPath, atom atomFn2, names []string, impossible func(a map[string]bool) bool,
	events map[string]func(bp bodyPath) bool, expect map[string]func(a map[string]bool) bool) string {
	var evNames []string
	for e := range events {
		evNames = append(evNames, e)
	}
	sort.Strings(evNames)
	nFeasible := 0
	for _, bp := range paths {
		known := map[string]bool{}
		feasible := true
		for _, g := range bp.Guards {
			nm, v, ok := atom(g)
			if !ok {
				return "unrecognised condition " + g.String()
			}
			if nm == "" {
				continue
			}
			if old, had := known[nm]; had && old != v {
				feasible = false
			}
			known[nm] = v
		}
		if !feasible {
			continue
		}
		var unknown []string
		for _, nm := range names {
			if _, k := known[nm]; !k {
				unknown = append(unknown, nm)
			}
		}
		any := false
		for mask := 0; mask < 1<<len(unknown); mask++ {
			a := map[string]bool{}
			for k, v := range known {
				a[k] = v
			}
			for i, nm := range unknown {
				a[nm] = mask&(1<<i) != 0
			}
			if impossible != nil && impossible(a) {
				continue
			}
			any = true
			for _, e := range evNames {
				got, want := events[e](bp), expect[e](a)
				if got != want {
					return fmt.Sprintf("with %s the loop body %s %s", fmtAssign(a, names), map[bool]string{true: "does", false: "does not"}[got], e)
				}
			}
		}
		if any {
			nFeasible++
		}
	}
	if nFeasible == 0 {
		return "no feasible path through the loop body"
	}
	return ""
}

func fmtAssign(a map[string]bool, names []string) string {
	s := ""
	for _, n := range names {
		if s != "" {
			s += ", "
		}
		if a[n] {
			s += n
		} else {
			s += "¬" + n
		}
	}
	return s
}

// sliceLiteralValues: the values stored into the backing array of a slice literal
// (possibly wrapped into an interface), in index order where known.
func sliceLiteralValues(v ssa.Value) []ssa.Value {
	for {
		switch x := v.(type) {
		case *ssa.MakeInterface:
			v = x.X
			continue
		case *ssa.ChangeType:
			v = x.X
			continue
		}
		break
	}
	sl, ok := v.(*ssa.Slice)
	if !ok {
		return nil
	}
	al, ok := sl.X.(*ssa.Alloc)
	if !ok || al.Referrers() == nil {
		return nil
	}
	var out []ssa.Value
	for _, r := range *al.Referrers() {
		ia, isIA := r.(*ssa.IndexAddr)
		if !isIA || ia.Referrers() == nil {
			continue
		}
		for _, r2 := range *ia.Referrers() {
			if st, isSt := r2.(*ssa.Store); isSt {
				out = append(out, st.Val)
			}
		}
	}
	return out
}

// resolvePhiOnPath: the value a phi (of a block on the path) takes along this path.
func resolvePhiOnPath(v ssa.Value, order []*ssa.BasicBlock) ssa.Value {
	for i := 0; i < 8; i++ {
		ph, ok := v.(*ssa.Phi)
		if !ok {
			return v
		}
		idx := -1
		for j := len(order) - 1; j >= 0; j-- {
			if order[j] == ph.Block() {
				idx = j
				break
			}
		}
		if idx <= 0 {
			return v
		}
		prev := order[idx-1]
		found := false
		for k, pr := range ph.Block().Preds {
			if pr == prev {
				v = ph.Edges[k]
				found = true
				break
			}
		}
		if !found {
			return v
		}
	}
	return v
}

// sliceValues: sliceLiteralValues, also through a package-level slice variable that is given a literal once,
// in the package initialiser, and never written (as a whole or by element) anywhere else.
func (p *Prog) sliceValues(v ssa.Value) []ssa.Value {
	for {
		switch x := v.(type) {
		case *ssa.MakeInterface:
			v = x.X
			continue
		case *ssa.ChangeType:
			v = x.X
			continue
		}
		break
	}
	ld, ok := v.(*ssa.UnOp)
	if !ok || ld.Op != token.MUL {
		return sliceLiteralValues(v)
	}
	g, ok := ld.X.(*ssa.Global)
	if !ok {
		return nil
	}
	var whole []*ssa.Store
	for _, f := range p.Funcs {
		for _, b := range f.Blocks {
			for _, in := range b.Instrs {
				switch x := in.(type) {
				case *ssa.Store:
					if x.Addr == ssa.Value(g) {
						whole = append(whole, x)
					} else if x.Val == ssa.Value(g) {
						return nil // address kept somewhere
					}
				case *ssa.IndexAddr:
					if l2, isL := x.X.(*ssa.UnOp); isL && l2.Op == token.MUL && l2.X == ssa.Value(g) && x.Referrers() != nil {
						for _, r := range *x.Referrers() {
							if st, isSt := r.(*ssa.Store); isSt && st.Addr == ssa.Value(x) {
								return nil // an element is overwritten
							}
						}
					}
				case ssa.CallInstruction:
					for _, a := range x.Common().Args {
						if a == ssa.Value(g) {
							return nil // address handed on
						}
					}
				}
			}
		}
	}
	if len(whole) != 1 || whole[0].Parent().Name() != "init" || whole[0].Parent().Synthetic == "" {
		return nil
	}
	return sliceLiteralValues(whole[0].Val)
}
