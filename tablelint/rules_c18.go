package main

// C18 — bots only ever make legal moves.

import (
	"fmt"
	"go/token"
	"go/types"
	"os"
	"sort"
	"strings"

	"golang.org/x/tools/go/ssa"
)

func init() {
	register(&PropMeta{
		ID:          "C18",
		Level:       "other",
		Explanation: "Decides the structural clauses of bot legality: (R1) every action the bot submits is guarded by the hand allowing exactly that action (HasAction) or is the arm of the switch on the chosen action string whose label equals the method; the only fall-through is fold, as the complement of the other five wager actions; (R2) the switch tag derives only from elements of the player's own allowed-action list (no string constant or other source can reach the chooser's results); (R3) on every path of the move request and of the chooser exactly one action is submitted or handed to exactly one timer / the chooser, and none only when no action is allowed; (R4) bet and raise amounts are the whole stack under 'stack ≤ minimum' or rand.Int63n(stack − minimum) + minimum with minimum = mini-bet (bet) / current wager + previous raise size (raise), the draw's argument being positive by the dominating comparison; pay amounts are the posted ante / blind of the position; (R5) the Actions methods forward the stored id to the same-named adapter method and the engine adapter to the same-named engine method with arguments in order; (R6) the move request is dominated by status playing, own hand index found, player non-nil, non-empty allowed actions and the staleness filter. (R7) the bot's time bank is assigned only by the constructor and no time-bank operation lies on a path into the stale exit of the view handler, so a planned (humanized) move is neither orphaned nor cancelled by a view that is then discarded. NOT decided: legality of the amount under pokerface's raise/all-in conversion rules; that bot tables terminate.",
		Rules: map[string]string{
			"R1": "guard ↔ action agreement for every submitted action",
			"R2": "provenance of the chosen action: only elements of the allowed-action list",
			"R3": "exactly one action (or hand-off) per path; none only when nothing is allowed; no known-nil error returned",
			"R4": "bet/raise amount clamp shape and positivity of the random draw; pay amounts",
			"R5": "own id: Actions → adapter → engine forwarding, same name, arguments in order; the adapter is the actor's current one, looked up for every move",
			"R6": "silence guards before the move request; a view with the same time stamp counts as stale; the time of every non-stale view is remembered before acting",
			"R9": "the actor hands every view to its runner with its own mutex held exclusively: the runner's freshness test and update (check-then-set, no lock of its own) are atomic only because of that — without it one request is answered twice / two timers are armed",
			"R8": "receiver discipline: no method of these types assigns to a field of a value receiver (the assignment would be lost) or copies a sync.* field through its receiver (bot runner, actor, actions, engine adapter: the remembered view time, the attached actor and adapter, the setters)",
			"R7": "timer discipline: the runner's time bank is created once, by the constructor; a view discarded by the staleness filter performs no time-bank operation (the pending move survives a re-published, unchanged hand state)",
		},
		Assumptions: []string{"pokerface accepts any amount between the stated minimum and the stack for bet/raise"},
		Run:         checkC18,
		Controls:    controlsC18,
	})
}

func checkC18(c *Ctx) {
	p := c.P
	checkReceiverDiscipline(c, "R8", p.implementersIn("/actor", "Runner", "Actor", "Actions", "Adapter"), 30)
	checkActorSerialisesRunner(c, "R9")
	checkTableLookups(c, "R6", "GamePlayerIndex")
	checkNoKnownNilErrorReturn(c, "R3", func(f *ssa.Function) bool { return inPkg(p, f, "/actor") }, 5)
	ri := p.Iface("/actor", "Runner")
	if ri == nil {
		c.Bad("R1", "anchors", "-", "Runner interface not found")
		return
	}
	// the bot runner: the Runner implementation that draws random numbers
	var bot *types.Named
	for _, t := range p.Implementers(ri) {
		for _, f := range p.Methods(t) {
			for _, ci := range Calls(f) {
				if strings.HasPrefix(calleeName(ci.Common()), "rand.") {
					bot = t
				}
			}
		}
	}
	if bot == nil {
		c.Bad("R1", "bot-runner", "-", "no runner drawing random numbers found")
		return
	}
	entry := p.Method(bot, "UpdateTableState")
	var fns []*ssa.Function
	for _, f := range p.Methods(bot) {
		fns = append(fns, f)
		fns = append(fns, f.AnonFuncs...)
	}
	isAction := func(in ssa.Instruction) (string, bool) {
		ci, ok := in.(ssa.CallInstruction)
		if !ok {
			return "", false
		}
		cm := ci.Common()
		if cm.IsInvoke() {
			if it := namedOf(cm.Value.Type()); it != nil && it.Obj().Name() == "Actions" {
				return cm.Method.Name(), true
			}
		}
		return "", false
	}
	// locate the chooser (switch on an action string) and the move request
	var chooser, mover *ssa.Function
	for _, f := range fns {
		names := map[string]bool{}
		for _, b := range f.Blocks {
			for _, in := range b.Instrs {
				if m, ok := isAction(in); ok {
					names[m] = true
				}
			}
		}
		if names["Bet"] && names["Raise"] {
			chooser = f
		}
		if names["Ready"] && names["Pay"] {
			mover = f
		}
	}
	if chooser == nil || mover == nil {
		c.Bad("R1", "bot-functions", "-", "the bot's chooser / move request were not found")
		return
	}
	// ---------------- R1 / R4
	wager := []string{"bet", "raise", "call", "check", "allin"}
	var tag *Sym
	nAct := 0
	for _, f := range []*ssa.Function{mover, chooser} {
		for _, b := range f.Blocks {
			for _, in := range b.Instrs {
				m, ok := isAction(in)
				if !ok {
					continue
				}
				nAct++
				ci := in.(ssa.CallInstruction)
				gs := p.Guards(in)
				where := p.InstrPos(in)
				key := fnName(f) + ":" + m
				lower := actionLabel[m]
				if f == mover {
					okG := hasActionGuard(gs, true, nil, lower)
					c.Check(okG, "R1", key, where, "guarded by HasAction("+lower+")", "the bot submits "+lower+" without the hand allowing it")
					if m == "Pay" {
						checkPayAmount(c, "R4", key, ci)
					}
					continue
				}
				// chooser: arm of the switch
				eq := func(val bool, label string) bool {
					return cmpHolds(gs, func(l, r *Sym, op token.Token) bool {
						s, isS := r.ConstString()
						want := token.EQL
						if !val {
							want = token.NEQ
						}
						if isS && s == label && op == want {
							if tag == nil {
								tag = l.Strip()
							}
							return l.Strip().String() == tag.String()
						}
						return false
					})
				}
				if m == "Fold" {
					all := true
					for _, w := range wager {
						if !eq(false, w) {
							all = false
						}
					}
					c.Check(all, "R1", key, where, "fold is the complement of the five other wager actions", "the bot folds without having excluded bet, raise, call, check and all-in as the chosen action")
				} else {
					c.Check(eq(true, lower), "R1", key, where, "arm of the switch for "+lower, "the bot submits "+lower+" in a branch not selected by the chosen action \""+lower+"\"")
				}
				if m == "Bet" || m == "Raise" {
					checkBotAmount(c, key, ci, m)
				}
			}
		}
	}
	c.Min("R1", "actions submitted by the bot", nAct, 14)

	// ---------------- R2 provenance of the tag
	if tag == nil {
		c.Bad("R2", "chosen-action", p.Pos(chooser.Pos()), "no switch on a chosen action found")
	} else {
		ok, d := true, ""
		var check func(s *Sym, depth int)
		isAllowed := func(s *Sym) bool {
			s = s.Strip()
			return s.Kind == "field" && s.Name == "AllowedActions"
		}
		check = func(s *Sym, depth int) {
			s = s.Strip()
			if depth > 6 {
				ok, d = false, "provenance too deep"
				return
			}
			switch s.Kind {
			case "phi":
				for _, a := range s.Args {
					check(a, depth+1)
				}
			case "index":
				if !isAllowed(s.Args[0]) {
					ok, d = false, "the chosen action is taken from "+s.Args[0].String()
				}
			case "call":
				sc := s.Call.Common().StaticCallee()
				if sc == nil || !p.IsRepoFunc(sc) {
					ok, d = false, "the chosen action is produced by "+s.Name
					return
				}
				// argument must be the allowed-action list
				if len(s.Args) < 2 || !isAllowed(s.Args[1]) {
					ok, d = false, "the chooser is not given the player's allowed actions"
					return
				}
				if dd := stringResultsFromParam(p, sc, 1, 0); dd != "" {
					ok, d = false, dd
				}
			default:
				ok, d = false, "the chosen action derives from "+s.String()
			}
		}
		check(tag, 0)
		c.Check(ok, "R2", "chosen-action-provenance", p.Pos(chooser.Pos()), "tag ∈ player's allowed actions", "the bot can choose an action that is not in its allowed-action list: "+d)
	}

	// ---------------- R3 one action per path
	for _, f := range []*ssa.Function{mover, chooser} {
		minN, maxN := 99, 0
		zeroOK := true
		wk := &Walker{P: p, Fn: f, IsEvent: func(in ssa.Instruction) bool {
			if _, ok := isAction(in); ok {
				return true
			}
			if ci, ok := in.(ssa.CallInstruction); ok {
				if ci.Common().StaticCallee() == chooser && f == mover {
					return true
				}
				if calleeName(ci.Common()) == "timebank.TimeBank.NewTask" {
					return true
				}
			}
			return false
		}, OnExit: func(in ssa.Instruction, st *WState) {
			n := len(st.Events)
			if n < minN {
				minN = n
			}
			if n > maxN {
				maxN = n
			}
			if n == 0 {
				// tolerated only when the path established that nothing is allowed
				none := false
				for _, g := range st.PathGuards(p) {
					if cm := g.AsCmp(); cm != nil && cm.Op == token.EQL && cm.L.IsCall("len") && cm.R.Strip().Name == "0" {
						none = true
					}
				}
				if !none {
					zeroOK = false
				}
			}
		}}
		wk.Run()
		c.Check(!wk.Aborted && maxN == 1 && zeroOK, "R3", "one-action-per-path:"+fnName(f), p.Pos(f.Pos()), "exactly one action / hand-off per path", fmt.Sprintf("%s submits %d..%d actions on a path (silent path allowed only when no action is allowed: %v)", fnName(f), minN, maxN, zeroOK))
	}
	// the timer closure hands off to the chooser exactly once, unless cancelled
	for _, cl := range mover.AnonFuncs {
		n := 0
		for _, ci := range Calls(cl) {
			if ci.Common().StaticCallee() == chooser {
				n++
				c.Check(guardedBy(p.Guards(ci), false, func(s *Sym) bool { return s.Kind == "param" }), "R3", "timer-handoff:not-cancelled", p.InstrPos(ci), "chooser runs on the not-cancelled edge", "the delayed move is made even when the task was cancelled")
			}
		}
		c.Check(n == 1, "R3", "timer-handoff", p.Pos(cl.Pos()), "one hand-off to the chooser", fmt.Sprintf("%d hand-offs in the timer callback", n))
	}

	// ---------------- R5 forwarding
	checkActionForwarding(c, "R5")

	// ---------------- R7 timer discipline (shared with C19.R5)
	checkRunnerTimer(c, "R7", bot, entry)

	// ---------------- R6 silence guards
	if entry != nil {
		for _, ci := range Calls(entry) {
			if ci.Common().StaticCallee() != mover {
				continue
			}
			gs := p.Guards(ci)
			where := p.InstrPos(ci)
			playing := cmpHolds(gs, func(l, r *Sym, op token.Token) bool {
				s, _ := r.ConstString()
				return op == token.EQL && l.Strip().IsField("TableState", "Status") && s == "table_game_playing"
			})
			c.Check(playing, "R6", "silence:status-playing", where, "only while a hand is being played", "the bot can act when the table is not playing")
			found := cmpHolds(gs, func(l, r *Sym, op token.Token) bool {
				return op == token.NEQ && r.Strip().Name == "-1" && l.IsCall("Table.GamePlayerIndex")
			})
			c.Check(found, "R6", "silence:own-index-found", where, "only when dealt in", "the bot can act although it is not in the hand")
			nonNil := nilGuard(gs, false, func(s *Sym) bool { return s.IsCall("pokerface.GameState.GetPlayer") })
			c.Check(nonNil, "R6", "silence:player-non-nil", where, "player looked up", "the bot can act on a nil player")
			nonEmpty := cmpHolds(gs, func(l, r *Sym, op token.Token) bool {
				return op == token.GTR && l.IsCall("len") && r.Strip().Name == "0"
			})
			c.Check(nonEmpty, "R6", "silence:allowed-actions-non-empty", where, "only when asked", "the bot can act when no action is allowed")
			// staleness filter: a comparison of the remembered state time with the view's
			// UpdatedAt whose "stale" edge cannot reach the move request
			stale := false
			viewCell := ""
			for _, b := range entry.Blocks {
				for _, in := range b.Instrs {
					iff, ok := in.(*ssa.If)
					if !ok {
						continue
					}
					s := p.Sym(iff.Cond).Strip()
					if s.Kind != "binop" {
						continue
					}
					l, r := s.Args[0].Strip(), s.Args[1].Strip()
					opName := s.Name
					if isViewTimeCell(r, entry, canonTypeName(bot.Obj())) && l.Kind == "field" && l.Name == "UpdatedAt" {
						// `gs.UpdatedAt <= br.lastGameStateTime` is `br.lastGameStateTime >= gs.UpdatedAt`
						l, r = r, l
						opName = map[string]string{"<": ">", ">": "<", "<=": ">=", ">=": "<="}[opName]
					}
					if !(isViewTimeCell(l, entry, canonTypeName(bot.Obj())) && r.Kind == "field" && r.Name == "UpdatedAt") {
						continue
					}
					viewCell = l.String()
					staleSucc := -1
					// a view with the SAME time stamp as the one already acted on is stale too
					switch opName {
					case ">=":
						staleSucc = 0
					case "<":
						staleSucc = 1
					}
					if staleSucc < 0 {
						continue
					}
					if !blockReaches(b.Succs[staleSucc], ci.Block()) {
						stale = true
					}
				}
			}
			c.Check(stale, "R6", "silence:staleness-filter", where, "stale views filtered", "the bot does not filter stale table views before acting")
			// … for EVERY view that carries a hand state: no way from "there is a hand state" to the move request goes
			// round the filter. A filter applied only to views of the hand already known lets a late view of an
			// earlier hand through as "a new hand" — the bot answers a request of a hand that is over
			if stale {
				checkFilterOnEveryView(c, "R6", entry, ci, canonTypeName(bot.Obj()))
			}
			// … and the time of the view acted on is remembered before acting
			var rem []ssa.Instruction
			for _, ss := range p.Stores([]*ssa.Function{entry}) {
				if isViewTimeCell(ss.Addr, entry, canonTypeName(bot.Obj())) && (viewCell == "" || ss.Addr.Strip().String() == viewCell) && ss.Val.Strip().Kind == "field" && ss.Val.Strip().Name == "UpdatedAt" {
					rem = append(rem, ss.Instr)
				}
			}
			okRem := false
			if os.Getenv("TABLELINT_DEBUG_C18") != "" {
				fmt.Fprintf(os.Stderr, "C18 viewCell=%q rem=%d\n", viewCell, len(rem))
				for _, ss := range p.Stores([]*ssa.Function{entry}) {
					if ss.Val.Strip().Kind == "field" && ss.Val.Strip().Name == "UpdatedAt" {
						fmt.Fprintf(os.Stderr, "  store %s = %s cell=%v\n", ss.Addr.Strip(), ss.Val.Strip(), isViewTimeCell(ss.Addr, entry, canonTypeName(bot.Obj())))
					}
				}
			}
			for _, r := range rem {
				gds := p.Guards(r)
				onlyHasState := nilGuard(gds, false, func(x *Sym) bool { return x.Kind == "field" && x.Name == "GameState" })
				for _, g := range gds {
					// the filter's own "fresh" edge is exactly "every non-stale view"
					if cm := g.AsCmp(); cm != nil {
						l, r := cm.L.Strip(), cm.R.Strip()
						tn := canonTypeName(bot.Obj())
						if isViewTimeCell(l, entry, tn) && r.Kind == "field" && r.Name == "UpdatedAt" || isViewTimeCell(r, entry, tn) && l.Kind == "field" && l.Name == "UpdatedAt" {
							continue
						}
					}
					if g.Cond.Contains(func(x *Sym) bool {
						return x.Kind == "field" && (x.Name == "UpdatedAt" || x.Name == "GameID" || x.Name == "curGameID" || x.Name == "lastGameStateTime")
					}) {
						onlyHasState = false // remembered only for some of the non-stale views
					}
				}
				if onlyHasState && blockReaches(r.Block(), ci.Block()) {
					okRem = true
				}
			}
			if !okRem && len(rem) > 1 {
				// several remembering stores (one per kind of fresh view — a new hand, a newer state of the same hand)
				// are as good as one when together they lie on every way to the move request that has a hand state
				barrier := map[*ssa.BasicBlock]bool{}
				for _, r := range rem {
					barrier[r.Block()] = true
				}
				seen := map[*ssa.BasicBlock]bool{}
				var walk func(b *ssa.BasicBlock) bool
				walk = func(b *ssa.BasicBlock) bool {
					if seen[b] || barrier[b] {
						return false
					}
					seen[b] = true
					if b == ci.Block() {
						return true
					}
					for k, sc := range b.Succs {
						if iff, isIf := b.Instrs[len(b.Instrs)-1].(*ssa.If); isIf && len(b.Succs) == 2 {
							// the edge on which there is no hand state needs no remembering
							noState := false
							for _, g := range p.unfold(iff.Cond, k == 0, iff, 0) {
								if cm := g.AsCmp(); cm != nil && cm.Op == token.EQL && (cm.R.IsNil() || cm.L.IsNil()) {
									x := cm.L.Strip()
									if cm.L.IsNil() {
										x = cm.R.Strip()
									}
									if x.Kind == "field" && x.Name == "GameState" {
										noState = true
									}
								}
							}
							if noState {
								continue
							}
						}
						if walk(sc) {
							return true
						}
					}
					return false
				}
				if !walk(entry.Blocks[0]) {
					okRem = true
				} else if os.Getenv("TABLELINT_DEBUG_C18") != "" {
					var bl []int
					for b := range seen {
						bl = append(bl, b.Index)
					}
					sort.Ints(bl)
					fmt.Fprintf(os.Stderr, "C18 rem=%d barrier=%v seen=%v target=%d\n", len(rem), barrier, bl, ci.Block().Index)
				}
			}
			c.Check(okRem, "R6", "silence:view-time-remembered", where, "lastGameStateTime ← UpdatedAt for every non-stale view with a hand state, before the move request", "the bot does not remember the time of the view it acts on: the same view would be acted on again")
			// own index passed on
			a := p.Sym(ci.Common().Args[2]).Strip()
			c.Check(a.IsCall("Table.GamePlayerIndex") && a.Args[1].Strip().IsField(canonTypeName(bot.Obj()), "playerID"), "R6", "own-hand-index", where, "acts for its own hand index", "the bot acts for hand index "+a.String())
		}
	}
}

// checkBotAmount (R4) for Bet / Raise.
func checkBotAmount(c *Ctx, key string, ci ssa.CallInstruction, m string) {
	p := c.P
	amt := p.Sym(ci.Common().Args[0]).Strip()
	gs := p.Guards(ci)
	where := p.InstrPos(ci)
	isStack := func(s *Sym) bool { s = s.Strip(); return s.Kind == "field" && s.Name == "InitialStackSize" }
	isMin := func(s *Sym) bool {
		s = s.Strip()
		if m == "Bet" {
			return s.IsField("Status", "MiniBet")
		}
		if s.Kind == "binop" && s.Name == "+" {
			a, b := s.Args[0].Strip(), s.Args[1].Strip()
			return a.IsField("Status", "CurrentWager") && b.IsField("Status", "PreviousRaiseSize") || b.IsField("Status", "CurrentWager") && a.IsField("Status", "PreviousRaiseSize")
		}
		return false
	}
	stackLeMin := func(val bool) bool {
		return cmpHolds(gs, func(l, r *Sym, op token.Token) bool {
			if val {
				return op == token.LEQ && isStack(l) && isMin(r)
			}
			return op == token.GTR && isStack(l) && isMin(r)
		})
	}
	switch {
	case isStack(amt):
		c.Check(stackLeMin(true), "R4", key+":all-of-stack", where, "whole stack only when stack ≤ minimum", "the bot puts in its whole stack without having established stack ≤ minimum")
	case amt.Kind == "binop" && amt.Name == "+":
		a, b := amt.Args[0].Strip(), amt.Args[1].Strip()
		if !a.IsCall("rand.Int63n") {
			a, b = b, a
		}
		ok := a.IsCall("rand.Int63n") && isMin(b)
		d := "amount " + amt.String() + " is not rand.Int63n(stack − minimum) + minimum"
		if ok {
			arg := a.Args[0].Strip()
			ok = arg.Kind == "binop" && arg.Name == "-" && isStack(arg.Args[0]) && isMin(arg.Args[1]) && arg.Args[1].Strip().String() == b.String()
			if ok && !stackLeMin(false) {
				ok, d = false, "the random draw's argument (stack − minimum) is not proved positive by a dominating comparison: rand.Int63n panics on a non-positive argument"
			}
		}
		c.Check(ok, "R4", key+":clamped-random", where, "rand.Int63n(stack − min) + min under stack > min", d)
	default:
		c.Bad("R4", key+":amount", where, "bet/raise amount "+amt.String()+" has neither accepted shape")
	}
}

// stringResultsFromParam: every string the function returns is an element of parameter
// #pi (or a key of a map whose keys are all such elements). Returns "" if so.
func stringResultsFromParam(p *Prog, f *ssa.Function, pi int, depth int) string {
	if depth > 3 {
		return "provenance too deep"
	}
	param := f.Params[pi]
	for _, b := range f.Blocks {
		for _, in := range b.Instrs {
			r, ok := in.(*ssa.Return)
			if !ok || len(r.Results) == 0 {
				continue
			}
			s := p.Sym(r.Results[0]).Strip()
			switch s.Kind {
			case "index":
				if !symIsParam(s.Args[0], param) {
					return "returns an element of " + s.Args[0].String()
				}
			case "rangekey":
				m := s.Args[0].Strip()
				if m.Kind != "call" || m.Call.Common().StaticCallee() == nil || len(m.Args) < 2 || !symIsParam(m.Args[1], param) {
					return "returns a key of " + m.String()
				}
				if d := mapKeysFromParam(p, m.Call.Common().StaticCallee(), 1); d != "" {
					return d
				}
			default:
				return "returns " + s.String()
			}
		}
	}
	return ""
}

// mapKeysFromParam: every key inserted into the map the function returns is an element of
// parameter #pi or an existing key of that same map.
func mapKeysFromParam(p *Prog, f *ssa.Function, pi int) string {
	param := f.Params[pi]
	n := 0
	for _, b := range f.Blocks {
		for _, in := range b.Instrs {
			mu, ok := in.(*ssa.MapUpdate)
			if !ok || typeShort(mu.Map.Type()) != "map[string]float64" {
				continue
			}
			n++
			k := p.Sym(mu.Key).Strip()
			switch {
			case k.Kind == "index" && symIsParam(k.Args[0], param):
			case k.Kind == "rangekey" && k.Args[0].Strip().V == mu.Map:
			default:
				return "a key " + k.String() + " that is not one of the allowed actions is inserted into the probability table"
			}
		}
	}
	if n == 0 {
		return "probability table not recognised"
	}
	return ""
}

// checkActionForwarding (C18.R5): Actions.X → Adapter.X(id, args…) → TableEngine.PlayerX(id, args…)
func checkActionForwarding(c *Ctx, rule string) {
	p := c.P
	ai := p.Iface("/actor", "Actions")
	adI := p.Iface("/actor", "Adapter")
	if ai == nil || adI == nil {
		c.Bad(rule, "anchors", "-", "Actions / Adapter interfaces not found")
		return
	}
	n := 0
	for _, t := range p.Implementers(ai) {
		// only pure forwarders: the type with a stored id
		hasID := false
		if st, ok := t.Underlying().(*types.Struct); ok {
			for i := 0; i < st.NumFields(); i++ {
				if typeShort(st.Field(i).Type()) == "string" && st.NumFields() == 2 {
					hasID = true
				}
			}
		}
		if !hasID {
			continue
		}
		for k := 0; k < ai.NumMethods(); k++ {
			name := ai.Method(k).Name()
			f := p.Method(t, name)
			if f == nil {
				continue
			}
			n++
			ok := false
			d := "does not forward to Adapter." + name + " with the stored id and its own arguments"
			for _, ci := range Calls(f) {
				cm := ci.Common()
				if !cm.IsInvoke() || namedOf(cm.Value.Type()) == nil || namedOf(cm.Value.Type()).Obj().Name() != "Adapter" {
					continue
				}
				if cm.Method.Name() != name {
					d = "forwards to Adapter." + cm.Method.Name()
					continue
				}
				id := p.Sym(cm.Args[0]).Strip()
				good := id.Kind == "field" && id.Owner == canonTypeName(t.Obj()) && symType(id) == "string" && len(cm.Args) == len(f.Params)
				for i := 1; i < len(cm.Args) && good; i++ {
					if !symIsParam(p.Sym(cm.Args[i]), f.Params[i]) {
						good = false
					}
				}
				// … on the adapter the actor is wired to NOW (looked up per move), not one remembered earlier
				if recv := p.Sym(cm.Value).Strip(); good && !recv.IsCall("Actor.GetTable") {
					good = false
					d = "forwards to an adapter obtained as " + recv.String() + ", not to the actor's current adapter (GetTable() at the time of the move): after the actor is wired to another table the moves still go to the old one"
				}
				ok = good
			}
			c.Check(ok, rule, "actions:"+name, p.Pos(f.Pos()), "→ Adapter."+name+"(own id, args)", "Actions."+name+" "+d)
		}
	}
	for _, t := range p.Implementers(adI) {
		for k := 0; k < ai.NumMethods(); k++ {
			name := ai.Method(k).Name()
			f := p.Method(t, name)
			if f == nil {
				continue
			}
			n++
			ok := false
			d := "does not forward to TableEngine.Player" + name
			for _, ci := range Calls(f) {
				cm := ci.Common()
				if !cm.IsInvoke() || namedOf(cm.Value.Type()) == nil || namedOf(cm.Value.Type()).Obj().Name() != "TableEngine" {
					continue
				}
				if cm.Method.Name() != "Player"+name {
					d = "forwards to TableEngine." + cm.Method.Name()
					continue
				}
				good := len(cm.Args) == len(f.Params)-1
				for i := 0; i < len(cm.Args) && good; i++ {
					if !symIsParam(p.Sym(cm.Args[i]), f.Params[i+1]) {
						good = false
					}
				}
				ok = good
			}
			c.Check(ok, rule, "adapter:"+name, p.Pos(f.Pos()), "→ TableEngine.Player"+name+"(id, args)", "the engine adapter's "+name+" "+d)
		}
	}
	c.Min(rule, "forwarders (Actions and engine adapter)", n, 18)
}

func blockReaches(from, to *ssa.BasicBlock) bool {
	seen := map[*ssa.BasicBlock]bool{}
	st := []*ssa.BasicBlock{from}
	for len(st) > 0 {
		x := st[len(st)-1]
		st = st[:len(st)-1]
		if seen[x] {
			continue
		}
		seen[x] = true
		if x == to {
			return true
		}
		st = append(st, x.Succs...)
	}
	return false
}

// checkFilterOnEveryView: every path of the view handler from the edge "the view has a hand state" to the move request
// passes a block that compares the remembered view time with the view's UpdatedAt.
func checkFilterOnEveryView(c *Ctx, rule string, entry *ssa.Function, ci ssa.CallInstruction, typeName string) {
	p := c.P
	filter := map[*ssa.BasicBlock]bool{}
	for _, b := range entry.Blocks {
		iff, ok := b.Instrs[len(b.Instrs)-1].(*ssa.If)
		if !ok {
			continue
		}
		s := p.Sym(iff.Cond).Strip()
		if s.Kind != "binop" {
			continue
		}
		l, r := s.Args[0].Strip(), s.Args[1].Strip()
		if isViewTimeCell(r, entry, typeName) && l.Kind == "field" && l.Name == "UpdatedAt" {
			l, r = r, l
		}
		if isViewTimeCell(l, entry, typeName) && r.Kind == "field" && r.Name == "UpdatedAt" {
			filter[b] = true
		}
	}
	seen := map[*ssa.BasicBlock]bool{}
	var walk func(b *ssa.BasicBlock) bool
	walk = func(b *ssa.BasicBlock) bool {
		if seen[b] || filter[b] {
			return false
		}
		seen[b] = true
		if b == ci.Block() {
			return true
		}
		for k, sc := range b.Succs {
			if iff, isIf := b.Instrs[len(b.Instrs)-1].(*ssa.If); isIf && len(b.Succs) == 2 {
				noState := false
				for _, g := range p.unfold(iff.Cond, k == 0, iff, 0) {
					if cm := g.AsCmp(); cm != nil && cm.Op == token.EQL && (cm.R.IsNil() || cm.L.IsNil()) {
						x := cm.L.Strip()
						if cm.L.IsNil() {
							x = cm.R.Strip()
						}
						if x.Kind == "field" && x.Name == "GameState" {
							noState = true
						}
					}
				}
				if noState {
					continue
				}
			}
			if walk(sc) {
				return true
			}
		}
		return false
	}
	bypass := walk(entry.Blocks[0])
	c.Check(!bypass, rule, "silence:staleness-filter-on-every-view", p.InstrPos(ci), "every view with a hand state passes the freshness comparison before a move is requested",
		"a view that carries a hand state can reach the move request without its time being compared with the last view acted on (e.g. whenever its hand id differs from the remembered one): a late view of an earlier hand is answered")
}
