package main

// Sweeps over generated single-site variants of the CURRENT /repo tree, applied in
// memory through the overlay, one child process per variant:
//
//   equiv — behaviour-preserving rewrites (operand order, x++ / x += 1 / x = x + 1,
//           if/else inversion, local renames, commutative operands). Every check must
//           stay SILENT on every variant: an alarm here is a brittleness false alarm.
//   fault — generic fault injection (negated conditions, deleted statements, boundary
//           changes, sibling-field swaps, argument swaps, …). Reports which rules fire
//           per variant and lists the survivors for triage (blind spots or equivalent).
//
// Neither sweep is a registered check; they test the checker, not the repository.

import (
	"bytes"
	"encoding/json"
	"flag"
	"fmt"
	"go/ast"
	"go/token"
	"go/types"
	"os"
	"os/exec"
	"path/filepath"
	"sort"
	"strings"
	"sync"

	"golang.org/x/tools/go/packages"
)

type variant struct {
	ID   int    `json:"id"`
	Op   string `json:"op"`
	File string `json:"file"`
	Line int    `json:"line"`
	Func string `json:"func"`
	Old  string `json:"old"`
	New  string `json:"new"`
	s, e int    // byte offsets
}

type variantResult struct {
	variant
	Loads     bool     `json:"loads"`
	Fired     []string `json:"fired"`
	Keys      []string `json:"keys,omitempty"`
	TestsPass *bool    `json:"passes_smoke_tests,omitempty"`
}

func cmdSweep(args []string) int {
	fs := flag.NewFlagSet("sweep", flag.ExitOnError)
	mode := fs.String("mode", "equiv", "equiv|fault")
	repo := fs.String("repo", "/repo", "")
	verif := fs.String("verif", "/verif", "")
	out := fs.String("out", "", "result file (json)")
	jobs := fs.Int("j", 12, "parallel children")
	limit := fs.Int("limit", 0, "max variants (0 = all)")
	only := fs.String("only", "", "substring filter on file path")
	stride := fs.Int("stride", 1, "take every n-th variant")
	opsF := fs.String("ops", "", "comma-separated operator names to run (default all)")
	smoke := fs.Bool("smoke", false, "fault mode: run the repository's own quick tests (go test -overlay) on every variant no rule notices, to separate test-killable faults from survivors")
	fs.Parse(args)
	vs, srcs, err := genVariants(*repo, *mode)
	if err != nil {
		fmt.Fprintln(os.Stderr, err)
		return 2
	}
	var sel []variant
	for i, v := range vs {
		if *only != "" && !strings.Contains(v.File, *only) {
			continue
		}
		if *opsF != "" && !strings.Contains(","+*opsF+",", ","+v.Op+",") {
			continue
		}
		if i%*stride != 0 {
			continue
		}
		sel = append(sel, v)
		if *limit > 0 && len(sel) >= *limit {
			break
		}
	}
	fmt.Printf("%s sweep: %d variants generated, %d selected\n", *mode, len(vs), len(sel))
	tmp, _ := os.MkdirTemp("", "tl-sweep")
	defer os.RemoveAll(tmp)
	exe, _ := os.Executable()
	res := make([]variantResult, len(sel))
	sem := make(chan struct{}, *jobs)
	var wg sync.WaitGroup
	for i, v := range sel {
		wg.Add(1)
		go func(i int, v variant) {
			defer wg.Done()
			sem <- struct{}{}
			defer func() { <-sem }()
			src := srcs[v.File]
			mut := append(append(append([]byte{}, src[:v.s]...), v.New...), src[v.e:]...)
			mf := filepath.Join(tmp, fmt.Sprintf("%d.go", v.ID))
			os.WriteFile(mf, mut, 0o644)
			cmd := exec.Command(exe, "variant", "-repo", *repo, "-verif", *verif, "-target", v.File, "-content", mf)
			var ob bytes.Buffer
			cmd.Stdout = &ob
			err := cmd.Run()
			os.Remove(mf)
			r := variantResult{variant: v}
			if err == nil {
				var cr struct {
					Fired []string `json:"fired"`
					Keys  []string `json:"keys"`
				}
				if json.Unmarshal(ob.Bytes(), &cr) == nil {
					r.Loads = true
					r.Fired = cr.Fired
					r.Keys = cr.Keys
				}
			}
			res[i] = r
		}(i, v)
	}
	wg.Wait()
	if *smoke && *mode == "fault" {
		var wg2 sync.WaitGroup
		sem2 := make(chan struct{}, *jobs)
		for i := range res {
			if !res[i].Loads || len(res[i].Fired) > 0 {
				continue
			}
			wg2.Add(1)
			go func(i int) {
				defer wg2.Done()
				sem2 <- struct{}{}
				defer func() { <-sem2 }()
				v := res[i].variant
				src := srcs[v.File]
				mut := append(append(append([]byte{}, src[:v.s]...), v.New...), src[v.e:]...)
				ok := smokeTest(*repo, tmp, v, mut)
				res[i].TestsPass = &ok
			}(i)
		}
		wg2.Wait()
		n, pass := 0, 0
		for _, r := range res {
			if r.TestsPass != nil {
				n++
				if *r.TestsPass {
					pass++
				}
			}
		}
		fmt.Printf("smoke tests on %d unnoticed variants: %d still pass the repository's quick tests (true survivors), %d are killed by them\n", n, pass, n-pass)
	}
	loads, silent := 0, 0
	byOp := map[string][3]int{} // total, loads, alarmed
	for _, r := range res {
		t := byOp[r.Op]
		t[0]++
		if r.Loads {
			loads++
			t[1]++
			if len(r.Fired) == 0 {
				silent++
			} else {
				t[2]++
			}
		}
		byOp[r.Op] = t
	}
	var ops []string
	for k := range byOp {
		ops = append(ops, k)
	}
	sort.Strings(ops)
	for _, k := range ops {
		t := byOp[k]
		fmt.Printf("  %-14s variants=%-5d type-check=%-5d alarmed=%d\n", k, t[0], t[1], t[2])
	}
	fmt.Printf("%s sweep: %d type-check, %d silent, %d raise at least one rule\n", *mode, loads, silent, loads-silent)
	if *mode == "equiv" {
		for _, r := range res {
			if r.Loads && len(r.Fired) > 0 {
				fmt.Printf("ALARM on behaviour-preserving variant #%d %s %s:%d (%s): %q → %q  fired %v %v\n", r.ID, r.Op, r.File, r.Line, r.Func, r.Old, r.New, r.Fired, r.Keys)
			}
		}
	}
	if *out != "" {
		b, _ := json.MarshalIndent(map[string]interface{}{"mode": *mode, "variants": len(sel), "type_check": loads, "silent": silent, "results": res}, "", " ")
		os.WriteFile(*out, b, 0o644)
	}
	if *mode == "equiv" && loads-silent > 0 {
		return 1
	}
	return 0
}

// cmdVariant: child — run every registered property on one overlay variant.
func cmdVariant(args []string) int {
	fs := flag.NewFlagSet("variant", flag.ExitOnError)
	repo := fs.String("repo", "/repo", "")
	verif := fs.String("verif", "/verif", "")
	target := fs.String("target", "", "")
	content := fs.String("content", "", "")
	onlyProp := fs.String("p", "", "run only this property")
	overlayFile := fs.String("overlay", "", "json file {source path: file with replacement content} (several files at once)")
	fs.Parse(args)
	ov := map[string][]byte{}
	if *overlayFile != "" {
		ob, err := os.ReadFile(*overlayFile)
		if err != nil {
			return 2
		}
		m := map[string]string{}
		if json.Unmarshal(ob, &m) != nil {
			return 2
		}
		for k, cf := range m {
			b, err := os.ReadFile(cf)
			if err != nil {
				return 2
			}
			ov[k] = b
		}
	} else {
		b, err := os.ReadFile(*content)
		if err != nil {
			return 2
		}
		ov[*target] = b
	}
	p, err := Load(LoadConfig{Repo: *repo, Tags: "verif", Overlay: ov})
	if err != nil {
		return 3
	}
	known, _ := loadKnown(*verif)
	isKnown := map[string]bool{}
	for _, k := range known {
		if k.Status == "known" {
			isKnown[k.Rule+"|"+k.Construct] = true
		}
	}
	fired := map[string]bool{}
	var keys []string
	var ids []string
	for id := range registry {
		ids = append(ids, id)
	}
	sort.Strings(ids)
	for _, id := range ids {
		if *onlyProp != "" && id != *onlyProp {
			continue
		}
		m := registry[id]
		c := &Ctx{P: p, Prop: m.ID, Tier: "quick"}
		func() {
			defer func() {
				if r := recover(); r != nil {
					c.Bad("INTERNAL", "analysis-panic", "-", fmt.Sprint(r))
				}
			}()
			m.Run(c)
		}()
		for _, o := range c.Obs {
			if (o.Status == "violated" || o.Status == "undecided") && !isKnown[o.Key()] {
				if !fired[o.Rule] {
					fired[o.Rule] = true
				}
				if len(keys) < 6 {
					keys = append(keys, o.Key())
				}
			}
		}
	}
	var fl []string
	for k := range fired {
		fl = append(fl, k)
	}
	sort.Strings(fl)
	ob, _ := json.Marshal(map[string]interface{}{"fired": fl, "keys": keys})
	os.Stdout.Write(ob)
	return 0
}

// ---------------------------------------------------------------------------

func genVariants(repo, mode string) ([]variant, map[string][]byte, error) {
	os.Unsetenv("GOWORK")
	pc := &packages.Config{Mode: packages.LoadSyntax, Dir: repo,
		Env: append(os.Environ(), "GOFLAGS=-mod=mod", "GOPROXY=off", "GOSUMDB=off", "GOTOOLCHAIN=local", "GOWORK=off")}
	pkgs, err := packages.Load(pc, "./...")
	if err != nil {
		return nil, nil, err
	}
	var vs []variant
	srcs := map[string][]byte{}
	for _, pk := range pkgs {
		if !isProdPath(pk.PkgPath) {
			continue
		}
		for _, f := range pk.Syntax {
			fn := pk.Fset.Position(f.Pos()).Filename
			if strings.HasSuffix(fn, "_test.go") || strings.HasSuffix(fn, "debug.go") || strings.HasSuffix(fn, "debugger.go") {
				continue
			}
			src, err := os.ReadFile(fn)
			if err != nil {
				return nil, nil, err
			}
			srcs[fn] = src
			g := &vgen{pk: pk, fset: pk.Fset, file: fn, src: src, mode: mode}
			g.walk(f)
			vs = append(vs, g.out...)
		}
	}
	sort.Slice(vs, func(i, j int) bool {
		if vs[i].File != vs[j].File {
			return vs[i].File < vs[j].File
		}
		if vs[i].s != vs[j].s {
			return vs[i].s < vs[j].s
		}
		return vs[i].Op < vs[j].Op
	})
	for i := range vs {
		vs[i].ID = i
	}
	return vs, srcs, nil
}

type vgen struct {
	pk   *packages.Package
	fset *token.FileSet
	file string
	src  []byte
	mode string
	fn   string
	out  []variant
}

func (g *vgen) text(n ast.Node) string {
	return string(g.src[g.fset.Position(n.Pos()).Offset:g.fset.Position(n.End()).Offset])
}

func (g *vgen) add(op string, n ast.Node, repl string) {
	s, e := g.fset.Position(n.Pos()).Offset, g.fset.Position(n.End()).Offset
	old := string(g.src[s:e])
	if old == repl {
		return
	}
	short := func(x string) string {
		x = strings.Join(strings.Fields(x), " ")
		if len(x) > 90 {
			x = x[:90] + "…"
		}
		return x
	}
	rel := g.file
	g.out = append(g.out, variant{Op: op, File: rel, Line: g.fset.Position(n.Pos()).Line, Func: g.fn, Old: short(old), New: repl, s: s, e: e})
	// keep New intact for application but shorten Old for reports
}

func (g *vgen) isString(e ast.Expr) bool {
	tv, ok := g.pk.TypesInfo.Types[e]
	if !ok || tv.Type == nil {
		return false
	}
	b, ok := tv.Type.Underlying().(*types.Basic)
	return ok && b.Info()&types.IsString != 0
}

func (g *vgen) isNumeric(e ast.Expr) bool {
	tv, ok := g.pk.TypesInfo.Types[e]
	if !ok || tv.Type == nil {
		return false
	}
	b, ok := tv.Type.Underlying().(*types.Basic)
	return ok && b.Info()&types.IsNumeric != 0
}

// pure: no calls, no channel ops, no index/deref that could panic differently when reordered
func pureExpr(e ast.Expr) bool {
	ok := true
	ast.Inspect(e, func(n ast.Node) bool {
		switch n.(type) {
		case *ast.CallExpr, *ast.UnaryExpr, *ast.IndexExpr, *ast.StarExpr, *ast.TypeAssertExpr, *ast.SliceExpr:
			ok = false
		}
		return ok
	})
	return ok
}

func inDebugPrint(stack []ast.Node) bool {
	for _, n := range stack {
		if ce, ok := n.(*ast.CallExpr); ok {
			if se, ok := ce.Fun.(*ast.SelectorExpr); ok {
				if id, ok := se.X.(*ast.Ident); ok && id.Name == "fmt" {
					return true
				}
				if se.Sel.Name == "printState" {
					return true
				}
			}
		}
	}
	return false
}

func (g *vgen) walk(f *ast.File) {
	var stack []ast.Node
	ast.Inspect(f, func(n ast.Node) bool {
		if n == nil {
			stack = stack[:len(stack)-1]
			return true
		}
		stack = append(stack, n)
		if fd, ok := n.(*ast.FuncDecl); ok {
			g.fn = fd.Name.Name
			if g.mode == "equiv" {
				g.renames(fd)
			}
		}
		if inDebugPrint(stack) {
			return true
		}
		if g.mode == "equiv" {
			g.equiv(n, stack)
		} else {
			g.fault(n, stack)
		}
		return true
	})
}

var flip = map[token.Token]string{token.LSS: ">", token.GTR: "<", token.LEQ: ">=", token.GEQ: "<="}

func (g *vgen) equiv(n ast.Node, stack []ast.Node) {
	switch x := n.(type) {
	case *ast.BinaryExpr:
		l, r := g.text(x.X), g.text(x.Y)
		switch x.Op {
		case token.EQL, token.NEQ:
			if pureExpr(x.X) && pureExpr(x.Y) {
				g.add("swap-eq", x, r+" "+x.Op.String()+" "+l)
			}
			if ce, ok := x.X.(*ast.CallExpr); ok {
				if id, ok := ce.Fun.(*ast.Ident); ok && id.Name == "len" {
					if bl, ok := x.Y.(*ast.BasicLit); ok && bl.Value == "0" && x.Op == token.EQL {
						g.add("len-zero", x, l+" < 1")
					}
				}
			}
		case token.LSS, token.GTR, token.LEQ, token.GEQ:
			if pureExpr(x.X) && pureExpr(x.Y) {
				g.add("flip-rel", x, r+" "+flip[x.Op]+" "+l)
			}
			// len(x) > 0  ↔  len(x) != 0 ;  len(x) >= 1 ;  len(x) < 1 ↔ len(x) == 0
			if ce, ok := x.X.(*ast.CallExpr); ok {
				if id, ok := ce.Fun.(*ast.Ident); ok && id.Name == "len" {
					if bl, ok := x.Y.(*ast.BasicLit); ok && bl.Value == "0" && x.Op == token.GTR {
						g.add("len-zero", x, l+" != 0")
						g.add("len-zero", x, l+" >= 1")
					}
				}
			}
		case token.ADD, token.MUL:
			if g.isNumeric(x.X) && g.isNumeric(x.Y) && pureExpr(x.X) && pureExpr(x.Y) {
				// parenthesise operands to keep precedence
				g.add("commute", x, "("+r+") "+x.Op.String()+" ("+l+")")
			}
		}
	case *ast.IncDecStmt:
		if pureExpr(x.X) {
			op := "+="
			if x.Tok == token.DEC {
				op = "-="
			}
			g.add("incdec", x, g.text(x.X)+" "+op+" 1")
		}
	case *ast.AssignStmt:
		if (x.Tok == token.ADD_ASSIGN || x.Tok == token.SUB_ASSIGN) && len(x.Lhs) == 1 && pureExpr(x.Lhs[0]) && !g.isString(x.Lhs[0]) {
			o := "+"
			if x.Tok == token.SUB_ASSIGN {
				o = "-"
			}
			l := g.text(x.Lhs[0])
			g.add("op-assign", x, l+" = "+l+" "+o+" ("+g.text(x.Rhs[0])+")")
		}
	case *ast.IfStmt:
		if x.Init == nil && x.Else != nil {
			if eb, ok := x.Else.(*ast.BlockStmt); ok {
				g.add("invert-if", x, "if !("+g.text(x.Cond)+") "+g.text(eb)+" else "+g.text(x.Body))
			}
		}
		// the condition computed into a local first (only for statements directly in a block,
		// so that the temporary can be declared just before)
		if x.Init == nil && len(stack) >= 2 {
			if _, inBlock := stack[len(stack)-2].(*ast.BlockStmt); inBlock {
				g.add("hoist-cond", x, "condHoisted := "+g.text(x.Cond)+"\nif condHoisted "+g.text(x.Body)+func() string {
					if x.Else != nil {
						return " else " + g.text(x.Else)
					}
					return ""
				}())
			}
		}
		// De Morgan on a negated conjunction / disjunction
		if ue, ok := x.Cond.(*ast.UnaryExpr); ok && ue.Op == token.NOT {
			if pe, ok := ue.X.(*ast.ParenExpr); ok {
				if be, ok := pe.X.(*ast.BinaryExpr); ok && (be.Op == token.LAND || be.Op == token.LOR) {
					op := "||"
					if be.Op == token.LOR {
						op = "&&"
					}
					g.add("demorgan", ue, "!("+g.text(be.X)+") "+op+" !("+g.text(be.Y)+")")
				}
			}
		}
	case *ast.BlockStmt:
		g.blockEquiv(x)
	case *ast.FuncDecl:
		// shift every following line: a comment block before the function
		if x.Doc == nil {
			g.add("shift-lines", x, "// refactoring note\n//\n// (line numbers below this point move)\n"+g.text(x))
		}
		g.outlineTail(x)
		g.outlineStmts(x)
		// a trace line at function entry
		if x.Body != nil && len(x.Body.List) > 0 {
			first := x.Body.List[0]
			g.add("trace-entry", first, "println(\"trace: "+x.Name.Name+"\")\n\t"+g.text(first))
		}
	}
}

// freeLocals: variables of the enclosing function (parameters, locals; not the receiver) that the nodes use and
// that are declared before pos; bad is set when one of them must not be passed by value.
func (g *vgen) freeLocals(fd *ast.FuncDecl, nodes []ast.Node, before token.Pos) (names, typs []string, bad bool) {
	qual := func(p *types.Package) string {
		if p == g.pk.Types {
			return ""
		}
		return p.Name()
	}
	seen := map[types.Object]bool{}
	for _, nd := range nodes {
		ast.Inspect(nd, func(n ast.Node) bool {
			switch y := n.(type) {
			case *ast.UnaryExpr:
				if y.Op == token.AND {
					if _, isID := y.X.(*ast.Ident); isID {
						bad = true
					}
				}
			case *ast.Ident:
				obj, _ := g.pk.TypesInfo.Uses[y].(*types.Var)
				if obj == nil || obj.IsField() || seen[obj] || obj.Pkg() != g.pk.Types || obj.Pos() < fd.Pos() || obj.Pos() >= before {
					return true
				}
				seen[obj] = true
				if fd.Recv != nil && obj.Pos() >= fd.Recv.Pos() && obj.Pos() < fd.Recv.End() {
					return true
				}
				if strings.Contains(obj.Type().String(), "sync.") {
					bad = true
				}
				names = append(names, obj.Name())
				typs = append(typs, types.TypeString(obj.Type(), qual))
			}
			return true
		})
	}
	return
}

// outlineStmts: (a) one statement from the middle of the body that neither declares anything used later nor
// leaves the function becomes a helper without results; (b) the right-hand side of the first "x := <call…>" of the
// body becomes a helper returning the value.
func (g *vgen) outlineStmts(fd *ast.FuncDecl) {
	if fd.Body == nil || len(fd.Body.List) < 3 || fd.Type.TypeParams != nil {
		return
	}
	recvName, recvType := "", ""
	if fd.Recv != nil {
		if len(fd.Recv.List) != 1 || len(fd.Recv.List[0].Names) != 1 {
			return
		}
		recvName, recvType = fd.Recv.List[0].Names[0].Name, g.text(fd.Recv.List[0].Type)
	}
	lower := strings.ToLower(fd.Name.Name[:1]) + fd.Name.Name[1:]
	sig := func(name string, names, typs []string, res string) (decl, call string) {
		d, c := "func ", ""
		if fd.Recv != nil {
			d += "(" + recvName + " " + recvType + ") "
			c = recvName + "."
		}
		d += name + "("
		c += name + "("
		for i := range names {
			if i > 0 {
				d += ", "
				c += ", "
			}
			d += names[i] + " " + typs[i]
			c += names[i]
		}
		return d + ")" + res, c + ")"
	}
	// (a)
	mid := fd.Body.List[len(fd.Body.List)/2]
	okMid := true
	switch mid.(type) {
	case *ast.ExprStmt, *ast.IfStmt, *ast.ForStmt, *ast.RangeStmt, *ast.AssignStmt, *ast.IncDecStmt:
	default:
		okMid = false
	}
	if as, isAs := mid.(*ast.AssignStmt); isAs && as.Tok == token.DEFINE {
		okMid = false
	}
	ast.Inspect(mid, func(n ast.Node) bool {
		switch n.(type) {
		case *ast.ReturnStmt, *ast.BranchStmt, *ast.DeferStmt, *ast.GoStmt, *ast.LabeledStmt, *ast.FuncLit:
			okMid = false
		}
		return okMid
	})
	if okMid {
		names, typs, bad := g.freeLocals(fd, []ast.Node{mid}, mid.Pos())
		// a local assigned inside the statement would be assigned in the copy
		assigned := false
		ast.Inspect(mid, func(n ast.Node) bool {
			mark := func(e ast.Expr) {
				if id, ok := e.(*ast.Ident); ok {
					for _, nm := range names {
						if nm == id.Name {
							assigned = true
						}
					}
				}
			}
			switch y := n.(type) {
			case *ast.AssignStmt:
				if y.Tok != token.DEFINE {
					for _, l := range y.Lhs {
						mark(l)
					}
				}
			case *ast.IncDecStmt:
				mark(y.X)
			}
			return true
		})
		if !bad && !assigned {
			decl, call := sig(lower+"Step", names, typs, "")
			s0, e0 := g.fset.Position(mid.Pos()).Offset, g.fset.Position(mid.End()).Offset
			// replace the statement by the call, append the helper after the function
			fe := g.fset.Position(fd.End()).Offset
			repl := call + string(g.src[e0:fe]) + "\n\n" + decl + " {\n\t" + string(g.src[s0:e0]) + "\n}"
			g.out = append(g.out, variant{Op: "outline-stmt", File: g.file, Line: g.fset.Position(mid.Pos()).Line, Func: fd.Name.Name,
				Old: "middle statement of " + fd.Name.Name, New: repl, s: s0, e: fe})
		}
	}
	// (b)
	for _, st := range fd.Body.List {
		as, ok := st.(*ast.AssignStmt)
		if !ok || as.Tok != token.DEFINE || len(as.Lhs) != 1 || len(as.Rhs) != 1 {
			continue
		}
		if _, isCall := as.Rhs[0].(*ast.CallExpr); !isCall {
			continue
		}
		hasLit := false
		ast.Inspect(as.Rhs[0], func(n ast.Node) bool {
			if _, isL := n.(*ast.FuncLit); isL {
				hasLit = true
			}
			return !hasLit
		})
		tv, okT := g.pk.TypesInfo.Types[as.Rhs[0]]
		if hasLit || !okT || tv.Type == nil {
			continue
		}
		if _, isTuple := tv.Type.(*types.Tuple); isTuple {
			continue
		}
		names, typs, bad := g.freeLocals(fd, []ast.Node{as.Rhs[0]}, st.Pos())
		if bad {
			break
		}
		qual := func(p *types.Package) string {
			if p == g.pk.Types {
				return ""
			}
			return p.Name()
		}
		decl, call := sig(lower+"Value", names, typs, " "+types.TypeString(tv.Type, qual))
		s0, e0 := g.fset.Position(as.Rhs[0].Pos()).Offset, g.fset.Position(as.Rhs[0].End()).Offset
		fe := g.fset.Position(fd.End()).Offset
		repl := call + string(g.src[e0:fe]) + "\n\n" + decl + " {\n\treturn " + string(g.src[s0:e0]) + "\n}"
		g.out = append(g.out, variant{Op: "outline-value", File: g.file, Line: g.fset.Position(st.Pos()).Line, Func: fd.Name.Name,
			Old: "first initialiser of " + fd.Name.Name, New: repl, s: s0, e: fe})
		break
	}
}

// outlineTail: "extract function" — the second half of a function body becomes a helper with the same
// receiver; parameters and the locals the tail uses are passed along. Only shapes where this is plainly
// behaviour-preserving are generated (no named results, no closures or defers in the head, tail statements
// at the top level of the body, no labels).
func (g *vgen) outlineTail(fd *ast.FuncDecl) {
	if fd.Body == nil || len(fd.Body.List) < 4 || fd.Type.TypeParams != nil {
		return
	}
	if fd.Type.Results != nil {
		for _, r := range fd.Type.Results.List {
			if len(r.Names) > 0 {
				return
			}
		}
	}
	k := len(fd.Body.List) / 2
	head, tail := fd.Body.List[:k], fd.Body.List[k:]
	bad := false
	for _, st := range head {
		ast.Inspect(st, func(n ast.Node) bool {
			switch n.(type) {
			case *ast.FuncLit, *ast.DeferStmt, *ast.GoStmt, *ast.LabeledStmt:
				bad = true
			}
			return !bad
		})
	}
	for _, st := range tail {
		ast.Inspect(st, func(n ast.Node) bool {
			switch y := n.(type) {
			case *ast.LabeledStmt:
				bad = true
			case *ast.BranchStmt:
				if y.Label != nil {
					bad = true
				}
			}
			return !bad
		})
	}
	// the function must end in a return (or have no results)
	hasResults := fd.Type.Results != nil && len(fd.Type.Results.List) > 0
	if hasResults {
		if _, ok := tail[len(tail)-1].(*ast.ReturnStmt); !ok {
			bad = true
		}
	}
	if bad {
		return
	}
	tailStart := tail[0].Pos()
	qual := func(p *types.Package) string {
		if p == g.pk.Types {
			return ""
		}
		return p.Name()
	}
	// variables declared before the tail (parameters, receiver, locals of the head) that the tail uses
	type pv struct{ name, typ string }
	var params []pv
	seen := map[types.Object]bool{}
	var recvName, recvType string
	if fd.Recv != nil && len(fd.Recv.List) == 1 {
		if len(fd.Recv.List[0].Names) == 1 {
			recvName = fd.Recv.List[0].Names[0].Name
		}
		recvType = g.text(fd.Recv.List[0].Type)
	}
	for _, st := range tail {
		ast.Inspect(st, func(n ast.Node) bool {
			id, ok := n.(*ast.Ident)
			if !ok {
				return true
			}
			obj, _ := g.pk.TypesInfo.Uses[id].(*types.Var)
			if obj == nil || obj.IsField() || seen[obj] || obj.Pkg() != g.pk.Types {
				return true
			}
			if obj.Pos() < fd.Pos() || obj.Pos() >= tailStart {
				return true // package level, or declared inside the tail
			}
			seen[obj] = true
			if strings.Contains(obj.Type().String(), "sync.") {
				bad = true // a lock or wait group cannot be handed over by value
			}
			if recvName != "" && obj.Name() == recvName && fd.Recv != nil && obj.Pos() >= fd.Recv.Pos() && obj.Pos() < fd.Recv.End() {
				return true // the receiver stays the receiver
			}
			params = append(params, pv{obj.Name(), types.TypeString(obj.Type(), qual)})
			return true
		})
	}
	// a local whose address the tail takes would be copied
	for _, st := range tail {
		ast.Inspect(st, func(n ast.Node) bool {
			if u, ok := n.(*ast.UnaryExpr); ok && u.Op == token.AND {
				if id, isID := u.X.(*ast.Ident); isID {
					if obj, _ := g.pk.TypesInfo.Uses[id].(*types.Var); obj != nil && seen[obj] {
						bad = true
					}
				}
			}
			return true
		})
	}
	if bad || (fd.Recv != nil && recvName == "") {
		return
	}
	name := strings.ToLower(fd.Name.Name[:1]) + fd.Name.Name[1:] + "Tail" // an extracted helper is unexported
	var decl, call strings.Builder
	decl.WriteString("func ")
	if fd.Recv != nil {
		decl.WriteString("(" + recvName + " " + recvType + ") ")
		call.WriteString(recvName + ".")
	}
	decl.WriteString(name + "(")
	call.WriteString(name + "(")
	for i, p := range params {
		if i > 0 {
			decl.WriteString(", ")
			call.WriteString(", ")
		}
		typ := p.typ
		decl.WriteString(p.name + " " + typ)
		call.WriteString(p.name)
	}
	decl.WriteString(")")
	call.WriteString(")")
	if hasResults {
		decl.WriteString(" " + g.text(fd.Type.Results))
	}
	s0 := g.fset.Position(tailStart).Offset
	e0 := g.fset.Position(fd.Body.Rbrace).Offset
	tailText := string(g.src[s0:e0])
	callStmt := call.String()
	if hasResults {
		callStmt = "return " + callStmt
	}
	repl := callStmt + "\n}\n\n" + decl.String() + " {\n\t" + tailText
	g.out = append(g.out, variant{Op: "outline-tail", File: g.file, Line: g.fset.Position(fd.Pos()).Line, Func: fd.Name.Name,
		Old: "second half of " + fd.Name.Name, New: repl, s: s0, e: e0})
}

// blockEquiv: statement-level behaviour-preserving rewrites inside one block.
func (g *vgen) blockEquiv(b *ast.BlockStmt) {
	for i, st := range b.List {
		// (1) hoist a pure selector-chain argument of a single-call statement into a temporary
		var call *ast.CallExpr
		nCalls := 0
		ast.Inspect(st, func(n ast.Node) bool {
			switch c := n.(type) {
			case *ast.FuncLit:
				return false
			case *ast.CallExpr:
				nCalls++
				call = c
			}
			return true
		})
		_, isExpr := st.(*ast.ExprStmt)
		_, isAssign := st.(*ast.AssignStmt)
		if nCalls == 1 && (isExpr || isAssign) {
			for _, a := range call.Args {
				se, ok := a.(*ast.SelectorExpr)
				if !ok || !pureExpr(se) {
					continue
				}
				if tv, ok := g.pk.TypesInfo.Types[a]; !ok || tv.Type == nil || tv.IsType() || !tv.IsValue() {
					continue
				}
				if _, isSel := se.X.(*ast.SelectorExpr); !isSel {
					continue // hoist only chains of depth ≥ 2 (x.y.z)
				}
				s, e := g.fset.Position(st.Pos()).Offset, g.fset.Position(st.End()).Offset
				as, ae := g.fset.Position(a.Pos()).Offset, g.fset.Position(a.End()).Offset
				stText := string(g.src[s:as]) + "hoistedArg" + string(g.src[ae:e])
				repl := "hoistedArg := " + g.text(a) + "\n" + stText
				g.out = append(g.out, variant{Op: "hoist-arg", File: g.file, Line: g.fset.Position(st.Pos()).Line, Func: g.fn, Old: g.text(a), New: repl, s: s, e: e})
				break
			}
		}
		// (2) swap two adjacent independent simple assignments
		if i+1 < len(b.List) {
			a1, ok1 := st.(*ast.AssignStmt)
			a2, ok2 := b.List[i+1].(*ast.AssignStmt)
			if ok1 && ok2 && a1.Tok == token.ASSIGN && a2.Tok == token.ASSIGN && len(a1.Lhs) == 1 && len(a2.Lhs) == 1 &&
				simpleRHS(a1.Rhs[0]) && simpleRHS(a2.Rhs[0]) && pureExpr(a1.Lhs[0]) && pureExpr(a2.Lhs[0]) {
				l1, l2 := g.text(a1.Lhs[0]), g.text(a2.Lhs[0])
				r1, r2 := g.text(a1.Rhs[0]), g.text(a2.Rhs[0])
				indep := l1 != l2 && !strings.Contains(r2, l1) && !strings.Contains(r1, l2) && !strings.HasPrefix(l2, l1) && !strings.HasPrefix(l1, l2)
				if indep {
					s, e := g.fset.Position(a1.Pos()).Offset, g.fset.Position(a2.End()).Offset
					repl := g.text(a2) + "\n" + g.text(a1)
					g.out = append(g.out, variant{Op: "swap-stmts", File: g.file, Line: g.fset.Position(a1.Pos()).Line, Func: g.fn, Old: l1 + " / " + l2, New: repl, s: s, e: e})
				}
			}
		}
	}
}

// simpleRHS: a constant, nil, identifier, or make/zero-length literal — no calls that could observe order
func simpleRHS(e ast.Expr) bool {
	switch x := e.(type) {
	case *ast.BasicLit, *ast.Ident:
		return true
	case *ast.CallExpr:
		if id, ok := x.Fun.(*ast.Ident); ok && id.Name == "make" {
			return true
		}
	case *ast.SelectorExpr:
		return pureExpr(x)
	}
	return false
}

// renames: rename each local variable (declared with := or var inside the function).
func (g *vgen) renames(fd *ast.FuncDecl) {
	if fd.Body == nil {
		return
	}
	info := g.pk.TypesInfo
	objs := map[types.Object][]*ast.Ident{}
	ast.Inspect(fd, func(n ast.Node) bool {
		id, ok := n.(*ast.Ident)
		if !ok {
			return true
		}
		var o types.Object
		if d := info.Defs[id]; d != nil {
			o = d
		} else if u := info.Uses[id]; u != nil {
			o = u
		}
		if v, ok := o.(*types.Var); ok && !v.IsField() && v.Pkg() != nil && v.Parent() != nil && v.Parent() != v.Pkg().Scope() {
			// declared inside this function (body, parameter list or receiver)?
			if v.Pos() >= fd.Pos() && v.Pos() <= fd.End() {
				objs[o] = append(objs[o], id)
			}
		}
		return true
	})
	// struct-literal keys / shorthand are not Idents of the var, so a plain rename is safe
	var os_ []types.Object
	for o := range objs {
		os_ = append(os_, o)
	}
	sort.Slice(os_, func(i, j int) bool { return os_[i].Pos() < os_[j].Pos() })
	for _, o := range os_ {
		ids := objs[o]
		if o.Name() == "_" || len(ids) == 0 {
			continue
		}
		// build the function text with all occurrences renamed
		s, e := g.fset.Position(fd.Pos()).Offset, g.fset.Position(fd.End()).Offset
		body := append([]byte{}, g.src[s:e]...)
		sort.Slice(ids, func(i, j int) bool { return ids[i].Pos() > ids[j].Pos() })
		nn := o.Name() + "Rn"
		for _, id := range ids {
			a := g.fset.Position(id.Pos()).Offset - s
			b := g.fset.Position(id.End()).Offset - s
			body = append(append(append([]byte{}, body[:a]...), nn...), body[b:]...)
		}
		g.out = append(g.out, variant{Op: "rename-local", File: g.file, Line: g.fset.Position(o.Pos()).Line, Func: fd.Name.Name, Old: o.Name(), New: string(body), s: s, e: e})
	}
}

var boundary = map[token.Token]string{token.LSS: "<=", token.LEQ: "<", token.GTR: ">=", token.GEQ: ">"}

func (g *vgen) fault(n ast.Node, stack []ast.Node) {
	switch x := n.(type) {
	case *ast.FuncDecl:
		// the method works on a copy of its receiver
		if x.Recv != nil && len(x.Recv.List) == 1 {
			if st, ok := x.Recv.List[0].Type.(*ast.StarExpr); ok {
				g.add("value-receiver", st, g.text(st.X))
			}
		}
	case *ast.BranchStmt:
		if x.Tok == token.FALLTHROUGH {
			g.add("del-fallthrough", x, "")
		}
	case *ast.BlockStmt:
		// two adjacent simple statements change places
		simple := func(s ast.Stmt) bool {
			switch s.(type) {
			case *ast.ExprStmt, *ast.AssignStmt, *ast.IncDecStmt:
				return true
			}
			return false
		}
		for i := 0; i+1 < len(x.List); i++ {
			a, b := x.List[i], x.List[i+1]
			if simple(a) && simple(b) {
				s0, e1 := g.fset.Position(a.Pos()).Offset, g.fset.Position(b.End()).Offset
				mid := string(g.src[g.fset.Position(a.End()).Offset:g.fset.Position(b.Pos()).Offset])
				g.out = append(g.out, variant{Op: "swap-stmts", File: g.file, Line: g.fset.Position(a.Pos()).Line, Func: g.fn,
					Old: strings.Join(strings.Fields(g.text(a)+" ; "+g.text(b)), " "), New: g.text(b) + mid + g.text(a), s: s0, e: e1})
			}
		}
	case *ast.IfStmt:
		g.add("negate-if", x.Cond, "!("+g.text(x.Cond)+")")
	case *ast.BinaryExpr:
		l, r := g.text(x.X), g.text(x.Y)
		switch x.Op {
		case token.LSS, token.LEQ, token.GTR, token.GEQ:
			g.add("boundary", x, l+" "+boundary[x.Op]+" "+r)
		case token.EQL:
			g.add("eq-neq", x, l+" != "+r)
		case token.NEQ:
			g.add("eq-neq", x, l+" == "+r)
		case token.LAND:
			g.add("and-or", x, l+" || "+r)
		case token.LOR:
			g.add("and-or", x, l+" && "+r)
		case token.ADD:
			if g.isNumeric(x.X) {
				g.add("plus-minus", x, l+" - "+r)
			}
		case token.SUB:
			if g.isNumeric(x.X) {
				g.add("plus-minus", x, l+" + "+r)
			}
		}
	case *ast.UnaryExpr:
		if x.Op == token.NOT {
			g.add("drop-not", x, g.text(x.X))
		}
	case *ast.BasicLit:
		if x.Kind == token.INT {
			// skip array sizes etc.; only in expressions
			g.add("int+1", x, "("+x.Value+" + 1)")
		}
	case *ast.Ident:
		if x.Name == "true" || x.Name == "false" {
			if _, isConst := g.pk.TypesInfo.Uses[x].(*types.Const); isConst {
				nv := "false"
				if x.Name == "false" {
					nv = "true"
				}
				g.add("bool-flip", x, nv)
			}
		}
	case *ast.ExprStmt:
		if _, ok := x.X.(*ast.CallExpr); ok {
			g.add("del-call", x, "")
		}
	case *ast.AssignStmt:
		if x.Tok == token.ASSIGN || x.Tok == token.ADD_ASSIGN || x.Tok == token.SUB_ASSIGN {
			g.add("del-assign", x, "")
		}
	case *ast.IncDecStmt:
		g.add("del-assign", x, "")
	case *ast.DeferStmt:
		g.add("undefer", x, g.text(x.Call))
	case *ast.SelectorExpr:
		// sibling-field swap: x.F → x.G, G another field of the same struct with identical type
		sel, ok := g.pk.TypesInfo.Selections[x]
		if !ok || sel.Kind() != types.FieldVal {
			return
		}
		// not on the left of a key:value in composite literals (those are not SelectorExprs anyway)
		recv := sel.Recv()
		if p, ok := recv.Underlying().(*types.Pointer); ok {
			recv = p.Elem()
		}
		st, ok := recv.Underlying().(*types.Struct)
		if !ok {
			return
		}
		ft := sel.Obj().Type()
		for i := 0; i < st.NumFields(); i++ {
			f := st.Field(i)
			if f.Name() != sel.Obj().Name() && types.Identical(f.Type(), ft) && (f.Exported() || f.Pkg() == g.pk.Types) {
				g.add("sibling-field", x.Sel, f.Name())
				break
			}
		}
	case *ast.CallExpr:
		// an error / pointer argument becomes nil
		if tv, ok := g.pk.TypesInfo.Types[x.Fun]; !ok || !tv.IsType() {
			for _, a := range x.Args {
				ti, okI := g.pk.TypesInfo.Types[a]
				if !okI || ti.Type == nil {
					continue
				}
				if id, isID := a.(*ast.Ident); isID && id.Name == "nil" {
					continue
				}
				if _, isPtr := ti.Type.Underlying().(*types.Pointer); isPtr || ti.Type.String() == "error" {
					g.add("nil-arg", a, "nil")
				}
			}
		}
		// swap two adjacent arguments of identical type
		for i := 0; i+1 < len(x.Args); i++ {
			ta, oka := g.pk.TypesInfo.Types[x.Args[i]]
			tb, okb := g.pk.TypesInfo.Types[x.Args[i+1]]
			if oka && okb && ta.Type != nil && tb.Type != nil && types.Identical(ta.Type, tb.Type) && g.text(x.Args[i]) != g.text(x.Args[i+1]) {
				s, e := g.fset.Position(x.Args[i].Pos()).Offset, g.fset.Position(x.Args[i+1].End()).Offset
				repl := g.text(x.Args[i+1]) + ", " + g.text(x.Args[i])
				g.out = append(g.out, variant{Op: "swap-args", File: g.file, Line: g.fset.Position(x.Pos()).Line, Func: g.fn, Old: string(g.src[s:e]), New: repl, s: s, e: e})
				break
			}
		}
	}
}

// SweepSummary is what the thorough tier records in evidence.
type SweepSummary struct {
	Mode      string   `json:"mode"`
	Generated int      `json:"variants_generated_in_anchor_files"`
	Run       int      `json:"variants_run"`
	TypeCheck int      `json:"type_check"`
	Silent    int      `json:"silent"`
	Alarmed   int      `json:"raise_this_property"`
	Examples  []string `json:"examples,omitempty"`
}

// sweepForProperty runs a sampled sweep restricted to the property's anchor files and
// to that property's own rules (thorough tier; informational, never changes the exit code).
func sweepForProperty(propID, mode, repo, verif string, files []string, max, jobs int) *SweepSummary {
	vs, srcs, err := genVariants(repo, mode)
	if err != nil {
		return &SweepSummary{Mode: mode}
	}
	inAnchor := func(f string) bool {
		for _, a := range files {
			if strings.HasSuffix(f, "/"+a) {
				return true
			}
		}
		return false
	}
	var pool []variant
	for _, v := range vs {
		if inAnchor(v.File) {
			pool = append(pool, v)
		}
	}
	sum := &SweepSummary{Mode: mode, Generated: len(pool)}
	if len(pool) == 0 {
		return sum
	}
	stride := 1
	if len(pool) > max {
		stride = (len(pool) + max - 1) / max
	}
	seed := seedFromEnv()
	var sel []variant
	for i := seed % stride; i < len(pool); i += stride {
		sel = append(sel, pool[i])
	}
	sum.Run = len(sel)
	tmp, _ := os.MkdirTemp("", "tl-psweep")
	defer os.RemoveAll(tmp)
	exe, _ := os.Executable()
	res := make([]variantResult, len(sel))
	sem := make(chan struct{}, jobs)
	var wg sync.WaitGroup
	for i, v := range sel {
		wg.Add(1)
		go func(i int, v variant) {
			defer wg.Done()
			sem <- struct{}{}
			defer func() { <-sem }()
			src := srcs[v.File]
			mut := append(append(append([]byte{}, src[:v.s]...), v.New...), src[v.e:]...)
			mf := filepath.Join(tmp, fmt.Sprintf("%d.go", v.ID))
			os.WriteFile(mf, mut, 0o644)
			cmd := exec.Command(exe, "variant", "-repo", repo, "-verif", verif, "-target", v.File, "-content", mf, "-p", propID)
			var ob bytes.Buffer
			cmd.Stdout = &ob
			err := cmd.Run()
			os.Remove(mf)
			r := variantResult{variant: v}
			if err == nil {
				var cr struct {
					Fired []string `json:"fired"`
				}
				if json.Unmarshal(ob.Bytes(), &cr) == nil {
					r.Loads = true
					r.Fired = cr.Fired
				}
			}
			res[i] = r
		}(i, v)
	}
	wg.Wait()
	for _, r := range res {
		if !r.Loads {
			continue
		}
		sum.TypeCheck++
		if len(r.Fired) == 0 {
			sum.Silent++
			if mode == "fault" && len(sum.Examples) < 6 {
				f := r.File
				if i := strings.LastIndex(f, "/"); i >= 0 {
					f = f[i+1:]
				}
				sum.Examples = append(sum.Examples, fmt.Sprintf("survivor: %s %s:%d %s %q → %q", r.Op, f, r.Line, r.Func, r.Old, trunc(r.New, 60)))
			}
		} else {
			sum.Alarmed++
			if len(sum.Examples) < 6 && mode == "equiv" {
				sum.Examples = append(sum.Examples, fmt.Sprintf("ALARM on equivalent variant: %s %s:%d %s %q fired %v", r.Op, r.File, r.Line, r.Func, r.Old, r.Fired))
			}
		}
	}
	return sum
}

func trunc(s string, n int) string {
	s = strings.Join(strings.Fields(s), " ")
	if len(s) > n {
		return s[:n] + "…"
	}
	return s
}

// smokeTest runs the repository's own fast tests on one variant through `go test -overlay`
// (no copy of the repository is made): seat_manager and open_game_manager variants run their
// package's tests; everything else runs the actor package's basic end-to-end test.
func smokeTest(repo, tmp string, v variant, mut []byte) bool {
	mf := filepath.Join(tmp, fmt.Sprintf("smoke-%d.go", v.ID))
	of := filepath.Join(tmp, fmt.Sprintf("smoke-%d.json", v.ID))
	os.WriteFile(mf, mut, 0o644)
	defer os.Remove(mf)
	defer os.Remove(of)
	ob, _ := json.Marshal(map[string]interface{}{"Replace": map[string]string{v.File: mf}})
	os.WriteFile(of, ob, 0o644)
	args := []string{"test", "-overlay=" + of, "-vet=off", "-count=1", "-timeout", "90s"}
	switch {
	case strings.Contains(v.File, "/seat_manager/"):
		args = append(args, "./seat_manager")
	case strings.Contains(v.File, "/open_game_manager/"):
		args = append(args, "./open_game_manager")
	default:
		args = append(args, "-run", "TestActor_Basic|TestActor_ObserverRunner_PlayerAct", "./actor")
	}
	cmd := exec.Command("go", args...)
	cmd.Dir = repo
	cmd.Env = append(os.Environ(), "GOFLAGS=-mod=mod", "GOPROXY=off", "GOSUMDB=off", "GOTOOLCHAIN=local")
	return cmd.Run() == nil
}
