package main

// C10.R10 — "only if the hand currently allows that action for them".
//
// The engine delegates this test to the hand rules library (pokerface, pinned in go.mod, part of the
// type-checked program): the hand wrapper validates whose turn it is and hands the action to the backend.
// That delegation is sound only where the library REJECTS an action that is not allowed. The rule reads the
// library's player methods: for action X, player.X must return a non-nil error on every path where
// CheckAction("x") is false. Where it does not (it ignores the action and reports success), the hand wrapper's
// own method X must test HasAction(own index, "x") and refuse before calling the backend — otherwise an action
// the hand does not allow is reported as accepted, recorded as the table's last action and published.

import (
	"fmt"
	"strings"

	"golang.org/x/tools/go/ssa"
)

// libraryRejects: does pokerface's player method for the action reject a disallowed action?
// returns (found, rejects, where)
func libraryRejects(p *Prog, method, label string) (bool, bool, string) {
	for _, f := range p.AllFuncs {
		if f.Name() != method || f.Signature.Recv() == nil || f.Pkg == nil || !strings.HasSuffix(f.Pkg.Pkg.Path(), "/pokerface") {
			continue
		}
		if n := namedOf(f.Signature.Recv().Type()); n == nil || n.Obj().Name() != "player" {
			continue
		}
		isTest := func(s *Sym) bool {
			s = s.Strip()
			if s.Kind != "call" || !strings.HasSuffix(s.Name, "CheckAction") || len(s.Args) < 2 {
				return false
			}
			v, ok := s.Args[len(s.Args)-1].ConstString()
			return ok && v == label
		}
		tested, rejects := false, true
		for _, b := range f.Blocks {
			for _, in := range b.Instrs {
				r, ok := in.(*ssa.Return)
				if !ok || !guardedBy(p.Guards(r), false, isTest) {
					continue
				}
				tested = true
				if len(r.Results) == 0 || p.Sym(r.Results[len(r.Results)-1]).IsNil() {
					rejects = false
				}
			}
		}
		return true, tested && rejects, p.Pos(f.Pos())
	}
	return false, false, "-"
}

func checkDelegatedLegality(c *Ctx, rule string) {
	p := c.P
	gt := p.singleImpl("", "Game")
	if gt == nil {
		c.Bad(rule, "delegated-legality:anchors", "-", "hand wrapper not found")
		return
	}
	labels := map[string]string{"Fold": "fold", "Check": "check", "Call": "call", "Allin": "allin", "Bet": "bet", "Raise": "raise", "Pass": "pass", "Pay": "pay"}
	n := 0
	for _, m := range []string{"Fold", "Check", "Call", "Allin", "Bet", "Raise", "Pass", "Pay"} {
		f := p.Method(gt, m)
		if f == nil {
			c.Bad(rule, "delegated-legality:"+m, "-", "hand-side action not found")
			continue
		}
		var back ssa.CallInstruction
		for _, ci := range Calls(f) {
			if isBackendCall(ci.Common()) {
				back = ci
			}
		}
		if back == nil {
			c.Bad(rule, "delegated-legality:"+m, p.Pos(f.Pos()), "the action no longer reaches the backend")
			continue
		}
		n++
		label := labels[m]
		// own test in the wrapper: HasAction(own index, label) (directly or through the allowed-action validator)
		own := false
		for _, g := range p.Guards(back) {
			s := g.Cond.Strip()
			if g.Val && s.Kind == "call" && strings.HasSuffix(s.Name, "HasAction") {
				if v, ok := s.Args[len(s.Args)-1].ConstString(); ok && v == label && symIsParam(s.Args[len(s.Args)-2], f.Params[1]) {
					own = true
				}
			}
			if cm := g.AsCmp(); cm != nil && cm.R.IsNil() && cm.L.Strip().Kind == "call" && strings.HasSuffix(cm.L.Strip().Name, "validateActionMove") {
				a := cm.L.Strip().Args
				if v, ok := a[len(a)-1].ConstString(); ok && v == label && symIsParam(a[len(a)-2], f.Params[1]) {
					own = true
				}
			}
		}
		found, rejects, where := libraryRejects(p, calleeShort(back), label)
		switch {
		case own:
			c.Ok(rule, "delegated-legality:"+m, p.InstrPos(back), "the wrapper itself refuses unless the hand allows \""+label+"\" for this player")
		case found && rejects:
			c.Ok(rule, "delegated-legality:"+m, p.InstrPos(back), "delegated: pokerface's player."+m+" ("+where+") returns an error on every path where CheckAction(\""+label+"\") is false")
		case found:
			c.Bad(rule, "delegated-legality:"+m, p.InstrPos(back), fmt.Sprintf("pokerface's player.%s (%s) does not reject a \"%s\" that is not allowed (it returns nil), and the hand wrapper tests only whose turn it is: the engine reports the action as accepted, records it as the table's last player action and publishes an action event", m, where, label))
		default:
			c.Undecided(rule, "delegated-legality:"+m, p.InstrPos(back), "pokerface's player."+m+" not found in the type-checked program")
		}
	}
	c.Min(rule, "hand-side actions delegated to the backend", n, 8)
}

// calleeShort: bare method name of a call
func calleeShort(ci ssa.CallInstruction) string {
	cm := ci.Common()
	if cm.IsInvoke() {
		return cm.Method.Name()
	}
	if sc := cm.StaticCallee(); sc != nil {
		return sc.Name()
	}
	return ""
}
