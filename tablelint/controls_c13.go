package main

func controlsC13() []Control {
	return []Control{
		{Name: "error event reports a nil error to the host", Expect: "R3", Mutate: replaceIn("(*tableEngine).emitErrorEvent", "te.onTableErrorUpdated(te.table, err)", "te.onTableErrorUpdated(te.table, nil)", 0)},
		{Name: "backend asked to check on a nil state", Expect: "R2", Mutate: replaceIn("(*game).Check", "g.backend.Check(g.gs)", "g.backend.Check(nil)", 0)},
		{Name: "failed bet also reported through the hand's error listener", Expect: "R1", Mutate: replaceIn("(*game).Bet", "\tgs, err := g.backend.Bet(g.gs, chips)\n\tif err != nil {\n", "\tgs, err := g.backend.Bet(g.gs, chips)\n\tif err != nil {\n\t\tg.onGameErrorUpdated(gs, err)\n", 0)},
		{Name: "game.Check updates the state before testing the backend error", Expect: "R1", Mutate: replaceIn("(*game).Check", "gs, err := g.backend.Check(g.gs)\n", "gs, err := g.backend.Check(g.gs)\n\tg.updateGameState(gs)\n", 0)},
		{Name: "NativeGameBackend.Fold passes the caller's state uncloned", Expect: "R5", Mutate: replaceIn("(*NativeGameBackend).Fold", "cloneGameState(gs)", "gs", 0)},
		{Name: "onRoundClosed drops the error report", Expect: "R2", Mutate: replaceIn("(*game).onRoundClosed", "g.onGameErrorUpdated(gs, err)", "", 0)},
		{Name: "game.Bet ignores the backend error", Expect: "R2", Mutate: replaceIn("(*game).Bet", "gs, err := g.backend.Bet(g.gs, chips)\n\tif err != nil {\n\t\treturn g.GetGameState(), err\n\t}", "gs, _ := g.backend.Bet(g.gs, chips)", 0)},
		{Name: "startGame does not register the hand error handler", Expect: "R3", Mutate: replaceIn("(*tableEngine).startGame", "te.game.OnGameErrorUpdated(func(gs *pokerface.GameState, err error) {\n\t\tte.table.State.GameState = gs\n\t\tgo te.emitErrorEvent(\"OnGameErrorUpdated\", \"\", err)\n\t})", "", 0)},
		{Name: "the hand stores the state object it was given", Expect: "R5", Mutate: replaceIn("(*game).updateGameState", "state := g.cloneState(gs)", "state := gs", 0)},
		{Name: "NativeGameBackend.Call returns the engine's own state", Expect: "R5", Mutate: replaceIn("(*NativeGameBackend).Call", "return ngb.getState(g), nil", "return g.GetState(), nil", 0)},
		{Name: "ante completion ignores PayAnte failure", Expect: "R2", Mutate: replaceIn("(*game).onAnteRequested", "if err != nil {\n\t\t\tg.onGameErrorUpdated(gs, err)\n\t\t\treturn\n\t\t}", "_ = err", 0)},
		{Name: "open-game callback drops the open error", Expect: "R3", Mutate: replaceIn("(*tableEngine).CreateTable", "te.emitErrorEvent(\"OnOpenGameReady#tableGameOpen\", \"\", err)", "_ = err", 0)},
		{Name: "PlayerFold records the fold before the hand accepted it", Expect: "R4", Mutate: replaceIn("(*tableEngine).PlayerFold", "gs, err := te.game.Fold(gamePlayerIdx)", "te.table.State.PlayerStates[playerIdx].GameStatistics.IsFold = true\n\tgs, err := te.game.Fold(gamePlayerIdx)", 0)},
		{Name: "hand error handler returns early on a nil state", Expect: "R3", Mutate: replaceIn("(*tableEngine).startGame", "\t\tte.table.State.GameState = gs\n\t\tgo te.emitErrorEvent", "\t\tif gs == nil {\n\t\t\treturn\n\t\t}\n\t\tte.table.State.GameState = gs\n\t\tgo te.emitErrorEvent", 0)},
		{Name: "error callback setter drops the callback", Expect: "R3", Mutate: replaceIn("(*tableEngine).OnTableErrorUpdated", "te.onTableErrorUpdated = fn", "_ = fn", 0)},
		{Name: "move validator raises a flag of the hand object that only the next state lowers", Expect: "R1", Mutate: replaceIn("(*game).validatePlayMove", "\tif g.gs.Status.CurrentPlayer != playerIdx {\n\t\treturn ErrGameInvalidAction\n\t}\n", "\tif g.gs.Status.CurrentPlayer != playerIdx {\n\t\treturn ErrGameInvalidAction\n\t}\n\tg.rg = nil\n", 0)},
	}
}
