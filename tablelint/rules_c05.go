package main

// C05 — exactly the eligible players are dealt in; newcomers wait for the blind.

import (
	"fmt"
	"go/token"
	"go/types"

	"golang.org/x/tools/go/ssa"
)

func init() {
	register(&PropMeta{
		ID:          "C05",
		Level:       "other",
		Explanation: "Decides the data flow that makes 'dealt in' equal 'eligible': (R1) at open the dealt-in flag of every player (loop over the full list) is copied from the seat manager's eligibility answer for that same player, only after positions were initialised/rotated, and every failure returns the old table; (R2) the hand list is built only from flagged players; (R3) eligibility ≡ seated-in ∧ not waiting ∧ has chips; (R4) every bankroll writer outside construction refreshes the seat manager's has-chips flag for that player (settlement: through the continue step's loop over all players with Bankroll > 0); (R5) both assigners set the waiting flag of a new seat from 'positions initialised ? between dealer and BB : false', and the predicate is false for short deck; (R6) the rotation re-evaluates the waiting flag only for non-eligible seats; (R7) fewer than two eligible ⇒ the rotation refuses and the open step reports the open-failed error; (R8) the seated-in flag is set together with the seat manager's. NOT decided: 'never misses more than three hands', eligibility persistence over histories.",
		Rules: map[string]string{
			"R1": "dealt-in flag ← SeatManager.IsPlayerActive(same player) for every player, after init/rotate; failures return the old table; success exits of the open step return the clone after a successful rotation/initialisation; initialise only when never initialised, rotate otherwise, one site each; the dealt-in flag is written only by the open and continue steps from IsPlayerActive(same player)",
			"R2": "hand list built only from players whose dealt-in flag is set; the scans that build it cover one full circle of seats, skip only unset entries and start as specified in C06.R10",
			"R3": "eligibility definition",
			"R4": "has-chips refresh pairing for every bankroll writer",
			"R5": "the waiting flag is written only by the two seat assigners and by the rotation / initial positioning (and helpers only they call); waiting flag on seating in both assigners; predicate false for short deck / uninitialised; the waiting arc is exact: short deck → false, wrapping arc → true iff some i in (dealer, bb+N) has i%N == target, else target < bb ∧ target > dealer; asked as arc(dealer seat, bb seat, own seat)",
			"R6": "rotation rewrites the waiting flag for exactly the occupied, non-eligible seats (only them, and every one of them), on every rotation of that branch (outer conditions: rule, eligible count, heads-up, an earlier scan — nothing else); re-evaluated with arc(a value stored as the new dealer seat, the value stored as the new BB seat, the seat itself)",
			"R7": "refusal propagates out of open as the open-failed error; no known-nil error returned (inverted test)",
			"R8": "seated-in pairing (as C03.R7)",
			"R9": "seat-manager side of eligibility: UpdatePlayerHasChips writes the given flag to HasChips of the seat found for the id; IsPlayerActive answers Active() of that seat and (false, err) for an unknown id; InitPositions marks initialised only after a successful initialisation and never initialises twice",
		},
		Assumptions: []string{},
		Run:         checkC05,
		Controls:    controlsC05,
	})
}

// passesOneOf: every path from the function entry to target passes one of the via instructions.
func passesOneOf(target ssa.Instruction, via []ssa.Instruction) bool {
	f := target.Parent()
	avoid := map[*ssa.BasicBlock]bool{}
	for _, v := range via {
		if v.Block() == target.Block() && instrIndex(v) < instrIndex(target) {
			return true
		}
		avoid[v.Block()] = true
	}
	seen := map[*ssa.BasicBlock]bool{}
	st := []*ssa.BasicBlock{f.Blocks[0]}
	for len(st) > 0 {
		b := st[len(st)-1]
		st = st[:len(st)-1]
		if seen[b] || avoid[b] {
			continue
		}
		seen[b] = true
		if b == target.Block() {
			return false
		}
		st = append(st, b.Succs...)
	}
	return true
}

func fullRange(iv *Sym, coll func(*Sym) bool) bool {
	iv = iv.Strip()
	if iv.Kind != "ind" {
		return false
	}
	ind := iv.Ind
	first, isC := ind.First.ConstInt()
	return isC && first == 0 && ind.Step == 1 && !ind.Incl && ind.Bound != nil && ind.Bound.IsCall("len") && coll(ind.Bound.Strip().Args[0].Strip())
}

func checkC05(c *Ctx) {
	p := c.P
	checkNoKnownNilErrorReturn(c, "R7", func(f *ssa.Function) bool { return (inPkg(p, f, "") || inSeatManagerPkg(p, f)) && f.Parent() == nil }, 20)
	lc := p.lifecycle()
	smT := p.singleImpl("/seat_manager", "SeatManager")
	if lc.openFn == nil || lc.continueFn == nil || smT == nil {
		c.Bad("R1", "anchors", "-", "open / continue step or seat manager not found")
		return
	}
	open := lc.openFn
	// ---------------- R1
	checkDealtInCopy(c, "R1")
	// who-may-write the dealt-in flag: open step and continue step (both from the seat
	// manager's eligibility answer for that same player), false at construction
	for _, ss := range p.FieldStores("TablePlayerState", "IsParticipated") {
		if ss.Fn == open {
			continue
		}
		where := p.InstrPos(ss.Instr)
		if b, isB := ss.Val.ConstBool(); storeIsLocal(ss.Instr) && isB && !b {
			continue
		}
		v := ss.Val.Strip()
		pl := ss.Addr.Strip().Args[0].Strip()
		ok := ss.Fn == lc.continueFn && v.Kind == "extract" && v.Name == "0" && v.Args[0].IsCall("SeatManager.IsPlayerActive") &&
			v.Args[0].Strip().Args[1].Strip().IsField("TablePlayerState", "PlayerID") && v.Args[0].Strip().Args[1].Strip().Args[0].Strip().String() == pl.String()
		c.Check(ok, "R1", "dealt-in-writer:"+FuncName(ss.Fn), where, "IsParticipated ← IsPlayerActive(same player) in the continue step", "the dealt-in flag is written from "+v.String()+" outside the open/continue steps' eligibility copy")
	}
	// error exits return the old table
	okGs, _, okRets, errRets, ab := p.ExitsWithGuards(open)
	// success exits return the clone, and only after the rotation / initialisation AND every
	// eligibility query succeeded
	{
		okNew := !ab && len(okRets) >= 1
		dNew := ""
		for i, r := range okRets {
			root := p.Sym(r.Results[0]).Root()
			if !(root.Kind == "extract" && root.Args[0].IsCall("Table.Clone")) {
				okNew, dNew = false, fmt.Sprintf("the exit at %s reports success but returns %s, not the new hand's table", p.InstrPos(r), p.Sym(r.Results[0]))
				continue
			}
			rotated := false
			for _, ci := range Calls(open) {
				call, isCall := ci.(*ssa.Call)
				if !isCall {
					continue
				}
				switch calleeName(call.Common()) {
				case "SeatManager.InitPositions", "SeatManager.RotatePositions":
					ev := callErrValue(call)
					if nilGuard(okGs[i], true, func(x *Sym) bool { return x.V == ev }) {
						rotated = true
					}
				}
			}
			if !rotated {
				okNew, dNew = false, fmt.Sprintf("the open step can succeed (exit at %s) without a successful rotation or initialisation of the positions", p.InstrPos(r))
			}
		}
		c.Check(okNew, "R1", "open-success-returns-rotated-clone", p.Pos(open.Pos()), fmt.Sprintf("%d success exit(s) return the clone after a successful rotation", len(okRets)), dNew)
	}
	checkOpenRotation(c, "R1")
	checkSeatFlagDefs(c, "R9")
	checkSeatManagerConstruction(c, "R9")
	okOld := !ab
	d := ""
	for _, r := range errRets {
		if !symIsParam(p.Sym(r.Results[0]), open.Params[1]) {
			okOld, d = false, fmt.Sprintf("the failing exit at %s returns %s instead of the old table", p.InstrPos(r), p.Sym(r.Results[0]))
		}
	}
	c.Check(okOld && len(errRets) >= 4, "R1", "open-failures-return-old-table", p.Pos(open.Pos()), fmt.Sprintf("%d error exits return the old table", len(errRets)), d)

	// ---------------- R7
	var via []ssa.Instruction
	for _, ci := range Calls(open) {
		switch calleeName(ci.Common()) {
		case "SeatManager.InitPositions", "SeatManager.RotatePositions":
			via = append(via, ci)
		}
	}
	memo := map[*ssa.Function]map[string]bool{}
	for _, v := range via {
		call, ok := v.(*ssa.Call)
		if !ok {
			continue
		}
		ev := callErrValue(call)
		found := false
		for _, b := range open.Blocks {
			for _, in := range b.Instrs {
				if r, isR := in.(*ssa.Return); isR && nilGuard(p.Guards(r), false, func(s *Sym) bool { return s.V == ev }) {
					s := p.Sym(retValue(r, 1)).Strip()
					if s.Kind == "global" && s.Name == "pokertable.ErrTableOpenGameFailed" {
						found = true
					}
				}
			}
		}
		c.Check(found, "R7", "refusal-propagates:"+calleeName(call.Common()), p.InstrPos(call), "failure → ErrTableOpenGameFailed", "a refused "+calleeName(call.Common())+" is not reported as the open-failed error")
	}
	_ = memo

	// ---------------- R2
	var builder *ssa.Function
	for _, ss := range p.FieldStores("TableState", "GamePlayerIndexes") {
		if ss.Fn == open {
			v := ss.Val.Strip()
			if v.Kind == "call" && v.Call.Common().StaticCallee() != nil {
				builder = v.Call.Common().StaticCallee()
			}
		}
	}
	if builder == nil {
		c.Bad("R2", "hand-list-builder", "-", "the open step does not build the hand list through a function")
	} else {
		n := 0
		for _, ci := range Calls(builder) {
			cs := p.CallSym(ci)
			if cs.Kind != "builtin" || cs.Name != "append" || !isIntSlice(ci.Common().Args[0]) {
				continue
			}
			// only appends that feed the returned list
			elem := appendedElem(p, ci)
			if elem == nil {
				continue
			}
			n++
			gs := p.Guards(ci)
			ok := guardedBy(gs, true, func(s *Sym) bool {
				return s.IsField("TablePlayerState", "IsParticipated") && s.Args[0].Strip().Kind == "index" && s.Args[0].Strip().Args[1].Strip().String() == elem.String()
			})
			c.Check(ok, "R2", "hand-list-append", p.InstrPos(ci), "appended player is flagged dealt-in", "a player is put on the hand list without testing that player's dealt-in flag (appended index "+elem.String()+")")
		}
		c.Min("R2", "appends to the hand list", n, 3)
		// … and every flagged player is on it: the scans cover every seat and skip only unset entries
		checkHandListStart(c, "R2")
	}

	// ---------------- R3
	checkEligibility(c, "R3")

	// ---------------- R4
	checkHasChipsRefresh(c, "R4", lc)

	// ---------------- R5
	// who may decide that a seated player waits for the button: the two seat assigners (for the seat they hand
	// out) and the rotation / initial positioning (re-evaluation). Anything else that writes the flag — a
	// sit-in, a chips refresh — makes a seated-in player with chips wait (or stop waiting) outside the rule.
	{
		allowed := map[*ssa.Function]bool{}
		var roots []*ssa.Function
		for _, name := range []string{"AssignSeats", "RandomAssignSeats", "RotatePositions", "InitPositions"} {
			if f := p.Method(smT, name); f != nil {
				roots = append(roots, f)
			}
		}
		for _, f := range p.CG().Reach(roots, ReachOpts{SyncOnly: true, RepoOnly: true}).Order {
			allowed[f] = true
		}
		nW := 0
		for _, ss := range p.FieldStores("SeatPlayer", "IsBetweenDealerBB") {
			if storeIsLocal(ss.Instr) {
				continue
			}
			nW++
			// reachable from an assigner / the rotation, and from nothing else exported
			okW := allowed[ss.Fn]
			isRoot := false
			for _, r := range roots {
				isRoot = isRoot || r == ss.Fn
			}
			if okW && !isRoot {
				for _, site := range p.CG().AllCallSitesOf(ss.Fn) {
					if !allowed[site.Parent()] {
						okW = false
					}
				}
			}
			c.Check(okW, "R5", "waiting-flag-writer:"+FuncName(ss.Fn), p.InstrPos(ss.Instr), "written by a seat assigner or the rotation", "the waiting flag is written in "+FuncName(ss.Fn)+", which is not (only) part of seat assignment or of the rotation: a seated-in player with chips can be made to wait — or be released — by another operation")
		}
		c.Min("R5", "waiting-flag writers", nW, 4)
	}
	checkAssignWaitingFlag(c, "R5", smT)
	if f := p.Method(smT, "IsPlayerBetweenDealerBB"); f != nil {
		// true only when initialised and not short deck
		ok := true
		d := ""
		wk := &Walker{P: p, Fn: f, OnExit: func(in ssa.Instruction, st *WState) {
			r, isR := in.(*ssa.Return)
			if !isR {
				return
			}
			rv := st.Resolve(r.Results[0])
			if cst, isC := rv.(*ssa.Const); isC {
				if b, _ := constBool(cst); !b {
					return
				}
			}
			gs := st.PathGuards(p)
			init := guardedBy(gs, true, func(s *Sym) bool { return s.IsField("seatManager", "IsInit") })
			notShort := cmpHolds(gs, func(l, r *Sym, op token.Token) bool {
				s, _ := r.ConstString()
				return op == token.NEQ && l.Strip().IsField("seatManager", "Rule") && s == "short_deck"
			})
			if !init || !notShort {
				ok, d = false, "the waiting predicate can be true before positions are initialised or on a short-deck table"
			}
		}}
		wk.Run()
		c.Check(ok && !wk.Aborted, "R5", "waiting-predicate", p.Pos(f.Pos()), "true only when initialised and not short deck", d)
	}

	// the waiting arc is OPEN at both ends: (dealer, bb) exclusive, also across the wrap
	checkWaitingArc(c, "R5", smT)

	// the waiting predicate's wrap-around arithmetic (shared rule with C04.R1)
	checkWrapCounters(c, "R5", func(f *ssa.Function) bool { return inSeatManagerPkg(p, f) }, 2)

	// ---------------- R6
	checkRotationWaitingFlags(c, "R6", smT)
	checkRotationArcArguments(c, "R6")

	// ---------------- R8
	checkIsInPairing(c, "R8")
}

func rootAlloc(v ssa.Value) *ssa.Alloc {
	for i := 0; i < 8; i++ {
		switch x := v.(type) {
		case *ssa.Alloc:
			return x
		case *ssa.MakeInterface:
			v = x.X
		case *ssa.ChangeType:
			v = x.X
		default:
			return nil
		}
	}
	return nil
}

func isIntSlice(v ssa.Value) bool {
	s := typeShort(v.Type())
	return s == "[]int"
}

// appendedElem: for append(xs, e) with a single element, the Sym of e.
func appendedElem(p *Prog, ci ssa.CallInstruction) *Sym {
	args := ci.Common().Args
	if len(args) != 2 {
		return nil
	}
	sl, ok := args[1].(*ssa.Slice)
	if !ok {
		return nil
	}
	al, ok := sl.X.(*ssa.Alloc)
	if !ok {
		return nil
	}
	var elem *Sym
	n := 0
	if refs := al.Referrers(); refs != nil {
		for _, r := range *refs {
			if ia, ok := r.(*ssa.IndexAddr); ok {
				if irefs := ia.Referrers(); irefs != nil {
					for _, r2 := range *irefs {
						if st, ok := r2.(*ssa.Store); ok {
							elem = p.Sym(st.Val).Strip()
							n++
						}
					}
				}
			}
		}
	}
	if n != 1 {
		return nil
	}
	return elem
}

// checkWaitingArc (C05.R5): the helper that decides "strictly between dealer and BB":
// the wrap-around loop runs from dealer+1 up to, but excluding, bb+MaxSeat, and every
// comparison that involves the target seat is strict (or an equality with the reduced counter).
func checkWaitingArc(c *Ctx, rule string, smT *types.Named) {
	p := c.P
	pred := p.Method(smT, "IsPlayerBetweenDealerBB")
	if pred == nil {
		c.Bad(rule, "waiting-arc", "-", "waiting predicate not found")
		return
	}
	var arc *ssa.Function
	for _, ci := range Calls(pred) {
		if sc := ci.Common().StaticCallee(); sc != nil && inSeatManagerPkg(p, sc) && len(sc.Params) == 4 && sc.Signature.Results().Len() == 1 {
			arc = sc
		}
	}
	if arc == nil {
		c.Bad(rule, "waiting-arc", p.Pos(pred.Pos()), "the waiting predicate does not delegate to a (dealer, bb, target) helper")
		return
	}
	dealer, bb, target := arc.Params[1], arc.Params[2], arc.Params[3]
	// the public predicate asks the arc from the DEALER seat to the BB seat for the player's own seat
	for _, ci := range Calls(pred) {
		if ci.Common().StaticCallee() != arc {
			continue
		}
		cs := p.CallSym(ci)
		okArgs := len(cs.Args) == 4 &&
			(cs.Args[1].IsCall("seatManager.CurrentDealerSeatID") || cs.Args[1].Strip().IsField("seatManager", "DealerSeatID")) &&
			(cs.Args[2].IsCall("seatManager.CurrentBBSeatID") || cs.Args[2].Strip().IsField("seatManager", "BBSeatID")) &&
			cs.Args[3].Strip().Kind == "rangekey"
		c.Check(okArgs, rule, "waiting-arc:arguments", p.InstrPos(ci), "arc(dealer seat, bb seat, the player's seat)", "the waiting predicate does not ask for the arc from the dealer seat to the big-blind seat around the player's own seat")
	}
	where := p.Pos(arc.Pos())
	isMax := func(s *Sym) bool { return s.Strip().IsField("seatManager", "MaxSeat") }
	sum := func(s *Sym, a func(*Sym) bool, b func(*Sym) bool) bool {
		s = s.Strip()
		if s.Kind != "binop" || s.Name != "+" {
			return false
		}
		return a(s.Args[0]) && b(s.Args[1]) || a(s.Args[1]) && b(s.Args[0])
	}
	isP := func(pr *ssa.Parameter) func(*Sym) bool { return func(s *Sym) bool { return symIsParam(s, pr) } }
	isOne := func(s *Sym) bool { z, ok := s.ConstInt(); return ok && z == 1 }
	nLoop := 0
	seen := map[*ssa.Phi]bool{}
	for _, b := range arc.Blocks {
		for _, in := range b.Instrs {
			v, ok := in.(ssa.Value)
			if !ok {
				continue
			}
			ind := p.induction(v)
			if ind == nil || seen[ind.Phi] {
				continue
			}
			seen[ind.Phi] = true
			nLoop++
			okFirst := sum(ind.First, isP(dealer), isOne)
			okBound := ind.Bound != nil && ind.Step == 1 && (!ind.Incl && ind.Op == token.LSS && sum(ind.Bound, isP(bb), isMax))
			c.Check(okFirst && okBound, rule, "waiting-arc:wrap-loop", p.InstrPos(ind.Phi), "i from dealer+1 while i < bb+MaxSeat", fmt.Sprintf("the wrap-around scan of the waiting predicate does not cover exactly the seats strictly between dealer and big blind (first=%s bound=%v inclusive=%v): the dealer or the big-blind seat itself counts as 'between'", ind.First, ind.Bound, ind.Incl))
		}
	}
	c.Min(rule, "wrap-around loops in the waiting arc helper", nLoop, 1)
	// comparisons involving the target seat
	bad := ""
	nCmp := 0
	for _, b := range arc.Blocks {
		for _, in := range b.Instrs {
			bo, ok := in.(*ssa.BinOp)
			if !ok {
				continue
			}
			s := p.Sym(bo).Strip()
			if s.Kind != "binop" {
				continue
			}
			l, r := s.Args[0].Strip(), s.Args[1].Strip()
			if !symIsParam(l, target) && !symIsParam(r, target) {
				continue
			}
			nCmp++
			switch s.Name {
			case "<", ">", "==":
			default:
				bad = s.String()
			}
		}
	}
	c.Check(bad == "" && nCmp >= 3, rule, "waiting-arc:strict", where, "target compared strictly with dealer and bb", "the waiting predicate compares the target seat non-strictly ("+bad+"): the dealer or big-blind seat itself would count as 'between'")

	// the whole definition, piece by piece:
	//   short deck → false;  bb < dealer (arc wraps) → true as soon as some i of the wrap
	//   loop has i % MaxSeat == target;  otherwise / afterwards → target < bb ∧ target > dealer
	isShort := func(gs []Guard, val bool) bool {
		return cmpHolds(gs, func(l, r *Sym, op token.Token) bool {
			s, _ := r.ConstString()
			want := token.EQL
			if !val {
				want = token.NEQ
			}
			return op == want && l.Strip().IsField("seatManager", "Rule") && s == "short_deck"
		})
	}
	wraps := func(gs []Guard) bool {
		return cmpHolds(gs, func(l, r *Sym, op token.Token) bool {
			l, r = l.Strip(), r.Strip()
			if z, isZ := r.ConstInt(); isZ && z == 0 && op == token.LSS && l.Kind == "binop" && l.Name == "-" && symIsParam(l.Args[0], bb) && symIsParam(l.Args[1], dealer) {
				return true
			}
			return op == token.LSS && symIsParam(l, bb) && symIsParam(r, dealer)
		})
	}
	d := ""
	nTrue, nFinal, nShort := 0, 0, 0
	for _, b := range arc.Blocks {
		r, isR := b.Instrs[len(b.Instrs)-1].(*ssa.Return)
		if !isR || len(r.Results) != 1 {
			continue
		}
		gs := p.Guards(r)
		if k, isK := r.Results[0].(*ssa.Const); isK {
			v, _ := constBool(k)
			switch {
			case !v && isShort(gs, true):
				nShort++
			case v:
				// inside the wrap loop, on a hit
				nTrue++
				hit := cmpHolds(gs, func(l, r *Sym, op token.Token) bool {
					l = l.Strip()
					return op == token.EQL && symIsParam(r, target) && l.Kind == "binop" && l.Name == "%" && isMax(l.Args[1]) && l.Args[0].Strip().Kind == "ind"
				})
				if !hit || !wraps(gs) || !isShort(gs, false) {
					d = "the predicate answers true at " + p.InstrPos(r) + " without a seat of the wrapping arc being the target seat"
				}
			default:
				d = "the predicate answers a constant " + fmt.Sprint(v) + " at " + p.InstrPos(r)
			}
			continue
		}
		// final answer: target < bb ∧ target > dealer, on default-rule tables
		nFinal++
		atoms := p.unfold(r.Results[0], true, nil, 0)
		lt, gt := false, false
		for _, g := range atoms {
			if cm := g.AsCmp(); cm != nil {
				l, rr, op := cm.L.Strip(), cm.R.Strip(), cm.Op
				for k := 0; k < 2; k++ {
					if symIsParam(l, target) && symIsParam(rr, bb) && op == token.LSS {
						lt = true
					}
					if symIsParam(l, target) && symIsParam(rr, dealer) && op == token.GTR {
						gt = true
					}
					l, rr, op = rr, l, flipOp(op)
				}
			}
		}
		nT := 0
		for _, g := range atoms {
			if g.Cond.Contains(func(x *Sym) bool { return symIsParam(x, target) }) {
				nT++
			}
		}
		if !(lt && gt && nT == 2) || !isShort(gs, false) {
			d = "the non-wrapping answer is not target < bb ∧ target > dealer (on a default-rule table)"
		}
	}
	if d == "" && (nTrue != 1 || nFinal != 1 || nShort != 1) {
		d = fmt.Sprintf("unexpected exits: %d hit exit(s), %d final answer(s), %d short-deck refusal(s)", nTrue, nFinal, nShort)
	}
	// the hit test is the only way out of the wrap loop besides its end
	c.Check(d == "", rule, "waiting-arc:definition", where, "short deck → false; wrap ∧ some i%N == target → true; else target < bb ∧ target > dealer", "waiting predicate: "+d)
}

// checkDealtInCopy: at open, every player's dealt-in flag is copied from the seat manager's
// eligibility answer for that player, on the clone, after this hand's positions were
// initialised or rotated. Shared by C05.R1, C06.R9 and C02.R7.
func checkDealtInCopy(c *Ctx, rule string) {
	p := c.P
	lc := p.lifecycle()
	open := lc.openFn
	if open == nil {
		c.Bad(rule, "dealt-in:anchors", "-", "open step not found")
		return
	}
	// ---------------- R1
	var via []ssa.Instruction
	for _, ci := range Calls(open) {
		switch calleeName(ci.Common()) {
		case "SeatManager.InitPositions", "SeatManager.RotatePositions":
			via = append(via, ci)
		}
	}
	n1 := 0
	for _, ss := range p.FieldStores("TablePlayerState", "IsParticipated") {
		if ss.Fn != open {
			continue
		}
		n1++
		where := p.InstrPos(ss.Instr)
		pl := ss.Addr.Strip().Args[0].Strip()
		okLoop := pl.Kind == "index" && pl.Args[0].Strip().IsField("TableState", "PlayerStates") && fullRange(pl.Args[1], func(x *Sym) bool { return x.String() == pl.Args[0].Strip().String() })
		c.Check(okLoop, rule, "dealt-in:full-loop", where, "loop over the full player list", "the dealt-in flag is not refreshed for every player of the table")
		v := ss.Val.Strip()
		okSrc := v.Kind == "extract" && v.Name == "0" && v.Args[0].IsCall("SeatManager.IsPlayerActive") &&
			v.Args[0].Strip().Args[1].Strip().IsField("TablePlayerState", "PlayerID") && v.Args[0].Strip().Args[1].Strip().Args[0].Strip().String() == pl.String()
		c.Check(okSrc, rule, "dealt-in:source", where, "IsParticipated ← IsPlayerActive(same player's id)", "the dealt-in flag is copied from "+v.String()+", not from the seat manager's eligibility answer for that same player")
		c.Check(len(via) >= 2 && passesOneOf(ss.Instr, via), rule, "dealt-in:after-rotation", where, "only after positions were initialised or rotated", "the dealt-in flags can be computed before this hand's positions were initialised/rotated")
		// on the clone
		root := ss.Addr.Root()
		c.Check(root.Kind == "extract" && root.Args[0].IsCall("Table.Clone"), rule, "dealt-in:on-clone", where, "written on the clone", "the dealt-in flag is written on the live table before the open step is known to succeed")
	}
	c.Min(rule, "dealt-in flag stores in the open step", n1, 1)
}

// checkOpenRotation: the open step initialises the positions on the first hand only and
// rotates them on every later hand, exactly one of the two per hand. Shared by C05.R1 and C04.R9.
func checkOpenRotation(c *Ctx, rule string) {
	p := c.P
	open := p.lifecycle().openFn
	if open == nil {
		c.Bad(rule, "open-rotation", "-", "open step not found")
		return
	}
	nI, nR := 0, 0
	for _, ci := range Calls(open) {
		switch calleeName(ci.Common()) {
		case "SeatManager.InitPositions":
			nI++
		case "SeatManager.RotatePositions":
			nR++
		}
	}
	c.Check(nI == 1 && nR == 1, rule, "open-rotation:once-per-hand", p.Pos(open.Pos()), "one init site and one rotate site, mutually exclusive", fmt.Sprintf("the open step has %d initialisation and %d rotation call(s): positions must move exactly once per hand", nI, nR))
	// init only when positions were never initialised, rotate otherwise
	for _, ci := range Calls(open) {
		isInit := func(x *Sym) bool { return x.IsCall("SeatManager.IsInitPositions") }
		switch calleeName(ci.Common()) {
		case "SeatManager.InitPositions":
			c.Check(guardedBy(p.Guards(ci), false, isInit), rule, "first-hand-initialises", p.InstrPos(ci), "InitPositions only when not yet initialised", "positions are re-initialised on a table whose positions already exist (the button would jump instead of moving on)")
		case "SeatManager.RotatePositions":
			c.Check(guardedBy(p.Guards(ci), true, isInit), rule, "later-hands-rotate", p.InstrPos(ci), "RotatePositions only when initialised", "positions are rotated before they were ever initialised")
		}
	}
}

// checkHasChipsRefresh: every bankroll writer outside construction tells the seat manager whether that player
// has chips now (top-ups: the constant true or "new bankroll > 0"; settlement: the continue step's loop over
// every player with Bankroll > 0). Eligibility — and with it who can be big blind — reads that flag.
func checkHasChipsRefresh(c *Ctx, rule string, lc *lifecycle) {
	p := c.P
	for _, ss := range p.FieldStores("TablePlayerState", "Bankroll") {
		shape, _ := classifyBankrollStore(p, ss)
		f := ss.Fn
		where := p.InstrPos(ss.Instr)
		switch shape {
		case "ctor":
			continue
		case "settle-final", "settle-delta":
			// the continue step refreshes every player
			ok := false
			d := "the continue step does not refresh has-chips for every player from Bankroll > 0"
			for _, ci := range Calls(lc.continueFn) {
				cs := p.CallSym(ci)
				if cs.Name != "SeatManager.UpdatePlayerHasChips" {
					continue
				}
				id, val := cs.Args[1].Strip(), cs.Args[2].Strip()
				if !id.IsField("TablePlayerState", "PlayerID") {
					continue
				}
				pl := id.Args[0].Strip()
				if pl.Kind != "index" || !pl.Args[0].Strip().IsField("TableState", "PlayerStates") || !fullRange(pl.Args[1], func(x *Sym) bool { return x.IsField("TableState", "PlayerStates") }) {
					d = "has-chips refresh does not cover the full player list"
					continue
				}
				if !(val.Kind == "binop" && val.Name == ">" && val.Args[0].Strip().IsField("TablePlayerState", "Bankroll") && val.Args[0].Strip().Args[0].Strip().String() == pl.String() && val.Args[1].Strip().Name == "0") {
					d = "has-chips is refreshed from " + val.String() + ", not from that player's Bankroll > 0"
					continue
				}
				hdr := pl.Args[1].Strip().Ind.Phi.Block()
				if body := loopBodyHead(hdr); body == nil || ci.Block() != body {
					d = "the has-chips refresh can be skipped inside the loop"
					continue
				}
				ok = true
			}
			c.Check(ok, rule, "refresh:settlement→continue", where, "continue step refreshes has-chips of every player from Bankroll > 0", d)
		default:
			// a top-up (or anything else): must tell the seat manager about this player
			pl := ss.Addr.Strip().Args[0].Strip()
			ok := false
			d := "chips are added to a player without refreshing the seat manager's has-chips flag: a busted player who tops up this way stays ineligible"
			for _, ci := range Calls(f) {
				cs := p.CallSym(ci)
				if cs.Name != "SeatManager.UpdatePlayerHasChips" {
					continue
				}
				id := cs.Args[1].Strip()
				same := id.IsField("TablePlayerState", "PlayerID") && id.Args[0].Strip().String() == pl.String() ||
					id.IsField("JoinPlayer", "PlayerID") && pl.Kind == "index" && pl.Args[1].Strip().IsCall("Table.FindPlayerIdx") && pl.Args[1].Strip().Args[1].Strip().String() == id.String()
				if !same {
					d = "has-chips is refreshed for a different player (" + id.String() + ")"
					continue
				}
				val := cs.Args[2].Strip()
				tr, isB := val.ConstBool()
				// the flag is the constant true, or "bankroll > 0" of the NEW bankroll: the value being stored
				// compared with 0, or the same player's field read after the store
				isPos := val.Kind == "binop" && val.Name == ">" && val.Args[1].Strip().Name == "0"
				ofStored := isPos && val.Args[0].Strip().String() == ss.Val.Strip().String()
				ofField := isPos && val.Args[0].Strip().IsField("TablePlayerState", "Bankroll") && val.Args[0].Strip().Args[0].Strip().String() == pl.String()
				if !(isB && tr || ofStored || ofField) {
					d = "has-chips is refreshed with " + val.String()
					continue
				}
				if ofField && !ofStored {
					// a read of the field: it must see the credited bankroll
					if !mustPass(ss.Instr, ci) || Dominates(ci, ss.Instr) {
						d = "has-chips is refreshed from the bankroll as it was before the chips were credited: a busted player who tops up stays ineligible until the next hand has been played"
						continue
					}
					ok = true
					continue
				}
				if Dominates(ci, ss.Instr) || mustPass(ss.Instr, ci) {
					ok = true
				} else {
					d = "a path credits the chips without refreshing has-chips"
				}
			}
			c.Check(ok, rule, "refresh:"+FuncName(f), where, "has-chips refreshed for the credited player", d)
		}
	}

}

// checkRotationWaitingFlags (C05.R6, shared as C04.R8): the rotation re-evaluates the waiting flag of every occupied,
// non-eligible seat — only of those, of all of them, and on every rotation of that branch.
func checkRotationWaitingFlags(c *Ctx, rule string, smT *types.Named) {
	p := c.P
	rotW := p.Method(smT, "RotatePositions")
	n6 := 0
	if rotW != nil {
		ri := p.CG().Reach([]*ssa.Function{rotW}, ReachOpts{SyncOnly: true, RepoOnly: true})
		for _, f := range ri.Order {
			for _, ss := range p.Stores([]*ssa.Function{f}) {
				if ss.Owner != "SeatPlayer" || ss.Field != "IsBetweenDealerBB" || storeIsLocal(ss.Instr) {
					continue
				}
				n6++
				gs := p.Guards(ss.Instr)
				nonAct := guardedBy(gs, false, func(s *Sym) bool { return s.IsCall("SeatPlayer.Active") })
				occ := nilGuard(gs, false, func(s *Sym) bool { return s.Kind == "rangeval" })
				c.Check(nonAct && occ, rule, "rotation-waiting-flag@"+branchOf(p, ss), p.InstrPos(ss.Instr), "only for occupied, non-eligible seats", "the rotation rewrites the waiting flag of an eligible player: a dealt-in player could be made to wait again")
				// … and for ALL of them: inside the loop over the seats nothing but "occupied" and "not eligible"
				// conditions the re-evaluation (a further test — has chips, seated in, already waiting — would leave
				// some non-eligible seat with the flag it had when it was last dealt in)
				extra, outer := "", ""
				var loop map[*ssa.BasicBlock]bool
				for _, b := range f.Blocks {
					for _, in := range b.Instrs {
						if _, isNext := in.(*ssa.Next); isNext && b.Dominates(ss.Instr.Block()) {
							if l := naturalLoop(b); l[ss.Instr.Block()] {
								loop = l
							}
						}
					}
				}
				for _, g := range gs {
					if g.If == nil || loop == nil || !loop[g.If.Block()] {
						// a condition of the rotation's branch, outside the loop: which rule, how many eligible players,
						// heads-up or not, an earlier scan having ended. Anything else — a "nothing changed since last
						// time" flag, say — skips the re-evaluation although dealer and big blind have moved
						cs := g.Cond.Strip()
						okOuter := cs.Kind == "extract" || cs.IsCall("seatManager.IsHU") || cs.IsCall("seatManager.getActivePlayerCount")
						if cm := g.AsCmp(); cm != nil {
							l, r := cm.L.Strip(), cm.R.Strip()
							for _, x := range []*Sym{l, r} {
								if x.IsField("seatManager", "Rule") || x.IsCall("seatManager.getActivePlayerCount") || x.IsCall("seatManager.IsHU") || x.IsNil() {
									okOuter = true
								}
							}
						}
						if !okOuter {
							outer = g.String()
						}
						continue
					}
					cs := g.Cond.Strip()
					isActive := cs.IsCall("SeatPlayer.Active")
					isOcc := false
					if cm := g.AsCmp(); cm != nil && (cm.R.IsNil() || cm.L.IsNil()) {
						isOcc = true
					}
					isLoop := cs.Kind == "extract" && cs.Args[0].Strip().Kind == "next"
					if !isActive && !isOcc && !isLoop {
						extra = g.String()
					}
				}
				c.Check(outer == "", rule, "rotation-waiting-flag:on-every-rotation@"+branchOf(p, ss), p.InstrPos(ss.Instr), "re-evaluated whenever this branch of the rotation runs", "the rotation re-evaluates the waiting flags only when "+outer+" holds: dealer and big blind move on every rotation, so a player who keeps waiting is never released (or one who should wait is dealt in) after a rotation that skipped it")
				c.Check(extra == "" && loop != nil, rule, "rotation-waiting-flag:every-non-eligible-seat@"+branchOf(p, ss), p.InstrPos(ss.Instr), "every occupied, non-eligible seat is re-evaluated", "the rotation re-evaluates the waiting flag only under the further condition "+extra+": some non-eligible seat keeps a stale flag and is dealt in (or kept waiting) wrongly once it becomes eligible again")
			}
		}
	}
	c.Min(rule, "waiting-flag stores in the rotation", n6, 2)
}

// checkAssignWaitingFlag (C05.R5, shared as C06.R12): a newly assigned seat's waiting flag is
// "initialised ? strictly between dealer and BB (asked for the id that now sits there, after the seat was recorded) : false".
// A newcomer whose flag is wrong is dealt in between the button and the blinds, where the label hand-out has no slot for him.
func checkAssignWaitingFlag(c *Ctx, rule string, smT *types.Named) {
	p := c.P
	for _, name := range []string{"AssignSeats", "RandomAssignSeats"} {
		f := p.Method(smT, name)
		if f == nil {
			c.Bad(rule, name, "-", "assigner not found")
			continue
		}
		n := 0
		for _, ss := range p.Stores([]*ssa.Function{f}) {
			if ss.Owner != "SeatPlayer" || ss.Field != "IsBetweenDealerBB" || storeIsLocal(ss.Instr) {
				continue
			}
			n++
			v := ss.Val.Strip()
			ok := false
			d := "waiting flag of a new seat is " + v.String()
			if v.Kind == "phi" {
				ph := v.V.(*ssa.Phi)
				sawCall, sawFalse := false, false
				for i, e := range ph.Edges {
					es := p.Sym(e).Strip()
					if b, isB := es.ConstBool(); isB && !b {
						sawFalse = true
						continue
					}
					if es.IsCall("seatManager.IsPlayerBetweenDealerBB") {
						pred := ph.Block().Preds[i]
						gs := append(p.GuardsAtBlock2(pred), p.edgeGuardsInto(pred)...)
						if guardedBy(gs, true, func(s *Sym) bool { return s.IsField("seatManager", "IsInit") }) {
							sawCall = true
						}
						// id is the id seated at that seat
						seat := ss.Addr.Strip().Args[0].Strip() // SeatData[seat]
						idOK := false
						for _, mu := range p.Stores([]*ssa.Function{f}) {
							if m, isM := mu.Instr.(*ssa.MapUpdate); isM && p.Sym(m.Map).Strip().IsField("seatManager", "SeatData") && seat.Kind == "lookup" && p.Sym(m.Key).Strip().String() == seat.Args[1].Strip().String() {
								// value: &sp where sp = newSeatPlayer(id)
								for _, st := range p.Stores([]*ssa.Function{f}) {
									if st.Addr.Kind == "alloc" && st.Addr.V == ssa.Value(rootAlloc(m.Value)) {
										nv := st.Val.Strip()
										if nv.Kind == "call" && len(nv.Args) == 2 && nv.Args[1].Strip().String() == es.Args[1].Strip().String() {
											idOK = true
										}
									}
								}
							}
						}
						// … or the flag is written straight into the record that was just built for that id
						// (sp := newSeatPlayer(id); SeatData[seat] = &sp; sp.IsBetweenDealerBB = …)
						var addrV ssa.Value
						if stI, isSt := ss.Instr.(*ssa.Store); isSt {
							addrV = stI.Addr
						}
						if fa, isFA := addrV.(*ssa.FieldAddr); isFA && !idOK {
							if al, isAl := fa.X.(*ssa.Alloc); isAl {
								for _, st := range p.Stores([]*ssa.Function{f}) {
									if st.Addr.Kind == "alloc" && st.Addr.V == ssa.Value(al) {
										nv := st.Val.Strip()
										if nv.Kind == "call" && len(nv.Args) == 2 && nv.Args[1].Strip().String() == es.Args[1].Strip().String() {
											idOK = true
										}
									}
								}
							}
						}
						if !idOK {
							sawCall = false
							d = "the waiting flag is computed for a different id than the one seated"
						}
					}
				}
				ok = sawCall && sawFalse
			}
			c.Check(ok, rule, name+":waiting-flag", p.InstrPos(ss.Instr), "IsInit ? IsPlayerBetweenDealerBB(id) : false", d)
		}
		c.Min(rule, "waiting-flag stores in "+name, n, 1)
	}
}
