package main

func controlsC12() []Control {
	return []Control{
		{Name: "short-deck options replace the object that already holds the level's blinds", Expect: "R1", Mutate: replaceBoth("(*tableEngine).startGame", "\tif rule == CompetitionRule_ShortDeck {\n\t\topts = pokerface.NewShortDeckGameOptions()\n\t\topts.Deck = pokerface.NewShortDeckCards()\n\t} else if", "\tif rule == CompetitionRule_Omaha+\"x\" {\n\t} else if", "\tplayerSettings := make([]*pokerface.PlayerSetting, 0)\n", "\tif rule == CompetitionRule_ShortDeck {\n\t\topts = pokerface.NewShortDeckGameOptions()\n\t\topts.Deck = pokerface.NewShortDeckCards()\n\t}\n\tplayerSettings := make([]*pokerface.PlayerSetting, 0)\n")},
		{Name: "failed hand start puts the pre-open table back", Expect: "R4", Mutate: replaceBoth("(*tableEngine).tableGameOpen", "\tte.table = newTable\n", "\tprevTable := te.table\n\tte.table = newTable\n", "\treturn te.startGame()\n", "\tif err := te.startGame(); err != nil {\n\t\tte.table = prevTable\n\t\treturn err\n\t}\n\treturn nil\n")},
		{Name: "published hand blinds alias the mutable level", Expect: "R2", Mutate: replaceIn("(*tableEngine).startGame", "te.table.State.GameBlindState = &TableBlindState{\n\t\tLevel:  blind.Level,\n\t\tAnte:   blind.Ante,\n\t\tDealer: blind.Dealer,\n\t\tSB:     blind.SB,\n\t\tBB:     blind.BB,\n\t}", "te.table.State.GameBlindState = te.table.State.BlindState", 0)},
		{Name: "hand options cross SB and BB", Expect: "R1", Mutate: replaceIn("(*tableEngine).startGame", "SB:     blind.SB,\n\t\tBB:     blind.BB,\n\t}\n\n\t// preparing players", "SB:     blind.BB,\n\t\tBB:     blind.SB,\n\t}\n\n\t// preparing players", 0)},
		{Name: "open step drops the break test", Expect: "R5", Mutate: replaceIn("(*tableEngine).openGame", "oldTable.State.BlindState.IsBreaking()", "false", 0)},
		{Name: "startGame reads the level through the pointer again", Expect: "R3", Mutate: replaceIn("(*tableEngine).startGame", "blind := *te.table.State.BlindState", "blind := te.table.State.BlindState", 0)},
		{Name: "UpdateBlind stores bb into SB", Expect: "R4", Mutate: replaceIn("(*tableEngine).UpdateBlind", "BlindState.SB = sb", "BlindState.SB = bb", 0)},
		{Name: "PauseTable also rewrites the blind level", Expect: "R4", Mutate: replaceIn("(*tableEngine).PauseTable", "te.table.State.Status = TableStateStatus_TablePausing", "te.table.State.Status = TableStateStatus_TablePausing\n\tte.table.State.BlindState.Level = -1", 0)},
		{Name: "table created on a break is not paused", Expect: "R5", Mutate: replaceIn("(*tableEngine).CreateTable", "tableSetting.Blind.Level == -1", "tableSetting.Blind.Level == -2", 0)},
		{Name: "pause decision taken before the continue interval", Expect: "R5", Mutate: replaceBoth("(*tableEngine).continueGame", "\t\tnextMoveInterval = te.options.GameContinueInterval\n", "\t\tshouldPause := te.table.ShouldPause()\n\t\tnextMoveInterval = te.options.GameContinueInterval\n", "if te.table.ShouldPause() {", "if shouldPause {")},
		{Name: "pause predicate ignores breaks", Expect: "R5", Mutate: replaceIn("(Table).ShouldPause", "t.State.BlindState.IsBreaking() || ", "", 0)},
		{Name: "published hand blinds report the next level", Expect: "R1", Mutate: replaceIn("(*tableEngine).startGame", "Level:  blind.Level,", "Level:  blind.Level + 1,", 0)},
		{Name: "blinds count as set without a dealer amount", Expect: "R5", Mutate: replaceIn("(TableBlindState).IsSet", "bs.Dealer != UnsetValue && ", "", 0)},
		{Name: "blinds count as set at level zero", Expect: "R5", Mutate: replaceIn("(TableBlindState).IsSet", "bs.Level != 0", "bs.Level != -1", 0)},
		{Name: "MTT creation with players overwrites the break pause", Expect: "R5", Mutate: replaceIn("(*tableEngine).CreateTable", "table.State.Status != TableStateStatus_TablePausing", "table.State.Status != TableStateStatus_TableBalancing", 0)},
		{Name: "open step asks the previous hand snapshot whether blinds are set", Expect: "R5", Mutate: replaceIn("(*tableEngine).openGame", "if !oldTable.State.BlindState.IsSet() {", "if !oldTable.State.GameBlindState.IsSet() {", 0)},
	}
}
