package main

func controlsC02() []Control {
	return []Control{
		{Name: "PlayerCall passes the table player index to the hand engine", Expect: "R2", Mutate: replaceIn("(*tableEngine).PlayerCall", "te.game.Call(gamePlayerIdx)", "te.game.Call(playerIdx)", 0)},
		{Name: "PlayerCheck books statistics on the hand index", Expect: "R2", Mutate: replaceIn("(*tableEngine).PlayerCheck", "playerState := te.table.State.PlayerStates[playerIdx]", "playerState := te.table.State.PlayerStates[gamePlayerIdx]", 0)},
		{Name: "hand settings built in player-list order", Expect: "R1", Mutate: replaceIn("(*tableEngine).startGame", "for _, playerIdx := range te.table.State.GamePlayerIndexes {\n\t\tplayer := te.table.State.PlayerStates[playerIdx]", "for playerIdx := range te.table.State.GamePlayerIndexes {\n\t\tplayer := te.table.State.PlayerStates[playerIdx]", 0)},
		{Name: "list builder drops the dealt-in test", Expect: "R4", Mutate: replaceIn("(*tableEngine).calcGamePlayerIndexes", "if playerIdx >= 0 && players[playerIdx].IsParticipated {", "if playerIdx >= 0 {", 2)},
		{Name: "list builder stops one seat short of a full circle", Expect: "R4", Mutate: replaceIn("(*tableEngine).calcGamePlayerIndexes", "i < len(seatMap)+startSeatID; i++", "i < len(seatMap)+startSeatID-1; i++", 0)},
		{Name: "short deck walks the player list again", Expect: "R4", Mutate: replaceIn("(*tableEngine).calcGamePlayerIndexes", "seatID := i % len(seatMap)\n\t\t\tplayerIdx := seatMap[seatID]\n\t\t\tif playerIdx >= 0 && players[playerIdx].IsParticipated {", "playerIdx := i % len(players)\n\t\t\tif playerIdx >= 0 && players[playerIdx].IsParticipated {", 0)},
		{Name: "FindGamePlayerIdx returns the table player index", Expect: "R5", Mutate: replaceIn("(Table).FindGamePlayerIdx", "return gamePlayerIdx\n", "_ = gamePlayerIdx\n\t\t\treturn playerIdx\n", 0)},
		{Name: "FindPlayerIndexFromGamePlayerIndex is the identity", Expect: "R5", Mutate: replaceIn("(Table).FindPlayerIndexFromGamePlayerIndex", "playerIdx := t.State.GamePlayerIndexes[gamePlayerIdx]", "playerIdx := gamePlayerIdx", 0)},
		{Name: "joins prepend the new players", Expect: "R6", Mutate: replaceIn("(*tableEngine).batchAddPlayers", "append(te.table.State.PlayerStates, newPlayers...)", "append(newPlayers, te.table.State.PlayerStates...)", 0)},
		{Name: "settlement credits by position in the result list", Expect: "R3", Mutate: replaceIn("(*tableEngine).settleGame", "for _, player := range te.table.State.GameState.Result.Players {\n\t\tplayerIdx := te.table.State.GamePlayerIndexes[player.Idx]", "for ri, player := range te.table.State.GameState.Result.Players {\n\t\tplayerIdx := te.table.State.GamePlayerIndexes[ri]", 0)},
		{Name: "PlayerReserve rebuilds the hand index list", Expect: "R4", Mutate: replaceIn("(*tableEngine).PlayerReserve", "te.emitEvent(\"PlayerReserve\", joinPlayer.PlayerID)", "te.table.State.GamePlayerIndexes = []int{0}\n\tte.emitEvent(\"PlayerReserve\", joinPlayer.PlayerID)", 0)},
		{Name: "every hand entry gets a dealer label", Expect: "R1", Mutate: replaceIn("(*tableEngine).startGame", "\topts.Players = playerSettings\n", "\tplayerSettings[1].Positions = append(playerSettings[1].Positions, Position_Dealer)\n\topts.Players = playerSettings\n", 0)},
		{Name: "leave remap records positions in the old player list", Expect: "R4", Mutate: replaceIn("(*tableEngine).calcLeavePlayers", "for newPlayerIdx, player := range newPlayerStates {\n\t\tnewPlayerData[player.PlayerID] = newPlayerIdx", "for newPlayerIdx, player := range currentPlayers {\n\t\tnewPlayerData[player.PlayerID] = newPlayerIdx", 0)},
		{Name: "engine seat scan compares the unreduced counter", Expect: "R4", Mutate: replaceIn("(*tableEngine).refreshNextBBOrderPlayerIDs", "newBBSeatID := i % tableMaxSeatCount", "newBBSeatID := i", 0)},
		{Name: "leave remap rebuilds the hand list in seat order", Expect: "R4", Mutate: replaceIn("(*tableEngine).calcLeavePlayers", "for _, currentPlayerIdx := range te.table.State.GamePlayerIndexes {", "for _, currentPlayerIdx := range te.table.State.SeatMap {", 0)},
		{Name: "leave remap records ids under shifted positions", Expect: "R4", Mutate: replaceIn("(*tableEngine).calcLeavePlayers", "currentGamePlayerData[playerIdx] = te.table.State.PlayerStates[playerIdx].PlayerID", "currentGamePlayerData[playerIdx] = newPlayerStates[playerIdx%len(newPlayerStates)].PlayerID", 0)},
		{Name: "leave during play keeps the old hand indexes", Expect: "R4", Mutate: replaceIn("(*tableEngine).calcLeavePlayers", "\t\tTableStateStatus_TableGamePlaying,\n", "", 0)},
		{Name: "leave remap applied only outside hands", Expect: "R4", Mutate: replaceIn("(*tableEngine).calcLeavePlayers", "if funk.Contains(gameStatuses, status) {", "if !funk.Contains(gameStatuses, status) {", 0)},
	}
}
