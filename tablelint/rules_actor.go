package main

import (
	"fmt"

	"golang.org/x/tools/go/ssa"
)

// checkActorSerialisesRunner (C18.R9, C19.R8, C20.R6): the runners decide "is this view newer than the last one I
// answered" by a check-then-set on their own fields (hand id, time of the last view) and take no lock of their own —
// what makes that atomic is the actor, which hands every view to its runner with its mutex held exclusively. Called
// without it (or under the read lock), two deliveries of one view both pass the filter: the bot answers one request
// twice, the player runner arms two timers, the observer forwards a view twice.
func checkActorSerialisesRunner(c *Ctx, rule string) {
	p := c.P
	at := p.singleImpl("/actor", "Actor")
	if at == nil {
		c.Bad(rule, "actor-serialises-runner", "-", "actor implementation not found")
		return
	}
	li := p.Locks()
	key := at.Obj().Name() + ".mu"
	n := 0
	for _, f := range p.Funcs {
		if !inPkg(p, f, "/actor") {
			continue
		}
		for _, ci := range Calls(f) {
			cm := ci.Common()
			if !cm.IsInvoke() || cm.Method.Name() != "UpdateTableState" {
				continue
			}
			if nt := namedOf(cm.Value.Type()); nt == nil || nt.Obj().Name() != "Runner" {
				continue
			}
			n++
			// which mutex field: the actor's only sync mutex field
			held := false
			for k := range li.At(ci) {
				if k == key || (len(k) > len(at.Obj().Name()) && k[:len(at.Obj().Name())+1] == at.Obj().Name()+"." && k[:2] != "R:") {
					held = true
				}
			}
			c.Check(held, rule, "actor-serialises-runner:"+fnName(f), p.InstrPos(ci), "the view is handed to the runner with the actor's mutex held exclusively",
				fmt.Sprintf("%s hands a table view to its runner without holding the actor's mutex exclusively (lockset %s): the runner's freshness test and its update are not atomic, so two deliveries of one view are both answered", fnName(f), li.At(ci).String()))
		}
	}
	c.Min(rule, "hand-overs of a view to a runner", n, 1)
	_ = ssa.Value(nil)
}
