package main

func controlsC20() []Control {
	return []Control{
		{Name: "adapter keeps its private copy in a copy of itself (value receiver)", Expect: "R5", Mutate: replaceIn("(*tableEngineAdapter).UpdateTableState", "func (tea *tableEngineAdapter) UpdateTableState(", "func (tea tableEngineAdapter) UpdateTableState(", 0)},
		{Name: "late-wired actor primed with the table the adapter was built with", Expect: "R2", Mutate: replaceIn("(*tableEngineAdapter).SetActor", "\ttea.actor = a\n", "\ttea.actor = a\n\tif tea.table != nil && a.GetRunner() != nil {\n\t\ta.UpdateTableState(tea.table)\n\t}\n", 0)},
		{Name: "observer filter keyed on status again", Expect: "R1", Mutate: replaceIn("(*observerRunner).UpdateTableState", "if tableInfo.State.GameState != nil {", "if tableInfo.State.Status == pokertable.TableStateStatus_TableGamePlaying {", 0)},
		{Name: "observer filter deleted", Expect: "R1", Mutate: replaceIn("(*observerRunner).UpdateTableState", "tableInfo.State.GameState.AsObserver()", "_ = tableInfo.State.GameState", 0)},
		{Name: "observer emits before filtering", Expect: "R1", Mutate: replaceIn("(*observerRunner).UpdateTableState", "\tobr.tableInfo = tableInfo\n", "\tobr.tableInfo = tableInfo\n\tobr.onTableStateUpdated(tableInfo)\n", 0)},
		{Name: "adapter passes the engine's table through", Expect: "R2", Mutate: replaceIn("(*tableEngineAdapter).UpdateTableState", "return tea.actor.UpdateTableState(&t)", "return tea.actor.UpdateTableState(tableInfo)", 0)},
		{Name: "adapter keeps the engine's table", Expect: "R2", Mutate: replaceIn("(*tableEngineAdapter).UpdateTableState", "tea.table = &t", "tea.table = tableInfo", 0)},
		{Name: "adapter decodes its previous table instead of the incoming one", Expect: "R2", Mutate: replaceIn("(*tableEngineAdapter).UpdateTableState", "data, err := tableInfo.GetJSON()", "data, err := tea.table.GetJSON()", 0)},
		{Name: "observer folds for a player", Expect: "R3", Mutate: replaceIn("(*observerRunner).UpdateTableState", "\tobr.tableInfo = tableInfo\n", "\tobr.tableInfo = tableInfo\n\tobr.actor.GetTable().Fold(\"p\")\n", 0)},
		{Name: "adapter accessor falls back to the engine\u2019s live hand state", Expect: "R4", Mutate: replaceIn("(*tableEngineAdapter).GetGameState", "return tea.table.State.GameState", "if tea.table.State.GameState == nil {\n\t\treturn tea.engine.GetTable().State.GameState\n\t}\n\treturn tea.table.State.GameState", 0)},
		{Name: "two player fields share one JSON name", Expect: "R2", Mutate: replaceInFile("/table.go", "`json:\"is_in\"`", "`json:\"seat\"`")},
		{Name: "adapter copies through a shallow clone helper", Expect: "R2", Mutate: replaceIn("(*tableEngineAdapter).UpdateTableState", "data, err := tableInfo.GetJSON()", "shallow := func(src *pokertable.Table) (*pokertable.Table, error) { c := *src; return &c, nil }\n\tif own, err := shallow(tableInfo); err == nil {\n\t\ttea.table = own\n\t\treturn tea.actor.UpdateTableState(own)\n\t}\n\tdata, err := tableInfo.GetJSON()", 0)},
		{Name: "a listener that registers late is shown the retained table", Expect: "R1", Mutate: replaceIn("(*observerRunner).OnTableStateUpdated", "obr.onTableStateUpdated = fn", "obr.onTableStateUpdated = fn\n\tif obr.tableInfo != nil {\n\t\tfn(obr.tableInfo)\n\t}", 0)},
		{Name: "GetJSON answers an empty table's text for an unset id", Expect: "R2", Mutate: replaceIn("(Table).GetJSON", "\tencoded, err := json.Marshal(t)\n", "\tif t.ID == \"\" {\n\t\treturn \"{}\", nil\n\t}\n\tencoded, err := json.Marshal(t)\n", 0)},
	}
}
