package main

// C16 — concurrent callers see one-at-a-time behaviour.

import (
	"fmt"
	"go/token"
	"go/types"
	"strings"

	"golang.org/x/tools/go/ssa"
)

func init() {
	register(&PropMeta{
		ID:          "C16",
		Level:       "other",
		Explanation: "Decides, independently of any schedule, the locking discipline the statement relies on: (R1) every function that takes the engine mutex takes it as its first action and releases it only by defer, and every exported engine method that reaches a membership write, a seat-manager assign/remove or a hand single action is such a function; (R2) the engine mutex is must-held (inter-procedural must-hold lockset over synchronous call edges, same receiver instance) at each of those writes/calls; (R3) every seat-map update, occupant-field store and seat-id / init-flag store in the seat manager is under the seat manager's write lock, and every function taking that lock uses Lock/defer Unlock; (R4) no function reachable synchronously on the same instance while a mutex is held re-acquires it. NOT decided: linearizability of the resulting histories; races with the settlement goroutine and unlocked seat-manager readers (outside the statement).",
		Rules: map[string]string{
			"R1": "entry-lock idiom (Lock first, defer Unlock, no explicit Unlock) for every engine-mutex taker; exported methods reaching guarded sites are takers; a struct that holds a mutex is never copied (pointer receivers only, never passed or loaded by value)",
			"R2": "engine mutex must-held at every membership write / seat-manager assign-remove / hand single action (frozen exception: table creation)",
			"R3": "seat manager: writes under the write lock; lock idiom in every taker",
			"R4": "no re-entrant acquisition on the same instance along synchronous call edges",
			"R7": "the dependency's ready group takes its own read lock twice while validating a signal (found by reading its SSA); the engine therefore adds participants only to a group created in the same function and not yet started, so that no writer can queue between the two read locks",
			"R6": "callbacks on the membership ready group reach elements of the live player list / seat map / hand index list only under the engine mutex",
			"R5": "the hand's current state is replaced synchronously by the caller that produced it (sole writer: the update function, unconditional, called as a plain call), so engine-mutex-serialised actions validate against the state left by the previous accepted action",
		},
		Assumptions: []string{"the engine is not shared before CreateTable returns (creation exception)", "sync.Mutex / sync.RWMutex semantics"},
		Run:         checkC16,
		Controls:    controlsC16,
	})
}

func checkC16(c *Ctx) {
	p := c.P
	checkHandStateSync(c, "R5")
	checkReadyGroupNoRecursiveRLock(c, "R7", "tableEngine", "the engine's membership ready group")
	checkLockHoldersNeverCopied(c, "R1")
	et := p.singleImpl("", "TableEngine")
	smT := p.singleImpl("/seat_manager", "SeatManager")
	if et == nil || smT == nil {
		c.Bad("R1", "anchors", "-", "engine / seat manager not found")
		return
	}
	creator := map[*ssa.Function]bool{}
	for _, ss := range p.FieldStores("tableEngine", "table") {
		if rawLocal(ss.ValV) {
			creator[ss.Fn] = true
		}
	}
	for f := range creator {
		c.Except("R2", FuncName(f), "table creation: the engine is not yet published to other goroutines")
	}
	li := p.LocksIgnoring(creator)
	const EK = "tableEngine.lock"
	const SK = "seatManager.mu"

	// guarded sites
	w3 := tableBookWatch()
	var ops []*ssa.Function
	for _, f := range p.Methods(et) {
		if errResultIndex(f.Signature) >= 0 && p.MayMutate(f, w3) {
			ops = append(ops, f)
		}
	}
	type site struct {
		in   ssa.Instruction
		what string
	}
	var sites []site
	siteFns := map[*ssa.Function]bool{}
	for _, f := range p.Methods(et) {
		if creator[f] {
			continue
		}
		member := c03IsMembershipOp(p, f, ops)
		for _, b := range f.Blocks {
			for _, in := range b.Instrs {
				if member {
					if _, isStore := in.(*ssa.Store); isStore && w3.Direct(p, in) {
						sites = append(sites, site{in, "membership write " + describeMut(p, in)})
						siteFns[f] = true
					}
				}
				if ci, ok := in.(ssa.CallInstruction); ok {
					n := calleeName(ci.Common())
					switch n {
					case "SeatManager.AssignSeats", "SeatManager.RandomAssignSeats", "SeatManager.RemoveSeats":
						sites = append(sites, site{in, n})
						siteFns[f] = true
					}
				}
			}
		}
	}
	for _, am := range p.engineActionMethods() {
		sites = append(sites, site{am.Hand, "hand action Game." + am.Action})
		siteFns[am.Fn] = true
	}
	c.Min("R2", "guarded sites (membership writes, seat-manager assign/remove, hand actions)", len(sites), 17)
	for _, s := range sites {
		f := s.in.Parent()
		c.Check(li.Held(s.in, EK), "R2", fnName(f)+":"+s.what, p.InstrPos(s.in), "engine mutex must-held", "the engine mutex is not held on every path/caller reaching this "+s.what+" (lockset "+li.At(s.in).String()+")")
	}

	// R6: what the engine registers on its membership ready group (the auto sit-in completion / timeout) runs on
	// the group's own goroutine while reservations and departures go on: there, and in whatever it calls without
	// the lock, an element of the live player list / seat map / hand index list is reached only under the engine
	// mutex — ranging over the list and indexing it again (or indexing at all) races with PlayersLeave shrinking it,
	// and the out-of-range index is a panic on a library goroutine
	{
		var roots []*ssa.Function
		for _, f := range p.Methods(et) {
			for _, ci := range Calls(f) {
				n := calleeName(ci.Common())
				if n != "syncsaga.ReadyGroup.OnCompleted" && n != "syncsaga.ReadyGroup.OnTimeout" {
					continue
				}
				if !p.Sym(ci.Common().Args[0]).Strip().IsField("tableEngine", "rg") {
					continue
				}
				roots = append(roots, closureOperands(ci.Common().Args[1])...)
			}
		}
		c.Min("R6", "callbacks registered on the engine's membership ready group", len(roots), 2)
		seen := map[*ssa.Function]bool{}
		var order []*ssa.Function
		var visit func(f *ssa.Function)
		visit = func(f *ssa.Function) {
			if f == nil || seen[f] || !inModule(p, f) || f.Blocks == nil {
				return
			}
			seen[f] = true
			order = append(order, f)
			for _, ci := range Calls(f) {
				visit(ci.Common().StaticCallee())
				for _, cl := range closureOperands(ci.Common().Value) {
					visit(cl)
				}
			}
		}
		for _, r := range roots {
			visit(r)
		}
		nSites := 0
		for _, f := range order {
			bad := map[string]ssa.Instruction{}
			for _, b := range f.Blocks {
				for _, in := range b.Instrs {
					var x ssa.Value
					switch y := in.(type) {
					case *ssa.IndexAddr:
						x = y.X
					case *ssa.Index:
						x = y.X
					default:
						continue
					}
					fs := p.Sym(x).Strip()
					if !(fs.IsField("TableState", "PlayerStates") || fs.IsField("TableState", "SeatMap") || fs.IsField("TableState", "GamePlayerIndexes")) {
						continue
					}
					if !fs.Contains(func(y *Sym) bool { return y.IsField("tableEngine", "table") }) {
						continue // a snapshot handed in, not the engine's live table
					}
					nSites++
					if !li.Held(in, EK) && bad[fs.Name] == nil {
						bad[fs.Name] = in
					}
				}
			}
			for fld, in := range bad {
				c.Bad("R6", "async-element-access:"+FuncName(f)+":"+fld, p.InstrPos(in), "an element of the live "+fld+" is reached without the engine mutex on the membership ready group's goroutine (reached from its completion / timeout callback): a PlayersLeave running meanwhile shrinks the list under it — index out of range on a library goroutine")
			}
		}
		if len(order) > 0 {
			c.Ok("R6", "async-element-access", "-", fmt.Sprintf("%d function(s) reachable from the ready-group callbacks, %d element access(es) of the live lists, all under the engine mutex", len(order), nSites))
		}
	}
	// R1: takers and idiom
	takers := map[*ssa.Function]bool{}
	for _, f := range p.Funcs {
		for _, ci := range Calls(f) {
			if op := p.lockOpOf(ci); op != nil && op.Key == EK && op.Op == "Lock" {
				takers[f] = true
			}
		}
	}
	c.Min("R1", "functions taking the engine mutex", len(takers), 14)
	for f := range takers {
		ok, d := lockIdiom(p, f, EK, "Lock", "Unlock")
		c.Check(ok, "R1", "idiom:"+FuncName(f), p.Pos(f.Pos()), "Lock first, defer Unlock", d)
	}
	// exported methods that reach guarded sites synchronously must be takers
	nExp := 0
	for _, f := range p.Methods(et) {
		if o := f.Object(); o == nil || !o.Exported() || creator[f] {
			continue
		}
		ri := p.CG().Reach([]*ssa.Function{f}, ReachOpts{SyncOnly: true, RepoOnly: true, Stop: func(g *ssa.Function) bool { return g != f && takers[g] }})
		reaches := false
		for _, g := range ri.Order {
			if siteFns[g] && !(g != f && takers[g]) {
				// g itself (or f) contains a site and is entered without a taker in between
				if g == f || !takers[g] {
					reaches = true
				}
			}
		}
		if !reaches {
			continue
		}
		nExp++
		c.Check(takers[f], "R1", "exported-taker:"+fnName(f), p.Pos(f.Pos()), "exported method reaching guarded sites takes the engine mutex", "exported method reaches a membership write / seat-manager change / hand action without taking the engine mutex itself")
	}
	c.Min("R1", "exported engine methods reaching guarded sites", nExp, 12)

	// R3 seat manager
	n3 := 0
	for _, f := range p.Funcs {
		if f.Pkg == nil && f.Parent() == nil {
			continue
		}
		pk := p.PkgOf(f)
		if pk == nil || pk.PkgPath != modPath+"/seat_manager" {
			continue
		}
		if fnName(f) == "NewSeatManager" || fnName(f) == "init" {
			continue
		}
		for _, b := range f.Blocks {
			for _, in := range b.Instrs {
				what := ""
				switch x := in.(type) {
				case *ssa.MapUpdate:
					if p.Sym(x.Map).Strip().IsField("seatManager", "SeatData") {
						what = "seat-map update"
					}
				case *ssa.Store:
					if rawLocal(x.Addr) {
						continue
					}
					a := p.Sym(x.Addr).Strip()
					if a.Kind == "field" && a.Owner == "SeatPlayer" {
						what = "occupant field " + a.Name
					}
					if a.Kind == "field" && a.Owner == "seatManager" {
						switch a.Name {
						case "DealerSeatID", "SBSeatID", "BBSeatID", "IsInit":
							what = "seat manager field " + a.Name
						}
					}
				}
				if what == "" {
					continue
				}
				n3++
				c.Check(li.Held(in, SK), "R3", FuncName(f)+":"+what, p.InstrPos(in), "under the seat manager's write lock", "the seat manager's write lock is not held on every path/caller reaching this "+what+" (lockset "+li.At(in).String()+")")
			}
		}
	}
	c.Min("R3", "seat-manager writes", n3, 20)
	for _, f := range p.Methods(smT) {
		for _, ci := range Calls(f) {
			if op := p.lockOpOf(ci); op != nil && op.Key == SK {
				switch op.Op {
				case "Lock":
					ok, d := lockIdiom(p, f, SK, "Lock", "Unlock")
					c.Check(ok, "R3", "idiom:"+fnName(f), p.Pos(f.Pos()), "Lock first, defer Unlock", d)
				case "RLock":
					ok, d := lockIdiom(p, f, SK, "RLock", "RUnlock")
					c.Check(ok, "R3", "idiom:"+fnName(f), p.Pos(f.Pos()), "RLock first, defer RUnlock", d)
				}
			}
		}
	}

	// R4 re-entrancy
	n4 := 0
	for _, f := range p.Funcs {
		for _, ci := range Calls(f) {
			op := p.lockOpOf(ci)
			if op == nil || (op.Op != "Lock" && op.Op != "RLock") {
				continue
			}
			n4++
			held := li.At(ci)
			bad := held[op.Key] || (op.Op == "Lock" && held["R:"+op.Key])
			// may-hold: some synchronous same-instance caller holds it at its call site
			var via ssa.Instruction
			if !bad {
				seen := map[*ssa.Function]bool{}
				var up func(g *ssa.Function) bool
				up = func(g *ssa.Function) bool {
					if seen[g] {
						return false
					}
					seen[g] = true
					for _, s := range li.SyncCallers[g] {
						hs := li.At(s)
						if hs[op.Key] || (op.Op == "Lock" && hs["R:"+op.Key]) {
							via = s
							return true
						}
						if up(s.Parent()) {
							return true
						}
					}
					return false
				}
				// only if f does not already hold at this point on all paths
				bad = up(f) && instrIndexInFn(ci) >= 0
			}
			d := ""
			if bad {
				d = fmt.Sprintf("%s acquires %s while it is already held", FuncName(f), op.Key)
				if via != nil {
					d += " by the caller at " + p.InstrPos(via)
				}
				d += ": self-deadlock"
			}
			c.Check(!bad, "R4", FuncName(f)+":"+op.Op+":"+op.Key, p.InstrPos(ci), "not reachable with the mutex held", d)
		}
	}
	c.Min("R4", "mutex acquisitions", n4, 22)

	// R4 (cross-object): a function that takes K must not be reachable through ANY
	// synchronous call edge (interface, func value, dependency callbacks; `go` excluded)
	// from a call made while K is held. One engine/seat manager per table is assumed.
	for _, key := range []string{EK, SK} {
		var roots []*ssa.Function
		rootSite := map[*ssa.Function]ssa.Instruction{}
		for _, f := range p.Funcs {
			for _, ci := range Calls(f) {
				if _, isGo := ci.(*ssa.Go); isGo {
					continue
				}
				if p.lockOpOf(ci) != nil || !li.At(ci)[key] {
					continue
				}
				fns, _ := p.CG().Callees(ci)
				for _, g := range fns {
					if _, ok := rootSite[g]; !ok {
						rootSite[g] = ci
						roots = append(roots, g)
					}
				}
			}
		}
		ri := p.CG().Reach(roots, ReachOpts{SyncOnly: true})
		bad := 0
		for _, g := range ri.Order {
			if !p.IsRepoFunc(g) {
				continue
			}
			for _, ci := range Calls(g) {
				if op := p.lockOpOf(ci); op != nil && op.Key == key && (op.Op == "Lock" || op.Op == "RLock") {
					bad++
					path := ri.PathTo(p, g)
					root := g
					for ri.Parent[root] != nil {
						root = ri.Parent[root]
					}
					c.Bad("R4", "held-across:"+key+"→"+FuncName(g), p.InstrPos(ci),
						fmt.Sprintf("%s takes %s and is reachable synchronously from a call made while %s is held (at %s): self-deadlock", FuncName(g), key, key, p.InstrPos(rootSite[root])), path...)
				}
			}
		}
		if bad == 0 {
			c.Ok("R4", "held-across:"+key, "-", fmt.Sprintf("no taker of %s among the %d functions synchronously reachable from calls made while it is held", key, len(ri.Order)))
		}
		c.Count("functions_reachable_with_"+key+"_held", len(ri.Order))
	}
}

func instrIndexInFn(in ssa.Instruction) int { return instrIndex(in) }

// lockIdiom: the first call of the function is <lock> on key, a deferred <unlock>
// follows in the entry block, and there is no explicit (non-deferred) unlock.
func lockIdiom(p *Prog, f *ssa.Function, key, lock, unlock string) (bool, string) {
	if len(f.Blocks) == 0 {
		return false, "no body"
	}
	var first ssa.CallInstruction
	for _, in := range f.Blocks[0].Instrs {
		if ci, ok := in.(ssa.CallInstruction); ok {
			if isLogCall(ci) {
				continue
			}
			first = ci
			break
		}
		// reads of shared state before the lock
		if u, ok := in.(*ssa.UnOp); ok {
			s := p.Sym(u).Strip()
			if s.Kind == "field" && s.Root().Kind == "param" && !rawLocal(u.X) {
				return false, "shared state (" + s.String() + ") is read before the mutex is taken"
			}
		}
	}
	if first == nil {
		return false, "no call in entry block"
	}
	op := p.lockOpOf(first)
	if op == nil || op.Key != key || op.Op != lock {
		return false, "the mutex is not taken as the function's first action"
	}
	if _, isDefer := first.(*ssa.Defer); isDefer {
		return false, "lock call is deferred"
	}
	hasDefer := false
	for _, ci := range Calls(f) {
		o := p.lockOpOf(ci)
		if o == nil || o.Key != key {
			continue
		}
		_, isDefer := ci.(*ssa.Defer)
		if o.Op == unlock {
			if isDefer && ci.Block() == f.Blocks[0] {
				hasDefer = true
			} else {
				return false, "explicit " + unlock + " at " + p.InstrPos(ci) + ": the critical section can end before the function does"
			}
		}
	}
	if !hasDefer {
		return false, "no deferred " + unlock + " in the entry block"
	}
	return true, ""
}

// checkLockHoldersNeverCopied: a struct of the module that holds a value of a type from package sync (Mutex, RWMutex, Map, …) is never copied —
// no method with a value receiver, no parameter or result of the struct type, no load of the whole struct.
// A method that locks "its" mutex on a copy of the struct excludes nobody: every other state is reached through
// the copied pointers, so sequential behaviour is unchanged and only concurrent callers notice.
func checkLockHoldersNeverCopied(c *Ctx, rule string) {
	p := c.P
	holders := map[*types.Named]bool{}
	for _, pk := range p.AllPkgs {
		if !(pk.PkgPath == modPath || strings.HasPrefix(pk.PkgPath, modPath+"/")) || pk.Types == nil {
			continue
		}
		sc := pk.Types.Scope()
		for _, nme := range sc.Names() {
			tn, ok := sc.Lookup(nme).(*types.TypeName)
			if !ok {
				continue
			}
			n, _ := tn.Type().(*types.Named)
			if n == nil {
				continue
			}
			st, _ := n.Underlying().(*types.Struct)
			if st == nil {
				continue
			}
			if holdsSyncByValue(n) != "" {
				holders[n] = true
			}
		}
	}
	isHolder := func(t types.Type) *types.Named {
		n, _ := t.(*types.Named)
		if n != nil && holders[n] {
			return n
		}
		return nil
	}
	c.Count("lock_holding_structs", len(holders))
	bad := 0
	for _, f := range p.Funcs {
		if !inModule(p, f) {
			continue
		}
		if r := f.Signature.Recv(); r != nil {
			if n := isHolder(r.Type()); n != nil {
				bad++
				c.Bad(rule, "lock-holder-copied:receiver:"+fnName(f), p.Pos(f.Pos()), fmt.Sprintf("%s has a value receiver of type %s, which holds a mutex: the method locks a private copy and excludes no other caller", fnName(f), canonTypeName(n.Obj())))
			}
		}
		for _, prm := range f.Params {
			if f.Signature.Recv() != nil && prm == f.Params[0] {
				continue
			}
			if n := isHolder(prm.Type()); n != nil {
				bad++
				c.Bad(rule, "lock-holder-copied:param:"+fnName(f), p.Pos(f.Pos()), fmt.Sprintf("%s takes a %s by value: the mutex inside is copied", fnName(f), canonTypeName(n.Obj())))
			}
		}
		for _, b := range f.Blocks {
			for _, in := range b.Instrs {
				u, ok := in.(*ssa.UnOp)
				if !ok || u.Op != token.MUL {
					continue
				}
				if n := isHolder(u.Type()); n != nil {
					bad++
					c.Bad(rule, "lock-holder-copied:load:"+fnName(f), p.InstrPos(in), fmt.Sprintf("%s copies a whole %s (and the mutex inside it)", fnName(f), canonTypeName(n.Obj())))
				}
			}
		}
	}
	if bad == 0 {
		c.Ok(rule, "lock-holder-never-copied", "-", fmt.Sprintf("%d mutex-holding structs: pointer receivers only, never passed, returned or loaded by value", len(holders)))
	}
	if len(holders) < 3 {
		c.Bad(rule, "lock-holder-never-copied:instances", "-", fmt.Sprintf("only %d mutex-holding structs found (engine, seat manager and hand wrapper expected)", len(holders)))
	}
}
