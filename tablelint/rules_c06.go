package main

// C06 — position labels and next-BB order agree with the button seats.

import (
	"fmt"
	"go/ast"
	"go/constant"
	"go/token"
	"go/types"

	"golang.org/x/tools/go/ssa"
)

func init() {
	register(&PropMeta{
		ID:          "C06",
		Level:       "other",
		Explanation: "Decides the table- and shape-level clauses: (R1) for every player count n the label table returns n pairwise-distinct labels beginning dealer, sb, bb (read from the typed syntax tree with constant evaluation); (R2) the rotation constant equals the index of the bb label in every row, the heads-up row is [bb], [dealer, sb], the rotate helper is append(src[k:], src[:k]...); (R3) player labels are written only by the position updater, by the continue reset (empty) and at construction (empty); (R4) the hand engine receives the same player's labels as stack (as C01.R4) and entry 0 gets a dealer label only when it has none; (R5) the next-BB list is built by a loop over bb+1 … bb+N modulo the same N, appending the id of the seat's player iff the seat is occupied and that player's bankroll is positive, is stored at settlement from the seat manager's current BB seat and reset by the continue step; (R6) the published dealer/SB/BB seats are stored from the seat manager's dealer/SB/BB getters respectively. Also decided since (see the rule list): the dead-label skip (R7), label assignment pairing (R8), the slot loop of the position updater path by path (R11) and the start of the hand list (R10). NOT decided: that the label order is poker's for every dead-button / dead-small-blind / sitting-out layout taken as a whole (the loops are decided one iteration at a time, not their result over all seat states).",
		Rules: map[string]string{
			"R1":  "label table well-formed for every row",
			"R2":  "rotation constant = index of bb; heads-up row; rotate helper shape",
			"R3":  "who-may-write TablePlayerState.Positions; the open step labels the players exactly once, after the rotation, on every success path",
			"R4":  "labels forwarded to the hand engine; dealer label added to entry 0 only if missing",
			"R5":  "next-BB scan shape, call-site arguments, store at settlement, reset at continue",
			"R6":  "seat publication pairing (no cross-wiring); the three seat getters return their own field; the seat list from the dealer is one full circle of SeatData from the dealer seat",
			"R7":  "the dead dealer/SB label skip is not conditioned on the seat being occupied",
			"R11": "position updater, every path of both loops: a seat is a position slot iff it is the dealer/SB/BB seat or holds an eligible player (never counted twice, count from 0, full circle from the dealer seat, table rows used for > 2 slots); the head label is given iff the seat's player is eligible and known, consumed without being given iff the seat has no eligible player, the head is dealer/sb and the seat is the dealer/SB seat; one circle from the BB seat; the loop is left when no label remains",
			"R10": "entry 0 of the hand's player list: the dealer's seat when a dealt-in player holds it, else the nearest active seat counter-clockwise from the SB seat (held) or the BB seat; seat-map entries skipped only when unset (shared with C02.R4)",
			"R12": "a newly assigned seat's waiting flag is 'initialised ? strictly between dealer and BB, asked for the id seated there after the seat was recorded : false' (shared with C05.R5): a newcomer dealt in between the button and the blinds has no slot in the label hand-out",
			"R9":  "the dealt-in flags (which decide who gets a label) are copied from the seat manager's eligibility, for every player, after this hand's rotation (shared with C05.R1)",
			"R8":  "label assignment pairing: the head of the remaining label list goes to the eligible player of the next seat counted from the seat manager's BB seat, found through an id→index map of the same player list",
		},
		Assumptions: []string{},
		Run:         checkC06,
		Controls:    controlsC06,
	})
}

func constStringOf(info *types.Info, e ast.Expr) (string, bool) {
	if tv, ok := info.Types[e]; ok && tv.Value != nil && tv.Value.Kind() == constant.String {
		return constant.StringVal(tv.Value), true
	}
	return "", false
}

func constIntOf(info *types.Info, e ast.Expr) (int64, bool) {
	if tv, ok := info.Types[e]; ok && tv.Value != nil && tv.Value.Kind() == constant.Int {
		v, ok := constant.Int64Val(tv.Value)
		return v, ok
	}
	return 0, false
}

func checkC06(c *Ctx) {
	p := c.P
	lc := p.lifecycle()
	// R9: who gets a label is decided by the dealt-in flags; they must be this hand's
	checkDealtInCopy(c, "R9")
	// R12: a newcomer seated between the button and the big blind must wait (shared with C05.R5) — dealt in there,
	// he takes a slot of the label hand-out that belongs to the next seat and every label after him slides
	if smT := c.P.singleImpl("/seat_manager", "SeatManager"); smT != nil {
		checkAssignWaitingFlag(c, "R12", smT)
	} else {
		c.Bad("R12", "anchors", "-", "seat manager not found")
	}
	// R10: who is entry 0 of the hand's list (the hand engine's dealer position)
	checkHandListStart(c, "R10")
	// position updater: writes non-empty labels to players (non-local store whose value is not an empty slice)
	var updater *ssa.Function
	nW := 0
	for _, ss := range p.FieldStores("TablePlayerState", "Positions") {
		nW++
		where := p.InstrPos(ss.Instr)
		switch {
		case isEmptySlice(ss.Val):
			ok := ss.Fn == lc.continueFn || ss.Addr.Root().Kind == "new"
			c.Check(ok, "R3", "labels-writer:"+FuncName(ss.Fn)+":empty", where, "empty labels at reset / construction", "player labels are cleared outside the continue reset and construction")
		default:
			if updater == nil || updater == ss.Fn {
				updater = ss.Fn
				c.Ok("R3", "labels-writer:"+FuncName(ss.Fn)+":assign", where, "position updater")
			} else {
				c.Bad("R3", "labels-writer:"+FuncName(ss.Fn)+":assign", where, "a second function assigns player labels")
			}
		}
	}
	c.Min("R3", "stores of TablePlayerState.Positions", nW, 3)
	if updater == nil {
		c.Bad("R1", "position-updater", "-", "no function assigns position labels")
		return
	}
	// the updater is called only from the open step
	for _, site := range p.CG().AllCallSitesOf(updater) {
		c.Check(site.Parent() == lc.openFn, "R3", "updater-caller:"+FuncName(site.Parent()), p.InstrPos(site), "labels assigned in the open step", "position labels are reassigned outside the open step")
	}
	// … exactly once, after this hand's rotation, and no success exit of the open step avoids it
	if lc.openFn != nil {
		var sites, via []ssa.Instruction
		for _, ci := range Calls(lc.openFn) {
			if ci.Common().StaticCallee() == updater {
				sites = append(sites, ci)
			}
			switch calleeName(ci.Common()) {
			case "SeatManager.InitPositions", "SeatManager.RotatePositions":
				via = append(via, ci)
			}
		}
		ok, d := len(sites) == 1, fmt.Sprintf("the open step labels the players %d time(s)", len(sites))
		if ok {
			if !passesOneOf(sites[0], via) {
				ok, d = false, "the players are labelled before this hand's positions were initialised / rotated"
			}
			_, _, okRets, _, ab := p.ExitsWithGuards(lc.openFn)
			if ab || len(okRets) == 0 {
				ok, d = false, "cannot enumerate the exits of the open step"
			}
			for _, r := range okRets {
				if !passesOneOf(r, sites) {
					ok, d = false, "the open step can succeed (exit at "+p.InstrPos(r)+") without labelling the players"
				}
			}
		}
		c.Check(ok, "R3", "labels-assigned-every-hand", p.Pos(lc.openFn.Pos()), "one labelling call, after the rotation, on every success path", d)
	}

	// ---------------- R1: label table from the typed AST
	var tableFn, rotateFn *ssa.Function
	var rotateCall *ssa.Call
	for _, ci := range Calls(updater) {
		call, ok := ci.(*ssa.Call)
		if !ok {
			continue
		}
		sc := call.Common().StaticCallee()
		if sc == nil || !p.IsRepoFunc(sc) || sc.Signature.Recv() != nil {
			continue
		}
		if typeShort(sc.Signature.Results().At(0).Type()) != "[]string" {
			continue
		}
		switch sc.Signature.Params().Len() {
		case 1:
			tableFn = sc
		case 2:
			rotateFn, rotateCall = sc, call
		}
	}
	bbIndex := int64(-1)
	if tableFn == nil || p.FuncDecl(tableFn) == nil {
		c.Bad("R1", "label-table", "-", "label table function not found")
	} else {
		pk := p.PkgOf(tableFn)
		rows := 0
		ast.Inspect(p.FuncDecl(tableFn), func(n ast.Node) bool {
			cc, ok := n.(*ast.CaseClause)
			if !ok || len(cc.List) != 1 {
				return true
			}
			cnt, isInt := constIntOf(pk.TypesInfo, cc.List[0])
			if !isInt {
				return true
			}
			var lit *ast.CompositeLit
			for _, st := range cc.Body {
				if rs, ok := st.(*ast.ReturnStmt); ok && len(rs.Results) == 1 {
					lit, _ = rs.Results[0].(*ast.CompositeLit)
				}
			}
			if lit == nil {
				c.Bad("R1", fmt.Sprintf("label-row:%d", cnt), p.Pos(cc.Pos()), "row is not a literal list of labels")
				return true
			}
			rows++
			var labels []string
			okConst := true
			for _, e := range lit.Elts {
				s, ok := constStringOf(pk.TypesInfo, e)
				if !ok {
					okConst = false
				}
				labels = append(labels, s)
			}
			d := ""
			switch {
			case !okConst:
				d = "a label is not a constant"
			case int64(len(labels)) != cnt:
				d = fmt.Sprintf("%d labels for %d players", len(labels), cnt)
			case len(labels) < 3 || labels[0] != "dealer" || labels[1] != "sb" || labels[2] != "bb":
				d = fmt.Sprintf("row does not begin dealer, sb, bb: %v", labels)
			default:
				seen := map[string]bool{}
				for _, l := range labels {
					if seen[l] {
						d = "label " + l + " appears twice"
					}
					seen[l] = true
				}
			}
			for i, l := range labels {
				if l == "bb" {
					if bbIndex == -1 {
						bbIndex = int64(i)
					} else if bbIndex != int64(i) {
						bbIndex = -2
					}
				}
			}
			c.Check(d == "", "R1", fmt.Sprintf("label-row:%d", cnt), p.Pos(cc.Pos()), fmt.Sprintf("%d distinct labels dealer, sb, bb, …", cnt), fmt.Sprintf("label row for %d players: %s", cnt, d))
			return true
		})
		c.Min("R1", "rows of the label table", rows, 8)
	}
	// ---------------- R2
	if rotateCall == nil {
		c.Bad("R2", "rotation-constant", p.Pos(updater.Pos()), "labels are not rotated to start at the big blind")
	} else {
		k, isK := p.Sym(rotateCall.Call.Args[1]).ConstInt()
		c.Check(isK && k == bbIndex && bbIndex >= 0, "R2", "rotation-constant", p.InstrPos(rotateCall), fmt.Sprintf("rotate by %d = index of bb", k), fmt.Sprintf("labels are rotated by %d but the bb label is at index %d of the rows: the big-blind seat gets another label", k, bbIndex))
		// rotated value comes from the label table
		src := p.Sym(rotateCall.Call.Args[0]).Strip()
		c.Check(src.Kind == "call" && src.Call.Common().StaticCallee() == tableFn, "R2", "rotation-source", p.InstrPos(rotateCall), "rotates the label table's row", "the rotated list is not the label table's row")
	}
	if rotateFn != nil {
		ok := false
		for _, b := range rotateFn.Blocks {
			for _, in := range b.Instrs {
				if r, isR := in.(*ssa.Return); isR {
					v := p.Sym(r.Results[0]).Strip()
					if v.Kind == "builtin" && v.Name == "append" && len(v.Args) == 2 {
						a, bb := v.Args[0].Strip(), v.Args[1].Strip()
						if a.Kind == "slice" && bb.Kind == "slice" && a.Args[0].Strip().Kind == "param" && bb.Args[0].Strip().String() == a.Args[0].Strip().String() &&
							len(a.Args) == 2 && len(bb.Args) == 3 && a.Args[1].Strip().String() == bb.Args[2].Strip().String() {
							if z, isZ := bb.Args[1].ConstInt(); isZ && z == 0 || bb.Args[1].Name == "0" {
								ok = true
							}
						}
					}
				}
			}
		}
		c.Check(ok, "R2", "rotate-helper-shape", p.Pos(rotateFn.Pos()), "append(src[k:], src[:k]...)", "the rotate helper no longer returns src[k:] followed by src[:k]")
	}
	// heads-up row
	hu := [][]string{}
	for _, ci := range Calls(updater) {
		cs := p.CallSym(ci)
		if cs.Kind != "builtin" || cs.Name != "append" || typeShort(ci.Common().Args[0].Type()) != "[][]string" {
			continue
		}
		if !cmpHolds(p.Guards(ci), func(l, r *Sym, op token.Token) bool { return op == token.EQL && r.Strip().Name == "2" }) {
			continue
		}
		e := appendedElem(p, ci)
		if e == nil {
			continue
		}
		var row []string
		if al, ok := e.Strip().Args[0].Strip().V.(*ssa.Alloc); ok {
			row = constStringsStoredTo(p, al)
		}
		hu = append(hu, row)
	}
	okHU := len(hu) == 2 && len(hu[0]) == 1 && hu[0][0] == "bb" && len(hu[1]) == 2 && hu[1][0] == "dealer" && hu[1][1] == "sb"
	c.Check(okHU, "R2", "heads-up-row", p.Pos(updater.Pos()), "[bb], [dealer, sb]", fmt.Sprintf("heads-up labels are %v, expected [[bb] [dealer sb]]", hu))

	// ---------------- R7 dead-seat skip also applies to EMPTY seats
	nAdv, nSkip := 0, 0
	for _, b := range updater.Blocks {
		for _, in := range b.Instrs {
			sl, ok := in.(*ssa.Slice)
			if !ok || typeShort(sl.Type()) != "[][]string" || sl.Low == nil || sl.High != nil {
				continue
			}
			if z, isZ := p.Sym(sl.Low).ConstInt(); !isZ || z != 1 {
				continue
			}
			nAdv++
			assigns := false
			for _, i2 := range b.Instrs {
				if ss := p.storeSite(i2); ss != nil && ss.Owner == "TablePlayerState" && ss.Field == "Positions" {
					assigns = true
				}
			}
			if assigns {
				continue
			}
			nSkip++
			occupiedOnly := nilGuard(p.Guards(sl), false, func(s *Sym) bool {
				return s.Kind == "extract" && s.Args[0].Strip().Kind == "lookup"
			})
			c.Check(!occupiedOnly, "R7", "dead-seat-skip", p.InstrPos(sl), "the dead dealer/SB label is skipped for empty seats too", "the label of a dead dealer/small-blind seat is skipped only when that seat is still occupied: a dead button on a vacated seat shifts every following label")
		}
	}
	c.Min("R7", "label-list advances in the position updater", nAdv, 2)
	c.Min("R7", "dead-seat skips", nSkip, 1)

	// ---------------- R8 label assignment pairing
	nLab := 0
	for _, ss := range p.Stores([]*ssa.Function{updater}) {
		if ss.Owner != "TablePlayerState" || ss.Field != "Positions" {
			continue
		}
		nLab++
		where := p.InstrPos(ss.Instr)
		pl := ss.Addr.Strip().Args[0].Strip() // players[idx]
		d := ""
		if pl.Kind != "index" || !symIsParam(pl.Args[0], updater.Params[2]) {
			d = "labels are written to " + pl.String() + ", not to an element of the player list being labelled"
		} else {
			ix := pl.Args[1].Strip() // M[seatPlayer.ID]#0
			if !(ix.Kind == "extract" && ix.Args[0].Strip().Kind == "lookup" && ix.Args[0].Strip().Args[1].Strip().IsField("SeatPlayer", "ID")) {
				d = "the labelled player index " + ix.String() + " is not looked up by the seat player's id"
			} else {
				sp := ix.Args[0].Strip().Args[1].Strip().Args[0].Strip() // the seat player
				// the seat player comes from the seat manager's seats at a position counted from the BB seat
				okSeat := sp.Kind == "extract" && sp.Args[0].Strip().Kind == "lookup" && sp.Args[0].Strip().Args[0].IsCall("SeatManager.Seats")
				if okSeat {
					k := sp.Args[0].Strip().Args[1].Strip()
					okSeat = k.Kind == "binop" && k.Name == "%" && k.Args[0].Strip().Kind == "ind" && k.Args[0].Strip().Ind.First.IsCall("SeatManager.CurrentBBSeatID")
				}
				if !okSeat {
					d = "labels are not handed out seat by seat starting at the seat manager's big-blind seat"
				}
				// only active seats get a label
				if d == "" && !guardedBy(p.Guards(ss.Instr), true, func(x *Sym) bool { return x.IsCall("SeatPlayer.Active") && x.Args[0].Strip().String() == sp.String() }) {
					d = "a label is given to a seat whose player is not known to be eligible"
				}
				// the id→index map is built from the same player list
				if d == "" {
					if lk, isLk := ix.Args[0].Strip().V.(*ssa.Lookup); isLk {
						okMap := false
						if refs := lk.X.Referrers(); refs != nil {
							for _, r := range *refs {
								if mu, isMU := r.(*ssa.MapUpdate); isMU {
									k, v := p.Sym(mu.Key).Strip(), p.Sym(mu.Value).Strip()
									if k.IsField("TablePlayerState", "PlayerID") && k.Args[0].Strip().Kind == "index" && symIsParam(k.Args[0].Strip().Args[0], updater.Params[2]) && k.Args[0].Strip().Args[1].Strip().String() == v.String() {
										okMap = true
									}
								}
							}
						}
						if !okMap {
							d = "the id → player index map used for labelling is not built from the player list being labelled"
						}
					}
				}
			}
		}
		// value: head of the remaining label list
		v := ss.Val.Strip()
		if d == "" && !(v.Kind == "index" && v.Args[1].Strip().Name == "0") {
			d = "the label given is " + v.String() + ", not the head of the remaining label list"
		}
		c.Check(d == "", "R8", "label-assignment", where, "next label → the eligible player of the next seat from the BB", d)
	}
	c.Min("R8", "label assignments", nLab, 1)

	// ---------------- R11 slot count and hand-out decisions, path by path
	checkLabelSlots(c, updater, tableFn, rotateCall)

	// ---------------- R4
	if lc.startFn != nil {
		n := 0
		for _, ss := range p.Stores([]*ssa.Function{lc.startFn}) {
			if ss.Owner == "PlayerSetting" && ss.Field == "Positions" && ss.Addr.Root().Kind == "new" {
				n++
				v := ss.Val.Strip()
				c.Check(v.IsField("TablePlayerState", "Positions"), "R4", "labels-forwarded", p.InstrPos(ss.Instr), "hand engine receives the player's labels", "the hand engine receives "+v.String()+" instead of the player's labels")
			}
			if ss.Owner == "PlayerSetting" && ss.Field == "Positions" && ss.Addr.Root().Kind != "new" {
				g := guardedBy(p.Guards(ss.Instr), false, func(s *Sym) bool {
					if !s.IsCall("funk.Contains") {
						return false
					}
					lbl, _ := s.Args[1].ConstString()
					return lbl == "dealer"
				})
				v := ss.Val.Strip()
				lblOK := false
				if v.Kind == "builtin" && v.Name == "append" {
					if ci, ok := v.V.(*ssa.Call); ok {
						if e := appendedElem(p, ci); e != nil {
							s, _ := e.ConstString()
							lblOK = s == "dealer"
						}
					}
				}
				// the entry tested, the entry extended and the entry written are all entry 0 of the same list
				tgt := ss.Addr.Strip().Args[0].Strip() // list[k]
				same := func(x *Sym) bool {
					x = x.Strip()
					if !(x.Kind == "field" && x.Name == "Positions") {
						return false
					}
					e := x.Args[0].Strip()
					k, isK := int64(-1), false
					if e.Kind == "index" {
						k, isK = e.Args[1].ConstInt()
					}
					return isK && k == 0 && tgt.Kind == "index" && e.Args[0].Strip().String() == tgt.Args[0].Strip().String()
				}
				k0, isK0 := int64(-1), false
				if tgt.Kind == "index" {
					k0, isK0 = tgt.Args[1].ConstInt()
				}
				entry0 := isK0 && k0 == 0 && v.Kind == "builtin" && len(v.Args) >= 1 && same(v.Args[0]) &&
					guardedBy(p.Guards(ss.Instr), false, func(s *Sym) bool { return s.IsCall("funk.Contains") && same(s.Args[0]) })
				c.Check(g && lblOK && entry0, "R4", "dealer-label-if-missing", p.InstrPos(ss.Instr), "dealer label appended to entry 0's own labels only when entry 0 lacks it", "entry 0's labels are changed other than by adding a missing dealer label to its own labels")
			}
		}
		c.Min("R4", "label forwards to the hand engine", n, 1)
	}

	// ---------------- R5 next-BB
	var nb *ssa.Function
	var nbStore *StoreSite
	nNB := 0
	for _, ss := range p.FieldStores("TableState", "NextBBOrderPlayerIDs") {
		nNB++
		where := p.InstrPos(ss.Instr)
		if isEmptySlice(ss.Val) {
			c.Check(ss.Fn == lc.continueFn || storeIsLocal(ss.Instr), "R5", "next-bb-writer:"+FuncName(ss.Fn)+":empty", where, "reset at continue / construction", "the next-BB list is cleared outside the continue reset and construction")
			continue
		}
		v := ss.Val.Strip()
		if v.Kind == "call" && v.Call.Common().StaticCallee() != nil && ss.Fn == lc.settleFn {
			nb, nbStore = v.Call.Common().StaticCallee(), ss
			c.Ok("R5", "next-bb-writer:"+FuncName(ss.Fn)+":computed", where, "computed at settlement")
			// after the bankrolls were settled
			for _, bs := range p.FieldStores("TablePlayerState", "Bankroll") {
				if bs.Fn == lc.settleFn {
					c.Check(!Reaches(ss.Instr, bs.Instr), "R5", "next-bb-after-settlement", where, "computed after bankrolls are settled", "the next-BB list is computed before the hand's results are credited")
				}
			}
		} else {
			c.Bad("R5", "next-bb-writer:"+FuncName(ss.Fn), where, "the next-BB list is written from "+v.String()+" outside settlement")
		}
	}
	c.Min("R5", "stores of the next-BB list", nNB, 3)
	if nb == nil {
		c.Bad("R5", "next-bb-scan", "-", "next-BB computation not found")
	} else {
		// call-site arguments
		v := nbStore.Val.Strip()
		okArgs := len(v.Args) == 5 && v.Args[1].IsCall("SeatManager.CurrentBBSeatID") && v.Args[2].Strip().IsField("TableMeta", "TableMaxSeatCount") &&
			v.Args[3].Strip().IsField("TableState", "PlayerStates") && v.Args[4].Strip().IsField("TableState", "SeatMap")
		c.Check(okArgs, "R5", "next-bb-arguments", p.InstrPos(nbStore.Instr), "(current BB seat, seat count, players, seat map)", "the next-BB computation is not given the seat manager's current BB seat, the table's seat count, player list and seat map: "+v.String())
		if len(nb.Params) != 5 {
			c.Bad("R5", "next-bb-scan", p.Pos(nb.Pos()), "the next-BB computation no longer takes (current BB seat, seat count, player list, seat map): the scan shape cannot be decided")
			goto r6
		}
		bbP, nP, plP, smP := nb.Params[1], nb.Params[2], nb.Params[3], nb.Params[4]
		n := 0
		for _, ci := range Calls(nb) {
			cs := p.CallSym(ci)
			if cs.Kind != "builtin" || cs.Name != "append" {
				continue
			}
			e := appendedElem(p, ci)
			if e == nil {
				continue
			}
			n++
			d := ""
			e = e.Strip()
			if !(e.IsField("TablePlayerState", "PlayerID") && e.Args[0].Strip().Kind == "index" && symIsParam(e.Args[0].Strip().Args[0], plP)) {
				d = "appended value " + e.String() + " is not the id of a listed player"
			} else {
				pi := e.Args[0].Strip().Args[1].Strip() // seatMap[(i % N)]
				if !(pi.Kind == "index" && symIsParam(pi.Args[0], smP)) {
					d = "player index " + pi.String() + " is not read from the seat map"
				} else {
					k := pi.Args[1].Strip()
					if !(k.Kind == "binop" && k.Name == "%" && symIsParam(k.Args[1], nP) && k.Args[0].Strip().Kind == "ind") {
						d = "seat " + k.String() + " is not a loop position modulo the seat count"
					} else {
						iv := k.Args[0].Strip().Ind
						first := iv.First.Strip()
						okFirst := first.Kind == "binop" && first.Name == "+" && (symIsParam(first.Args[0], bbP) && first.Args[1].Strip().Name == "1" || symIsParam(first.Args[1], bbP) && first.Args[0].Strip().Name == "1")
						b := iv.Bound
						okBound := false
						if b != nil {
							bs := b.Strip()
							if bs.Kind == "binop" && bs.Name == "+" {
								x, y := bs.Args[0], bs.Args[1]
								if iv.Incl && iv.Op == token.LEQ && (symIsParam(x, nP) && symIsParam(y, bbP) || symIsParam(y, nP) && symIsParam(x, bbP)) {
									okBound = true
								}
							}
						}
						if !okFirst || !okBound || iv.Step != 1 {
							d = fmt.Sprintf("the scan does not run from bb+1 to bb+N (first=%s bound=%v incl=%v)", first, b, iv.Incl)
						}
					}
					// guards: occupied and positive bankroll of that same player
					gs := p.Guards(ci)
					occ := cmpHolds(gs, func(l, r *Sym, op token.Token) bool {
						return (op == token.GEQ && r.Strip().Name == "0" || op == token.GTR && r.Strip().Name == "-1") && l.Strip().String() == pi.String()
					})
					chips := cmpHolds(gs, func(l, r *Sym, op token.Token) bool {
						return op == token.GTR && r.Strip().Name == "0" && l.Strip().IsField("TablePlayerState", "Bankroll") && l.Strip().Args[0].Strip().String() == e.Args[0].Strip().String()
					})
					extra := 0
					for _, g := range gs {
						if cm := g.AsCmp(); cm == nil {
							extra++
						}
					}
					if d == "" && (!occ || !chips) {
						d = fmt.Sprintf("a player is listed without testing occupied seat (%v) and positive bankroll (%v)", occ, chips)
					}
					if d == "" && extra > 0 {
						d = "an additional condition filters the next-BB list"
					}
				}
			}
			if d == "" {
				for _, o := range appendOrigins(ci.Common().Args[0]) {
					if !isEmptySlice(p.Sym(o)) {
						d = "the list does not start empty (" + p.Sym(o).String() + ")"
					}
				}
			}
			c.Check(d == "", "R5", "next-bb-scan", p.InstrPos(ci), "seats bb+1 … bb+N mod N, occupied ∧ bankroll > 0", "next-BB order: "+d)
		}
		c.Min("R5", "appends in the next-BB scan", n, 1)
	}

r6:
	// ---------------- R6
	pairs := map[string]string{"CurrentDealerSeat": "SeatManager.CurrentDealerSeatID", "CurrentSBSeat": "SeatManager.CurrentSBSeatID", "CurrentBBSeat": "SeatManager.CurrentBBSeatID"}
	for field, getter := range pairs {
		n := 0
		for _, ss := range p.FieldStores("TableState", field) {
			if storeIsLocal(ss.Instr) {
				z, isZ := ss.Val.ConstInt()
				c.Check(isZ && z == -1, "R6", "seat-publication:"+field+":initial", p.InstrPos(ss.Instr), "unset at construction", "initial "+field+" is not unset")
				continue
			}
			n++
			ok := ss.Fn == lc.openFn && ss.Val.IsCall(getter)
			c.Check(ok, "R6", "seat-publication:"+field, p.InstrPos(ss.Instr), field+" ← "+getter, fmt.Sprintf("published %s is stored from %s (expected %s in the open step)", field, ss.Val, getter))
		}
		c.Min("R6", "publications of "+field, n, 1)
	}
	checkSeatGetters(c, "R6")
}

// constStringsStoredTo: constant strings stored to the elements of a local array, in index order.
func constStringsStoredTo(p *Prog, al *ssa.Alloc) []string {
	vals := map[int64]string{}
	if refs := al.Referrers(); refs != nil {
		for _, r := range *refs {
			if ia, ok := r.(*ssa.IndexAddr); ok {
				idx, _ := p.Sym(ia.Index).ConstInt()
				if irefs := ia.Referrers(); irefs != nil {
					for _, r2 := range *irefs {
						if st, ok := r2.(*ssa.Store); ok {
							s, _ := p.Sym(st.Val).ConstString()
							vals[idx] = s
						}
					}
				}
			}
		}
	}
	out := make([]string, len(vals))
	for i := range out {
		out[i] = vals[int64(i)]
	}
	return out
}
