package main

// C04 — button and blinds move by the dead-button rule.

import (
	"fmt"
	"go/token"
	"sort"
	"strings"

	"golang.org/x/tools/go/ssa"
)

func init() {
	register(&PropMeta{
		ID:          "C04",
		Level:       "other",
		Explanation: "Decides the clauses of the rotation that are visible in the shape of the code: (R1) every modulus in the seat-manager package is the manager's own seat count and no integer literal takes part in circular seat arithmetic (the statement ranges over seat counts 2..10); (R2) in the rotation the new big blind is next-in-with-chips(old BB); with three or more active the small blind is the BB seat as read before the BB store and the dealer the SB seat as read before the SB store (after heads-up: nearest live seat before the new SB); with exactly two active the dealer is next-occupied(new BB) and SB the new dealer; short deck passes the dealer to next-occupied(old dealer); (R3) no path of the rotation to an error exit stores a seat id and the public wrapper refuses before calling it when positions were never initialised; (R4) every seat-id store is dominated by 'active count ≥ 2' and every refusal is conditioned on 'active count < 2' or an unsupported rule; (R5) each circular scan helper visits offsets 1..MaxSeat-1 from its start seat, returns the first seat satisfying exactly its predicate and the unset value otherwise; (R6) eligibility ≡ seated-in ∧ not waiting ∧ has chips, and the active count counts exactly those seats. Also decided since (see the rule list): the first positions (R7), the waiting arc's arithmetic including the wrap (R8), initialise-once / rotate-once per hand (R9), the has-chips refresh after every bankroll change (R10). NOT decided: nobody skipped / never backwards / three seats distinct over all reachable states and histories (numeric state exploration is another technique family).",
		Rules: map[string]string{
			"R1":  "modulus uniformity: every % in the seat-manager package is by the manager's MaxSeat; no integer literal (≥2) in circular seat arithmetic; the seat count is written only at construction; a new seat manager has seats 0…count-1, all empty, positions unset, not initialised; a new seat player is not seated-in, has chips, is not waiting",
			"R2":  "old-value provenance of BB/SB/dealer in the rotation, per branch",
			"R3":  "refusal purity: no seat-id store on a path to an error exit; wrapper refuses before rotating when uninitialised; no known-nil error returned (inverted test)",
			"R4":  "refusal guard: seat-id stores dominated by active count ≥ 2; refusals only under active count < 2 or unsupported rule",
			"R5":  "scan-helper shape: offsets 1..MaxSeat-1, first match of exactly its predicate, unset otherwise; the backwards search with an eligible-only switch returns the first occupied seat, with the switch on the first eligible one (path by path)",
			"R6":  "eligibility definition and active-count definition; the count starts at 0",
			"R11": "the remembered dealer / SB / BB seats and the initialised mark are written only by the first positioning, the rotation and their exported wrappers (a fresh manager starts unset)",
			"R9":  "the open step initialises positions only on the first hand and rotates them exactly once on every later hand (shared with C05.R1)",
			"R10": "the has-chips flag read by the big-blind scan is refreshed by every bankroll writer for the credited player, from the new bankroll (shared with C05.R4): a player who tops up between hands is not skipped",
			"R8":  "waiting arc (dealer, bb) exclusive at both ends, also across the wrap (shared with C05.R5): the rotation re-evaluates non-active seats with it before choosing the next big blind — only them, all of them, on every rotation (shared with C05.R6)",
			"R7":  "first positions: BB = chosen active seat; heads-up dealer = SB = the other active seat; otherwise SB = previous active seat of the new BB and dealer = previous active seat of the new SB; short deck dealer = chosen seat; success only after a dealer-seat store; a seat from a backwards search stored only when found; the heads-up search selects exactly the occupied, active seat that is not the big blind",
		},
		Assumptions: []string{"seat ids are 0..MaxSeat-1 (constructor)"},
		Run:         checkC04,
		Controls:    controlsC04,
	})
}

func inSeatManagerPkg(p *Prog, f *ssa.Function) bool {
	pk := p.PkgOf(f)
	return pk != nil && pk.PkgPath == modPath+"/seat_manager"
}

type scanHelper struct {
	Fn      *ssa.Function
	Forward bool
	Pred    string // sorted predicate atoms, e.g. "Active" / "HasChips,IsIn" / "" / "Active?"
	OK      bool
	Why     string
}

// analyseScanHelper recognises a circular scan helper and checks its shape (R5).
func analyseScanHelper(p *Prog, f *ssa.Function) *scanHelper {
	h := &scanHelper{Fn: f}
	if len(f.Params) < 2 || f.Signature.Results().Len() != 1 {
		return nil
	}
	start := f.Params[1]
	// find lookups of SeatData keyed by a modulus expression
	var key *Sym
	for _, b := range f.Blocks {
		for _, in := range b.Instrs {
			if lk, ok := in.(*ssa.Lookup); ok && p.Sym(lk.X).Strip().IsField("seatManager", "SeatData") {
				k := p.Sym(lk.Index).Strip()
				if k.Kind == "binop" && k.Name == "%" {
					key = k
				}
			}
		}
	}
	if key == nil {
		return nil
	}
	isMax := func(s *Sym) bool { return s.Strip().IsField("seatManager", "MaxSeat") }
	if !isMax(key.Args[1]) {
		h.Why = "scan modulus is " + key.Args[1].String() + ", not the manager's seat count"
		return h
	}
	e := key.Args[0].Strip()
	var iv *Sym
	switch {
	case e.Kind == "binop" && e.Name == "+" && symIsParam(e.Args[0], start) && e.Args[1].Strip().Kind == "ind":
		h.Forward, iv = true, e.Args[1].Strip()
	case e.Kind == "binop" && e.Name == "+" && symIsParam(e.Args[1], start) && e.Args[0].Strip().Kind == "ind":
		h.Forward, iv = true, e.Args[0].Strip()
	case e.Kind == "binop" && e.Name == "-" && e.Args[1].Strip().Kind == "ind":
		l := e.Args[0].Strip()
		if l.Kind == "binop" && l.Name == "+" {
			a, b := l.Args[0].Strip(), l.Args[1].Strip()
			if (symIsParam(a, start) && isMax(b)) || (symIsParam(b, start) && isMax(a)) {
				iv = e.Args[1].Strip()
			}
		}
		if iv == nil {
			h.Why = "backward step " + e.String() + " is not start + MaxSeat - i"
			return h
		}
	default:
		h.Why = "scan position " + e.String() + " is neither start + i nor start + MaxSeat - i"
		return h
	}
	ind := iv.Ind
	first, isC := ind.First.ConstInt()
	if !isC || first != 1 || ind.Step != 1 || ind.Bound == nil || !isMax(ind.Bound) || ind.Incl || ind.Op != token.LSS {
		h.Why = "scan does not visit offsets 1..MaxSeat-1 (" + iv.String() + ")"
		return h
	}
	// returns
	preds := map[string]bool{}
	sawUnset, sawSeat := false, false
	for _, b := range f.Blocks {
		for _, in := range b.Instrs {
			r, ok := in.(*ssa.Return)
			if !ok {
				continue
			}
			v := p.Sym(r.Results[0]).Strip()
			if z, isZ := v.ConstInt(); isZ {
				if z != -1 {
					h.Why = fmt.Sprintf("returns the constant %d", z)
					return h
				}
				// the unset return must be outside the loop (after exhausting it)
				if b.Dominates(ind.Phi.Block()) || p.inLoop(b) {
					h.Why = "returns unset before the scan is exhausted"
					return h
				}
				sawUnset = true
				continue
			}
			if v.String() != key.String() {
				h.Why = "returns " + v.String() + ", not the scanned seat"
				return h
			}
			sawSeat = true
			gs := p.Guards(r)
			atoms := []string{}
			occupied := false
			for _, g := range gs {
				cs := g.Cond.Strip()
				switch {
				case cs.Kind == "extract" && cs.Name == "1": // exist
				case cs.Kind == "binop" && cs.Name == "!=" && cs.Args[1].IsNil():
					if g.Val {
						occupied = true
					}
				case cs.IsCall("SeatPlayer.Active"):
					if g.Val {
						atoms = append(atoms, "Active")
					} else {
						atoms = append(atoms, "!Active")
					}
				case cs.Kind == "field" && cs.Owner == "SeatPlayer":
					if g.Val {
						atoms = append(atoms, cs.Name)
					} else {
						atoms = append(atoms, "!"+cs.Name)
					}
				case cs.Kind == "param":
					if g.Val {
						atoms = append(atoms, "if("+cs.Name+")")
					} else {
						atoms = append(atoms, "if(!"+cs.Name+")")
					}
				case cs.Kind == "binop" && cs.Name == "<": // loop test
				default:
					atoms = append(atoms, "?"+cs.String())
				}
			}
			if !occupied {
				h.Why = "returns a seat without checking that it is occupied"
				return h
			}
			sort.Strings(atoms)
			preds[strings.Join(atoms, ",")] = true
		}
	}
	if !sawUnset || !sawSeat {
		h.Why = "helper lacks a found-return or the unset fall-through"
		return h
	}
	var ps []string
	for k := range preds {
		ps = append(ps, k)
	}
	sort.Strings(ps)
	h.Pred = strings.Join(ps, " | ")
	h.OK = true
	return h
}

func checkC04(c *Ctx) {
	p := c.P
	checkNoKnownNilErrorReturn(c, "R3", func(f *ssa.Function) bool { return inSeatManagerPkg(p, f) && f.Parent() == nil }, 5)
	smT := p.singleImpl("/seat_manager", "SeatManager")
	if smT == nil {
		c.Bad("R1", "anchors", "-", "seat manager not found")
		return
	}
	// ---------------- R1
	nMod := 0
	for _, f := range p.Funcs {
		if !inSeatManagerPkg(p, f) {
			continue
		}
		for _, b := range f.Blocks {
			for _, in := range b.Instrs {
				bo, ok := in.(*ssa.BinOp)
				if !ok || bo.Op != token.REM {
					continue
				}
				nMod++
				m := p.Sym(bo.Y).Strip()
				where := p.InstrPos(bo)
				key := FuncName(f) + ":modulus"
				if !m.IsField("seatManager", "MaxSeat") {
					c.Bad("R1", key, where, "circular seat arithmetic uses modulus "+m.String()+" instead of the table's seat count: wrong on every table whose seat count differs from it")
					continue
				}
				// no integer literal ≥ 2 in the dividend
				lit := ""
				p.Sym(bo.X).Walk(func(x *Sym) bool {
					if x.Kind == "ind" {
						return false
					}
					if z, isZ := x.ConstInt(); isZ && (z >= 2 || z <= -2) {
						lit = x.Name
					}
					return true
				})
				c.Check(lit == "", "R1", key, where, "modulus is MaxSeat, no literal offset", "circular seat arithmetic adds the literal "+lit+" before taking the modulus")
			}
		}
	}
	c.Min("R1", "modulus sites in the seat-manager package", nMod, 5)
	checkWrapCounters(c, "R1", func(f *ssa.Function) bool { return inSeatManagerPkg(p, f) }, 2)

	// ---------------- R5 helpers
	helpers := map[*ssa.Function]*scanHelper{}
	for _, f := range p.Methods(smT) {
		if o := f.Object(); o != nil && o.Exported() {
			continue
		}
		if !strings.HasSuffix(fnName(f), "SeatID") {
			// role: unexported method (start seat) → seat; recognised structurally below
		}
		if h := analyseScanHelper(p, f); h != nil {
			helpers[f] = h
			c.Check(h.OK, "R5", "scan-helper:"+fnName(f), p.Pos(f.Pos()), fmt.Sprintf("forward=%v predicate {%s}", h.Forward, h.Pred), "circular scan helper has the wrong shape: "+h.Why)
		}
	}
	// literal-modulus helpers are not recognised as scans by key shape; make sure every
	// unexported (seat)→seat method that looks up SeatData in a loop was analysed
	nScan := 0
	for _, f := range p.Methods(smT) {
		if o := f.Object(); o != nil && o.Exported() {
			continue
		}
		if len(f.Params) >= 2 && f.Signature.Results().Len() == 1 && isIntType(f.Signature.Results().At(0).Type()) && isIntType(f.Params[1].Type()) && len(f.Blocks) > 2 {
			loops := false
			for _, b := range f.Blocks {
				for _, in := range b.Instrs {
					if lk, ok := in.(*ssa.Lookup); ok && p.Sym(lk.X).Strip().IsField("seatManager", "SeatData") && p.inLoop(b) {
						loops = true
					}
				}
			}
			if loops {
				nScan++
				if helpers[f] == nil {
					c.Bad("R5", "scan-helper:"+fnName(f), p.Pos(f.Pos()), "a seat scan whose position is not (start ± i) modulo the manager's seat count")
				}
			}
		}
	}
	c.Min("R5", "circular scan helpers", nScan, 4)
	kindOf := func(f *ssa.Function) string {
		h := helpers[f]
		if h == nil || !h.OK {
			return "?"
		}
		d := "prev"
		if h.Forward {
			d = "next"
		}
		return d + "{" + h.Pred + "}"
	}
	// expected predicate sets exist
	have := map[string]bool{}
	for f := range helpers {
		have[kindOf(f)] = true
	}
	for _, k := range []string{"next{Active}", "next{HasChips,IsIn}", "prev{HasChips,IsIn}"} {
		c.Check(have[k], "R5", "helper-kind:"+k, "-", "present", "no scan helper with direction/predicate "+k+" (found "+fmt.Sprint(keysOf(have))+")")
	}

	// ---------------- R6
	checkEligibility(c, "R6")

	// ---------------- R8 the waiting arc the rotation re-evaluates is open at both ends
	// (an arc that includes the big-blind seat makes the player due for the big blind wait)
	checkWaitingArc(c, "R8", smT)
	checkRotationWaitingFlags(c, "R8", smT)

	// ---------------- R9 the rotation is driven once per hand by the open step
	checkOpenRotation(c, "R9")
	// ---------------- R10 the has-chips flag the big-blind scan reads follows every bankroll change
	if lc := p.lifecycle(); lc.continueFn != nil {
		checkHasChipsRefresh(c, "R10", lc)
	} else {
		c.Bad("R10", "anchors", "-", "continue step not found")
	}

	// ---------------- rotation
	rotW := p.Method(smT, "RotatePositions")
	var rot *ssa.Function
	if rotW != nil {
		for _, ci := range Calls(rotW) {
			if sc := ci.Common().StaticCallee(); sc != nil && inSeatManagerPkg(p, sc) && errResultIndex(sc.Signature) >= 0 {
				rot = sc
			}
		}
	}
	if rot == nil {
		c.Bad("R2", "rotation", "-", "rotation function not found")
		return
	}
	seatW := &Watch{Name: "seatids", Direct: func(p *Prog, in ssa.Instruction) bool {
		if st, ok := in.(*ssa.Store); ok && !rawLocal(st.Addr) {
			a := p.Sym(st.Addr).Strip()
			return a.Kind == "field" && a.Owner == "seatManager" && (a.Name == "DealerSeatID" || a.Name == "SBSeatID" || a.Name == "BBSeatID")
		}
		return false
	}}
	// R11: the memory of the last hand's button and blinds has no writer besides the first positioning and the
	// rotation (a fresh manager starts unset): a third writer — a reset when the table drains, a "repair" on
	// leave — breaks the chain "SB ← old BB, dealer ← old SB" the dead-button rule is made of
	{
		allowed := map[*ssa.Function]bool{rot: true, rotW: true}
		if iw := p.Method(smT, "InitPositions"); iw != nil {
			allowed[iw] = true
			for _, ci := range Calls(iw) {
				if sc := ci.Common().StaticCallee(); sc != nil && inSeatManagerPkg(p, sc) && errResultIndex(sc.Signature) >= 0 {
					allowed[sc] = true
				}
			}
		}
		nW := 0
		okW := true
		for _, f := range p.Funcs {
			if !inSeatManagerPkg(p, f) {
				continue
			}
			top := f
			for top.Parent() != nil {
				top = top.Parent()
			}
			for _, b := range f.Blocks {
				for _, in := range b.Instrs {
					st, isSt := in.(*ssa.Store)
					if !isSt || rawLocal(st.Addr) {
						continue
					}
					a := p.Sym(st.Addr).Strip()
					if !(a.Kind == "field" && a.Owner == "seatManager" && (a.Name == "DealerSeatID" || a.Name == "SBSeatID" || a.Name == "BBSeatID" || a.Name == "IsInit")) {
						continue
					}
					nW++
					if !allowed[top] {
						okW = false
						c.Bad("R11", "position-memory-writer:"+fnName(top)+":"+a.Name, p.InstrPos(in), fnName(top)+" writes "+a.Name+": the button / blind seats of the last hand (and the initialised mark) are moved only by the first positioning and by the rotation — any other writer forgets or rewrites what the dead-button rule carries from hand to hand")
					}
				}
			}
		}
		if okW {
			c.Ok("R11", "position-memory-writers", p.Pos(rot.Pos()), fmt.Sprintf("%d stores, all in the first positioning / the rotation and their wrappers", nW))
		}
		c.Min("R11", "stores to the position memory", nW, 12)
	}
	// R3
	for _, f := range []*ssa.Function{rot, rotW} {
		imps := p.ErrorImpurities(f, seatW)
		bad := 0
		for _, im := range imps {
			if im.Mut == nil {
				c.Undecided("R3", fnName(f), p.Pos(f.Pos()), "path enumeration aborted")
				bad++
				continue
			}
			if im.Inherited {
				continue
			}
			bad++
			c.Bad("R3", fnName(f)+":"+describeMut(p, im.Mut)+"→"+describeExit(p, f, im.Exit), p.InstrPos(im.Mut), fmt.Sprintf("a seat id is moved (%s) on a path that then refuses the rotation at %s", instrText(p, im.Mut), p.InstrPos(im.Exit)), "path "+p.TrailString(f, im.Trail))
		}
		if bad == 0 {
			c.Ok("R3", fnName(f), p.Pos(f.Pos()), "no seat-id store on any path to a refusal")
		}
	}
	// wrapper refuses when uninitialised
	for _, ci := range Calls(rotW) {
		if ci.Common().StaticCallee() == rot {
			ok := guardedBy(p.Guards(ci), true, func(s *Sym) bool { return s.IsField("seatManager", "IsInit") })
			c.Check(ok, "R3", "wrapper-init-guard", p.InstrPos(ci), "rotation only when initialised", "positions can be rotated before they were ever initialised")
		}
	}
	// count helper
	var countFn *ssa.Function
	for _, b := range rot.Blocks {
		for _, in := range b.Instrs {
			if iff, ok := in.(*ssa.If); ok {
				s := p.Sym(iff.Cond).Strip()
				if s.Kind == "binop" && s.Name == "<" && s.Args[0].Strip().Kind == "call" && s.Args[1].Strip().Name == "2" {
					countFn = s.Args[0].Strip().Call.Common().StaticCallee()
				}
			}
		}
	}
	isCount := func(s *Sym) bool {
		s = s.Strip()
		return s.Kind == "call" && countFn != nil && s.Call.Common().StaticCallee() == countFn
	}
	atLeast2 := func(gs []Guard) bool {
		return cmpHolds(gs, func(l, r *Sym, op token.Token) bool { return op == token.GEQ && isCount(l) && r.Strip().Name == "2" })
	}
	fewer := func(gs []Guard) bool {
		return cmpHolds(gs, func(l, r *Sym, op token.Token) bool { return op == token.LSS && isCount(l) && r.Strip().Name == "2" })
	}
	exactly2 := func(gs []Guard) (bool, bool) { // (known, value)
		for _, g := range gs {
			if cm := g.AsCmp(); cm != nil && isCount(cm.L) && cm.R.Strip().Name == "2" {
				if cm.Op == token.EQL {
					return true, true
				}
				if cm.Op == token.NEQ {
					return true, false
				}
			}
		}
		return false, false
	}
	// R4
	var stores []*StoreSite
	for _, ss := range p.Stores([]*ssa.Function{rot}) {
		if seatW.Direct(p, ss.Instr) {
			stores = append(stores, ss)
		}
	}
	c.Min("R4", "seat-id stores in the rotation", len(stores), 8)
	for _, ss := range stores {
		c.Check(atLeast2(p.Guards(ss.Instr)), "R4", "store-guard:"+ss.Field+"@"+branchOf(p, ss), p.InstrPos(ss.Instr), "dominated by active count ≥ 2", "a seat id is moved without having established that at least two players are active")
	}
	for _, b := range rot.Blocks {
		for _, in := range b.Instrs {
			r, ok := in.(*ssa.Return)
			if !ok {
				continue
			}
			v := p.Sym(retValue(r, 0)).Strip()
			if v.Kind != "global" {
				continue
			}
			gs := p.Guards(r)
			unsupported := cmpHolds(gs, func(l, r *Sym, op token.Token) bool {
				s, _ := r.ConstString()
				return op == token.NEQ && l.Strip().IsField("seatManager", "Rule") && s == "default"
			}) && cmpHolds(gs, func(l, r *Sym, op token.Token) bool {
				s, _ := r.ConstString()
				return op == token.NEQ && l.Strip().IsField("seatManager", "Rule") && s == "short_deck"
			})
			c.Check(fewer(gs) || unsupported, "R4", "refusal-condition", p.InstrPos(r), "refusal only under active count < 2 or unsupported rule", "the rotation can be refused although two or more players are active")
		}
	}
	checkCountAfterRefresh(c, "R4", rot, countFn)
	if countFn != nil {
		checkActiveCount(c, countFn)
	} else {
		c.Bad("R4", "count-helper", "-", "no 'active count < 2' test in the rotation")
	}

	// ---------------- R2 provenance
	storeOf := func(field string, pred func(gs []Guard) bool) []*StoreSite {
		var out []*StoreSite
		for _, ss := range stores {
			if ss.Field == field && pred(p.Guards(ss.Instr)) {
				out = append(out, ss)
			}
		}
		return out
	}
	isDefault := func(gs []Guard) bool {
		return cmpHolds(gs, func(l, r *Sym, op token.Token) bool {
			s, _ := r.ConstString()
			return op == token.EQL && l.Strip().IsField("seatManager", "Rule") && s == "default"
		})
	}
	isShort := func(gs []Guard) bool {
		return cmpHolds(gs, func(l, r *Sym, op token.Token) bool {
			s, _ := r.ConstString()
			return op == token.EQL && l.Strip().IsField("seatManager", "Rule") && s == "short_deck"
		})
	}
	// timing of a seat-id read relative to the stores of that field
	timing := func(v *Sym, field string, branch func([]Guard) bool) string {
		v = v.Strip()
		if !v.IsField("seatManager", field) {
			return "other"
		}
		ld, ok := v.V.(ssa.Instruction)
		if !ok {
			return "other"
		}
		before, after := true, false
		for _, ss := range stores {
			if ss.Field != field || !branch(p.Guards(ss.Instr)) {
				continue
			}
			if !(Dominates(ld, ss.Instr) || !Reaches(ss.Instr, ld)) {
				before = false
			}
			if Dominates(ss.Instr, ld) {
				after = true
			}
		}
		switch {
		case after:
			return "new"
		case before:
			return "old"
		}
		return "mixed"
	}
	helperCall := func(v *Sym) (kind string, arg *Sym) {
		v = v.Strip()
		if v.Kind != "call" || v.Call.Common().StaticCallee() == nil || len(v.Args) < 2 {
			return "", nil
		}
		return kindOf(v.Call.Common().StaticCallee()), v.Args[1]
	}
	type expect struct {
		name   string
		field  string
		branch func([]Guard) bool
		check  func(ss *StoreSite) string
	}
	prevHUKnown := func(gs []Guard, want bool) bool {
		return guardedBy(gs, want, func(s *Sym) bool { return s.IsCall("seatManager.IsHU") })
	}
	defBr := isDefault
	exps := []expect{
		{"default:BB←next-in-chips(old BB)", "BBSeatID", defBr, func(ss *StoreSite) string {
			k, a := helperCall(ss.Val)
			if k != "next{HasChips,IsIn}" {
				return "new big blind is " + ss.Val.String() + ", not the next seated-in player with chips"
			}
			if t := timing(a, "BBSeatID", defBr); t != "old" {
				return "the scan for the new big blind does not start from the previous big-blind seat (" + t + ")"
			}
			return ""
		}},
		{"default,2:dealer←next-occupied(new BB)", "DealerSeatID", func(gs []Guard) bool { k, v := exactly2(gs); return defBr(gs) && k && v }, func(ss *StoreSite) string {
			k, a := helperCall(ss.Val)
			if k != "next{Active}" {
				return "heads-up dealer is " + ss.Val.String()
			}
			if t := timing(a, "BBSeatID", defBr); t != "new" {
				return "heads-up dealer is not searched from the new big blind (" + t + ")"
			}
			return ""
		}},
		{"default,2:SB←new dealer", "SBSeatID", func(gs []Guard) bool { k, v := exactly2(gs); return defBr(gs) && k && v }, func(ss *StoreSite) string {
			if t := timing(ss.Val, "DealerSeatID", defBr); t != "new" {
				return "heads-up small blind is " + ss.Val.String() + " (" + t + "), not the new dealer"
			}
			return ""
		}},
		{"default,3+:SB←old BB", "SBSeatID", func(gs []Guard) bool { k, v := exactly2(gs); return defBr(gs) && k && !v }, func(ss *StoreSite) string {
			if t := timing(ss.Val, "BBSeatID", defBr); t != "old" {
				return "small blind is " + ss.Val.String() + " (" + t + " BB), not the previous big-blind seat"
			}
			return ""
		}},
		{"default,3+,after HU:dealer←prev-alive(new SB)", "DealerSeatID", func(gs []Guard) bool {
			k, v := exactly2(gs)
			return defBr(gs) && k && !v && prevHUKnown(gs, true)
		}, func(ss *StoreSite) string {
			k, a := helperCall(ss.Val)
			if k != "prev{HasChips,IsIn}" {
				return "dealer after heads-up is " + ss.Val.String()
			}
			if t := timing(a, "SBSeatID", defBr); t != "new" {
				return "dealer after heads-up is not searched from the new small blind (" + t + ")"
			}
			return ""
		}},
		{"default,3+:dealer←old SB", "DealerSeatID", func(gs []Guard) bool {
			k, v := exactly2(gs)
			return defBr(gs) && k && !v && prevHUKnown(gs, false)
		}, func(ss *StoreSite) string {
			if t := timing(ss.Val, "SBSeatID", defBr); t != "old" {
				return "dealer is " + ss.Val.String() + " (" + t + " SB), not the previous small-blind seat"
			}
			return ""
		}},
		{"short:dealer←next-occupied(old dealer)", "DealerSeatID", isShort, func(ss *StoreSite) string {
			k, a := helperCall(ss.Val)
			if k != "next{Active}" {
				return "short-deck dealer is " + ss.Val.String()
			}
			if t := timing(a, "DealerSeatID", isShort); t != "old" {
				return "short-deck dealer is not searched from the previous dealer (" + t + ")"
			}
			return ""
		}},
	}
	matched := map[*StoreSite]bool{}
	for _, e := range exps {
		ss := storeOf(e.field, e.branch)
		if len(ss) != 1 {
			c.Bad("R2", e.name, p.Pos(rot.Pos()), fmt.Sprintf("%d stores of %s in this branch (exactly one expected)", len(ss), e.field))
			continue
		}
		matched[ss[0]] = true
		d := e.check(ss[0])
		c.Check(d == "", "R2", e.name, p.InstrPos(ss[0].Instr), "as specified", d)
	}
	// the previous-round heads-up flag is evaluated before any store
	for _, ci := range Calls(rot) {
		if calleeName(ci.Common()) == "seatManager.IsHU" {
			early := true
			for _, ss := range stores {
				if !Dominates(ci, ss.Instr) {
					early = false
				}
			}
			c.Check(early, "R2", "previous-round-heads-up-read-first", p.InstrPos(ci), "heads-up flag read before any seat moves", "the 'previous round was heads-up' flag is computed after seats have moved")
		}
	}
	// … and it is a statement about the stored seat ids only (what the table looked like when the
	// previous hand was dealt), not about who sits there now: heads-up ⇔ dealer seat = SB seat ∧ BB seat ≠ dealer seat
	if hu := p.Method(smT, "IsHU"); hu != nil {
		seat := func(s *Sym, w string) bool {
			s = s.Strip()
			return s.IsCall("seatManager.Current"+w+"SeatID") || s.IsField("seatManager", w+"SeatID")
		}
		okHU, why := checkBoolFunc(p, hu, func(g Guard) (string, bool, bool) {
			cm := g.AsCmp()
			if cm == nil || (cm.Op != token.EQL && cm.Op != token.NEQ) {
				return "", false, false
			}
			l, r := cm.L, cm.R
			for k := 0; k < 2; k++ {
				if seat(l, "Dealer") && seat(r, "SB") {
					return "dealer-is-sb", cm.Op == token.EQL, true
				}
				if seat(l, "BB") && seat(r, "Dealer") {
					return "bb-is-dealer", cm.Op == token.EQL, true
				}
				l, r = r, l
			}
			return "", false, false
		}, []string{"dealer-is-sb", "bb-is-dealer"}, func(a map[string]bool) bool { return a["dealer-is-sb"] && !a["bb-is-dealer"] })
		c.Check(okHU, "R2", "heads-up-predicate:definition", p.Pos(hu.Pos()), "IsHU ≡ dealer seat = SB seat ∧ BB seat ≠ dealer seat (stored ids only)", "the 'previous round was heads-up' predicate is no longer a comparison of the stored seat ids: "+why)
	} else {
		c.Bad("R2", "heads-up-predicate:definition", "-", "heads-up predicate not found")
	}
	// remaining stores: short deck SB/BB = unset
	for _, ss := range stores {
		if matched[ss] {
			continue
		}
		z, isZ := ss.Val.ConstInt()
		c.Check(isShort(p.Guards(ss.Instr)) && isZ && z == -1, "R2", "other-store:"+ss.Field+"@"+branchOf(p, ss), p.InstrPos(ss.Instr), "short deck clears SB/BB", "unexpected seat-id store "+ss.Addr.String()+" = "+ss.Val.String())
	}

	// ---------------- R7 first positions
	initW := p.Method(smT, "InitPositions")
	var initFn *ssa.Function
	if initW != nil {
		for _, ci := range Calls(initW) {
			if sc := ci.Common().StaticCallee(); sc != nil && inSeatManagerPkg(p, sc) && errResultIndex(sc.Signature) >= 0 && sc != rot {
				for _, ss := range p.Stores([]*ssa.Function{sc}) {
					if seatW.Direct(p, ss.Instr) {
						initFn = sc
					}
				}
			}
		}
	}
	if initFn == nil {
		c.Bad("R7", "init-positions", "-", "initial positioning function not found")
		return
	}
	var istores []*StoreSite
	for _, ss := range p.Stores([]*ssa.Function{initFn}) {
		if seatW.Direct(p, ss.Instr) {
			istores = append(istores, ss)
		}
	}
	c.Min("R7", "seat-id stores in the initial positioning", len(istores), 8)
	isFirstSeat := func(v *Sym) bool {
		// the seat chosen first: result #0 of the first/random occupied-seat helpers (active seats only)
		ok := true
		n := 0
		v.Walk(func(x *Sym) bool {
			switch x.Kind {
			case "phi":
				return true
			case "extract":
				n++
				if !(x.Name == "0" && x.Args[0].Strip().Kind == "call" && x.Args[0].Strip().Call.Common().StaticCallee() != nil && inSeatManagerPkg(p, x.Args[0].Strip().Call.Common().StaticCallee())) {
					ok = false
				}
				return false
			default:
				ok = false
				return false
			}
		})
		return ok && n >= 1
	}
	itiming := func(v *Sym, field string) string {
		v = v.Strip()
		if !v.IsField("seatManager", field) {
			return "other"
		}
		ld, ok := v.V.(ssa.Instruction)
		if !ok {
			return "other"
		}
		for _, ss := range istores {
			if ss.Field == field && isDefault(p.Guards(ss.Instr)) && Dominates(ss.Instr, ld) {
				return "new"
			}
		}
		return "old"
	}
	for _, ss := range istores {
		gs := p.Guards(ss.Instr)
		where := p.InstrPos(ss.Instr)
		key := "init:" + ss.Field + "@" + branchOf(p, ss)
		c.Check(atLeast2(gs), "R7", key+":guard", where, "dominated by active count ≥ 2", "an initial seat id is set without at least two active players")
		two, isTwo := exactly2(gs)
		v := ss.Val.Strip()
		d := ""
		switch {
		case isShort(gs):
			if ss.Field == "DealerSeatID" {
				if !isFirstSeat(ss.Val) {
					d = "short-deck dealer is " + v.String() + ", not the chosen first seat"
				}
			} else if z, isZ := v.ConstInt(); !isZ || z != -1 {
				d = "short deck sets " + ss.Field + " to " + v.String()
			}
		case ss.Field == "BBSeatID":
			if !isFirstSeat(ss.Val) {
				d = "initial big blind is " + v.String() + ", not the chosen first (active) seat"
			}
		case two && isTwo:
			// heads-up: dealer = SB = the other active seat
			other := v.Kind == "rangekey" && v.Args[0].Strip().IsField("seatManager", "SeatData") &&
				guardedBy(gs, true, func(x *Sym) bool { return x.IsCall("SeatPlayer.Active") && x.Args[0].Strip().Kind == "rangeval" }) &&
				cmpHolds(gs, func(l, r *Sym, op token.Token) bool {
					return op == token.NEQ && (l.Strip().Kind == "rangekey" && isFirstSeat(r) || r.Strip().Kind == "rangekey" && isFirstSeat(l))
				})
			if !other {
				d = "heads-up " + ss.Field + " is " + v.String() + ", not the other active seat"
			}
		case two && !isTwo:
			k, a := helperCall(ss.Val)
			shouldActive := false
			if v.Kind == "call" && len(v.Args) == 3 {
				shouldActive, _ = v.Args[2].ConstBool()
			}
			if !(len(k) > 5 && k[:5] == "prev{" && shouldActive) {
				d = ss.Field + " is " + v.String() + ", not the previous active seat"
			} else if ss.Field == "SBSeatID" && itiming(a, "BBSeatID") != "new" {
				d = "initial small blind is not searched backwards from the new big blind"
			} else if ss.Field == "DealerSeatID" && itiming(a, "SBSeatID") != "new" {
				d = "initial dealer is not searched backwards from the new small blind"
			}
		default:
			d = "seat id stored in an unrecognised branch"
		}
		c.Check(d == "", "R7", key, where, "as specified", d)
	}
	checkInitPositionsSpine(c, "R7", initFn)
	checkPreviousOccupied(c, "R5")
	checkSeatManagerConstruction(c, "R1")
	checkCreationWiring(c, "R1")
}

func keysOf(m map[string]bool) []string {
	var ks []string
	for k := range m {
		ks = append(ks, k)
	}
	sort.Strings(ks)
	return ks
}

func branchOf(p *Prog, ss *StoreSite) string {
	return fmt.Sprintf("b%d", ss.Instr.Block().Index)
}

// checkEligibility: Active() true ⇒ IsIn ∧ ¬IsBetweenDealerBB ∧ HasChips, and false otherwise.
func checkEligibility(c *Ctx, rule string) {
	p := c.P
	var act *ssa.Function
	for _, f := range p.Funcs {
		if fnName(f) == "Active" && f.Signature.Recv() != nil && namedOf(f.Signature.Recv().Type()) != nil && namedOf(f.Signature.Recv().Type()).Obj().Name() == "SeatPlayer" {
			act = f
		}
	}
	if act == nil {
		c.Bad(rule, "eligibility-definition", "-", "SeatPlayer.Active not found")
		return
	}
	ok := true
	d := ""
	n := 0
	wk := &Walker{P: p, Fn: act, OnExit: func(in ssa.Instruction, st *WState) {
		r, isR := in.(*ssa.Return)
		if !isR {
			return
		}
		n++
		atoms := map[string]bool{}
		known := map[string]bool{}
		for _, g := range st.PathGuards(p) {
			cs := g.Cond.Strip()
			if cs.Kind == "field" && cs.Owner == "SeatPlayer" {
				atoms[cs.Name] = g.Val
				known[cs.Name] = true
			}
		}
		rv := st.Resolve(r.Results[0])
		var result string // "true" | "false" | atom name
		if cst, isC := rv.(*ssa.Const); isC {
			if b, _ := constBool(cst); b {
				result = "true"
			} else {
				result = "false"
			}
		} else {
			s := p.Sym(rv).Strip()
			if s.Kind == "field" && s.Owner == "SeatPlayer" {
				result = s.Name
			} else {
				ok, d = false, "returns "+s.String()
				return
			}
		}
		want := map[string]bool{"IsIn": true, "IsBetweenDealerBB": false, "HasChips": true}
		// can the result be true on this path? then all three must be as wanted
		if result != "false" {
			if result != "true" {
				atoms[result] = true
				known[result] = true
			}
			for a, w := range want {
				if !known[a] || atoms[a] != w {
					ok, d = false, "a player can count as eligible without "+fmt.Sprintf("%s=%v", a, w)
				}
			}
		}
		// result false must be justified by one failing atom
		if result == "false" {
			just := false
			for a, w := range want {
				if known[a] && atoms[a] != w {
					just = true
				}
			}
			if !just {
				ok, d = false, "a player is ineligible although no eligibility condition fails"
			}
		}
	}}
	wk.Run()
	c.Check(ok && n > 0 && !wk.Aborted, rule, "eligibility-definition", p.Pos(act.Pos()), "Active ≡ IsIn ∧ ¬IsBetweenDealerBB ∧ HasChips", "eligibility predicate changed: "+d)
}

// checkActiveCount: the count helper counts exactly the occupied seats whose player is Active().
func checkActiveCount(c *Ctx, f *ssa.Function) {
	p := c.P
	// shape: range over SeatData; increment guarded by sp != nil && sp.Active(); returns the counter
	ok := false
	d := "the active-player count does not count exactly the occupied seats with an eligible player"
	for _, b := range f.Blocks {
		for _, in := range b.Instrs {
			bo, isB := in.(*ssa.BinOp)
			if !isB || bo.Op != token.ADD {
				continue
			}
			if z, isZ := p.Sym(bo.Y).ConstInt(); !isZ || z != 1 {
				continue
			}
			if _, isPhi := bo.X.(*ssa.Phi); !isPhi {
				continue
			}
			gs := p.Guards(bo)
			nonnil := nilGuard(gs, false, func(s *Sym) bool { return s.Kind == "rangeval" && s.Args[0].Strip().IsField("seatManager", "SeatData") })
			active := guardedBy(gs, true, func(s *Sym) bool {
				return s.IsCall("SeatPlayer.Active") && s.Args[0].Strip().Kind == "rangeval"
			})
			extra := 0
			for _, g := range gs {
				cs := g.Cond.Strip()
				if cs.Kind == "next" || cs.Kind == "extract" || cs.IsCall("SeatPlayer.Active") || (cs.Kind == "binop" && cs.Args[1].IsNil()) {
					continue
				}
				extra++
			}
			if nonnil && active && extra == 0 {
				ok = true
				// counted from zero, and the count is what is returned
				for _, lf := range p.phiLeaves(bo.X) {
					if lf.V == ssa.Value(bo) {
						continue
					}
					if z, isZ := p.Sym(lf.V).ConstInt(); !isZ || z != 0 {
						ok, d = false, "the active-player count does not start at 0"
					}
				}
			}
		}
	}
	c.Check(ok, "R6", "active-count-definition:"+fnName(f), p.Pos(f.Pos()), "counts seats with sp != nil ∧ sp.Active()", d)
}

// symIsParam: the sym denotes the given parameter (directly or through its spill slot).
func symIsParam(s *Sym, pr *ssa.Parameter) bool {
	s = s.Strip()
	return s.Kind == "param" && s.Name == pr.Name()
}

// checkWrapCounters: a loop counter that runs past one circle of seats (its start or
// bound adds the seat count, e.g. `for i := d+1; i < bb+N; i++`) is not a seat id; it may
// be used only (a) in its own step and loop test and (b) as the dividend of `% N`.
// Any other use (direct comparison with a seat id, direct index) is a violation.
// The seat count N of a function is whatever its `%` operators use as modulus.
func checkWrapCounters(c *Ctx, rule string, inScope func(f *ssa.Function) bool, min int) {
	p := c.P
	n := 0
	// the seat-count expressions of the scope: whatever its `%` operators use as modulus
	mods := map[string]bool{}
	for _, f := range p.Funcs {
		if !inScope(f) {
			continue
		}
		for _, b := range f.Blocks {
			for _, in := range b.Instrs {
				if bo, ok := in.(*ssa.BinOp); ok && bo.Op == token.REM {
					mods[p.Sym(bo.Y).Strip().String()] = true
				}
			}
		}
		// parameters that receive the table's seat count (or its seat map) at a call site
		for _, ci := range Calls(f) {
			sc := ci.Common().StaticCallee()
			if sc == nil || !p.IsRepoFunc(sc) {
				continue
			}
			cs := p.CallSym(ci)
			for i, a := range cs.Args {
				if i >= len(sc.Params) {
					break
				}
				as := a.Strip()
				if as.IsField("TableMeta", "TableMaxSeatCount") {
					mods[sc.Params[i].Name()] = true
				}
				if as.IsField("TableState", "SeatMap") {
					mods["len("+sc.Params[i].Name()+")"] = true
				}
			}
		}
	}
	for _, f := range p.Funcs {
		if !inScope(f) {
			continue
		}
		addsCount := func(s *Sym) bool {
			if s == nil {
				return false
			}
			return s.Contains(func(x *Sym) bool {
				x = x.Strip()
				if x.Kind != "binop" || (x.Name != "+" && x.Name != "-") {
					return false
				}
				return mods[x.Args[0].Strip().String()] || mods[x.Args[1].Strip().String()]
			})
		}
		seen := map[*ssa.Phi]bool{}
		for _, b := range f.Blocks {
			for _, in := range b.Instrs {
				v, ok := in.(ssa.Value)
				if !ok {
					continue
				}
				ind := p.induction(v)
				if ind == nil || seen[ind.Phi] {
					continue
				}
				if !addsCount(ind.Bound) && !addsCount(ind.First) {
					continue
				}
				seen[ind.Phi] = true
				n++
				bad := ""
				refs := v.Referrers()
				if refs != nil {
					for _, r := range *refs {
						switch x := r.(type) {
						case *ssa.DebugRef, *ssa.Phi:
						case *ssa.BinOp:
							switch {
							case x.Op == token.REM && x.X == v && mods[p.Sym(x.Y).Strip().String()]:
							case (x.Op == token.ADD || x.Op == token.SUB) && x.X == v:
								if _, isC := x.Y.(*ssa.Const); !isC {
									bad = "arithmetic " + p.Sym(x).String()
								}
							case x.Op == token.LSS || x.Op == token.LEQ || x.Op == token.GTR || x.Op == token.GEQ:
								// the loop test (either operand order)
								isTest := false
								if brefs := x.Referrers(); brefs != nil {
									for _, br := range *brefs {
										if _, isIf := br.(*ssa.If); isIf && ind.Bound != nil && (p.Sym(x.Y).String() == ind.Bound.String() || p.Sym(x.X).String() == ind.Bound.String()) {
											isTest = true
										}
									}
								}
								if !isTest {
									bad = "comparison " + p.Sym(x).String()
								}
							default:
								bad = "used as " + p.Sym(x).String()
							}
						default:
							bad = "used by " + instrText(p, r)
						}
					}
				}
				c.Check(bad == "", rule, "wrap-counter:"+fnName(f)+"@"+fmt.Sprintf("b%d", ind.Phi.Block().Index), p.InstrPos(ind.Phi), "counter past one circle used only modulo the seat count",
					"a loop counter that runs past the last seat ("+p.Sym(v).String()+") is used as if it were a seat id without being reduced modulo the seat count: "+bad)
			}
		}
	}
	c.Min(rule, "wrap-around loop counters", n, min)
}

// checkCountAfterRefresh (C04.R4, shared as C08.R8): see the comment inside.
func checkCountAfterRefresh(c *Ctx, rule string, rot, countFn *ssa.Function) {
	p := c.P
	// the count that decides (refusal, heads-up) is the count AFTER the waiting flags were re-evaluated: a newcomer
	// whose wait ends with this rotation is eligible for it — counted before the refresh he is missed, and a table
	// with one old and one new eligible player is refused for ever (the open step retries into the same refusal)
	if countFn != nil {
		var refresh []ssa.Instruction
		for _, ss := range p.Stores([]*ssa.Function{rot}) {
			if ss.Owner == "SeatPlayer" && ss.Field == "IsBetweenDealerBB" && !storeIsLocal(ss.Instr) {
				refresh = append(refresh, ss.Instr)
			}
		}
		nCnt, okCnt := 0, true
		for _, ci := range Calls(rot) {
			if ci.Common().StaticCallee() != countFn {
				continue
			}
			nCnt++
			// (a later, second refresh — the heads-up → ring transition re-evaluates the arc from the new dealer — does
			// not count against a count that already follows the first one)
			after := false
			for _, rs := range refresh {
				for _, h := range loopHeaders(rot) {
					if naturalLoop(h)[rs.Block()] && h.Dominates(ci.Block()) && !naturalLoop(h)[ci.Block()] {
						after = true
					}
				}
			}
			for _, rs := range refresh {
				if !after && Reaches(ci, rs) {
					okCnt = false
					c.Bad(rule, "count-after-waiting-refresh", p.InstrPos(ci), "the eligible players are counted before the rotation re-evaluates the waiting flags ("+p.InstrPos(rs)+"): a player whose wait ends with this rotation is not counted, and the rotation is refused (or played heads-up) although he is eligible")
					break
				}
			}
		}
		if okCnt {
			c.Ok(rule, "count-after-waiting-refresh", p.Pos(rot.Pos()), fmt.Sprintf("%d count(s), none taken before the %d refresh store(s)", nCnt, len(refresh)))
		}
		c.Min(rule, "eligible-player counts in the rotation", nCnt, 1)
	}
}

// rotationAndCount finds the seat manager's rotation function (the error-returning callee of RotatePositions) and the
// function whose result it compares with 2.
func rotationAndCount(p *Prog) (rot, countFn *ssa.Function) {
	smT := p.singleImpl("/seat_manager", "SeatManager")
	if smT == nil {
		return nil, nil
	}
	if rotW := p.Method(smT, "RotatePositions"); rotW != nil {
		for _, ci := range Calls(rotW) {
			if sc := ci.Common().StaticCallee(); sc != nil && inSeatManagerPkg(p, sc) && errResultIndex(sc.Signature) >= 0 {
				rot = sc
			}
		}
	}
	if rot == nil {
		return nil, nil
	}
	for _, b := range rot.Blocks {
		for _, in := range b.Instrs {
			if iff, ok := in.(*ssa.If); ok {
				s := p.Sym(iff.Cond).Strip()
				if s.Kind == "binop" && s.Name == "<" && s.Args[0].Strip().Kind == "call" && s.Args[1].Strip().Name == "2" {
					countFn = s.Args[0].Strip().Call.Common().StaticCallee()
				}
			}
		}
	}
	return rot, countFn
}
