package main

// A5 path queries with nil-facts, A6 return classification and error-purity summaries.

import (
	"fmt"
	"go/token"
	"go/types"
	"sort"
	"strings"

	"golang.org/x/tools/go/ssa"
)

type WState struct {
	Block  *ssa.BasicBlock
	nilF   map[ssa.Value]int8 // +1 nil, -1 non-nil
	boolF  map[ssa.Value]bool
	phi    map[*ssa.Phi]ssa.Value
	alloc  map[*ssa.Alloc]ssa.Value
	Events []ssa.Instruction
	Trail  []int
}

func (s *WState) clone() *WState {
	n := &WState{Block: s.Block, nilF: map[ssa.Value]int8{}, boolF: map[ssa.Value]bool{}, phi: map[*ssa.Phi]ssa.Value{}, alloc: map[*ssa.Alloc]ssa.Value{}}
	for k, v := range s.nilF {
		n.nilF[k] = v
	}
	for k, v := range s.boolF {
		n.boolF[k] = v
	}
	for k, v := range s.phi {
		n.phi[k] = v
	}
	for k, v := range s.alloc {
		n.alloc[k] = v
	}
	n.Events = append([]ssa.Instruction{}, s.Events...)
	n.Trail = append([]int{}, s.Trail...)
	return n
}

// Resolve follows phi choices made on this path, interface conversions and loads of
// locally tracked allocs (defer-spilled results, captured locals).
func (s *WState) Resolve(v ssa.Value) ssa.Value {
	for i := 0; i < 32; i++ {
		switch x := v.(type) {
		case *ssa.Phi:
			if r, ok := s.phi[x]; ok {
				v = r
				continue
			}
			return v
		case *ssa.ChangeInterface:
			v = x.X
			continue
		case *ssa.MakeInterface:
			v = x.X
			continue
		case *ssa.UnOp:
			if x.Op == token.MUL {
				if a, ok := x.X.(*ssa.Alloc); ok {
					if r, ok := s.alloc[a]; ok {
						v = r
						continue
					}
				}
			}
			return v
		default:
			return v
		}
	}
	return v
}

// NilFact: +1 known nil, -1 known non-nil, 0 unknown.
func (s *WState) NilFact(v ssa.Value) int8 {
	v = s.Resolve(v)
	if c, ok := v.(*ssa.Const); ok {
		if c.Value == nil {
			return +1
		}
		return -1
	}
	if f, ok := s.nilF[v]; ok {
		return f
	}
	switch x := v.(type) {
	case *ssa.UnOp:
		if x.Op == token.MUL {
			if _, ok := x.X.(*ssa.Global); ok && isErrorType(x.Type()) {
				return -1 // sentinel error variable
			}
		}
	case *ssa.Call:
		n := calleeName(&x.Call)
		if n == "errors.New" || n == "fmt.Errorf" {
			return -1
		}
	case *ssa.Alloc, *ssa.MakeClosure, *ssa.MakeMap, *ssa.MakeSlice, *ssa.Function:
		return -1
	}
	return 0
}

func isErrorType(t types.Type) bool {
	return t != nil && types.Identical(t, types.Universe.Lookup("error").Type())
}

func (s *WState) key() string {
	var parts []string
	for k, v := range s.nilF {
		parts = append(parts, fmt.Sprintf("n%p=%d", k, v))
	}
	for k, v := range s.boolF {
		parts = append(parts, fmt.Sprintf("b%p=%v", k, v))
	}
	for k, v := range s.phi {
		if nilable(k.Type()) || isBool(k.Type()) {
			parts = append(parts, fmt.Sprintf("p%p=%p", k, v))
		}
	}
	for k, v := range s.alloc {
		parts = append(parts, fmt.Sprintf("a%p=%p", k, v))
	}
	sort.Strings(parts)
	ev := make([]string, 0, len(s.Events))
	for _, e := range s.Events {
		ev = append(ev, fmt.Sprintf("%p", e))
	}
	sort.Strings(ev)
	return fmt.Sprintf("%d|%s|%s", s.Block.Index, strings.Join(parts, ","), strings.Join(ev, ","))
}

func nilable(t types.Type) bool {
	switch t.Underlying().(type) {
	case *types.Pointer, *types.Interface, *types.Map, *types.Slice, *types.Signature, *types.Chan:
		return true
	}
	return false
}

func isBool(t types.Type) bool {
	b, ok := t.Underlying().(*types.Basic)
	return ok && b.Kind() == types.Bool
}

type Walker struct {
	P       *Prog
	Fn      *ssa.Function
	IsEvent func(in ssa.Instruction) bool
	OnEvent func(in ssa.Instruction, st *WState) // called with the path state when an event instruction is reached
	OnExit  func(in ssa.Instruction, st *WState) // *ssa.Return or *ssa.Panic
	Limit   int
	steps   int
	Aborted bool
}

func (w *Walker) Run() {
	if len(w.Fn.Blocks) == 0 {
		return
	}
	if w.Limit == 0 {
		w.Limit = 200000
	}
	visited := map[string]bool{}
	st := &WState{Block: w.Fn.Blocks[0], nilF: map[ssa.Value]int8{}, boolF: map[ssa.Value]bool{}, phi: map[*ssa.Phi]ssa.Value{}, alloc: map[*ssa.Alloc]ssa.Value{}}
	w.visit(st, nil, visited)
}

func (w *Walker) visit(st *WState, from *ssa.BasicBlock, visited map[string]bool) {
	if w.Aborted {
		return
	}
	w.steps++
	if w.steps > w.Limit {
		w.Aborted = true
		return
	}
	b := st.Block
	// phis first (parallel assignment on entry from `from`)
	if from != nil {
		pi := -1
		for i, pr := range b.Preds {
			if pr == from {
				pi = i
				break
			}
		}
		if pi >= 0 {
			newPhi := map[*ssa.Phi]ssa.Value{}
			for _, in := range b.Instrs {
				ph, ok := in.(*ssa.Phi)
				if !ok {
					break
				}
				newPhi[ph] = st.Resolve(ph.Edges[pi])
			}
			for k, v := range newPhi {
				st.phi[k] = v
			}
		}
	}
	k := st.key()
	if visited[k] {
		return
	}
	visited[k] = true
	st.Trail = append(st.Trail, b.Index)
	for _, in := range b.Instrs {
		// a value (re)defined here is a new value on this iteration: facts learned
		// about the previous iteration's value no longer apply
		if dv, isVal := in.(ssa.Value); isVal {
			delete(st.nilF, dv)
			delete(st.boolF, dv)
		}
		switch x := in.(type) {
		case *ssa.Store:
			if a, ok := x.Addr.(*ssa.Alloc); ok && (nilable(x.Val.Type()) || isBool(x.Val.Type())) {
				st.alloc[a] = st.Resolve(x.Val)
			}
		case *ssa.Return:
			if w.OnExit != nil {
				w.OnExit(x, st)
			}
			return
		case *ssa.Panic:
			if w.OnExit != nil {
				w.OnExit(x, st)
			}
			return
		case *ssa.If:
			w.branch(st, x, visited)
			return
		case *ssa.Jump:
			n := st
			n.Block = b.Succs[0]
			w.visit(n, b, visited)
			return
		}
		if w.IsEvent != nil && w.IsEvent(in) {
			if w.OnEvent != nil {
				w.OnEvent(in, st)
			}
			dup := false
			for _, e := range st.Events {
				if e == in {
					dup = true
				}
			}
			if !dup {
				st.Events = append(st.Events, in)
			}
		}
	}
}

func (w *Walker) branch(st *WState, iff *ssa.If, visited map[string]bool) {
	b := st.Block
	for i := 0; i < 2; i++ {
		n := st.clone()
		if !assume(n, iff.Cond, i == 0) {
			continue // infeasible given earlier facts
		}
		n.Block = b.Succs[i]
		w.visit(n, b, visited)
	}
}

// assume records cond == val in the state; false if it contradicts known facts.
func assume(st *WState, cond ssa.Value, val bool) bool {
	cond = st.Resolve(cond)
	switch x := cond.(type) {
	case *ssa.Const:
		if x.Value != nil {
			if bv, ok := constBool(x); ok {
				return bv == val
			}
		}
	case *ssa.UnOp:
		if x.Op == token.NOT {
			return assume(st, x.X, !val)
		}
	case *ssa.BinOp:
		if x.Op == token.EQL || x.Op == token.NEQ {
			var other ssa.Value
			if isNilConst(x.Y) {
				other = x.X
			} else if isNilConst(x.X) {
				other = x.Y
			}
			if other != nil {
				isNil := (x.Op == token.EQL) == val
				rv := st.Resolve(other)
				have := st.NilFact(rv)
				want := int8(-1)
				if isNil {
					want = +1
				}
				if have != 0 && have != want {
					return false
				}
				if _, isC := rv.(*ssa.Const); !isC {
					st.nilF[rv] = want
				}
				return true
			}
		}
	}
	if have, ok := st.boolF[cond]; ok {
		return have == val
	}
	st.boolF[cond] = val
	return true
}

func isNilConst(v ssa.Value) bool {
	c, ok := v.(*ssa.Const)
	return ok && c.Value == nil && nilable(c.Type())
}

func constBool(c *ssa.Const) (bool, bool) {
	if c.Value == nil {
		return false, false
	}
	if b, ok := c.Type().Underlying().(*types.Basic); ok && b.Info()&types.IsBoolean != 0 {
		return c.Value.String() == "true", true
	}
	return false, false
}

// errResultIndex: index of the (last) error-typed result, -1 if none.
func errResultIndex(sig *types.Signature) int {
	r := sig.Results()
	for i := r.Len() - 1; i >= 0; i-- {
		if isErrorType(r.At(i).Type()) {
			return i
		}
	}
	return -1
}

// RetClass classifies a return on the given path: "ok", "err", or "maybe" (with the
// value whose non-nilness makes it an error exit).
func RetClass(st *WState, ret *ssa.Return) (string, ssa.Value) {
	idx := errResultIndex(ret.Parent().Signature)
	if idx < 0 || idx >= len(ret.Results) {
		return "ok", nil
	}
	v := st.Resolve(ret.Results[idx])
	switch st.NilFact(v) {
	case +1:
		return "ok", v
	case -1:
		return "err", v
	}
	return "maybe", v
}

// callErrValue: the SSA value carrying the error result of a call (nil if none).
func callErrValue(c *ssa.Call) ssa.Value {
	sig := c.Call.Signature()
	idx := errResultIndex(sig)
	if idx < 0 {
		return nil
	}
	if sig.Results().Len() == 1 {
		return c
	}
	if refs := c.Referrers(); refs != nil {
		for _, r := range *refs {
			if ex, ok := r.(*ssa.Extract); ok && ex.Index == idx {
				return ex
			}
		}
	}
	return nil
}

// ---------------------------------------------------------------------------
// A6 error-purity

type Watch struct {
	Name   string
	Direct func(p *Prog, in ssa.Instruction) bool
	// Opaque callees are never looked into (treated as non-mutating).
	Opaque func(f *ssa.Function) bool
	// ExtraMutator lets a watch declare calls (e.g. interface methods with no body
	// in the program) as mutations by name.
	mayMemo map[*ssa.Function]int8
	impMemo map[*ssa.Function][]Impurity
}

type Impurity struct {
	Fn        *ssa.Function
	Mut       ssa.Instruction
	Exit      ssa.Instruction
	Trail     []int
	Inherited bool // the mutation happened inside a callee that then failed (callee is the root)
	Callee    *ssa.Function
}

func (w *Watch) init() {
	if w.mayMemo == nil {
		w.mayMemo = map[*ssa.Function]int8{}
		w.impMemo = map[*ssa.Function][]Impurity{}
	}
}

// MayMutate: the function, or something it calls synchronously, performs a watched mutation.
func (p *Prog) MayMutate(f *ssa.Function, w *Watch) bool {
	w.init()
	if v, ok := w.mayMemo[f]; ok {
		return v > 0
	}
	w.mayMemo[f] = -1 // in progress: assume no
	res := false
	if f.Blocks != nil && (w.Opaque == nil || !w.Opaque(f)) {
	outer:
		for _, b := range f.Blocks {
			for _, in := range b.Instrs {
				if w.Direct(p, in) {
					res = true
					break outer
				}
				if ci, ok := in.(ssa.CallInstruction); ok {
					if _, isGo := ci.(*ssa.Go); isGo {
						continue
					}
					for _, c := range p.CG().SyncCallees(ci) {
						if p.IsRepoFunc(c) && p.MayMutate(c, w) {
							res = true
							break outer
						}
					}
				}
			}
		}
	}
	if res {
		w.mayMemo[f] = 1
	} else {
		w.mayMemo[f] = -1
	}
	return res
}

func (p *Prog) mutatingCallees(ci ssa.CallInstruction, w *Watch) []*ssa.Function {
	var out []*ssa.Function
	if _, isGo := ci.(*ssa.Go); isGo {
		return nil
	}
	for _, c := range p.CG().SyncCallees(ci) {
		if p.IsRepoFunc(c) && p.MayMutate(c, w) {
			out = append(out, c)
		}
	}
	return out
}

// ErrorImpurities: (mutation, error exit) pairs such that the mutation lies on a
// path to that error exit. A call to a mutating callee is not a mutation on a path
// that carries the fact "this call failed" when the callee is itself pure on error.
func (p *Prog) ErrorImpurities(f *ssa.Function, w *Watch) []Impurity {
	w.init()
	if r, ok := w.impMemo[f]; ok {
		return r
	}
	w.impMemo[f] = nil // in progress: optimistic
	var out []Impurity
	if errResultIndex(f.Signature) < 0 || f.Blocks == nil {
		return nil
	}
	seen := map[string]bool{}
	wk := &Walker{P: p, Fn: f,
		IsEvent: func(in ssa.Instruction) bool {
			if w.Direct(p, in) {
				return true
			}
			if ci, ok := in.(ssa.CallInstruction); ok {
				return len(p.mutatingCallees(ci, w)) > 0
			}
			return false
		},
		OnExit: func(in ssa.Instruction, st *WState) {
			ret, ok := in.(*ssa.Return)
			if !ok {
				return
			}
			cls, ev := RetClass(st, ret)
			if cls == "ok" {
				return
			}
			for _, e := range st.Events {
				imp := Impurity{Fn: f, Mut: e, Exit: ret, Trail: append([]int{}, st.Trail...)}
				if call, isCall := e.(*ssa.Call); isCall && !w.Direct(p, e) {
					cev := callErrValue(call)
					failed := false
					if cev != nil {
						if st.NilFact(cev) == -1 {
							failed = true
						}
						if cls == "maybe" && ev != nil && st.Resolve(cev) == ev {
							failed = true // this exit is an error exit exactly when this call failed
						}
					}
					if failed {
						allPure := true
						var bad *ssa.Function
						for _, c := range p.mutatingCallees(call, w) {
							if len(p.ErrorImpurities(c, w)) > 0 {
								allPure = false
								bad = c
							}
						}
						if allPure {
							continue // the callee failed without mutating
						}
						imp.Inherited = true
						imp.Callee = bad
					} else if cls == "maybe" && ev != nil {
						// the exit is an error only if ev != nil; the event call succeeded or is unrelated
					}
				}
				k := fmt.Sprintf("%p|%p|%v", imp.Mut, imp.Exit, imp.Inherited)
				if !seen[k] {
					seen[k] = true
					out = append(out, imp)
				}
			}
		}}
	wk.Run()
	if wk.Aborted {
		out = append(out, Impurity{Fn: f, Mut: nil, Exit: nil})
	}
	w.impMemo[f] = out
	return out
}

func (p *Prog) TrailString(f *ssa.Function, trail []int) string {
	var s []string
	for _, i := range trail {
		s = append(s, fmt.Sprintf("b%d", i))
	}
	return strings.Join(s, "→")
}

// PathGuards renders the facts of a path as guards (for definitional rules).
func (s *WState) PathGuards(p *Prog) []Guard {
	var out []Guard
	for v, b := range s.boolF {
		out = append(out, p.unfold(v, b, nil, 0)...)
	}
	for v, f := range s.nilF {
		nilc := &Sym{Kind: "const", Name: "nil"}
		out = append(out, Guard{Cond: &Sym{Kind: "binop", Name: "==", Args: []*Sym{p.Sym(v), nilc}}, V: v, Val: f > 0})
	}
	return out
}

// OkExits enumerates the non-error exits of f with the guards known on each path.
// For functions without an error result every return is an ok exit.
func (p *Prog) ExitsWithGuards(f *ssa.Function) (ok [][]Guard, errs [][]Guard, okRets, errRets []*ssa.Return, aborted bool) {
	wk := &Walker{P: p, Fn: f, OnExit: func(in ssa.Instruction, st *WState) {
		ret, isRet := in.(*ssa.Return)
		if !isRet {
			return
		}
		cls, _ := RetClass(st, ret)
		gs := st.PathGuards(p)
		if cls == "ok" {
			ok = append(ok, gs)
			okRets = append(okRets, ret)
		} else {
			errs = append(errs, gs)
			errRets = append(errRets, ret)
		}
	}}
	wk.Run()
	return ok, errs, okRets, errRets, wk.Aborted
}
