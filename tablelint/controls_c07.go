package main

func controlsC07() []Control {
	return []Control{
		{Name: "open driver ignores an existing hand state", Expect: "R3", Mutate: replaceIn("(*tableEngine).tableGameOpen", "te.table.State.GameState != nil", "false", 0)},
		{Name: "hand counter jumps by two", Expect: "R2", Mutate: replaceIn("(*tableEngine).openGame", "cloneTable.State.GameCount + 1", "cloneTable.State.GameCount + 2", 0)},
		{Name: "continue step keeps the last action", Expect: "R4", Mutate: replaceIn("(*tableEngine).continueGame", "te.table.State.LastPlayerGameAction = nil\n", "", 0)},
		{Name: "status playing before the hand started", Expect: "R1", Mutate: replaceIn("(*tableEngine).startGame", "\t// start game\n\tif _, err := te.game.Start(); err != nil {\n\t\treturn err\n\t}\n\n\tte.table.State.Status = TableStateStatus_TableGamePlaying\n", "\tte.table.State.Status = TableStateStatus_TableGamePlaying\n\tif _, err := te.game.Start(); err != nil {\n\t\treturn err\n\t}\n", 0)},
		{Name: "open driver does not test closed/released", Expect: "R5", Mutate: replaceIn("(*tableEngine).tableGameOpen", "te.table.State.Status == TableStateStatus_TableClosed || te.isReleased", "false", 0)},
		{Name: "continue handler does not test released", Expect: "R5", Mutate: replaceIn("(*tableEngine).continueGame", "if te.isReleased {", "if false {", 0)},
		{Name: "PlayersLeave resets status to standby", Expect: "R1", Mutate: replaceIn("(*tableEngine).PlayersLeave", "te.emitEvent(\"PlayersLeave\"", "te.table.State.Status = TableStateStatus_TableGameStandby\n\tte.emitEvent(\"PlayersLeave\"", 0)},
		{Name: "statistics reset only for dealt-in players", Expect: "R4", Mutate: replaceIn("(*tableEngine).continueGame", "playerState.GameStatistics = NewPlayerGameStatistics()", "if playerState.IsParticipated {\n\t\t\tplayerState.GameStatistics = NewPlayerGameStatistics()\n\t\t}", 0)},
		{Name: "startGame bumps the counter again", Expect: "R2", Mutate: replaceIn("(*tableEngine).startGame", "te.table.State.Status = TableStateStatus_TableGamePlaying", "te.table.State.Status = TableStateStatus_TableGamePlaying\n\tte.table.State.GameCount++", 0)},
		{Name: "settle without continue", Expect: "R1", Mutate: replaceIn("(*tableEngine).onGameClosed", "alivePlayers := te.settleGame()\n\treturn te.continueGame(alivePlayers)", "te.settleGame()\n\treturn nil", 0)},
		{Name: "hand state cleared at settlement", Expect: "R3", Mutate: replaceIn("(*tableEngine).settleGame", "te.emitEvent(\"SettleTableGameResult\", \"\")", "te.emitEvent(\"SettleTableGameResult\", \"\")\n\tdefer func() { te.table.State.GameState = nil }()", 0)},
		{Name: "continue handler pauses unconditionally", Expect: "R1", Mutate: replaceIn("(*tableEngine).continueGame", "if te.table.ShouldPause() {", "if true {", 0)},
		{Name: "opened status written on the live table", Expect: "R1", Mutate: replaceIn("(*tableEngine).openGame", "cloneTable.State.Status = TableStateStatus_TableGameOpened", "oldTable.State.Status = TableStateStatus_TableGameOpened", 0)},
		{Name: "blinds-set predicate is a disjunction", Expect: "R6", Mutate: replaceIn("(TableBlindState).IsSet", "bs.SB != UnsetValue && bs.BB != UnsetValue", "(bs.SB != UnsetValue || bs.BB != UnsetValue)", 0)},
		{Name: "first open result installed when it failed", Expect: "R7", Mutate: replaceIn("(*tableEngine).tableGameOpen", "retry := 10\n\tif err != nil {", "retry := 10\n\tif err == nil {", 0)},
		{Name: "retry loop treats a failed re-open as success", Expect: "R7", Mutate: replaceIn("(*tableEngine).tableGameOpen", "newTable, err = te.openGame(te.table)\n\t\t\t\tif err != nil {", "newTable, err = te.openGame(te.table)\n\t\t\t\tif err == nil {", 0)},
		{Name: "successful re-open forgotten", Expect: "R7", Mutate: replaceIn("(*tableEngine).tableGameOpen", "reopened = true\n", "", 0)},
		{Name: "close operation does not record the closed status", Expect: "R5", Mutate: replaceIn("(*tableEngine).CloseTable", "\tte.table.State.Status = TableStateStatus_TableClosed\n", "", 0)},
		{Name: "release operation records nothing", Expect: "R5", Mutate: replaceIn("(*tableEngine).ReleaseTable", "te.isReleased = true", "te.isReleased = false", 0)},
		{Name: "closing no longer releases", Expect: "R5", Mutate: replaceIn("(*tableEngine).CloseTable", "\tte.ReleaseTable()\n", "", 0)},
		{Name: "seated-in flag excluded from the JSON clone", Expect: "R7", Mutate: replaceInFile("/table.go", "`json:\"is_in\"`", "`json:\"-\"`")},
		{Name: "clone decodes into a copy of the receiver", Expect: "R7", Mutate: replaceIn("(Table).Clone", "var cloneTable Table", "cloneTable := t", 0)},
	}
}
