package main

// Obligations, verdicts, evidence, replay files, known findings (DESIGN 2.3).

import (
	"encoding/json"
	"flag"
	"fmt"
	"os"
	"path/filepath"
	"runtime/debug"
	"sort"
	"strconv"
	"strings"
	"time"
)

type Obligation struct {
	Rule      string   `json:"rule"`
	Construct string   `json:"construct"`
	Where     string   `json:"where"`
	Status    string   `json:"status"` // discharged | violated | undecided | known | latent
	Detail    string   `json:"detail,omitempty"`
	Path      []string `json:"path,omitempty"`
}

func (o *Obligation) Key() string { return o.Rule + "|" + o.Construct }

type Exception struct {
	Rule      string `json:"rule"`
	Construct string `json:"construct"`
	Reason    string `json:"reason"`
}

type PropMeta struct {
	ID          string
	Level       string // other | proof
	Explanation string
	Rules       map[string]string // rule id -> text
	Assumptions []string
	Run         func(c *Ctx)
	Controls    func() []Control
}

var registry = map[string]*PropMeta{}

func register(m *PropMeta) { registry[m.ID] = m }

type Ctx struct {
	P          *Prog
	Prop       string
	Tier       string
	Config     string // load configuration label
	Obs        []*Obligation
	Exceptions []Exception
	Notes      []string
	seen       map[string]int
	Analysed   map[string]int
}

func (c *Ctx) add(rule, construct, where, status, detail string, path []string) *Obligation {
	if c.seen == nil {
		c.seen = map[string]int{}
	}
	rule = c.Prop + "." + rule
	k := rule + "|" + construct
	if n := c.seen[k]; n > 0 {
		construct = fmt.Sprintf("%s#%d", construct, n+1)
	}
	c.seen[k]++
	o := &Obligation{Rule: rule, Construct: construct, Where: where, Status: status, Detail: detail, Path: path}
	c.Obs = append(c.Obs, o)
	return o
}

func (c *Ctx) Ok(rule, construct, where, detail string) {
	c.add(rule, construct, where, "discharged", detail, nil)
}
func (c *Ctx) Bad(rule, construct, where, detail string, path ...string) {
	c.add(rule, construct, where, "violated", detail, path)
}
func (c *Ctx) Undecided(rule, construct, where, detail string) {
	c.add(rule, construct, where, "undecided", detail, nil)
}

// Check records ok/bad by condition.
func (c *Ctx) Check(cond bool, rule, construct, where, okDetail, badDetail string) bool {
	if cond {
		c.Ok(rule, construct, where, okDetail)
	} else {
		c.Bad(rule, construct, where, badDetail)
	}
	return cond
}

// Min fails the check when role discovery matched fewer instances than were
// confirmed by reading ("a rule matching zero sites passes vacuously forever").
func (c *Ctx) Min(rule, role string, got, want int) {
	if got < want {
		c.Bad(rule, "instances:"+role, "-", fmt.Sprintf("role %q matched %d instance(s), at least %d were confirmed by reading; the rule would pass vacuously", role, got, want))
	} else {
		c.Ok(rule, "instances:"+role, "-", fmt.Sprintf("role %q matched %d instance(s) (minimum %d)", role, got, want))
	}
}

func (c *Ctx) Except(rule, construct, reason string) {
	c.Exceptions = append(c.Exceptions, Exception{Rule: c.Prop + "." + rule, Construct: construct, Reason: reason})
}

func (c *Ctx) Count(what string, n int) {
	if c.Analysed == nil {
		c.Analysed = map[string]int{}
	}
	c.Analysed[what] += n
}

// ---------------------------------------------------------------------------

type KnownFinding struct {
	Status    string `json:"status"` // known | fixed
	Property  string `json:"property"`
	Rule      string `json:"rule"`
	Construct string `json:"construct"`
	What      string `json:"what"`
	Commit    string `json:"commit,omitempty"`
	Finding   string `json:"finding,omitempty"`
}

func loadKnown(verif string) ([]KnownFinding, error) {
	b, err := os.ReadFile(filepath.Join(verif, "known_findings.json"))
	if err != nil {
		if os.IsNotExist(err) {
			return nil, nil
		}
		return nil, err
	}
	var kf struct {
		Findings []KnownFinding `json:"findings"`
	}
	if err := json.Unmarshal(b, &kf); err != nil {
		return nil, err
	}
	return kf.Findings, nil
}

type Replay struct {
	Property   string        `json:"property"`
	Tier       string        `json:"tier"`
	Repo       string        `json:"repo"`
	Violations []*Obligation `json:"violations"`
	Note       string        `json:"note"`
}

func seedFromEnv() int {
	if s := os.Getenv("VERIF_SEED"); s != "" {
		if n, err := strconv.Atoi(s); err == nil {
			return n
		}
	}
	return 0
}

func cmdCheck(args []string) int {
	fs := flag.NewFlagSet("check", flag.ExitOnError)
	prop := fs.String("p", "", "property id")
	tier := fs.String("tier", "quick", "quick|thorough")
	repo := fs.String("repo", "/repo", "repository root")
	verif := fs.String("verif", "/verif", "verif root")
	noEvidence := fs.Bool("no-evidence", false, "do not write evidence/replay (used by explain and controls)")
	list := fs.Bool("list", false, "print every obligation")
	fs.Parse(args)
	if t := os.Getenv("VERIF_TIER"); t != "" && *tier == "" {
		*tier = t
	}
	m := registry[*prop]
	if m == nil {
		fmt.Fprintf(os.Stderr, "unknown property %q\n", *prop)
		return 2
	}
	start := time.Now()
	res, code := runProperty(m, *tier, *repo, *verif, nil)
	if code == 2 {
		return 2
	}
	if *list {
		for _, o := range res.Obs {
			fmt.Printf("%-10s %-8s %-60s %-28s %s\n", o.Status, o.Rule, o.Construct, o.Where, o.Detail)
		}
	}
	wall := time.Since(start).Seconds()
	if *tier == "thorough" && m.Controls != nil && !*noEvidence {
		res.Controls = runControls(m, *repo, *verif)
		for _, cr := range res.Controls {
			if !cr.Killed {
				fmt.Printf("WARNING: control %s survived (%s)\n", cr.Name, cr.Note)
			}
		}
		wall = time.Since(start).Seconds()
	}
	if *tier == "thorough" && !*noEvidence {
		files := anchorFiles(*verif, m.ID)
		eq := sweepForProperty(m.ID, "equiv", *repo, *verif, files, 96, 12)
		ft := sweepForProperty(m.ID, "fault", *repo, *verif, files, 96, 12)
		res.Sweeps = []*SweepSummary{eq, ft}
		if eq.Alarmed > 0 {
			fmt.Printf("WARNING: %d behaviour-preserving variant(s) raise %s (checker brittleness, not a property violation): %v\n", eq.Alarmed, m.ID, eq.Examples)
		}
		fmt.Printf("%s thorough sweeps: equivalence %d/%d silent; fault injection in anchor files: %d/%d type-checking variants raise this property\n", m.ID, eq.Silent, eq.TypeCheck, ft.Alarmed, ft.TypeCheck)
		wall = time.Since(start).Seconds()
	}
	return finish(m, res, *tier, *repo, *verif, wall, !*noEvidence)
}

type Result struct {
	Obs        []*Obligation
	Exceptions []Exception
	Notes      []string
	Analysed   map[string]int
	Configs    []string
	Controls   []ControlResult
	Sweeps     []*SweepSummary
}

// runProperty loads the tree and runs the property's rules under one or two configurations.
func runProperty(m *PropMeta, tier, repo, verif string, overlay map[string][]byte) (res *Result, code int) {
	res = &Result{Analysed: map[string]int{}}
	type lc struct {
		label string
		cfg   LoadConfig
	}
	cfgs := []lc{{"tags=verif", LoadConfig{Repo: repo, Tags: "verif", Overlay: overlay}}}
	if tier == "thorough" && overlay == nil {
		cfgs = append(cfgs, lc{"notags+tests", LoadConfig{Repo: repo, Tests: true}})
	}
	for ci, cf := range cfgs {
		p, err := Load(cf.cfg)
		if err != nil {
			fmt.Fprintf(os.Stderr, "tablelint: cannot analyse %s (%s): %v\n", repo, cf.label, err)
			return nil, 2
		}
		if err := p.assertNoReflectUnsafe(); err != nil {
			fmt.Fprintf(os.Stderr, "tablelint: %v\n", err)
			return nil, 2
		}
		c := &Ctx{P: p, Prop: m.ID, Tier: tier, Config: cf.label}
		func() {
			defer func() {
				if r := recover(); r != nil {
					c.Bad("INTERNAL", "analysis-panic", "-", fmt.Sprintf("analysis panicked: %v\n%s", r, debug.Stack()))
				}
			}()
			m.Run(c)
		}()
		res.Configs = append(res.Configs, cf.label)
		if ci == 0 {
			res.Obs = c.Obs
			res.Exceptions = c.Exceptions
			res.Notes = c.Notes
			if len(p.Inlined) > 0 {
				res.Notes = append(res.Notes, fmt.Sprintf("normalisation: %d helper(s) that do not exist in the pinned tree were inlined back into their callers before analysis (normalize.go): %s", len(p.Inlined), strings.Join(p.Inlined, ", ")))
				fmt.Fprintf(os.Stderr, "NOTE: property=%s analysed after inlining new helper(s): %s\n", m.ID, strings.Join(p.Inlined, ", "))
			}
			if len(p.NotInl) > 0 {
				res.Notes = append(res.Notes, "normalisation: new helper(s) left as they are (shape not supported by the inliner): "+strings.Join(p.NotInl, ", "))
			}
			res.Analysed["helpers_inlined"] = len(p.Inlined)
			res.Analysed["packages"] = len(p.Pkgs)
			res.Analysed["functions_analysed"] = len(p.Funcs)
			res.Analysed["functions_incl_deps"] = len(p.AllFuncs)
			for k, v := range c.Analysed {
				res.Analysed[k] = v
			}
		} else {
			// second configuration: any obligation not discharged there is added
			have := map[string]bool{}
			for _, o := range res.Obs {
				have[o.Key()+o.Status] = true
			}
			for _, o := range c.Obs {
				if o.Status != "discharged" && !have[o.Key()+o.Status] {
					o.Detail = "[" + cf.label + "] " + o.Detail
					res.Obs = append(res.Obs, o)
				}
			}
			res.Analysed["obligations_second_config"] = len(c.Obs)
		}
	}
	return res, 0
}

func finish(m *PropMeta, res *Result, tier, repo, verif string, wall float64, write bool) int {
	known, err := loadKnown(verif)
	if err != nil {
		fmt.Fprintf(os.Stderr, "tablelint: known_findings.json: %v\n", err)
		return 2
	}
	kmap := map[string]KnownFinding{}
	for _, k := range known {
		if k.Status == "known" && k.Property == m.ID {
			kmap[k.Rule+"|"+k.Construct] = k
		}
	}
	var viol, undec []*Obligation
	discharged, knownN, latent := 0, 0, 0
	printedKnown := map[string]bool{}
	for _, o := range res.Obs {
		switch o.Status {
		case "discharged":
			discharged++
		case "latent":
			latent++
			fmt.Printf("LATENT: property=%s %s %s at %s: %s\n", m.ID, o.Rule, o.Construct, o.Where, o.Detail)
		case "violated":
			if k, ok := kmap[o.Key()]; ok {
				o.Status = "known"
				knownN++
				if !printedKnown[o.Key()] {
					printedKnown[o.Key()] = true
					fmt.Printf("KNOWN-FINDING: property=%s %s [%s %s at %s]\n", m.ID, k.What, o.Rule, o.Construct, o.Where)
				}
			} else {
				viol = append(viol, o)
			}
		case "undecided":
			undec = append(undec, o)
		}
	}
	bad := append(append([]*Obligation{}, viol...), undec...)
	for _, o := range bad {
		fmt.Printf("%s %s %s at %s\n    %s\n", strings.ToUpper(o.Status), o.Rule, o.Construct, o.Where, o.Detail)
		for _, s := range o.Path {
			fmt.Printf("      %s\n", s)
		}
	}
	// evidence
	total := len(res.Obs)
	distinct := map[string]bool{}
	for _, o := range res.Obs {
		if o.Where != "-" && o.Where != "" && o.Where != "?" {
			distinct[o.Key()] = true
		}
	}
	var samples []interface{}
	perRule := map[string]int{}
	for _, o := range res.Obs {
		if perRule[o.Rule] < 3 || o.Status != "discharged" {
			perRule[o.Rule]++
			samples = append(samples, o)
		}
	}
	ruleIDs := make([]string, 0, len(m.Rules))
	for k := range m.Rules {
		ruleIDs = append(ruleIDs, k)
	}
	sort.Strings(ruleIDs)
	var ruleText []string
	for _, k := range ruleIDs {
		ruleText = append(ruleText, m.ID+"."+k+": "+m.Rules[k])
	}
	cov := map[string]interface{}{
		"explanation":         m.Explanation,
		"obligations":         total,
		"discharged":          discharged,
		"evaluations":         total,
		"distinct_nontrivial": len(distinct),
		"rule":                "Obligations are generated by role discovery over the type-checked SSA program of /repo's working tree (every path / writer / call site / implementer matching a rule's role yields one obligation keyed rule+construct). An obligation is non-trivial when it is anchored at a real construct (file:line) of /repo; distinct by key. Rules: " + strings.Join(ruleText, " | "),
		"samples":             samples,
		"checker_cmd":         fmt.Sprintf("./run.sh %s %s", m.ID, tier),
		"trusted_base":        []string{"Go type checker and go/ssa construction (x/tools v0.29.0)", "pinned dependencies as resolved by go.sum (pokerface, syncsaga, timebank, go-funk, sync)", "no reflect/unsafe/cgo in the repo's own code (asserted on every run)", "external callbacks registered through exported setters are arbitrary user code, outside every claim"},
		"analysed":            res.Analysed,
		"load_configurations": res.Configs,
		"exceptions":          res.Exceptions,
		"known_findings":      knownN,
		"latent":              latent,
		"undecided":           len(undec),
		"notes":               res.Notes,
		"exhaustive":          true,
	}
	if res.Sweeps != nil {
		cov["sweeps"] = res.Sweeps
		cov["sweeps_note"] = "sampled single-site variants of the property's anchor files applied in memory (overlay), this property's rules only: 'equiv' = behaviour-preserving rewrites, the check must stay silent (alarms are checker brittleness and are printed as warnings); 'fault' = generic injected faults, how many this property's rules notice (survivors include equivalent mutants and faults that belong to other properties). Neither changes the exit code."
	}
	if res.Controls != nil {
		killed := 0
		for _, c := range res.Controls {
			if c.Killed {
				killed++
			}
		}
		cov["controls"] = res.Controls
		cov["controls_killed"] = killed
		cov["controls_total"] = len(res.Controls)
	}
	ev := map[string]interface{}{
		"property_id": m.ID,
		"tier":        tier,
		"seed":        seedFromEnv(),
		"level":       m.Level,
		"coverage":    cov,
		"assumptions": m.Assumptions,
		"wall_s":      wall,
		"violations":  len(viol),
	}
	if write {
		os.MkdirAll(filepath.Join(verif, "evidence"), 0o755)
		b, _ := json.MarshalIndent(ev, "", " ")
		if err := os.WriteFile(filepath.Join(verif, "evidence", m.ID+".json"), b, 0o644); err != nil {
			fmt.Fprintf(os.Stderr, "tablelint: write evidence: %v\n", err)
			return 2
		}
	}
	fmt.Printf("%s %s: %d obligations, %d discharged, %d known finding(s), %d latent, %d violated, %d undecided; %d functions analysed; %.1fs\n",
		m.ID, tier, total, discharged, knownN, latent, len(viol), len(undec), res.Analysed["functions_analysed"], wall)
	if len(bad) > 0 {
		rp := filepath.Join(verif, "replays", fmt.Sprintf("%s.%s.json", m.ID, tier))
		if write {
			os.MkdirAll(filepath.Join(verif, "replays"), 0o755)
			b, _ := json.MarshalIndent(Replay{Property: m.ID, Tier: tier, Repo: repo, Violations: bad,
				Note: "static analysis: each entry names the violating construct (rule, function/construct key, file:line, path). Re-derive with: ./bin/tablelint explain " + rp}, "", " ")
			os.WriteFile(rp, b, 0o644)
		}
		fmt.Printf("VIOLATION property=%s replay=%s\n", m.ID, rp)
		return 1
	}
	return 0
}

// explain re-derives the constructs named in a replay file against the current tree.
func cmdExplain(args []string) int {
	if len(args) < 1 {
		usage()
	}
	b, err := os.ReadFile(args[0])
	if err != nil {
		fmt.Fprintln(os.Stderr, err)
		return 2
	}
	var rp Replay
	if err := json.Unmarshal(b, &rp); err != nil {
		fmt.Fprintln(os.Stderr, err)
		return 2
	}
	m := registry[rp.Property]
	if m == nil {
		fmt.Fprintln(os.Stderr, "unknown property in replay")
		return 2
	}
	repo := rp.Repo
	if repo == "" {
		repo = "/repo"
	}
	res, code := runProperty(m, "quick", repo, "/verif", nil)
	if code != 0 {
		return code
	}
	cur := map[string]*Obligation{}
	for _, o := range res.Obs {
		cur[o.Key()] = o
	}
	still := 0
	for _, v := range rp.Violations {
		o := cur[v.Key()]
		if o == nil {
			fmt.Printf("GONE      %s %s (recorded at %s): construct no longer produced by the rule\n", v.Rule, v.Construct, v.Where)
			continue
		}
		fmt.Printf("%-9s %s %s at %s\n    %s\n", strings.ToUpper(o.Status), o.Rule, o.Construct, o.Where, o.Detail)
		for _, s := range o.Path {
			fmt.Printf("      %s\n", s)
		}
		if o.Status == "violated" || o.Status == "undecided" {
			still++
		}
	}
	if still > 0 {
		fmt.Printf("VIOLATION property=%s replay=%s\n", rp.Property, args[0])
		return 1
	}
	return 0
}

// anchorFiles reads the property's anchor files from properties.jsonl.
func anchorFiles(verif, id string) []string {
	b, err := os.ReadFile(filepath.Join(verif, "properties.jsonl"))
	if err != nil {
		return nil
	}
	for _, line := range strings.Split(string(b), "\n") {
		if strings.TrimSpace(line) == "" {
			continue
		}
		var p struct {
			ID      string `json:"id"`
			Anchors struct {
				Files []string `json:"files"`
			} `json:"anchors"`
		}
		if json.Unmarshal([]byte(line), &p) == nil && p.ID == id {
			return p.Anchors.Files
		}
	}
	return nil
}
