package main

func controlsC08() []Control {
	return []Control{
		{Name: "pause test negated", Expect: "R1", Mutate: replaceIn("(*tableEngine).continueGame", "if te.table.ShouldPause() {", "if !te.table.ShouldPause() {", 0)},
		{Name: "next hand never set up", Expect: "R1", Mutate: replaceIn("(*tableEngine).continueGame", "te.SetUpTableGame(nextGameCount, participants)", "_, _ = nextGameCount, participants", 0)},
		{Name: "unhandled situation returns silently", Expect: "R1", Mutate: replaceIn("(*tableEngine).continueGame", "str, _ := te.table.GetJSON()\n\t\t\t\tfmt.Printf(\"[DEBUG#continueGame] delay -> unhandled issue. Table: %s\\n\", str)", "", 0)},
		{Name: "next hand set up with the current game count", Expect: "R1", Mutate: replaceIn("(*tableEngine).continueGame", "nextGameCount := te.table.State.GameCount + 1", "nextGameCount := te.table.State.GameCount", 0)},
		{Name: "pause predicate requires break and few players", Expect: "R2", Mutate: replaceIn("(Table).ShouldPause", "t.State.BlindState.IsBreaking() || len(", "t.State.BlindState.IsBreaking() && len(", 0)},
		{Name: "auto-open needs more than the minimum", Expect: "R2", Mutate: replaceIn("(*tableEngine).shouldAutoGameOpen", "len(te.table.AlivePlayers()) >= te.table.Meta.TableMinPlayerCount", "len(te.table.AlivePlayers()) > te.table.Meta.TableMinPlayerCount", 0)},
		{Name: "alive counts players with zero chips", Expect: "R2", Mutate: replaceIn("(Table).AlivePlayers", "player.Bankroll > 0", "player.Bankroll >= 0", 0)},
		{Name: "continue step forgets to schedule the handler", Expect: "R3", Mutate: replaceIn("(*tableEngine).continueGame", "return te.delay(nextMoveInterval, nextMoveHandler)", "_, _ = nextMoveInterval, nextMoveHandler\n\treturn nil", 0)},
		{Name: "delay helper never runs the handler", Expect: "R3", Mutate: replaceIn("(*tableEngine).delay", "err = fn()", "_ = fn", 0)},
		{Name: "open-game callback drops while pausing", Expect: "R4", Mutate: replaceIn("(*tableEngine).CreateTable", "// 大於一個人，開局\n", "if te.table.State.Status == TableStateStatus_TablePausing {\n\t\t\t\treturn\n\t\t\t}\n", 0)},
		{Name: "pause decision taken when the continue step starts, not when the interval elapses", Expect: "R1", Mutate: replaceBoth("(*tableEngine).continueGame", "\t\tnextMoveInterval = te.options.GameContinueInterval\n", "\t\tshouldPause := te.table.ShouldPause()\n\t\tnextMoveInterval = te.options.GameContinueInterval\n", "if te.table.ShouldPause() {", "if shouldPause {")},
		{Name: "settle step stops listing the survivors", Expect: "R5", Mutate: replaceIn("(*tableEngine).settleGame", "alivePlayers = append(alivePlayers, playerState)", "_ = playerState", 0)},
		{Name: "survivors include players left with nothing", Expect: "R5", Mutate: replaceIn("(*tableEngine).settleGame", "if playerState.Bankroll > 0 {\n\t\t\talivePlayers", "if playerState.Bankroll >= 0 {\n\t\t\talivePlayers", 0)},
		{Name: "continue step handed a truncated survivor list", Expect: "R5", Mutate: replaceIn("(*tableEngine).onGameClosed", "te.continueGame(alivePlayers)", "te.continueGame(alivePlayers[:1])", 0)},
		{Name: "set-up participants skip the first survivor", Expect: "R5", Mutate: replaceIn("(*tableEngine).continueGame", "for idx, player := range alivePlayers {", "for idx, player := range alivePlayers[1:] {", 0)},
		{Name: "gate time limit taken unguarded from the options", Expect: "R6", Mutate: replaceIn("(*tableEngine).CreateTable", "Timeout: 2,", "Timeout: te.options.OpenGameTimeout,", 0)},
		{Name: "gate built without a time limit", Expect: "R6", Mutate: replaceIn("(*tableEngine).CreateTable", "Timeout: 2,", "Timeout: 0,", 0)},
		{Name: "continue step returns early when the seat manager call succeeds", Expect: "R3", Mutate: replaceIn("(*tableEngine).continueGame", "playerState.Bankroll > 0); err != nil {", "playerState.Bankroll > 0); err == nil {", 0)},
		{Name: "continue step waits the open-game timeout instead of the continue interval", Expect: "R3", Mutate: replaceIn("(*tableEngine).continueGame", "nextMoveInterval = te.options.GameContinueInterval", "nextMoveInterval = te.options.OpenGameTimeout", 0)},
		{Name: "settlement-finished report never reaches the gate", Expect: "R7", Mutate: replaceIn("(*tableEngine).PlayerSettlementFinish", "\tte.ogm.Ready(playerID)\n", "", 0)},
		{Name: "settlement-finished accepted only from players who are not seated-in", Expect: "R7", Mutate: replaceIn("(*tableEngine).PlayerSettlementFinish", "if !te.table.State.PlayerStates[playerIdx].IsIn {", "if te.table.State.PlayerStates[playerIdx].IsIn {", 0)},
		{Name: "pause predicate asks the previous hand\u2019s snapshot for the break", Expect: "R2", Mutate: replaceIn("(Table).ShouldPause", "t.State.BlindState.IsBreaking()", "t.State.GameBlindState.IsBreaking()", 0)},
		{Name: "survivor list starts with a nil entry", Expect: "R5", Mutate: replaceIn("(*tableEngine).settleGame", "alivePlayers := make([]*TablePlayerState, 0)", "alivePlayers := make([]*TablePlayerState, 1)", 0)},
		{Name: "set-up operation drops participants before arming the gate", Expect: "R5", Mutate: replaceIn("(*tableEngine).SetUpTableGame", "te.ogm.Setup(gameCount, participants)", "expected := map[string]int{}\n\tfor id, idx := range participants {\n\t\tif te.table.FindPlayerIdx(id) != UnsetValue {\n\t\t\texpected[id] = idx\n\t\t}\n\t}\n\tte.ogm.Setup(gameCount, expected)", 0)},
		{Name: "a reservation arms the continue step's time bank", Expect: "R3", Mutate: replaceIn("(*tableEngine).PlayerReserve", "te.emitEvent(\"PlayerReserve\", joinPlayer.PlayerID)", "te.emitEvent(\"PlayerReserve\", joinPlayer.PlayerID)\n\tte.tbForOpenGame.NewTask(time.Second, func(isCancelled bool) {})", 0)},
		{Name: "table stops after a hand unless its time is up", Expect: "R3", Mutate: replaceIn("(*tableEngine).continueGame", "if ctMTTAutoGameOpenEnd {", "if !ctMTTAutoGameOpenEnd {", 0)},
		{Name: "table time measured against the seat count", Expect: "R3", Mutate: replaceIn("(*tableEngine).continueGame", "time.Duration(te.table.Meta.MaxDuration)).Unix()", "time.Duration(te.table.Meta.TableMaxSeatCount)).Unix()", 0)},
		{Name: "table counted as over before its end", Expect: "R3", Mutate: replaceIn("(*tableEngine).continueGame", "time.Now().Unix() > tableEndAt", "time.Now().Unix() < tableEndAt", 0)},
	}
}
