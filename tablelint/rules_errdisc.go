package main

import (
	"golang.org/x/tools/go/ssa"
)

// checkNoKnownNilErrorReturn: a function must not return, as its error, the error result of
// a call on a path where that very value is known to be nil ("if err == nil { return err }"):
// the operation stops midway yet reports success, and the failing case falls through.
// Contradiction rule (a value tested for nil and then used as if it were an error).
func checkNoKnownNilErrorReturn(c *Ctx, rule string, inScope func(f *ssa.Function) bool, min int) {
	p := c.P
	n := 0
	for _, f := range p.Funcs {
		if !inScope(f) || errResultIndex(f.Signature) < 0 {
			continue
		}
		idx := errResultIndex(f.Signature)
		for _, b := range f.Blocks {
			r, isR := b.Instrs[len(b.Instrs)-1].(*ssa.Return)
			if !isR || idx >= len(r.Results) {
				continue
			}
			v := retValue(r, idx)
			s := p.Sym(v).Strip()
			if s.Kind != "extract" && s.Kind != "call" {
				continue
			}
			n++
			knownNil := nilGuard(p.Guards(r), true, func(x *Sym) bool { return x.String() == s.String() })
			if knownNil {
				c.Bad(rule, "returns-known-nil-error:"+FuncName(f), p.InstrPos(r), "returns "+s.String()+" as its error on the path where that value is nil: the operation ends early reporting success, and the failing case is not reported")
			}
		}
	}
	c.Min(rule, "error-propagating returns checked for the inverted test", n, min)
}
