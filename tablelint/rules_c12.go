package main

// C12 — a hand is played at the blinds in force when it opened.

import (
	"fmt"
	"go/token"
	"go/types"

	"golang.org/x/tools/go/ssa"
)

func init() {
	register(&PropMeta{
		ID:          "C12",
		Level:       "other",
		Explanation: "Decides the structural clauses: (R1) ante/dealer/SB/BB handed to the hand engine and the five fields of the published hand-blind record are each copied from the same-named field of the table's blind level; (R2) the published hand-blind record is a fresh object, never an alias of the mutable level; (R3) all those reads come from one by-value snapshot of the level, or both readers and the blind-update writer run under the engine mutex — otherwise an update during hand start makes the charged and the published blinds disagree; (R4) the level's fields are written only by the update operation (parameter i → field i) and the hand-blind record only where the hand is started; (R5) opening refuses on a break before rotating or numbering, the pause predicate consults the break predicate, a table created on a break starts paused. NOT decided: arbitrary unsynchronised update schedules beyond the single-read rule.",
		Rules: map[string]string{
			"R1": "field-to-field copy for hand options and the published hand blinds",
			"R2": "published hand blinds are a fresh composite literal (no alias of the mutable level)",
			"R3": "single consistent read: one by-value snapshot, or readers and writers under the engine mutex",
			"R4": "writers: level fields only in the update operation (param i → field i); hand-blind record only at hand start; level pointer only at creation; the engine's live table object is replaced only by a new table or by the open step's clone (never by an earlier object), so an accepted blind update is not discarded",
			"R5": "break guards: open refuses before rotate/increment; pause predicate uses the break predicate; creation on a break starts paused; predicates asked of the live level; blinds-set predicate definition; a table created paused stays paused; the continue handler pauses iff the pause predicate holds when the interval has elapsed",
		},
		Assumptions: []string{"pokerface charges exactly the ante/blinds it is given in the options"},
		Run:         checkC12,
		Controls:    controlsC12,
	})
}

var blindFields = []string{"Level", "Ante", "Dealer", "SB", "BB"}

func checkC12(c *Ctx) {
	p := c.P
	// "the table pauses after the current hand": the pause decision is taken by the continue handler when the
	// interval has elapsed (shared with C08.R1) — a break that starts during the interval is honoured
	checkContinueHandler(c, "R5")
	checkTablePointerWriters(c, "R4")
	et := p.singleImpl("", "TableEngine")
	if et == nil {
		c.Bad("R1", "anchors", "-", "engine not found")
		return
	}
	// the function that starts the hand
	var startFn *ssa.Function
	for _, f := range p.Methods(et) {
		for _, ci := range Calls(f) {
			if calleeName(ci.Common()) == "Game.Start" {
				startFn = f
			}
		}
	}
	if startFn == nil {
		c.Bad("R1", "anchors", "-", "no function calls Game.Start")
		return
	}
	type read struct {
		sink  string
		instr ssa.Instruction
		val   *Sym
	}
	var reads []read
	// sinks: hand options
	want := map[string]string{"GameOptions.Ante": "Ante", "BlindSetting.Dealer": "Dealer", "BlindSetting.SB": "SB", "BlindSetting.BB": "BB"}
	seenSink := map[string]bool{}
	for _, ss := range p.Stores([]*ssa.Function{startFn}) {
		k := ss.Owner + "." + ss.Field
		if wf, ok := want[k]; ok {
			seenSink[k] = true
			v := ss.Val.Strip()
			okc := v.Kind == "field" && v.Owner == "TableBlindState" && v.Name == wf
			c.Check(okc, "R1", "hand-option:"+k, p.InstrPos(ss.Instr), k+" ← level."+wf, fmt.Sprintf("hand option %s is fed from %s, not from the blind level's %s", k, v, wf))
			reads = append(reads, read{k, ss.Instr, v})
		}
	}
	for k := range want {
		if !seenSink[k] {
			c.Bad("R1", "hand-option:"+k, p.Pos(startFn.Pos()), "hand option "+k+" is never set from the blind level")
		}
	}
	// … and the options object that received them is the one the hand is created with: a later
	// "opts = <fresh options>" (for one table rule, say) would silently discard the level's blinds
	{
		var optsArg ssa.Value
		for _, ci := range Calls(startFn) {
			for _, a := range ci.Common().Args {
				if typeShort(a.Type()) == "*pokerface.GameOptions" && ci.Common().StaticCallee() != nil && p.IsRepoFunc(ci.Common().StaticCallee()) {
					optsArg = a
				}
			}
		}
		if optsArg == nil {
			c.Bad("R1", "hand-option:same-object", p.Pos(startFn.Pos()), "the options the hand is created with were not found")
		} else {
			n := 0
			for _, b := range startFn.Blocks {
				for _, in := range b.Instrs {
					st, ok := in.(*ssa.Store)
					if !ok {
						continue
					}
					fa, ok := st.Addr.(*ssa.FieldAddr)
					if !ok || typeShort(fa.X.Type()) != "*pokerface.GameOptions" {
						continue
					}
					fld := fa.X.Type().Underlying().(*types.Pointer).Elem().Underlying().(*types.Struct).Field(fa.Field).Name()
					if fld != "Ante" && fld != "Blind" {
						continue
					}
					n++
					c.Check(fa.X == optsArg, "R1", "hand-option:same-object:"+fld, p.InstrPos(in), "stored into the options object the hand is created with", "the level's "+fld+" is stored into an options object that is not (on every path) the one handed to the new hand: "+p.Sym(optsArg).Strip().String())
				}
			}
			c.Min("R1", "ante / blind stores into the hand options", n, 2)
		}
	}
	// published hand blinds
	var gbsStores []*StoreSite
	for _, ss := range p.FieldStores("TableState", "GameBlindState") {
		if ss.Addr.Root().Kind == "new" {
			continue
		}
		gbsStores = append(gbsStores, ss)
	}
	c.Min("R4", "stores of the published hand-blind record", len(gbsStores), 1)
	for _, ss := range gbsStores {
		where := p.InstrPos(ss.Instr)
		c.Check(ss.Fn == startFn, "R4", "hand-blind-writer:"+FuncName(ss.Fn), where, "written where the hand is started", "the published hand blinds are overwritten outside hand start")
		fresh := rawLocal(ss.ValV)
		c.Check(fresh, "R2", "fresh-snapshot:"+FuncName(ss.Fn), where, "address of a fresh literal", "the published hand blinds alias "+ss.Val.String()+": a later blind update changes the blinds shown for a running hand")
		if !fresh {
			continue
		}
		got := map[string]*StoreSite{}
		for _, s2 := range p.Stores([]*ssa.Function{ss.Fn}) {
			if s2.Owner == "TableBlindState" && s2.Addr.Root().V == ss.Val.Root().V {
				got[s2.Field] = s2
			}
		}
		for _, bf := range blindFields {
			s2 := got[bf]
			if s2 == nil {
				c.Bad("R1", "hand-blind:"+bf, where, "published hand blinds leave "+bf+" unset")
				continue
			}
			v := s2.Val.Strip()
			okc := v.Kind == "field" && v.Owner == "TableBlindState" && v.Name == bf
			c.Check(okc, "R1", "hand-blind:"+bf, p.InstrPos(s2.Instr), bf+" ← level."+bf, fmt.Sprintf("published hand-blind field %s is fed from %s", bf, v))
			reads = append(reads, read{"hand-blind." + bf, s2.Instr, v})
		}
	}
	// R3 single consistent read
	allLocal := true
	var copies = map[ssa.Value]bool{}
	for _, r := range reads {
		if r.val.Kind != "field" {
			continue
		}
		// find the raw address: the load instruction's operand chain
		base := rawBaseOfFieldRead(r.val)
		switch b := base.(type) {
		case *ssa.Alloc:
			copies[b] = true
		case *ssa.UnOp:
			if _, isStruct := b.Type().Underlying().(*types.Struct); isStruct && b.Op == token.MUL {
				copies[b] = true
			} else {
				allLocal = false
			}
		default:
			allLocal = false
		}
	}
	okR3, d3 := false, ""
	if allLocal && len(copies) == 1 {
		// one snapshot: a single whole-struct load from the level pointer
		for cp := range copies {
			switch b := cp.(type) {
			case *ssa.Alloc:
				sts := p.allocStores(b)
				if len(sts) == 1 {
					v := p.Sym(sts[0].Val).Strip()
					if v.IsField("TableState", "BlindState") {
						okR3 = true
					} else {
						d3 = "the snapshot is taken from " + v.String()
					}
				} else {
					d3 = "the snapshot variable is assigned more than once"
				}
			case *ssa.UnOp:
				if p.Sym(b.X).Strip().IsField("TableState", "BlindState") {
					okR3 = true
				} else {
					d3 = "the snapshot is taken from " + p.Sym(b.X).String()
				}
			}
		}
	} else {
		// alternative: readers and writers all under the engine mutex
		li := p.Locks()
		readersLocked := true
		for _, r := range reads {
			if !li.Held(r.instr, "tableEngine.lock") {
				readersLocked = false
			}
		}
		writersLocked := true
		var unl string
		for _, bf := range blindFields {
			for _, ss := range p.FieldStores("TableBlindState", bf) {
				if storeIsLocal(ss.Instr) {
					continue
				}
				if !li.Held(ss.Instr, "tableEngine.lock") {
					writersLocked = false
					unl = FuncName(ss.Fn) + " at " + p.InstrPos(ss.Instr)
				}
			}
		}
		if readersLocked && writersLocked {
			okR3 = true
		} else {
			d3 = fmt.Sprintf("the hand options and the published hand blinds are read field by field through the mutable level pointer (%d reads, around the hand's Start), and the level is written without the engine mutex by %s: an update in between makes charged and published blinds disagree", len(reads), unl)
		}
	}
	c.Check(okR3, "R3", "single-read:"+FuncName(startFn), p.Pos(startFn.Pos()), "one consistent snapshot of the level", d3)
	c.Count("blind_field_reads", len(reads))

	// R4 level writers
	writers := map[*ssa.Function]bool{}
	for _, bf := range blindFields {
		for _, ss := range p.FieldStores("TableBlindState", bf) {
			if storeIsLocal(ss.Instr) {
				continue
			}
			writers[ss.Fn] = true
		}
	}
	c.Check(len(writers) == 1, "R4", "level-writers", "-", "one function writes the blind level", fmt.Sprintf("%d functions write the blind level's fields", len(writers)))
	for f := range writers {
		ok := f.Object() != nil && f.Object().Exported() && len(f.Params) == 6
		if !ok {
			c.Bad("R4", "level-writer:"+FuncName(f), p.Pos(f.Pos()), "blind level written by something other than the exported update operation")
			continue
		}
		for i, bf := range blindFields {
			n := 0
			for _, ss := range p.Stores([]*ssa.Function{f}) {
				if ss.Owner == "TableBlindState" && ss.Field == bf {
					n++
					okp := ss.Val.Strip().V == ssa.Value(f.Params[i+1]) && ss.Addr.Strip().Args[0].Strip().IsField("TableState", "BlindState")
					c.Check(okp, "R4", "update:"+bf, p.InstrPos(ss.Instr), bf+" ← parameter "+fmt.Sprint(i+1), fmt.Sprintf("update stores %s into %s (expected parameter %d into the table's level)", ss.Val, ss.Addr, i+1))
				}
			}
			if n != 1 {
				c.Bad("R4", "update:"+bf+":count", p.Pos(f.Pos()), fmt.Sprintf("%d stores of %s in the update operation", n, bf))
			}
		}
	}
	for _, ss := range p.FieldStores("TableState", "BlindState") {
		c.Check(storeIsLocal(ss.Instr), "R4", "level-pointer-writer:"+FuncName(ss.Fn), p.InstrPos(ss.Instr), "level pointer set at construction only", "the table's blind level pointer is replaced at run time")
	}
	checkBreakGuards(c, "R5")
}

// rawBaseOfFieldRead: the SSA object whose field is read (Alloc for a by-value copy).
func rawBaseOfFieldRead(s *Sym) ssa.Value {
	switch x := s.V.(type) {
	case *ssa.UnOp: // load of FieldAddr
		if fa, ok := x.X.(*ssa.FieldAddr); ok {
			return fa.X
		}
	case *ssa.Field:
		// field of a struct VALUE: by-value copy if that value is a single load
		if u, ok := x.X.(*ssa.UnOp); ok && u.Op == token.MUL {
			return u // the whole-struct load itself acts as the snapshot identity
		}
		return x.X
	}
	return nil
}

// checkBreakGuards implements C12.R5 / C07.R6 / C08.R2(b).
func checkBreakGuards(c *Ctx, rule string) {
	p := c.P
	// break predicate definition: returns Level == -1
	var isBreaking *ssa.Function
	for _, f := range p.Funcs {
		if fnName(f) == "IsBreaking" && f.Signature.Recv() != nil {
			isBreaking = f
		}
	}
	if isBreaking == nil {
		c.Bad(rule, "break-predicate", "-", "break predicate not found")
		return
	}
	okDef := false
	for _, b := range isBreaking.Blocks {
		for _, in := range b.Instrs {
			if r, ok := in.(*ssa.Return); ok {
				s := p.Sym(r.Results[0]).Strip()
				if s.Kind == "binop" && s.Name == "==" && s.Args[0].Strip().IsField("TableBlindState", "Level") && s.Args[1].Strip().Name == "-1" {
					okDef = true
				}
			}
		}
	}
	c.Check(okDef, rule, "break-predicate:definition", p.Pos(isBreaking.Pos()), "IsBreaking ≡ Level == -1", "the break predicate is no longer Level == -1")

	// "blinds are set" predicate: level != 0 and none of the four amounts is the unset value
	var isSet *ssa.Function
	for _, f := range p.Funcs {
		if fnName(f) == "IsSet" && f.Signature.Recv() != nil && namedOf(f.Signature.Recv().Type()) != nil && namedOf(f.Signature.Recv().Type()).Obj().Name() == "TableBlindState" {
			isSet = f
		}
	}
	if isSet == nil {
		c.Bad(rule, "blinds-set-predicate:definition", "-", "IsSet not found")
	} else {
		names := []string{"Level", "Ante", "Dealer", "SB", "BB"}
		ok, why := checkBoolFunc(p, isSet, func(g Guard) (string, bool, bool) {
			cm := g.AsCmp()
			if cm == nil {
				return "", false, false
			}
			l := cm.L.Strip()
			if l.Kind != "field" || l.Owner != "TableBlindState" {
				return "", false, false
			}
			z, isZ := cm.R.ConstInt()
			want := int64(-1)
			if l.Name == "Level" {
				want = 0
			}
			if !isZ || z != want {
				return "", false, false
			}
			// atom "<field> is set" = field != unset
			switch cm.Op {
			case token.NEQ:
				return l.Name, true, true
			case token.EQL:
				return l.Name, false, true
			}
			return "", false, false
		}, names, func(a map[string]bool) bool {
			return a["Level"] && a["Ante"] && a["Dealer"] && a["SB"] && a["BB"]
		})
		c.Check(ok, rule, "blinds-set-predicate:definition", p.Pos(isSet.Pos()), "IsSet ≡ Level != 0 ∧ Ante,Dealer,SB,BB != unset", "the 'blinds are set' predicate changed: "+why)
	}

	// open step: the function incrementing the hand counter
	var openFn *ssa.Function
	var incr *StoreSite
	for _, ss := range p.FieldStores("TableState", "GameCount") {
		v := ss.Val.Strip()
		if v.Kind == "binop" && v.Name == "+" {
			openFn, incr = ss.Fn, ss
		}
	}
	if openFn == nil {
		c.Bad(rule, "open-step", "-", "no function increments the hand counter")
		return
	}
	// the predicates are asked of the table's mutable level (State.BlindState), not of the
	// previous hand's published snapshot or anything else
	ofLevel := func(s *Sym) bool {
		s = s.Strip()
		return len(s.Args) >= 1 && s.Args[0].Strip().IsField("TableState", "BlindState")
	}
	isBreakCall := func(s *Sym) bool {
		return s.IsCall("TableBlindState.IsBreaking") && ofLevel(s)
	}
	isSetCall := func(s *Sym) bool { return s.IsCall("TableBlindState.IsSet") && ofLevel(s) }
	var guarded []ssa.Instruction
	guarded = append(guarded, incr.Instr)
	for _, ci := range Calls(openFn) {
		switch calleeName(ci.Common()) {
		case "SeatManager.InitPositions", "SeatManager.RotatePositions":
			guarded = append(guarded, ci)
		}
	}
	c.Min(rule, "rotate/init/increment sites in the open step", len(guarded), 3)
	for _, in := range guarded {
		gs := p.Guards(in)
		nb := guardedBy(gs, false, isBreakCall)
		st := guardedBy(gs, true, isSetCall)
		c.Check(nb && st, rule, "open-guard:"+describeSite(p, in), p.InstrPos(in), "dominated by blinds set ∧ not breaking", fmt.Sprintf("the open step reaches %s without having tested that blinds are set (%v) and that the level is not a break (%v)", describeSite(p, in), st, nb))
	}
	// the two refusals return distinct sentinels
	memo := map[*ssa.Function]map[string]bool{}
	er := p.errorsReturned(openFn, memo)
	c.Check(er["ErrTableOpenGameFailed"] && er["ErrTableOpenGameFailedInBlindBreakingLevel"], rule, "open-refusals", p.Pos(openFn.Pos()), "distinct refusals for unset blinds and break", "the open step no longer reports unset blinds and a break level as distinct errors: "+setStr(er))
	// the break refusal is returned exactly under IsBreaking
	for _, b := range openFn.Blocks {
		for _, in := range b.Instrs {
			if r, ok := in.(*ssa.Return); ok {
				s := p.Sym(retValue(r, errResultIndex(openFn.Signature))).Strip()
				if s.Kind == "global" && s.Name == "pokertable.ErrTableOpenGameFailedInBlindBreakingLevel" {
					c.Check(guardedBy(p.Guards(in), true, isBreakCall), rule, "break-refusal-guard", p.InstrPos(in), "break refusal under IsBreaking", "the break refusal is not conditioned on the break predicate")
				}
			}
		}
	}
	// pause predicate consults the break predicate
	var shouldPause *ssa.Function
	for _, f := range p.Funcs {
		if fnName(f) == "ShouldPause" && f.Signature.Recv() != nil {
			shouldPause = f
		}
	}
	if shouldPause != nil {
		uses := false
		for _, ci := range Calls(shouldPause) {
			if calleeName(ci.Common()) == "TableBlindState.IsBreaking" && ofLevel(p.CallSym(ci)) {
				uses = true
			}
		}
		c.Check(uses, rule, "pause-predicate-uses-break", p.Pos(shouldPause.Pos()), "ShouldPause consults IsBreaking", "the pause predicate no longer asks the table's live blind level whether it is a break")
	} else {
		c.Bad(rule, "pause-predicate-uses-break", "-", "pause predicate not found")
	}
	// creation on a break starts paused
	okCreate := false
	var where string
	for _, ss := range p.FieldStores("TableState", "Status") {
		if !storeIsLocal(ss.Instr) {
			continue
		}
		v := ss.Val.Strip()
		if v.Kind == "phi" {
			where = p.InstrPos(ss.Instr)
			ph := v.V.(*ssa.Phi)
			for i, e := range ph.Edges {
				s, _ := p.Sym(e).ConstString()
				if s != "table_pausing" {
					continue
				}
				pred := ph.Block().Preds[i]
				gs := p.GuardsAtBlock2(pred)
				if len(pred.Preds) == 1 {
					// edge guards of entering pred
					gs = append(gs, p.edgeGuardsInto(pred)...)
				}
				if cmpHolds(gs, func(l, r *Sym, op token.Token) bool {
					return op == token.EQL && l.Strip().IsField("TableBlindState", "Level") && r.Strip().Name == "-1"
				}) || guardedBy(gs, true, func(s *Sym) bool {
					// the break predicate (its definition is break-predicate:definition) asked of the
					// blind level the table is created with, wherever that level object lives
					return s.IsCall("TableBlindState.IsBreaking")
				}) {
					okCreate = true
				}
			}
		}
	}
	c.Check(okCreate, rule, "creation-on-break-paused", where, "initial status pausing iff level is a break", "a table created on a break level does not start paused")
	// … and stays paused: any later status store of the creating function leaves a pausing table alone
	for _, ss := range p.FieldStores("TableState", "Status") {
		if !storeIsLocal(ss.Instr) {
			continue
		}
		for _, s2 := range p.FieldStores("TableState", "Status") {
			if s2.Fn != ss.Fn || s2.Instr == ss.Instr {
				continue
			}
			if v, _ := s2.Val.ConstString(); v == "table_pausing" {
				continue
			}
			keeps := cmpHolds(p.Guards(s2.Instr), func(l, r *Sym, op token.Token) bool {
				v, _ := r.ConstString()
				return op == token.NEQ && l.Strip().IsField("TableState", "Status") && v == "table_pausing"
			})
			c.Check(keeps, rule, "creation-on-break-stays-paused", p.InstrPos(s2.Instr), "later status store guarded by status != pausing", "the creating function overwrites the initial status with "+s2.Val.String()+" without excluding a table that was created paused for a break")
		}
	}
}

func describeSite(p *Prog, in ssa.Instruction) string {
	if ci, ok := in.(ssa.CallInstruction); ok {
		return calleeName(ci.Common())
	}
	return describeMut(p, in)
}

// edgeGuardsInto: guards established by the unique edge entering b.
func (p *Prog) edgeGuardsInto(b *ssa.BasicBlock) []Guard {
	if len(b.Preds) != 1 {
		return nil
	}
	d := b.Preds[0]
	iff, ok := d.Instrs[len(d.Instrs)-1].(*ssa.If)
	if !ok || len(d.Succs) != 2 || d.Succs[0] == d.Succs[1] {
		return nil
	}
	for i := 0; i < 2; i++ {
		if d.Succs[i] == b {
			return p.unfold(iff.Cond, i == 0, iff, 0)
		}
	}
	return nil
}

// checkTablePointerWriters: the engine's live table object is replaced only by a freshly built table (creation)
// or by the open step's result (the clone of the live table made under the engine mutex). Any other store —
// e.g. putting an earlier object back after a failed start — discards blind updates (and every other
// in-place write) made to the object that was live in between.
func checkTablePointerWriters(c *Ctx, rule string) {
	p := c.P
	lc := p.lifecycle()
	n := 0
	for _, ss := range p.FieldStores("tableEngine", "table") {
		n++
		where := p.InstrPos(ss.Instr)
		if rawLocal(ss.ValV) {
			c.Ok(rule, "table-pointer-writer:"+fnName(ss.Fn), where, "fresh table at creation")
			continue
		}
		ok := true
		ss.Val.Walk(func(x *Sym) bool {
			switch x.Kind {
			case "phi", "strip":
				return true
			case "extract":
				if !(lc.openFn != nil && x.Args[0].Strip().Kind == "call" && x.Args[0].Strip().Call.Common().StaticCallee() == lc.openFn) {
					ok = false
				}
				return false
			default:
				ok = false
				return false
			}
		})
		c.Check(ok, rule, "table-pointer-writer:"+fnName(ss.Fn), where, "the open step's clone",
			fnName(ss.Fn)+" replaces the live table by "+ss.Val.String()+", which is neither a new table nor the open step's clone: writes made in place to the table that was live until then (a blind update, a re-buy) are discarded")
	}
	c.Min(rule, "stores of the engine's table pointer", n, 2)
}

// checkStatePointerWriters (C15.R6, shared with C07/C01 through the hook rules): the state object of a live table is
// never swapped. The hand's hooks (round-close clearing of the deadline, the error handler) and every in-place writer
// reach it through the engine's table at the time they run — or, after a tidy-up, through a pointer they captured
// when the hand started; a second site that publishes a *copy* of the state in its place makes those writes land on
// the orphaned object (the deadline is never cleared, a top-up is lost) while each site looks fine alone.
func checkStatePointerWriters(c *Ctx, rule string) {
	p := c.P
	n := 0
	for _, ss := range p.FieldStores("Table", "State") {
		n++
		st, isSt := ss.Instr.(*ssa.Store)
		fresh := isSt && rawLocal(st.Addr)
		c.Check(fresh, rule, "state-pointer-writer:"+fnName(ss.Fn), p.InstrPos(ss.Instr), "the state of a table under construction",
			fnName(ss.Fn)+" replaces the state object of a table that is already shared: hooks and writers that hold the previous object (the round-close hook of the running hand) keep writing to the orphan")
	}
	c.Min(rule, "stores of a table's state pointer", n, 1)
}
