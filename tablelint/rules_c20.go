package main

// C20 — observers never see hidden cards; each actor gets its own copy.

import (
	"fmt"
	"strings"

	"golang.org/x/tools/go/ssa"
)

func init() {
	register(&PropMeta{
		ID:          "C20",
		Level:       "other",
		Explanation: "Decides on every CFG path of the observer runner that the user callback is reached only after the hand state of that same table was passed through AsObserver, unless system mode is on or the path establishes that there is no hand state (R1); that the engine adapter hands its actor, and keeps, the address of a local that was filled by json.Unmarshal from the incoming table's own JSON — never the incoming pointer (R2); and that nothing reachable from the observer runner calls a player action of the adapter (R3). NOT decided: what AsObserver hides (pinned dependency, trusted).",
		Rules: map[string]string{
			"R1": "filter-before-emit on every path where a hand state may exist and system mode is off",
			"R2": "adapter passes and keeps a fresh JSON round-trip copy of the incoming table, and nothing else hands a table to an actor; the JSON copy is complete (every field reachable from Table round-trips)",
			"R3": "observer runner has no write path to the engine",
			"R5": "receiver discipline: no method of these types assigns to a field of a value receiver (the assignment would be lost) or copies a sync.* field through its receiver (observer runner, actor, engine adapter: the private copy the adapter keeps, the attached runner)",
			"R4": "the actor package invokes only the player operations of the engine: no accessor hands an actor the engine's live table or hand state",
		},
		Assumptions: []string{"pokerface GameState.AsObserver removes deck, burned cards, hole cards and hand strength as documented"},
		Run:         checkC20,
		Controls:    controlsC20,
	})
}

func checkC20(c *Ctx) {
	p := c.P
	checkReceiverDiscipline(c, "R5", p.implementersIn("/actor", "Runner", "Actor", "Adapter"), 12)
	checkCloneCompleteness(c, "R2")
	// R4: the actor package never reads the engine's own state: the only TableEngine methods it
	// invokes are the player operations (everything an actor sees comes from its private copy)
	{
		n, bad := 0, 0
		for _, f := range p.Funcs {
			if !inPkg(p, f, "/actor") {
				continue
			}
			for _, ci := range Calls(f) {
				cm := ci.Common()
				if !cm.IsInvoke() {
					continue
				}
				it := namedOf(cm.Value.Type())
				if it == nil || it.Obj().Name() != "TableEngine" {
					continue
				}
				n++
				if !strings.HasPrefix(cm.Method.Name(), "Player") {
					bad++
					c.Bad("R4", "engine-read:"+cm.Method.Name()+"@"+FuncName(f), p.InstrPos(ci), "the actor package reads the engine through "+cm.Method.Name()+"(): what it obtains is the engine's live, unfiltered state, shared with the engine")
				}
			}
		}
		if bad == 0 {
			c.Ok("R4", "no-engine-reads", "-", fmt.Sprintf("%d engine calls in the actor package, all player operations", n))
		}
		c.Min("R4", "engine calls in the actor package", n, 9)
	}
	// observer runner: the Runner implementation that calls AsObserver (role) — or, if the
	// filter was deleted, the one with a system-mode switch
	ri := p.Iface("/actor", "Runner")
	if ri == nil {
		c.Bad("R1", "anchors", "-", "Runner interface not found")
		return
	}
	var obs *ssa.Function
	for _, t := range p.Implementers(ri) {
		f := p.Method(t, "UpdateTableState")
		if f == nil {
			continue
		}
		uses := false
		for _, ss := range p.Stores(p.Methods(t)) {
			if ss.Field == "systemMode" {
				uses = true
			}
		}
		for _, ci := range Calls(f) {
			if calleeName(ci.Common()) == "pokerface.GameState.AsObserver" {
				uses = true
			}
		}
		if uses {
			obs = f
		}
	}
	if obs == nil {
		c.Bad("R1", "observer-runner", "-", "no runner with an observer filter / system-mode switch found")
		return
	}
	// the filtering method is the only place where the observer runner hands a table to client code: a table
	// given to a callback anywhere else in the runner (a snapshot kept from earlier and replayed to a listener
	// that registers later, say) by-passes the filter — and the mode may have changed since it was kept
	{
		recvT := namedOf(obs.Signature.Recv().Type())
		seen := map[*ssa.Function]bool{}
		var order []*ssa.Function
		var visit func(f *ssa.Function)
		visit = func(f *ssa.Function) {
			if f == nil || seen[f] || !inModule(p, f) || f.Blocks == nil {
				return
			}
			seen[f] = true
			order = append(order, f)
			for _, ci := range Calls(f) {
				visit(ci.Common().StaticCallee())
			}
			for _, an := range f.AnonFuncs {
				visit(an)
			}
		}
		for _, m := range p.Methods(recvT) {
			visit(m)
		}
		nOut, nOther := 0, 0
		for _, f := range order {
			if f == obs || (f.Parent() != nil && f.Parent() == obs) {
				continue
			}
			// emits of this function: a callback invoked with a table
			emitArg := func(in ssa.Instruction) ssa.Value {
				ci, ok := in.(ssa.CallInstruction)
				if !ok {
					return nil
				}
				cm := ci.Common()
				if cm.IsInvoke() || cm.StaticCallee() != nil {
					return nil
				}
				if _, isB := cm.Value.(*ssa.Builtin); isB {
					return nil
				}
				for _, a := range cm.Args {
					if typeShort(a.Type()) == "*pokertable.Table" || typeShort(a.Type()) == "*Table" {
						return a
					}
				}
				return nil
			}
			filterRecv := func(in ssa.Instruction) ssa.Value {
				ci, ok := in.(ssa.CallInstruction)
				if !ok || calleeName(ci.Common()) != "pokerface.GameState.AsObserver" {
					return nil
				}
				return ci.Common().Args[0]
			}
			has := false
			for _, b := range f.Blocks {
				for _, in := range b.Instrs {
					if emitArg(in) != nil {
						has = true
					}
				}
			}
			if !has {
				continue
			}
			nOther++
			// the same obligation as in the filtering method, path by path: system mode on, or the very table that
			// is handed over has no hand state, or its hand state went through AsObserver before
			bad := 0
			var badPath []int
			wk := &Walker{P: p, Fn: f, IsEvent: func(in ssa.Instruction) bool { return emitArg(in) != nil || filterRecv(in) != nil }, OnExit: func(in ssa.Instruction, st *WState) {
				var filteredTables []string
				for _, e := range st.Events {
					if r := filterRecv(e); r != nil {
						rs := p.Sym(st.Resolve(r)).Strip()
						if rs.IsField("TableState", "GameState") && len(rs.Args) > 0 {
							if stt := rs.Args[0].Strip(); stt.Kind == "field" && stt.Name == "State" && len(stt.Args) > 0 {
								filteredTables = append(filteredTables, stt.Args[0].Strip().String())
							}
						}
						continue
					}
					a := emitArg(e)
					if a == nil {
						continue
					}
					tv := st.Resolve(a)
					ts := p.Sym(tv).Strip()
					ok := false
					if cst, isC := tv.(*ssa.Const); isC && cst.IsNil() {
						ok = true
					}
					if st.nilF[tv] > 0 {
						ok = true
					}
					for _, ft := range filteredTables {
						if ft == ts.String() {
							ok = true
						}
					}
					for v, b := range st.boolF {
						if p.Sym(v).Strip().IsField("observerRunner", "systemMode") && b {
							ok = true
						}
					}
					for v, nf := range st.nilF {
						vs := p.Sym(v).Strip()
						if nf > 0 && vs.String() == ts.String() {
							ok = true // the table itself is nil on this path (the same place read twice)
						}
						if nf > 0 && vs.Kind == "field" && vs.Name == "State" && len(vs.Args) > 0 && vs.Args[0].Strip().String() == ts.String() {
							ok = true // no state at all, hence no hand state
						}
						if nf > 0 && vs.IsField("TableState", "GameState") && len(vs.Args) > 0 {
							if stt := vs.Args[0].Strip(); stt.Kind == "field" && stt.Name == "State" && len(stt.Args) > 0 && stt.Args[0].Strip().String() == ts.String() {
								ok = true
							}
						}
					}
					if !ok {
						bad++
						badPath = append([]int{}, st.Trail...)
					}
				}
			}}
			wk.Run()
			switch {
			case wk.Aborted:
				c.Undecided("R1", "table-to-client-outside-the-filter:"+FuncName(f), p.Pos(f.Pos()), "path enumeration aborted")
			case bad > 0:
				nOut++
				c.Bad("R1", "table-to-client-outside-the-filter:"+FuncName(f), p.Pos(f.Pos()), fmt.Sprintf("%s hands a table to a callback on %d path(s) (e.g. %s) with system mode off although that table may carry a hand state that did not pass through AsObserver — a snapshot kept from earlier is not filtered for the mode the runner is in now", FuncName(f), bad, p.TrailString(f, badPath)))
			default:
				c.Ok("R1", "table-to-client-outside-the-filter:"+FuncName(f), p.Pos(f.Pos()), "every table handed to a callback here is filtered first, or system mode is on, or it has no hand state")
			}
		}
		if nOut == 0 && nOther == 0 {
			c.Ok("R1", "table-to-client-only-through-the-filter", p.Pos(obs.Pos()), fmt.Sprintf("%d function(s) of the observer runner: no other place invokes a callback with a table", len(order)))
		}
	}
	tbl := obs.Params[1]
	isFilter := func(in ssa.Instruction) bool {
		ci, ok := in.(ssa.CallInstruction)
		if !ok || calleeName(ci.Common()) != "pokerface.GameState.AsObserver" {
			return false
		}
		a := p.Sym(ci.Common().Args[0]).Strip()
		return a.IsField("TableState", "GameState") && symIsParam(a.Root(), tbl)
	}
	isEmit := func(in ssa.Instruction) bool {
		ci, ok := in.(ssa.CallInstruction)
		if !ok {
			return false
		}
		cm := ci.Common()
		if cm.IsInvoke() || cm.StaticCallee() != nil {
			return false
		}
		if _, isB := cm.Value.(*ssa.Builtin); isB {
			return false
		}
		for _, a := range cm.Args {
			if symIsParam(p.Sym(a), tbl) {
				return true
			}
		}
		return false
	}
	nEmit, bad := 0, 0
	var badPath []int
	wk := &Walker{P: p, Fn: obs, IsEvent: func(in ssa.Instruction) bool { return isFilter(in) || isEmit(in) }, OnExit: func(in ssa.Instruction, st *WState) {
		filtered := false
		for _, e := range st.Events {
			if isFilter(e) {
				filtered = true
				continue
			}
			if !isEmit(e) {
				continue
			}
			nEmit++
			if filtered {
				continue
			}
			// exempt: system mode on, or no hand state on this path
			exempt := false
			for v, b := range st.boolF {
				if p.Sym(v).Strip().IsField("observerRunner", "systemMode") && b {
					exempt = true
				}
			}
			for v, nf := range st.nilF {
				s := p.Sym(v).Strip()
				if s.IsField("TableState", "GameState") && symIsParam(s.Root(), tbl) && nf > 0 {
					exempt = true
				}
			}
			if !exempt {
				bad++
				badPath = append([]int{}, st.Trail...)
			}
		}
	}}
	wk.Run()
	if wk.Aborted {
		c.Undecided("R1", "filter-before-emit", p.Pos(obs.Pos()), "path enumeration aborted")
	} else {
		c.Check(bad == 0 && nEmit > 0, "R1", "filter-before-emit:"+FuncName(obs), p.Pos(obs.Pos()), fmt.Sprintf("%d path(s) to the user callback, all filtered / system mode / no hand state", nEmit),
			fmt.Sprintf("the observer callback is reached on %d path(s) (e.g. %s) with system mode off on which the table may carry a hand state that was never passed through AsObserver: the filter is keyed on something other than the presence of a hand state", bad, p.TrailString(obs, badPath)))
	}

	// R2 adapter
	ai := p.Iface("/actor", "Adapter")
	n2 := 0
	if ai != nil {
		for _, t := range p.Implementers(ai) {
			f := p.Method(t, "UpdateTableState")
			if f == nil {
				continue
			}
			n2++
			in := f.Params[1]
			where := p.Pos(f.Pos())
			// the forward call to the actor
			var fwd ssa.CallInstruction
			for _, ci := range Calls(f) {
				if calleeName(ci.Common()) == "Actor.UpdateTableState" {
					fwd = ci
				}
			}
			if fwd == nil {
				c.Bad("R2", canonTypeName(t.Obj())+":forwards", where, "adapter does not forward the table to its actor")
				continue
			}
			arg := fwd.Common().Args[0]
			// the copy may be made by a module function that is itself the JSON round trip (Table.Clone):
			// its result is then as private as an inline decode
			if g := clonerCall(p, arg); g != nil && symIsParam(p.Sym(g.Common().Args[0]).Strip(), in) {
				c.Ok("R2", canonTypeName(t.Obj())+":passes-fresh-copy", p.InstrPos(fwd), "actor receives the result of "+calleeName(g.Common())+"(incoming), a JSON round trip into a fresh table")
				c.Ok("R2", canonTypeName(t.Obj())+":copy-from-incoming-json", where, calleeName(g.Common())+" decodes json.Marshal of its receiver into a new table on every non-nil return")
				for _, ss := range p.Stores([]*ssa.Function{f}) {
					if ss.Field == "table" && ss.Owner == canonTypeName(t.Obj()) {
						c.Check(ss.ValV == arg, "R2", canonTypeName(t.Obj())+":keeps-the-copy", p.InstrPos(ss.Instr), "adapter keeps the same private copy", "the adapter keeps "+ss.Val.String()+" instead of the private copy")
					}
				}
				continue
			}
			local := rawLocal(arg)
			c.Check(local && !symIsParam(p.Sym(arg), in), "R2", canonTypeName(t.Obj())+":passes-fresh-copy", p.InstrPos(fwd), "actor receives the address of a local copy", "the actor receives "+p.Sym(arg).String()+" — the engine's own table (or something reachable from it), not a private copy")
			// that local is the target of json.Unmarshal of the incoming table's JSON
			okFill := false
			d := "the copy handed to the actor is not filled by json.Unmarshal from the incoming table's own JSON"
			for _, ci := range Calls(f) {
				cs := p.CallSym(ci)
				if cs.Name != "json.Unmarshal" || len(cs.Args) != 2 {
					continue
				}
				tgt := ci.Common().Args[1]
				if rootAlloc(tgt) == nil || rootAlloc(tgt) != rootAlloc(arg) {
					continue
				}
				src := cs.Args[0].Strip()
				fromIncoming := src.Contains(func(x *Sym) bool {
					return x.IsCall("Table.GetJSON") && symIsParam(x.Args[0].Strip(), in)
				})
				if fromIncoming && Dominates(ci, fwd) {
					okFill = true
				} else {
					d = "the copy is decoded from " + src.String()
				}
			}
			c.Check(okFill, "R2", canonTypeName(t.Obj())+":copy-from-incoming-json", where, "json.Unmarshal(GetJSON(incoming), &copy) before forwarding", d)
			// what the adapter keeps
			for _, ss := range p.Stores([]*ssa.Function{f}) {
				if ss.Field == "table" && ss.Owner == canonTypeName(t.Obj()) {
					c.Check(rootAlloc(ss.ValV) != nil && rootAlloc(ss.ValV) == rootAlloc(arg), "R2", canonTypeName(t.Obj())+":keeps-the-copy", p.InstrPos(ss.Instr), "adapter keeps the same private copy", "the adapter keeps "+ss.Val.String()+" instead of the private copy")
				}
			}
		}
	}
	c.Min("R2", "engine adapters", n2, 1)
	// … and that copying method is the only place that hands a table to an actor: any other call of
	// Actor.UpdateTableState (priming a late-wired actor with the table the adapter was built with, say)
	// by-passes the copy — the adapter's initial table is the engine's live one
	nOther := 0
	for _, f := range p.Funcs {
		if !inModule(p, f) {
			continue
		}
		for _, ci := range Calls(f) {
			if calleeName(ci.Common()) != "Actor.UpdateTableState" {
				continue
			}
			isAdapterUpdate := false
			if ai != nil && f.Parent() == nil && f.Signature.Recv() != nil && fnName(f) == "UpdateTableState" {
				if n := namedOf(f.Signature.Recv().Type()); n != nil {
					for _, t := range p.Implementers(ai) {
						if t == n {
							isAdapterUpdate = true
						}
					}
				}
			}
			if !isAdapterUpdate {
				nOther++
				c.Bad("R2", "table-to-actor-outside-the-copying-path:"+fnName(f), p.InstrPos(ci), fnName(f)+" hands "+p.Sym(ci.Common().Args[0]).Strip().String()+" to an actor without the adapter's JSON copy: a runner that filters in place (the observer) then edits whatever that object is — possibly the engine's own table and hand state")
			}
		}
	}
	if nOther == 0 {
		c.Ok("R2", "table-to-actor-only-through-the-copying-path", "-", "Actor.UpdateTableState is called only by the adapter's copying UpdateTableState")
	}

	// R3 no write path
	var roots []*ssa.Function
	recv := namedOf(obs.Signature.Recv().Type())
	roots = append(roots, p.Methods(recv)...)
	ri2 := p.CG().Reach(roots, ReachOpts{Creation: true, RepoOnly: true})
	nBad := 0
	for _, g := range ri2.Order {
		for _, ci := range Calls(g) {
			n := calleeName(ci.Common())
			cm := ci.Common()
			if cm.IsInvoke() {
				it := namedOf(cm.Value.Type())
				if it != nil && (it.Obj().Name() == "Adapter" || it.Obj().Name() == "Actions" || it.Obj().Name() == "TableEngine") {
					switch cm.Method.Name() {
					case "SetActor", "UpdateTableState", "GetGamePlayerIndex", "GetGameState", "GetTable":
					default:
						nBad++
						c.Bad("R3", "observer-calls:"+n, p.InstrPos(ci), "the observer runner can reach the player action "+n, ri2.PathTo(p, g)...)
					}
				}
			}
		}
	}
	if nBad == 0 {
		c.Ok("R3", "observer-has-no-write-path", p.Pos(obs.Pos()), fmt.Sprintf("%d functions reachable from the observer runner, none calls a player action", len(ri2.Order)))
	}
}

// clonerCall: v is (the first result of) a static call of a module function that is a JSON deep copy of
// its first argument: every return hands out nil or the address of a fresh local that json.Unmarshal
// filled, before the return, from json.Marshal / GetJSON of that first argument.
func clonerCall(p *Prog, v ssa.Value) *ssa.Call {
	if ex, ok := v.(*ssa.Extract); ok && ex.Index == 0 {
		v = ex.Tuple
	}
	call, ok := v.(*ssa.Call)
	if !ok {
		return nil
	}
	g := call.Common().StaticCallee()
	if g == nil || !inModule(p, g) || len(g.Params) == 0 || len(g.Blocks) == 0 || len(call.Common().Args) == 0 {
		return nil
	}
	src := g.Params[0]
	nRet := 0
	for _, b := range g.Blocks {
		for _, in := range b.Instrs {
			ret, isRet := in.(*ssa.Return)
			if !isRet || len(ret.Results) == 0 {
				continue
			}
			r := ret.Results[0]
			if cst, isC := r.(*ssa.Const); isC && cst.IsNil() {
				continue
			}
			a := rootAlloc(r)
			if a == nil {
				return nil
			}
			filled := false
			for _, ci := range Calls(g) {
				cs := p.CallSym(ci)
				if cs.Name != "json.Unmarshal" || len(cs.Args) != 2 || rootAlloc(ci.Common().Args[1]) != a {
					continue
				}
				from := cs.Args[0].Strip().Contains(func(x *Sym) bool {
					return (x.IsCall("Table.GetJSON") || x.IsCall("json.Marshal")) && len(x.Args) > 0 && symIsParam(x.Args[0].Strip(), src)
				})
				if from && Dominates(ci, ret) {
					filled = true
				}
			}
			if !filled {
				return nil
			}
			nRet++
		}
	}
	if nRet == 0 {
		return nil
	}
	return call
}
