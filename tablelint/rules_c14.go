package main

// C14 — per-hand player statistics describe what the player actually did.

import (
	"fmt"
	"go/types"
	"strings"

	"golang.org/x/tools/go/ssa"
)

func init() {
	register(&PropMeta{
		ID:          "C14",
		Level:       "other",
		Explanation: "Decides the implications that are visible in the code's shape: (R1) every store of true to a 'did X' flag is guarded by (or co-stored with) the matching 'had the chance' flag of the same player's statistics; the pairing table is derived from the statistics struct; (R1x) side condition that keeps one shape-breaking construct latent; (R2) each wager method bumps the action counter exactly once on its success path, call/check counters only in their own methods, every raise-counter bump is dominated by an action-counter bump; (R3) fold flag and fold round are stored together and only in the fold method; (R4) the 3-bet flag is written only in full-range loops that set it at one index and clear it elsewhere (or clear it everywhere) and the guard object is the acting player at every call site; (R5) the between-hands reset installs the zero constructor for every player and that constructor is all-zero. NOT decided: that the chance predicates implement poker's definitions.",
		Rules: map[string]string{
			"R1":  "did ⇒ chance: store of true to a did-flag guarded by / co-stored with the matching chance flag of the same statistics object",
			"R1x": "side condition of the frozen exception PlayerFold/IsFtCB: every store of true to the Ft3B-chance flag depends on the statistics validator, which accepts only the game-level Started event",
			"R2":  "counters: one action-counter bump per wager method on success; call/check counters only in their methods; raise bumps dominated by action bumps",
			"R3":  "fold flag and fold round together, only in the fold method",
			"R4":  "3-bet uniqueness loops; guard object = acting player at every call site",
			"R5":  "per-hand reset from an all-zero constructor",
			"R7":  "a chance flag is never taken back within a hand: outside the constructor it is stored only as the constant true (or false where the did-flag cannot have been set before)",
			"R8":  "the counters count accepted moves only: each wager action of the hand wrapper tests the backend's error and returns it to the engine method (shared with C13.R2), which bumps its counters only under err == nil (R2)",
			"R6":  "the engine's hand-state hook refreshes the chance statistics from every state received while the table is playing",
		},
		Assumptions: []string{"no emitted hand snapshot carries the game-level Started event during betting (pokerface; demonstrated by triage/TestF2)"},
		Run:         checkC14,
		Controls:    controlsC14,
	})
}

// didChancePairs derives did→chance from the statistics struct's field names.
func didChancePairs(p *Prog) map[string]string {
	out := map[string]string{}
	t := p.Type("", "TablePlayerGameStatistics")
	if t == nil {
		return out
	}
	st, ok := t.Underlying().(*types.Struct)
	if !ok {
		return out
	}
	names := map[string]bool{}
	for i := 0; i < st.NumFields(); i++ {
		names[st.Field(i).Name()] = true
	}
	for n := range names {
		if strings.HasSuffix(n, "Chance") {
			base := strings.TrimSuffix(n, "Chance")
			if names[base] {
				out[base] = n
			} else if names["Is"+base] {
				out["Is"+base] = n
			}
		}
	}
	return out
}

func statsObj(addr *Sym) *Sym { // the TablePlayerGameStatistics object a field address belongs to
	return addr.Strip().Args[0].Strip()
}

func checkC14(c *Ctx) {
	p := c.P
	// R8: "accepted" means the hand engine applied the move — the hand wrapper's wager actions hand the
	// backend's error back to the engine method that bumps the counters (as C13.R2, for those actions)
	if gt := p.singleImpl("", "Game"); gt != nil {
		wager := map[string]bool{"Fold": true, "Check": true, "Call": true, "Bet": true, "Raise": true, "Allin": true, "Pass": true, "Pay": true}
		checkBackendErrors(c, "R8", gt, func(call *ssa.Call) bool {
			f := call.Parent()
			return f.Parent() == nil && f.Signature.Recv() != nil && wager[fnName(f)] && isBackendCall(call.Common())
		}, 7)
	} else {
		c.Bad("R8", "anchors", "-", "hand wrapper not found")
	}
	// R6: the chance flags are refreshed from every hand state received while playing
	checkUpdateHook(c, "R6", "register", "stats")
	// R7: within a hand a chance flag is never taken back once the did-flag may be set:
	// outside the constructor a chance flag is stored only as the constant true, or as the
	// constant false where the matching did-flag cannot have been set on the same path
	{
		pairs := didChancePairs(p)
		chanceToDid := map[string]string{}
		for did, ch := range pairs {
			chanceToDid[ch] = did
		}
		n := 0
		for _, ss := range p.Stores(p.Funcs) {
			if ss.Owner != "TablePlayerGameStatistics" || chanceToDid[ss.Field] == "" || storeIsLocal(ss.Instr) {
				continue
			}
			n++
			v, isB := ss.Val.ConstBool()
			switch {
			case !isB:
				c.Bad("R7", "chance-flag-monotone:"+ss.Field+"@"+FuncName(ss.Fn), p.InstrPos(ss.Instr), "the chance flag "+ss.Field+" is re-evaluated ("+ss.Val.String()+"): it can fall back to false after "+chanceToDid[ss.Field]+" was set, so 'did' no longer implies 'had the chance'")
			case v:
				c.Ok("R7", "chance-flag-monotone:"+ss.Field+"@"+FuncName(ss.Fn), p.InstrPos(ss.Instr), "set to true")
			default:
				// constant false: no store of true to the did-flag of the same object may precede it on a path
				bad := false
				for _, s2 := range p.Stores([]*ssa.Function{ss.Fn}) {
					if s2.Owner == "TablePlayerGameStatistics" && s2.Field == chanceToDid[ss.Field] {
						if b2, isB2 := s2.Val.ConstBool(); isB2 && b2 && reachesSameIteration(s2.Instr, ss.Instr) {
							bad = true
						}
					}
				}
				c.Check(!bad, "R7", "chance-flag-monotone:"+ss.Field+"@"+FuncName(ss.Fn), p.InstrPos(ss.Instr), "cleared only where the did-flag was not set", "the chance flag "+ss.Field+" is cleared after "+chanceToDid[ss.Field]+" may have been set")
			}
		}
		c.Min("R7", "chance-flag stores outside the constructor", n, 8)
	}
	pairs := didChancePairs(p)
	c.Min("R1", "did/chance pairs in the statistics struct", len(pairs), 9)
	ams := p.engineActionMethods()
	byAction := map[string]*ssa.Function{}
	for _, am := range ams {
		byAction[am.Action] = am.Fn
	}
	// ---------------- R1
	n1 := 0
	var latent *StoreSite
	for did, chance := range pairs {
		for _, ss := range p.FieldStores("TablePlayerGameStatistics", did) {
			if storeIsLocal(ss.Instr) {
				continue
			}
			b, isB := ss.Val.ConstBool()
			if !isB {
				// a computed value (flag = i == idx) may be true: the store is held to what a store of true is
				// held to — the conditions it sits under must already imply the chance flag
				b = true
			}
			if !b {
				continue
			}
			n1++
			obj := statsObj(ss.Addr)
			key := "did-store:" + FuncName(ss.Fn) + ":" + did
			where := p.InstrPos(ss.Instr)
			gs := p.Guards(ss.Instr)
			sameObjGuard := func(field string) bool {
				return guardedBy(gs, true, func(s *Sym) bool {
					return s.IsField("TablePlayerGameStatistics", field) && statsObj(s).String() == obj.String()
				})
			}
			ok := sameObjGuard(chance)
			if !ok {
				// co-stored: chance=true stored to the same object, dominating this store
				for _, s2 := range p.Stores([]*ssa.Function{ss.Fn}) {
					if s2.Owner == "TablePlayerGameStatistics" && s2.Field == chance && statsObj(s2.Addr).String() == obj.String() {
						if tv, isT := s2.Val.ConstBool(); isT && tv && Dominates(s2.Instr, ss.Instr) {
							ok = true
						}
					}
				}
			}
			if !ok && did == "Is3B" {
				// uniqueness loop: guard is the acting player's chance flag (checked by R4)
				ok = guardedBy(gs, true, func(s *Sym) bool {
					return s.IsField("TablePlayerGameStatistics", chance) && statsObj(s).Args[0].Strip().Kind == "param"
				})
			}
			if ok {
				c.Ok("R1", key, where, did+" ⇒ "+chance)
				continue
			}
			// which flag guards it instead?
			other := ""
			for _, g := range gs {
				s := g.Cond.Strip()
				if g.Val && s.Kind == "field" && s.Owner == "TablePlayerGameStatistics" {
					other = s.Name
				}
			}
			if did == "IsFtCB" && other == "IsFt3BChance" && ss.Fn == byAction["Fold"] {
				latent = ss
				continue
			}
			c.Bad("R1", key, where, fmt.Sprintf("%s is set to true without the matching chance flag %s of the same player (guarded by %q): the flag can be set for a player who never had the chance", did, chance, other))
		}
	}
	c.Min("R1", "did-flag stores of true", n1, 16)

	// ---------------- R1x and the latent construct
	okX, dX := checkFt3BChanceDead(c)
	if latent != nil {
		key := "did-store:" + FuncName(latent.Fn) + ":IsFtCB"
		c.Except("R1", key, "fold sets the fold-to-c-bet flag under the fold-to-3-bet chance; that chance flag is never set because the statistics validator accepts only the game-level Started event (side condition R1x, re-checked on every run)")
		if okX {
			o := c.add("R1", key, p.InstrPos(latent.Instr), "latent", "IsFtCB is set under IsFt3BChance instead of IsFtCBChance, but IsFt3BChance can never be true (R1x holds): dead code, the property holds on this tree", nil)
			_ = o
		} else {
			c.Bad("R1", key, p.InstrPos(latent.Instr), "IsFtCB is set under IsFt3BChance instead of IsFtCBChance, and the side condition that made this dead code no longer holds ("+dX+"): a player can be recorded as folding to a c-bet without ever having faced one")
		}
	}

	// ---------------- R2 counters
	wager := []string{"Bet", "Raise", "Call", "Allin", "Check", "Fold"}
	for _, a := range wager {
		f := byAction[a]
		if f == nil {
			c.Bad("R2", "action-counter:"+a, "-", "wager method not found")
			continue
		}
		var hand *ssa.Call
		for _, am := range ams {
			if am.Fn == f {
				hand = am.Hand
			}
		}
		errV := callErrValue(hand)
		isBump := func(in ssa.Instruction, field string) bool {
			ss := p.storeSite(in)
			if ss == nil || ss.Owner != "TablePlayerGameStatistics" || ss.Field != field || storeIsLocal(in) {
				return false
			}
			return true
		}
		min, max := 99, 0
		wk := &Walker{P: p, Fn: f, IsEvent: func(in ssa.Instruction) bool { return isBump(in, "ActionTimes") }, OnExit: func(in ssa.Instruction, st *WState) {
			if errV != nil && st.NilFact(errV) == +1 { // success path
				if len(st.Events) < min {
					min = len(st.Events)
				}
				if len(st.Events) > max {
					max = len(st.Events)
				}
			} else if len(st.Events) > 0 {
				max = 99
			}
		}}
		wk.Run()
		shape := true
		for _, ss := range p.Stores([]*ssa.Function{f}) {
			if isBump(ss.Instr, "ActionTimes") || isBump(ss.Instr, "RaiseTimes") || isBump(ss.Instr, "CallTimes") || isBump(ss.Instr, "CheckTimes") {
				v := ss.Val.Strip()
				one := false
				if v.Kind == "binop" && v.Name == "+" {
					for k := 0; k < 2; k++ {
						if z, isZ := v.Args[k].ConstInt(); isZ && z == 1 && v.Args[1-k].Strip().String() == ss.Addr.Strip().String() {
							one = true
						}
					}
				}
				if !one || p.inLoop(ss.Instr.Block()) {
					shape = false
				}
			}
		}
		c.Check(min == 1 && max == 1 && shape && !wk.Aborted, "R2", "action-counter:"+fnName(f), p.Pos(f.Pos()), "exactly one ActionTimes+1 on the success path", fmt.Sprintf("accepted %s bumps the action counter %d..%d times on its success path (or a counter is not old+1)", a, min, max))
	}
	for _, a := range []string{"Ready", "Pay", "Pass"} {
		if f := byAction[a]; f != nil {
			n := 0
			for _, ss := range p.Stores([]*ssa.Function{f}) {
				if ss.Owner == "TablePlayerGameStatistics" && !storeIsLocal(ss.Instr) {
					n++
				}
			}
			c.Check(n == 0, "R2", "no-counters:"+fnName(f), p.Pos(f.Pos()), "non-wager action touches no statistics", fmt.Sprintf("%s is not a wager action but writes %d statistics field(s)", a, n))
		}
	}
	only := map[string]string{"CallTimes": "Call", "CheckTimes": "Check"}
	for field, act := range only {
		n := 0
		for _, ss := range p.FieldStores("TablePlayerGameStatistics", field) {
			if storeIsLocal(ss.Instr) {
				continue
			}
			n++
			c.Check(ss.Fn == byAction[act], "R2", field+"-writer:"+FuncName(ss.Fn), p.InstrPos(ss.Instr), field+" only in the "+act+" method", field+" is bumped outside the method that accepts a "+strings.ToLower(act))
		}
		c.Min("R2", field+" bumps", n, 1)
	}
	nR := 0
	for _, ss := range p.FieldStores("TablePlayerGameStatistics", "RaiseTimes") {
		if storeIsLocal(ss.Instr) {
			continue
		}
		nR++
		dom := false
		for _, s2 := range p.Stores([]*ssa.Function{ss.Fn}) {
			if s2.Owner == "TablePlayerGameStatistics" && s2.Field == "ActionTimes" && !storeIsLocal(s2.Instr) && Dominates(s2.Instr, ss.Instr) && statsObj(s2.Addr).String() == statsObj(ss.Addr).String() {
				dom = true
			}
		}
		c.Check(dom, "R2", "raise-with-action:"+FuncName(ss.Fn), p.InstrPos(ss.Instr), "raise bump dominated by an action bump of the same player", "the raise counter is bumped without an action-counter bump of the same player: raises can exceed actions")
	}
	c.Min("R2", "RaiseTimes bumps", nR, 3)

	// ---------------- R3 fold
	nF := 0
	for _, ss := range p.FieldStores("TablePlayerGameStatistics", "IsFold") {
		if storeIsLocal(ss.Instr) {
			continue
		}
		if b, isB := ss.Val.ConstBool(); isB && !b {
			continue // a computed value may be true: held to the rule like a store of true
		}
		nF++
		ok := ss.Fn == byAction["Fold"]
		together := false
		for _, s2 := range p.Stores([]*ssa.Function{ss.Fn}) {
			if s2.Owner == "TablePlayerGameStatistics" && s2.Field == "FoldRound" && statsObj(s2.Addr).String() == statsObj(ss.Addr).String() && s2.Instr.Block() == ss.Instr.Block() {
				v := s2.Val.Strip()
				if v.IsField("Status", "Round") {
					together = true
				}
			}
		}
		c.Check(ok && together, "R3", "fold-flag:"+FuncName(ss.Fn), p.InstrPos(ss.Instr), "fold flag with fold round, in the fold method", "the fold flag is set outside the fold method or without the fold round of the hand's current round")
	}
	c.Min("R3", "fold-flag stores", nF, 1)
	for _, ss := range p.FieldStores("TablePlayerGameStatistics", "FoldRound") {
		if !storeIsLocal(ss.Instr) {
			c.Check(ss.Fn == byAction["Fold"], "R3", "fold-round-writer:"+FuncName(ss.Fn), p.InstrPos(ss.Instr), "fold round only in the fold method", "fold round written outside the fold method")
		}
	}

	// ---------------- R4 3-bet
	var threeBetFns = map[*ssa.Function]bool{}
	n4 := 0
	for _, ss := range p.FieldStores("TablePlayerGameStatistics", "Is3B") {
		if storeIsLocal(ss.Instr) {
			continue
		}
		n4++
		threeBetFns[ss.Fn] = true
		pl := statsObj(ss.Addr).Args[0].Strip() // PlayerStates[i]
		ok := pl.Kind == "index" && pl.Args[0].Strip().IsField("TableState", "PlayerStates") && fullRange(pl.Args[1], func(x *Sym) bool { return x.IsField("TableState", "PlayerStates") })
		c.Check(ok, "R4", "3bet-store@"+branchOf(p, ss), p.InstrPos(ss.Instr), "inside a loop over all players", "the 3-bet flag is written outside a loop over the whole player list: two players can hold it")
		if _, isConst := ss.Val.ConstBool(); !isConst && ok {
			// a computed flag (Is3B = i == actingIdx) sets and clears in one store: the value must be the
			// comparison of the loop position with the acting player
			iv := pl.Args[1].Strip()
			v := ss.Val.Strip()
			eq := false
			if v.Kind == "binop" && v.Name == "==" && len(v.Args) == 2 {
				l, r := v.Args[0].Strip(), v.Args[1].Strip()
				isPos := func(x *Sym) bool { return x.String() == iv.String() || x.String() == pl.String() }
				if (isPos(l) && r.Kind == "param") || (isPos(r) && l.Kind == "param") {
					eq = true
				}
			}
			c.Check(eq, "R4", "3bet-true-at-one-index", p.InstrPos(ss.Instr), "computed flag = (loop position == acting player)", "the 3-bet flag is computed as "+v.String()+": not 'this loop position is the acting player', so it can be true for several players or for the wrong one")
		}
		if b, _ := ss.Val.ConstBool(); b && ok {
			// true only at index == acting index, with a false store on the other edge
			iv := pl.Args[1].Strip()
			gs := p.Guards(ss.Instr)
			eq := false
			for _, g := range gs {
				if cm := g.AsCmp(); cm != nil && cm.Op.String() == "==" {
					l, r := cm.L.Strip(), cm.R.Strip()
					if (l.String() == iv.String() && r.Kind == "param") || (r.String() == iv.String() && l.Kind == "param") {
						eq = true
					}
				}
			}
			c.Check(eq, "R4", "3bet-true-at-one-index", p.InstrPos(ss.Instr), "true only at the acting player's index", "the 3-bet flag is set to true for more than one index of the loop")
			// sibling false store in the same loop
			sib := false
			// … in the very loop that sets it (an earlier, separately conditioned clearing loop does not count)
			var loop map[*ssa.BasicBlock]bool
			for _, h := range loopHeaders(ss.Fn) {
				if l := naturalLoop(h); l[ss.Instr.Block()] && (loop == nil || len(l) < len(loop)) {
					loop = l
				}
			}
			for _, s2 := range p.Stores([]*ssa.Function{ss.Fn}) {
				if s2 != ss && s2.Owner == "TablePlayerGameStatistics" && s2.Field == "Is3B" && statsObj(s2.Addr).String() == statsObj(ss.Addr).String() && loop != nil && loop[s2.Instr.Block()] {
					if b2, isB := s2.Val.ConstBool(); isB && !b2 {
						sib = true
					}
				}
			}
			c.Check(sib, "R4", "3bet-cleared-elsewhere", p.InstrPos(ss.Instr), "other indexes cleared in the same loop", "setting the 3-bet flag does not clear it for the other players")
		}
	}
	c.Min("R4", "3-bet flag stores", n4, 2)
	for f := range threeBetFns {
		for _, site := range p.CG().AllCallSitesOf(f) {
			args := site.Common().Args
			if len(args) < 3 {
				continue
			}
			pl, idx := p.Sym(args[1]).Strip(), p.Sym(args[2]).Strip()
			ok := pl.Kind == "index" && pl.Args[0].Strip().IsField("TableState", "PlayerStates") && pl.Args[1].Strip().String() == idx.String()
			c.Check(ok, "R4", "3bet-call:"+FuncName(site.Parent()), p.InstrPos(site), "guard object is PlayerStates[acting index]", "the 3-bet refresh is called with a player object that is not PlayerStates[<the index it is told>]")
		}
	}

	// ---------------- R5 zero constructor
	var ctor *ssa.Function
	lc := p.lifecycle()
	if lc.continueFn != nil {
		for _, ss := range p.Stores([]*ssa.Function{lc.continueFn}) {
			if ss.Owner == "TablePlayerState" && ss.Field == "GameStatistics" {
				v := ss.Val.Strip()
				if v.Kind == "call" && v.Call.Common().StaticCallee() != nil {
					ctor = v.Call.Common().StaticCallee()
				}
			}
		}
	}
	if ctor == nil {
		c.Bad("R5", "zero-constructor", "-", "the between-hands reset does not install a constructor value")
	} else {
		bad := ""
		n := 0
		for _, ss := range p.Stores([]*ssa.Function{ctor}) {
			if ss.Owner != "TablePlayerGameStatistics" {
				continue
			}
			n++
			v := ss.Val.Strip()
			zero := false
			if z, ok := v.ConstInt(); ok && z == 0 {
				zero = true
			}
			if b, ok := v.ConstBool(); ok && !b {
				zero = true
			}
			if s, ok := v.ConstString(); ok && s == "" {
				zero = true
			}
			if !zero {
				bad = ss.Field + " = " + v.String()
			}
		}
		c.Check(bad == "", "R5", "zero-constructor:"+fnName(ctor), p.Pos(ctor.Pos()), fmt.Sprintf("%d explicit fields, all zero", n), "the statistics constructor starts a hand with "+bad)
	}
	if lc.continueFn != nil {
		checkPerHandResetStats(c, lc)
	}
}

func checkPerHandResetStats(c *Ctx, lc *lifecycle) {
	// reuse C07.R4's per-player loop check for the statistics field only
	sub := &Ctx{P: c.P, Prop: c.Prop}
	checkPerHandReset(sub, lc)
	for _, o := range sub.Obs {
		if strings.Contains(o.Construct, "reset-per-player:GameStatistics") {
			o.Rule = c.Prop + ".R5"
			c.Obs = append(c.Obs, o)
		}
	}
}

// checkFt3BChanceDead (R1x): every store of true to IsFt3BChance is control-dependent on a
// predicate all of whose true-exits passed the statistics validator, and the validator's
// true-exits require CurrentEvent == GameEventSymbols[GameEvent_Started].
func checkFt3BChanceDead(c *Ctx) (bool, string) {
	p := c.P
	ok := true
	why := ""
	n := 0
	for _, ss := range p.FieldStores("TablePlayerGameStatistics", "IsFt3BChance") {
		if storeIsLocal(ss.Instr) {
			continue
		}
		if b, _ := ss.Val.ConstBool(); !b {
			continue
		}
		n++
		// guard: a repo predicate call that is true
		var pred *ssa.Function
		for _, g := range p.Guards(ss.Instr) {
			s := g.Cond.Strip()
			if g.Val && s.Kind == "call" && s.Call.Common().StaticCallee() != nil && p.IsRepoFunc(s.Call.Common().StaticCallee()) {
				pred = s.Call.Common().StaticCallee()
			}
		}
		if pred == nil {
			ok, why = false, "the Ft3B chance flag is set at "+p.InstrPos(ss.Instr)+" without a chance predicate"
			continue
		}
		passes, validator := trueExitsPassValidator(p, pred)
		if !passes || validator == nil {
			ok, why = false, "the chance predicate "+fnName(pred)+" can return true without the statistics validator"
			continue
		}
		if !validatorRequiresStarted(p, validator) {
			ok, why = false, "the statistics validator "+fnName(validator)+" no longer requires the game-level Started event: chance flags are live"
		}
	}
	if n == 0 {
		ok, why = false, "no store of the Ft3B chance flag found"
	}
	c.Check(ok, "R1x", "ft3b-chance-is-dead", "-", "every Ft3B-chance store depends on the validator, which requires the game-level Started event", why)
	return ok, why
}

// trueExitsPassValidator: on every path where f may return true, a call to a repo
// predicate (the validator) was made and returned true.
func trueExitsPassValidator(p *Prog, f *ssa.Function) (bool, *ssa.Function) {
	var validator *ssa.Function
	ok := true
	wk := &Walker{P: p, Fn: f, OnExit: func(in ssa.Instruction, st *WState) {
		r, isR := in.(*ssa.Return)
		if !isR {
			return
		}
		rv := st.Resolve(r.Results[0])
		if cst, isC := rv.(*ssa.Const); isC {
			if b, _ := constBool(cst); !b {
				return
			}
		}
		found := false
		for v, b := range st.boolF {
			s := p.Sym(v).Strip()
			if b && s.Kind == "call" && s.Call.Common().StaticCallee() != nil && p.IsRepoFunc(s.Call.Common().StaticCallee()) && strings.Contains(s.Name, "validateGameStatistic") {
				found = true
				validator = s.Call.Common().StaticCallee()
			}
		}
		if !found {
			ok = false
		}
	}}
	wk.Run()
	return ok && !wk.Aborted, validator
}

func validatorRequiresStarted(p *Prog, f *ssa.Function) bool {
	ok := true
	n := 0
	wk := &Walker{P: p, Fn: f, OnExit: func(in ssa.Instruction, st *WState) {
		r, isR := in.(*ssa.Return)
		if !isR {
			return
		}
		rv := st.Resolve(r.Results[0])
		if cst, isC := rv.(*ssa.Const); isC {
			if b, _ := constBool(cst); !b {
				return
			}
		}
		n++
		gs := st.PathGuards(p)
		req := false
		for _, g := range gs {
			cm := g.AsCmp()
			if cm == nil || cm.Op.String() != "==" {
				continue
			}
			l, rr := cm.L.Strip(), cm.R.Strip()
			for k := 0; k < 2; k++ {
				if l.IsField("Status", "CurrentEvent") && rr.Kind == "lookup" && rr.Args[0].Strip().Kind == "global" && strings.HasSuffix(rr.Args[0].Strip().Name, "GameEventSymbols") {
					if z, isZ := rr.Args[1].ConstInt(); isZ && z == gameEventConst(p, "GameEvent_Started") {
						req = true
					}
				}
				l, rr = rr, l
			}
		}
		if !req {
			ok = false
		}
	}}
	wk.Run()
	return ok && n > 0 && !wk.Aborted
}

// reachesSameIteration: b is reachable from a without going round a loop that contains both
// (each iteration of such a loop concerns another player object).
func reachesSameIteration(a, b ssa.Instruction) bool {
	if a.Parent() != b.Parent() {
		return false
	}
	if a.Block() == b.Block() {
		return instrIndex(a) < instrIndex(b)
	}
	avoid := map[*ssa.BasicBlock]bool{}
	for _, h := range loopHeaders(a.Parent()) {
		if l := naturalLoop(h); l[a.Block()] && l[b.Block()] {
			avoid[h] = true
		}
	}
	seen := map[*ssa.BasicBlock]bool{}
	st := append([]*ssa.BasicBlock{}, a.Block().Succs...)
	for len(st) > 0 {
		x := st[len(st)-1]
		st = st[:len(st)-1]
		if seen[x] || avoid[x] {
			continue
		}
		seen[x] = true
		if x == b.Block() {
			return true
		}
		st = append(st, x.Succs...)
	}
	return false
}
