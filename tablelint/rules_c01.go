package main

// C01 — chips are conserved by hands, top-ups and departures.

import (
	"fmt"

	"golang.org/x/tools/go/ssa"
)

func init() {
	register(&PropMeta{
		ID:          "C01",
		Level:       "other",
		Explanation: "Instantiates the bookkeeping identity on the only places that can change a bankroll: (R1) the set of bankroll writers is closed and each has one of three value shapes (constructor from the joining player's chips; top-up old+chips of the player found by the request's own id; settlement) and the field's address never escapes; (R2) the settlement store credits result entry r to PlayerStates[GamePlayerIndexes[r.Idx]] for the same r, as r.Final or old+r.Changed, in a loop over the whole result list; (R3) if settlement overwrites with an absolute value then no additive writer may run while a hand is in progress (lost update); (R4) the stack handed to the hand engine is exactly that player's bankroll; (R5) at most one top-up store per call, none in a loop; (R6) the leave path writes no player field. NOT decided: zero-sum of the hand engine's results, sums over histories, a participant leaving during a hand.",
		Rules: map[string]string{
			"R1": "closed writer set and value shapes of TablePlayerState.Bankroll; no address escape",
			"R2": "settlement pairing: same result entry for index and amount; whole result list",
			"R3": "no lost update between additive top-ups and an absolute settlement write",
			"R4": "start stack = PlayerStates[k].Bankroll for k = elem(GamePlayerIndexes), no arithmetic; bankrolls (like every other table field) survive the JSON clone made at every hand open",
			"R5": "one top-up store per call, not in a loop",
			"R9": "the engine's table object (which holds every bankroll) is replaced only by a freshly built table or by the open step's clone made in the same step (shared with C12.R4): a copy taken earlier and installed later discards the chips credited in between",
			"R8": "a refused membership operation leaves no chips behind: no engine membership operation reaches an error exit after it added player records or changed a bankroll (all-or-nothing, as C03.R3, restricted to what holds chips)",
			"R7": "every exported engine operation that writes the bankroll of an existing player holds the engine mutex from entry (the hand opening replaces the table by a clone under that mutex)",
			"R6": "departures only drop: the leave computation stores to no TablePlayerState field; no append onto a truncated re-slice of a list the function did not allocate (in-place filtering of the live player list); after a departure during a hand the hand's index list is re-mapped through id → position in the NEW player list (as C02.R4), so results keep being credited to their owners",
		},
		Assumptions: []string{"pokerface results are zero-sum and Final = stack at start + Changed"},
		Run:         checkC01,
		Controls:    controlsC01,
	})
}

type bankrollWriter struct {
	ss    *StoreSite
	shape string // ctor | topup | settle-final | settle-delta | other
}

func classifyBankrollStore(p *Prog, ss *StoreSite) (shape, detail string) {
	addr := ss.Addr.Strip()
	val := ss.Val.Strip()
	root := addr.Root()
	if root.Kind == "new" {
		// constructor literal: Bankroll: jp.RedeemChips with PlayerID: jp.PlayerID of the same jp
		if !val.IsField("JoinPlayer", "RedeemChips") {
			return "other", "constructor value is " + val.String() + ", not the joining player's RedeemChips"
		}
		jp := val.Args[0].Strip().String()
		for _, s2 := range p.Stores([]*ssa.Function{ss.Fn}) {
			if s2.Owner == "TablePlayerState" && s2.Field == "PlayerID" && s2.Addr.Root().V == root.V {
				v2 := s2.Val.Strip()
				if v2.IsField("JoinPlayer", "PlayerID") && v2.Args[0].Strip().String() == jp {
					return "ctor", ""
				}
				return "other", "constructor pairs chips of " + jp + " with id " + v2.String()
			}
		}
		return "other", "constructor literal without a PlayerID from the same joining player"
	}
	player := addr.Args[0].Strip() // the TablePlayerState the field belongs to
	// settlement shapes
	isResult := func(s *Sym, field string) (*Sym, bool) {
		s = s.Strip()
		if s.Kind == "field" && s.Name == field && s.Owner == "PlayerResult" {
			return s.Args[0].Strip(), true
		}
		return nil, false
	}
	if r, ok := isResult(val, "Final"); ok {
		return "settle-final", settlePair(player, r)
	}
	if val.Kind == "binop" && val.Name == "+" {
		a, b := val.Args[0].Strip(), val.Args[1].Strip()
		for k := 0; k < 2; k++ {
			if a.String() == addr.String() { // old value of the same location
				if r, ok := isResult(b, "Changed"); ok {
					return "settle-delta", settlePair(player, r)
				}
				if b.IsField("JoinPlayer", "RedeemChips") {
					jp := b.Args[0].Strip().String()
					// player found by the same request's id
					if player.Kind == "index" && player.Args[0].Strip().IsField("TableState", "PlayerStates") {
						ix := player.Args[1].Strip()
						if ix.IsCall("Table.FindPlayerIdx") && ix.Args[1].Strip().IsField("JoinPlayer", "PlayerID") && ix.Args[1].Strip().Args[0].Strip().String() == jp {
							return "topup", ""
						}
						return "other", "top-up credits player " + ix.String() + ", not the player found by the request's own id"
					}
					return "other", "top-up target is " + player.String()
				}
			}
			a, b = b, a
		}
	}
	return "other", "value " + val.String() + " has none of the accepted shapes (constructor chips, old+RedeemChips, result Final, old+result Changed)"
}

// settlePair: player must be PlayerStates[GamePlayerIndexes[r.Idx]] for the same result entry r.
func settlePair(player, r *Sym) string {
	if player.Kind != "index" || !player.Args[0].Strip().IsField("TableState", "PlayerStates") {
		return "settlement target is " + player.String()
	}
	ix := player.Args[1].Strip()
	if ix.Kind != "index" || !ix.Args[0].Strip().IsField("TableState", "GamePlayerIndexes") {
		return "settlement player index is " + ix.String() + ", not GamePlayerIndexes[result.Idx]"
	}
	gi := ix.Args[1].Strip()
	if !(gi.Kind == "field" && gi.Name == "Idx" && gi.Args[0].Strip().String() == r.String()) {
		return "settlement index " + gi.String() + " and amount come from different result entries"
	}
	// r must be an element of Result.Players at a full-range induction index
	if r.Kind != "index" {
		return "result entry is " + r.String()
	}
	if coll := r.Args[0].Strip(); !(coll.Kind == "field" && coll.Name == "Players" && coll.Owner == "Result") {
		return "settlement iterates over " + coll.String() + " (" + coll.Kind + "), not over the whole result list"
	}
	iv := r.Args[1].Strip()
	if iv.Kind != "ind" || iv.Ind.Step != 1 || iv.Ind.Bound == nil || !iv.Ind.Bound.IsCall("len") || iv.Ind.Bound.Strip().Args[0].Strip().String() != r.Args[0].Strip().String() {
		return "settlement does not iterate over the whole result list"
	}
	if f, ok := iv.Ind.First.ConstInt(); !ok || f != 0 {
		return "settlement loop does not start at the first result"
	}
	return ""
}

func checkC01(c *Ctx) {
	p := c.P
	checkCloneCompleteness(c, "R4")
	// R9: the object that holds the bankrolls is replaced only by a new table or by the open step's own clone
	// (shared with C12.R4): any other copy put in its place drops the re-buys / add-ons / buy-ins credited since
	checkTablePointerWriters(c, "R9")
	checkPlayerRecordWritersLocked(c, "R7", "Bankroll", "the bankroll")
	checkErrorPurity(c, "R8", recordWatch("chips", []string{"PlayerStates"}, true), "player records / a bankroll", 2)
	var writers []bankrollWriter
	for _, ss := range p.FieldStores("TablePlayerState", "Bankroll") {
		shape, d := classifyBankrollStore(p, ss)
		writers = append(writers, bankrollWriter{ss, shape})
		key := FuncName(ss.Fn) + ":" + shape
		where := p.InstrPos(ss.Instr)
		switch {
		case shape == "other":
			c.Bad("R1", "writer:"+FuncName(ss.Fn), where, "bankroll writer outside the closed set of chip flows: "+d)
		case shape == "settle-final" || shape == "settle-delta":
			c.Ok("R1", "writer:"+key, where, "settlement write")
			c.Check(d == "", "R2", "settlement:"+FuncName(ss.Fn), where, "result entry r credited to PlayerStates[GamePlayerIndexes[r.Idx]] over the whole list", d)
		default:
			c.Ok("R1", "writer:"+key, where, shape)
		}
	}
	c.Min("R1", "bankroll writers", len(writers), 4)
	nSettle := 0
	for _, w := range writers {
		if w.shape == "settle-final" || w.shape == "settle-delta" {
			nSettle++
		}
	}
	c.Check(nSettle == 1, "R2", "one-settlement-writer", "-", "exactly one settlement writer", fmt.Sprintf("%d settlement writers", nSettle))
	esc := p.addrEscapes("TablePlayerState", "Bankroll")
	for _, e := range esc {
		c.Bad("R1", "address-escape:"+FuncName(e.Parent()), p.InstrPos(e), "the address of a bankroll is taken and passed on: writers can no longer be enumerated")
	}
	if len(esc) == 0 {
		c.Ok("R1", "no-address-escape", "-", "bankroll addresses are used only by direct loads and stores")
	}
	// R3 lost update
	absolute := false
	var settleAt string
	for _, w := range writers {
		if w.shape == "settle-final" {
			absolute = true
			settleAt = p.InstrPos(w.ss.Instr)
		}
	}
	for _, w := range writers {
		if w.shape != "topup" {
			continue
		}
		key := "topup:" + FuncName(w.ss.Fn)
		where := p.InstrPos(w.ss.Instr)
		if !absolute {
			c.Ok("R3", key, where, "settlement is additive: concurrent top-ups commute")
			continue
		}
		// guarded by a condition on status / hand state excluding a running hand?
		excl := false
		for _, g := range p.Guards(w.ss.Instr) {
			s := g.Cond.String()
			if containsAny(s, ".State.Status", ".State.GameState") {
				excl = true
			}
		}
		c.Check(excl, "R3", key, where, "top-up excluded while a hand runs",
			fmt.Sprintf("settlement overwrites the bankroll with an absolute value (result Final at %s) computed from the stack at hand start, while this top-up may run during the hand: the added chips are destroyed at settlement", settleAt))
	}
	// R4 start stack
	n4 := 0
	for _, ss := range p.Stores(p.Funcs) {
		if ss.Owner != "PlayerSetting" || ss.Field != "Bankroll" {
			continue
		}
		n4++
		v := ss.Val.Strip()
		ok := false
		d := "the stack handed to the hand engine is " + v.String()
		if v.IsField("TablePlayerState", "Bankroll") {
			pl := v.Args[0].Strip()
			if pl.Kind == "index" && pl.Args[0].Strip().IsField("TableState", "PlayerStates") {
				k := pl.Args[1].Strip()
				if k.Kind == "index" && k.Args[0].Strip().IsField("TableState", "GamePlayerIndexes") && k.Args[1].Strip().Kind == "ind" {
					iv := k.Args[1].Strip().Ind
					if f, isC := iv.First.ConstInt(); isC && f == 0 && iv.Step == 1 && iv.Bound != nil && iv.Bound.IsCall("len") && iv.Bound.Strip().Args[0].Strip().IsField("TableState", "GamePlayerIndexes") {
						ok = true
					} else {
						d = "the hand's player settings are not built over the whole hand index list in order"
					}
				} else {
					d = "start stack taken from player " + k.String() + ", not PlayerStates[GamePlayerIndexes[i]]"
				}
			}
		}
		c.Check(ok, "R4", "start-stack:"+FuncName(ss.Fn), p.InstrPos(ss.Instr), "PlayerSetting.Bankroll ← PlayerStates[GamePlayerIndexes[i]].Bankroll", d)
		// positions of the same player
		for _, s2 := range p.Stores([]*ssa.Function{ss.Fn}) {
			if s2.Owner == "PlayerSetting" && s2.Field == "Positions" && s2.Addr.Root().V == ss.Addr.Root().V {
				v2 := s2.Val.Strip()
				same := v2.IsField("TablePlayerState", "Positions") && v.Kind == "field" && v2.Args[0].Strip().String() == v.Args[0].Strip().String()
				c.Check(same, "R4", "start-positions:"+FuncName(ss.Fn), p.InstrPos(s2.Instr), "Positions of the same player", "labels handed to the hand engine come from a different player than the stack")
			}
		}
	}
	c.Min("R4", "start-stack stores", n4, 1)
	// R5
	for _, w := range writers {
		if w.shape != "topup" {
			continue
		}
		f := w.ss.Fn
		inl := p.inLoop(w.ss.Instr.Block())
		// count additive stores on any single path
		max := 0
		wk := &Walker{P: p, Fn: f, IsEvent: func(in ssa.Instruction) bool {
			s := p.storeSite(in)
			return s != nil && s.Owner == "TablePlayerState" && s.Field == "Bankroll" && !storeIsLocal(in)
		}, OnExit: func(in ssa.Instruction, st *WState) {
			if len(st.Events) > max {
				max = len(st.Events)
			}
		}}
		wk.Run()
		c.Check(!inl && max <= 1 && !wk.Aborted, "R5", "one-topup:"+FuncName(f), p.InstrPos(w.ss.Instr), "at most one bankroll store per call", fmt.Sprintf("a single call can credit the bankroll more than once (in loop=%v, stores on one path=%d)", inl, max))
	}
	// R6 leave path
	n6 := 0
	for _, f := range p.Funcs {
		for _, ci := range Calls(f) {
			if calleeName(ci.Common()) != "SeatManager.RemoveSeats" {
				continue
			}
			// callees of the remove function that compute the new lists
			for _, c2 := range Calls(f) {
				sc := c2.Common().StaticCallee()
				if sc == nil || !p.IsRepoFunc(sc) || sc.Signature.Results().Len() < 2 {
					continue
				}
				n6++
				bad := 0
				ri := p.CG().Reach([]*ssa.Function{sc}, ReachOpts{SyncOnly: true, RepoOnly: true})
				for _, g := range ri.Order {
					for _, ss := range p.Stores([]*ssa.Function{g}) {
						if ss.Owner == "TablePlayerState" && !storeIsLocal(ss.Instr) {
							bad++
							c.Bad("R6", "leave-writes-player:"+FuncName(g), p.InstrPos(ss.Instr), "the leave computation modifies a player's "+ss.Field+": departures must only drop players")
						}
					}
				}
				if bad == 0 {
					c.Ok("R6", "leave-computation:"+FuncName(sc), p.Pos(sc.Pos()), "no store to any player field")
				}
			}
		}
	}
	c.Min("R6", "leave computations", n6, 1)
	checkInPlaceFilter(c, "R6")
	// a departure during a hand must leave every hand entry pointing at the same player (results are credited through them)
	checkLeaveRemap(c, "R6")
}

func containsAny(s string, subs ...string) bool {
	for _, x := range subs {
		if len(x) > 0 && len(s) >= len(x) {
			for i := 0; i+len(x) <= len(s); i++ {
				if s[i:i+len(x)] == x {
					return true
				}
			}
		}
	}
	return false
}
