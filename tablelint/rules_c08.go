package main

// C08 — after each hand the table pauses or deals on; it never wedges.

import (
	"fmt"
	"go/token"
	"strings"

	"golang.org/x/tools/go/ssa"
)

func init() {
	register(&PropMeta{
		ID:          "C08",
		Level:       "other",
		Explanation: "Decides the decision structure that runs after every hand: (R1) on every path of the continue handler that passes the closed/released tests the handler pauses exactly under the pause predicate, otherwise under the auto-open predicate sets up hand GameCount+1, and the only remaining path is the explicitly logged 'unhandled' one — no silent return; (R2) the pause predicate ≡ break ∨ alive < minimum, the auto-open predicate ≡ standby ∧ alive ≥ minimum, alive ≡ bankroll > 0 (truth tables by path enumeration); (R3) every non-error exit of the continue step returns the delay helper's result for a handler, and the delay helper runs the handler on the not-cancelled edge; (R4) the open-game ready callback either opens a hand or reports an error on every path, except a drop conditioned on the participant count, which is tolerated only if the participants handed to set-up are, by provenance, the set whose size the auto-open predicate tested. NOT decided: liveness, retries, timing.",
		Rules: map[string]string{
			"R1": "continue-handler structure: pause iff pause predicate; else set up GameCount+1 under the auto-open predicate; no silent path",
			"R2": "predicate definitions (truth tables): ShouldPause, auto-open, alive",
			"R3": "handler always scheduled: continue step returns delay(handler); delay runs the handler unless cancelled; every other exit of the continue step returns a value known to be an error",
			"R4": "no silent drop in the open-game callback unless excluded by the set-up guard (participants provenance)",
			"R8": "the rotation every next hand depends on counts the eligible players after it re-evaluated the waiting flags (shared with C04.R4): counted before, a table with one old and one newly eligible player is refused on every retry and neither pauses nor deals",
			"R7": "a known, seated-in player's settlement-finished report reaches the open-game gate under that player's own id",
			"R6": "the open-game gate is constructed with a positive time limit (constant, or guarded > 0), so the 'or the open-game timeout elapses' arm exists",
			"R5": "the participants handed to set-up are the whole list of settled participants that still have chips, passed settle → continue → handler unchanged",
		},
		Assumptions: []string{"timebank runs the task; syncsaga fires the completion (C09)"},
		Run:         checkC08,
		Controls:    controlsC08,
	})
}

// boolean-function truth tables by path enumeration ----------------------------------

type atomFn func(g Guard) (name string, val bool, ok bool)

// checkBoolFunc: on every path of f the returned boolean equals formula(atoms).
func checkBoolFunc(p *Prog, f *ssa.Function, atom atomFn, names []string, formula func(a map[string]bool) bool) (bool, string) {
	ok := true
	why := ""
	n := 0
	wk := &Walker{P: p, Fn: f, OnExit: func(in ssa.Instruction, st *WState) {
		r, isR := in.(*ssa.Return)
		if !isR || !ok {
			return
		}
		n++
		known := map[string]bool{}
		for _, g := range st.PathGuards(p) {
			nm, v, isA := atom(g)
			if !isA {
				ok, why = false, "unrecognised condition "+g.String()
				return
			}
			if nm != "" {
				known[nm] = v
			}
		}
		rv := st.Resolve(r.Results[0])
		resConst, isConst := false, false
		resAtom, resPol := "", true
		if cst, isC := rv.(*ssa.Const); isC {
			resConst, _ = constBool(cst)
			isConst = true
		} else {
			for _, g := range p.unfold(rv, true, nil, 0) {
				nm, v, isA := atom(g)
				if !isA || nm == "" {
					ok, why = false, "unrecognised result "+p.Sym(rv).String()
					return
				}
				resAtom, resPol = nm, v
			}
		}
		// all completions of the unknown atoms
		var unknown []string
		for _, nm := range names {
			if _, k := known[nm]; !k {
				unknown = append(unknown, nm)
			}
		}
		for mask := 0; mask < 1<<len(unknown); mask++ {
			a := map[string]bool{}
			for k, v := range known {
				a[k] = v
			}
			for i, nm := range unknown {
				a[nm] = mask&(1<<i) != 0
			}
			var res bool
			if isConst {
				res = resConst
			} else {
				res = a[resAtom] == resPol
			}
			if res != formula(a) {
				ok, why = false, fmt.Sprintf("for %v the function returns %v", a, res)
				return
			}
		}
	}}
	wk.Run()
	if wk.Aborted || n == 0 {
		return false, "could not enumerate paths"
	}
	return ok, why
}

// checkContinueHandler decides the path structure of the continue handler (the closure that runs after the
// continue interval): pause iff the pause predicate — evaluated inside the handler, i.e. after the interval —
// holds; otherwise set up the next hand exactly once under the auto-open predicate; no silent path.
func checkContinueHandler(c *Ctx, rule string) (lc *lifecycle, handler, pauseFn, autoFn *ssa.Function, isSetup func(ssa.Instruction) bool, ok bool) {
	p := c.P
	lc = p.lifecycle()
	if lc.continueFn == nil || lc.creator == nil || lc.openFn == nil {
		c.Bad(rule, "anchors", "-", "continue step / creator not found")
		return
	}
	// the handler: the closure of the continue step that can pause
	for _, f := range lc.continueFn.AnonFuncs {
		for _, ss := range p.Stores([]*ssa.Function{f}) {
			if ss.Owner == "TableState" && ss.Field == "Status" {
				handler = f
			}
		}
	}
	if handler == nil {
		c.Bad(rule, "continue-handler", p.Pos(lc.continueFn.Pos()), "continue handler not found")
		return
	}
	isSetup = func(in ssa.Instruction) bool {
		ci, ok := in.(ssa.CallInstruction)
		if !ok {
			return false
		}
		for _, callee := range p.CG().SyncCallees(ci) {
			if p.reachesIfaceCall(callee, "OpenGameManager.Setup", 2) {
				return true
			}
		}
		return calleeName(ci.Common()) == "OpenGameManager.Setup"
	}
	isPause := func(in ssa.Instruction) bool {
		ss := p.storeSite(in)
		if ss == nil || ss.Owner != "TableState" || ss.Field != "Status" {
			return false
		}
		s, _ := ss.Val.ConstString()
		return s == "table_pausing"
	}
	isLog := func(in ssa.Instruction) bool {
		ci, ok := in.(ssa.CallInstruction)
		return ok && calleeName(ci.Common()) == "fmt.Printf"
	}
	// R1 path structure
	silent, wrong := 0, ""
	nPaths := 0
	wk := &Walker{P: p, Fn: handler, IsEvent: func(in ssa.Instruction) bool { return isSetup(in) || isPause(in) || isLog(in) }, OnExit: func(in ssa.Instruction, st *WState) {
		nPaths++
		var closed, released bool
		var shouldPause, autoOpen *bool
		for _, g := range st.PathGuards(p) {
			s := g.Cond.Strip()
			if cm := g.AsCmp(); cm != nil && cm.L.Strip().IsField("TableState", "Status") {
				if v, _ := cm.R.ConstString(); v == "table_closed" && cm.Op == token.EQL {
					closed = true
				}
			}
			if s.IsField("tableEngine", "isReleased") && g.Val {
				released = true
			}
			if s.Kind == "call" && s.Call.Common().StaticCallee() != nil && p.IsRepoFunc(s.Call.Common().StaticCallee()) {
				v := g.Val
				sc := s.Call.Common().StaticCallee()
				if sc.Signature.Recv() != nil && namedOf(sc.Signature.Recv().Type()).Obj().Name() == "Table" {
					shouldPause = &v
					pauseFn = sc
				} else {
					autoOpen = &v
					autoFn = sc
				}
			}
		}
		nSetup, nPause, nLog := 0, 0, 0
		for _, e := range st.Events {
			switch {
			case isSetup(e):
				nSetup++
			case isPause(e):
				nPause++
			case isLog(e):
				nLog++
			}
		}
		switch {
		case closed || released:
			if nSetup+nPause > 0 {
				wrong = "the handler acts on a closed or released table"
			}
		case shouldPause != nil && *shouldPause:
			if nPause != 1 || nSetup != 0 {
				wrong = "under the pause predicate the handler does not pause (or also sets up a hand)"
			}
		case shouldPause != nil && !*shouldPause && autoOpen != nil && *autoOpen:
			if nSetup != 1 || nPause != 0 {
				wrong = "under the auto-open predicate the handler does not set up the next hand exactly once"
			}
		case shouldPause != nil && !*shouldPause && autoOpen != nil && !*autoOpen:
			if nLog == 0 {
				silent++
			}
			if nSetup+nPause > 0 {
				wrong = "the handler pauses or deals although neither predicate holds"
			}
		default:
			wrong = "a path of the handler is decided by neither the pause nor the auto-open predicate"
		}
	}}
	wk.Run()
	c.Check(!wk.Aborted && wrong == "" && silent == 0 && nPaths >= 5, rule, "continue-handler-structure", p.Pos(handler.Pos()), fmt.Sprintf("%d paths: closed | released | pause | set-up | logged", nPaths),
		fmt.Sprintf("continue handler: %s (silent paths: %d)", wrong, silent))
	ok = true
	return
}

func checkC08(c *Ctx) {
	p := c.P
	checkSettlementFinish(c, "R7")
	if rot, countFn := rotationAndCount(p); rot != nil && countFn != nil {
		checkCountAfterRefresh(c, "R8", rot, countFn)
	} else {
		c.Bad("R8", "anchors", "-", "rotation / eligible-player count not found")
	}
	lc, handler, pauseFn, autoFn, isSetup, okH := checkContinueHandler(c, "R1")
	if !okH {
		return
	}
	// set-up argument is GameCount + 1
	for _, b := range handler.Blocks {
		for _, in := range b.Instrs {
			if isSetup(in) {
				cs := p.CallSym(in.(ssa.CallInstruction))
				a := cs.Args[1].Strip()
				ok := a.Kind == "binop" && a.Name == "+" && (a.Args[0].Strip().IsField("TableState", "GameCount") && a.Args[1].Strip().Name == "1" || a.Args[1].Strip().IsField("TableState", "GameCount") && a.Args[0].Strip().Name == "1")
				c.Check(ok, "R1", "set-up-game-count", p.InstrPos(in), "set-up for GameCount + 1", "the next hand is set up for game count "+a.String())
			}
		}
	}

	// ---------------- R2
	alive := func(s *Sym) bool { return s.IsCall("len") && s.Strip().Args[0].IsCall("Table.AlivePlayers") }
	few := func(g Guard) (bool, bool) { // (isFewAtom, value)
		cm := g.AsCmp()
		if cm == nil {
			return false, false
		}
		l, r, op := cm.L, cm.R, cm.Op
		if !alive(l) {
			l, r, op = r, l, flipOp(op)
		}
		if !alive(l) || !r.Strip().IsField("TableMeta", "TableMinPlayerCount") {
			return false, false
		}
		switch op {
		case token.LSS:
			return true, true
		case token.GEQ:
			return true, false
		}
		return false, false
	}
	if pauseFn != nil {
		ok, why := checkBoolFunc(p, pauseFn, func(g Guard) (string, bool, bool) {
			if g.Cond.IsCall("TableBlindState.IsBreaking") && len(g.Cond.Strip().Args) >= 1 && g.Cond.Strip().Args[0].Strip().IsField("TableState", "BlindState") {
				return "break", g.Val, true
			}
			if isF, v := few(g); isF {
				return "few", v, true
			}
			return "", false, false
		}, []string{"break", "few"}, func(a map[string]bool) bool { return a["break"] || a["few"] })
		c.Check(ok, "R2", "pause-predicate", p.Pos(pauseFn.Pos()), "ShouldPause ≡ break ∨ alive < minimum", "pause predicate changed: "+why)
	} else {
		c.Bad("R2", "pause-predicate", "-", "pause predicate not identified from the handler")
	}
	if autoFn != nil {
		ok, why := checkBoolFunc(p, autoFn, func(g Guard) (string, bool, bool) {
			if cm := g.AsCmp(); cm != nil && cm.L.Strip().IsField("TableState", "Status") {
				if v, _ := cm.R.ConstString(); v == "table_game_standby" {
					return "standby", cm.Op == token.EQL, true
				}
			}
			if isF, v := few(g); isF {
				return "few", v, true
			}
			return "", false, false
		}, []string{"standby", "few"}, func(a map[string]bool) bool { return a["standby"] && !a["few"] })
		c.Check(ok, "R2", "auto-open-predicate", p.Pos(autoFn.Pos()), "auto-open ≡ standby ∧ alive ≥ minimum", "auto-open predicate changed: "+why)
	} else {
		c.Bad("R2", "auto-open-predicate", "-", "auto-open predicate not identified from the handler")
	}
	// alive definition
	var aliveFn *ssa.Function
	for _, f := range p.Funcs {
		if fnName(f) == "AlivePlayers" && f.Signature.Recv() != nil {
			aliveFn = f
		}
	}
	okAlive := false
	if aliveFn != nil {
		for _, ci := range Calls(aliveFn) {
			cs := p.CallSym(ci)
			if cs.Name == "funk.Filter" && cs.Args[0].Strip().IsField("TableState", "PlayerStates") {
				for _, fn := range closureOperands(ci.Common().Args[1]) {
					for _, b := range fn.Blocks {
						for _, in := range b.Instrs {
							if r, ok := in.(*ssa.Return); ok {
								v := p.Sym(r.Results[0]).Strip()
								if v.Kind == "binop" && v.Name == ">" && v.Args[0].Strip().IsField("TablePlayerState", "Bankroll") && v.Args[0].Strip().Args[0].Strip().Kind == "param" && v.Args[1].Strip().Name == "0" {
									okAlive = true
								}
							}
						}
					}
				}
			}
		}
	}
	c.Check(okAlive, "R2", "alive-definition", "-", "alive ≡ players with Bankroll > 0", "the set of players counted as alive is no longer those with a positive bankroll")

	// ---------------- R3
	var delayFn *ssa.Function
	okSched := true
	dSched := ""
	nOk := 0
	for _, b := range lc.continueFn.Blocks {
		for _, in := range b.Instrs {
			r, isR := in.(*ssa.Return)
			if !isR {
				continue
			}
			v := p.Sym(retValue(r, 0)).Strip()
			if v.Kind == "call" && v.Call.Common().StaticCallee() != nil && p.IsRepoFunc(v.Call.Common().StaticCallee()) && len(v.Args) == 3 {
				delayFn = v.Call.Common().StaticCallee()
				nOk++
				// the interval waited: the configured continue interval (the auto-open-end branch uses a constant)
				iv := p.Sym(v.Call.Common().Args[1]).Strip()
				okIv := true
				iv.Walk(func(x *Sym) bool {
					switch x.Kind {
					case "phi":
						return true
					case "const":
						return false
					default:
						if !x.IsField("TableEngineOptions", "GameContinueInterval") {
							okIv = false
						}
						return false
					}
				})
				if !okIv {
					okSched, dSched = false, "the handler is scheduled after "+iv.String()+", not the configured continue interval"
				}
				// the handler argument resolves to closures of the continue step
				fv := p.CG().funcValue(v.Call.Common().Args[2])
				if len(fv.fns) == 0 || fv.external {
					okSched, dSched = false, "the handler passed to the delay helper is not one of the continue step's own closures"
				}
				hasHandler := false
				for fn := range fv.fns {
					if fn == handler {
						hasHandler = true
					}
				}
				if !hasHandler {
					okSched, dSched = false, "the pause/deal-on handler is not the one scheduled"
				}
				// … and any other handler (the "table time is up" one) only when the table's time IS up: now later than
				// start + maximum duration. Under any other condition the table would stop after a hand although it should
				// pause or deal on.
				for _, lf := range p.phiLeaves(v.Call.Common().Args[2]) {
					isMain := false
					for _, cl := range closureOperands(lf.V) {
						if cl == handler {
							isMain = true
						}
					}
					if isMain {
						continue
					}
					timeUp := cmpHolds(lf.Guards, func(l, r *Sym, op token.Token) bool {
						hasNow := func(x *Sym) bool { return x.Contains(func(y *Sym) bool { return y.IsCall("time.Now") }) }
						hasEnd := func(x *Sym) bool {
							return x.Contains(func(y *Sym) bool { return y.IsField("TableState", "StartAt") }) && x.Contains(func(y *Sym) bool { return y.IsField("TableMeta", "MaxDuration") })
						}
						return (op == token.GTR && hasNow(l) && hasEnd(r)) || (op == token.LSS && hasNow(r) && hasEnd(l))
					})
					var gtxt []string
					for _, g := range lf.Guards {
						gtxt = append(gtxt, g.String())
					}
					c.Check(timeUp, "R3", "other-handler-only-when-table-time-is-up", p.InstrPos(v.Call), "the end-of-table handler is scheduled only under now > start + maximum duration", "a handler other than the pause / deal-on one is scheduled under ["+strings.Join(gtxt, ", ")+"], which does not establish that the table's maximum duration has passed: the table would stop after a hand instead of pausing or dealing on")
				}
				continue
			}
			// any other return must be an error exit (a failing call's error)
			if v.IsNil() {
				okSched, dSched = false, fmt.Sprintf("the continue step returns nil at %s without scheduling the handler", p.InstrPos(r))
			} else if rv := retValue(r, 0); !(v.Kind == "global" || nilGuard(p.Guards(r), false, func(x *Sym) bool { return x.V == rv })) {
				okSched, dSched = false, fmt.Sprintf("the continue step returns %s at %s where it is not known to be an error: a nil there ends the step without scheduling the handler", v, p.InstrPos(r))
			}
		}
	}
	c.Check(okSched && nOk >= 1, "R3", "continue-schedules-handler", p.Pos(lc.continueFn.Pos()), "every non-error exit returns delay(interval, handler)", dSched)
	if delayFn != nil {
		ok := false
		for _, ci := range Calls(delayFn) {
			if calleeName(ci.Common()) != "timebank.TimeBank.NewTask" {
				continue
			}
			for _, cl := range closureOperands(ci.Common().Args[2]) {
				for _, c2 := range Calls(cl) {
					cm := c2.Common()
					if cm.IsInvoke() || cm.StaticCallee() != nil {
						continue
					}
					if symIsParam(p.Sym(cm.Value), delayFn.Params[2]) {
						// on the not-cancelled edge
						if guardedBy(p.Guards(c2), false, func(s *Sym) bool { return s.Kind == "param" }) {
							ok = true
						}
					}
				}
			}
			// waits for the task
			waits := false
			for _, c3 := range Calls(delayFn) {
				if calleeName(c3.Common()) == "sync.WaitGroup.Wait" && Dominates(ci, c3) {
					waits = true
				}
			}
			ok = ok && waits
		}
		c.Check(ok, "R3", "delay-runs-handler", p.Pos(delayFn.Pos()), "handler invoked on the not-cancelled edge; result awaited", "the delay helper does not run the handler it is given (unless cancelled) and wait for it")
		// the time bank holds ONE task: whoever else arms (or cancels) the same bank while the continue
		// handler is pending cancels it — the handler then returns on its cancelled edge and the table
		// neither pauses nor deals on. The delay helper is the bank's only user.
		var bank *Sym
		for _, ci := range Calls(delayFn) {
			if calleeName(ci.Common()) == "timebank.TimeBank.NewTask" {
				bank = p.Sym(ci.Common().Args[0]).Strip()
			}
		}
		if bank != nil && bank.Kind == "field" {
			nOther := 0
			for _, f := range p.Funcs {
				if !inModule(p, f) || f == delayFn {
					continue
				}
				for _, ci := range Calls(f) {
					n := calleeName(ci.Common())
					if n != "timebank.TimeBank.NewTask" && n != "timebank.TimeBank.NewTaskWithDeadline" && n != "timebank.TimeBank.Cancel" {
						continue
					}
					r := p.Sym(ci.Common().Args[0]).Strip()
					if r.Kind != "field" || r.Owner != bank.Owner || r.Name != bank.Name {
						continue
					}
					if n == "timebank.TimeBank.Cancel" {
						// cancelling is how a closing table drops its pending step: tolerated where the same function ends the table
						ends := false
						for _, ss := range p.Stores([]*ssa.Function{f}) {
							if v, isS := ss.Val.ConstString(); (ss.Owner == "TableState" && ss.Field == "Status" && isS && v == "table_closed") || (ss.Owner == "tableEngine" && ss.Field == "isReleased") {
								ends = true
							}
						}
						if ends {
							continue
						}
					}
					nOther++
					c.Bad("R3", "continue-timer:sole-user:"+FuncName(f), p.InstrPos(ci), FuncName(f)+" uses the time bank ("+bank.Name+") that carries the pending continue handler ("+strings.TrimPrefix(n, "timebank.TimeBank.")+"): the bank holds one task, so a handler waiting there is cancelled and the table is left neither paused nor dealing")
				}
			}
			if nOther == 0 {
				c.Ok("R3", "continue-timer:sole-user", p.Pos(delayFn.Pos()), "only the delay helper arms or cancels "+bank.Name)
			}
		} else {
			c.Bad("R3", "continue-timer:sole-user", p.Pos(delayFn.Pos()), "the delay helper's time bank is not a field of the engine")
		}
	} else {
		c.Bad("R3", "delay-runs-handler", "-", "delay helper not found")
	}

	// ---------------- R5 who is waited for: the settled participants that still have chips
	{
		okChain := true
		d := ""
		// (a) the handler builds the participants from a range over the continue step's parameter
		src := ""
		for _, b := range handler.Blocks {
			for _, in := range b.Instrs {
				if mu, isMU := in.(*ssa.MapUpdate); isMU && typeShort(mu.Map.Type()) == "map[string]int" {
					k := p.Sym(mu.Key).Strip()
					if k.IsField("TablePlayerState", "PlayerID") && k.Args[0].Strip().Kind == "index" {
						coll := k.Args[0].Strip().Args[0].Strip()
						src = coll.String()
						full := fullRange(k.Args[0].Strip().Args[1], func(x *Sym) bool { return x.String() == coll.String() })
						if !full {
							okChain, d = false, "the set-up participants are not built from the whole list"
						}
						if !(len(lc.continueFn.Params) >= 2 && symIsParam(coll, lc.continueFn.Params[1])) && !coll.IsCall("Table.AlivePlayers") {
							okChain, d = false, "the set-up participants come from "+coll.String()
						}
					}
				}
			}
		}
		if src == "" {
			okChain, d = false, "the continue handler builds no participant set"
		}
		// (b) every caller passes the settle step's result; (c) that result collects the credited players with chips
		if okChain && len(lc.continueFn.Params) >= 2 {
			for _, site := range p.CG().AllCallSitesOf(lc.continueFn) {
				a := p.Sym(site.Common().Args[1]).Strip()
				if !(a.Kind == "call" && a.Call.Common().StaticCallee() == lc.settleFn) {
					okChain, d = false, "the continue step is given "+a.String()+", not the settle step's survivors"
				}
			}
			n := 0
			for _, ci := range Calls(lc.settleFn) {
				cs := p.CallSym(ci)
				if cs.Kind != "builtin" || cs.Name != "append" || typeShort(ci.Common().Args[0].Type()) != "[]*TablePlayerState" {
					continue
				}
				e := appendedElem(p, ci)
				if e == nil {
					continue
				}
				n++
				chips := cmpHolds(p.Guards(ci), func(l, r *Sym, op token.Token) bool {
					return op == token.GTR && r.Strip().Name == "0" && l.Strip().IsField("TablePlayerState", "Bankroll") && l.Strip().Args[0].Strip().String() == e.Strip().String()
				})
				if !chips {
					okChain, d = false, "the settle step lists a survivor without testing that player's bankroll > 0"
				}
				if bad := notStartingEmpty(p, ci); bad != "" {
					okChain, d = false, "the survivor list does not start empty ("+bad+")"
				}
				// the survivor is the player just credited: same object as the bankroll store of this iteration
				credited := false
				for _, ss := range p.Stores([]*ssa.Function{lc.settleFn}) {
					if ss.Owner == "TablePlayerState" && ss.Field == "Bankroll" && ss.Addr.Strip().Args[0].Strip().String() == e.Strip().String() {
						credited = true
					}
				}
				if !credited {
					okChain, d = false, "the settle step's survivors are not the players it credits"
				}
			}
			if n == 0 {
				okChain, d = false, "the settle step returns no survivor list"
			}
			// and it is what the function returns
			for _, b := range lc.settleFn.Blocks {
				for _, in := range b.Instrs {
					if r, isR := in.(*ssa.Return); isR && len(r.Results) == 1 {
						if !p.Sym(r.Results[0]).Contains(func(x *Sym) bool { return x.Kind == "builtin" && x.Name == "append" }) {
							okChain, d = false, "the settle step does not return the survivor list it built"
						}
					}
				}
			}
		}
		// (d) the engine's set-up operation hands game count and participants unchanged to the gate
		if okChain {
			found := false
			for _, f := range p.Funcs {
				for _, ci := range Calls(f) {
					if calleeName(ci.Common()) != "OpenGameManager.Setup" {
						continue
					}
					found = true
					args := ci.Common().Args
					if !(len(f.Params) == 3 && len(args) == 2 && symIsParam(p.Sym(args[0]), f.Params[1]) && symIsParam(p.Sym(args[1]), f.Params[2]) && len(p.Guards(ci)) == 0) {
						okChain, d = false, "the set-up operation ("+fnName(f)+") does not pass the game count and the participants it was given unchanged to the gate"
					}
				}
			}
			if !found {
				okChain, d = false, "nothing arms the open-game gate"
			}
		}
		c.Check(okChain, "R5", "set-up-participants-chain", p.Pos(handler.Pos()), "participants = settled participants with chips (settle → continue → handler)", "who the next hand waits for: "+d)
	}

	// ---------------- R6 the open-game gate is built with a time limit
	{
		n := 0
		for _, ss := range p.FieldStores("OpenGameOption", "Timeout") {
			if !p.IsRepoFunc(ss.Fn) || strings.HasSuffix(ss.Fn.Pkg.Pkg.Path(), "/open_game_manager") {
				continue
			}
			n++
			v, isC := ss.Val.ConstInt()
			ok := isC && v > 0
			if !isC {
				// a computed limit must be proved positive where it is used
				ok = cmpHolds(p.Guards(ss.Instr), func(l, r *Sym, op token.Token) bool {
					z, isZ := r.ConstInt()
					return isZ && l.Strip().String() == ss.Val.Strip().String() && ((op == token.GTR && z >= 0) || (op == token.GEQ && z >= 1))
				})
			}
			c.Check(ok, "R6", "gate-timeout-positive:"+FuncName(ss.Fn), p.InstrPos(ss.Instr), "open-game timeout is a positive constant or proved > 0", "the open-game gate is built with time limit "+ss.Val.String()+", which can be zero (= wait forever): a survivor who never signals wedges the table in standby")
		}
		c.Min("R6", "open-game gate constructions in the engine", n, 1)
	}

	// ---------------- R4 open-game callback
	var cb *ssa.Function
	for _, ss := range p.Stores([]*ssa.Function{lc.creator}) {
		if ss.Owner == "OpenGameOption" && ss.Field == "OnOpenGameReady" {
			if fns := closureOperands(ss.ValV); len(fns) == 1 {
				cb = fns[0]
			}
		}
	}
	if cb == nil {
		c.Bad("R4", "open-game-callback", p.Pos(lc.creator.Pos()), "the open-game ready callback is not a closure of table creation")
		return
	}
	isOpen := func(in ssa.Instruction) bool {
		ci, ok := in.(ssa.CallInstruction)
		if !ok {
			return false
		}
		sc := ci.Common().StaticCallee()
		if sc == nil {
			return false
		}
		for _, c2 := range Calls(sc) {
			if c2.Common().StaticCallee() == lc.openFn {
				return true
			}
		}
		return sc == lc.openFn
	}
	dropCount, dropOther := 0, 0
	wk2 := &Walker{P: p, Fn: cb, IsEvent: isOpen, OnExit: func(in ssa.Instruction, st *WState) {
		if len(st.Events) > 0 {
			return
		}
		// a path that neither opens nor reports: is it conditioned on the participant count?
		byCount := false
		for _, g := range st.PathGuards(p) {
			if cm := g.AsCmp(); cm != nil && cm.L.IsCall("len") && cm.L.Strip().Args[0].Strip().IsField("OpenGameState", "Participants") {
				// the path must be the "too few participants" side of the comparison
				if cm.Op == token.LEQ || cm.Op == token.LSS || cm.Op == token.EQL {
					byCount = true
				}
			}
		}
		if byCount {
			dropCount++
		} else {
			dropOther++
		}
	}}
	wk2.Run()
	c.Check(dropOther == 0 && !wk2.Aborted, "R4", "open-callback:no-unconditional-drop", p.Pos(cb.Pos()), "every path opens a hand or is conditioned on the participant count", fmt.Sprintf("%d path(s) of the open-game callback neither open a hand nor report, without any stated condition", dropOther))
	// error of the open step is reported (as C13.R3)
	if dropCount > 0 {
		// participants provenance in the handler
		prov := ""
		okProv := false
		for _, b := range handler.Blocks {
			for _, in := range b.Instrs {
				mu, isMU := in.(*ssa.MapUpdate)
				if !isMU || typeShort(mu.Map.Type()) != "map[string]int" {
					continue
				}
				k := p.Sym(mu.Key).Strip()
				if k.IsField("TablePlayerState", "PlayerID") && k.Args[0].Strip().Kind == "index" {
					src := k.Args[0].Strip().Args[0].Strip()
					prov = src.String()
					if src.IsCall("Table.AlivePlayers") {
						okProv = true
					}
				}
			}
		}
		c.Check(okProv, "R4", "open-callback-drop:participants-provenance", p.Pos(cb.Pos()), "participants are the alive players the auto-open predicate counted",
			fmt.Sprintf("the open-game callback silently drops when ≤ 1 participant, but the participants handed to set-up come from %q (the previous hand's survivors), not from the alive-player set whose size the auto-open predicate tested: a table with two players with chips, only one of whom played the last hand, stays in standby forever", prov))
	} else {
		c.Ok("R4", "open-callback-drop:none", p.Pos(cb.Pos()), "no count-conditioned drop")
	}
}
