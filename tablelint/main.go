package main

import (
	"flag"
	"fmt"
	"os"
	"strings"

	"golang.org/x/tools/go/ssa"
)

func usage() {
	fmt.Fprintln(os.Stderr, `tablelint — repository-specific static analyzer for weedbox/pokertable
  tablelint check -p C01 [-tier quick|thorough] [-repo /repo] [-verif /verif]
  tablelint explain <replay.json>
  tablelint dump [-repo /repo] [-fn substr]     (debug: stores, calls, guards)
  tablelint sweep -mode equiv|fault [-out f.json] [-j N] [-only path] [-stride n]   (tests the checker, not the repo)`)
	os.Exit(2)
}

func main() {
	if len(os.Args) < 2 {
		usage()
	}
	switch os.Args[1] {
	case "check":
		os.Exit(cmdCheck(os.Args[2:]))
	case "explain":
		os.Exit(cmdExplain(os.Args[2:]))
	case "dump":
		os.Exit(cmdDump(os.Args[2:]))
	case "control":
		os.Exit(cmdControl(os.Args[2:]))
	case "sweep":
		os.Exit(cmdSweep(os.Args[2:]))
	case "variant":
		os.Exit(cmdVariant(os.Args[2:]))
	case "renames":
		os.Exit(cmdRenames(os.Args[2:]))
	default:
		usage()
	}
}

func cmdDump(args []string) int {
	fs := flag.NewFlagSet("dump", flag.ExitOnError)
	repo := fs.String("repo", "/repo", "")
	fnf := fs.String("fn", "", "")
	showG := fs.Bool("g", false, "show guards")
	fs.Parse(args)
	p, err := Load(LoadConfig{Repo: *repo, Tags: "verif"})
	if err != nil {
		fmt.Fprintln(os.Stderr, err)
		return 2
	}
	for _, f := range p.Funcs {
		if *fnf != "" && !strings.Contains(FuncName(f), *fnf) {
			continue
		}
		fmt.Printf("== %s  (%s) blocks=%d\n", FuncName(f), p.Pos(f.Pos()), len(f.Blocks))
		for _, b := range f.Blocks {
			for _, in := range b.Instrs {
				var line string
				switch x := in.(type) {
				case *ssa.Store, *ssa.MapUpdate:
					ss := p.storeSite(in)
					line = fmt.Sprintf("STORE %s = %s", ss.Addr, ss.Val)
				case ssa.CallInstruction:
					line = fmt.Sprintf("CALL  %s", p.CallSym(x))
				case *ssa.Return:
					var rs []string
					for _, r := range x.Results {
						rs = append(rs, p.Sym(r).String())
					}
					line = "RET   " + strings.Join(rs, ", ")
				case *ssa.If:
					line = "IF    " + p.Sym(x.Cond).String()
				default:
					continue
				}
				var gs []string
				for _, g := range p.Guards(in) {
					gs = append(gs, g.String())
				}
				fmt.Printf("  b%-2d %-14s %s", b.Index, p.InstrPos(in), line)
				if len(gs) > 0 && *showG {
					fmt.Printf("   «%s»", strings.Join(gs, " ∧ "))
				}
				fmt.Println()
			}
		}
	}
	return 0
}
