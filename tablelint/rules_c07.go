package main

// C07 — table status follows its life cycle; one hand at a time; hands are numbered.

import (
	"fmt"
	"go/token"
	"go/types"

	"golang.org/x/tools/go/ssa"
)

func init() {
	register(&PropMeta{
		ID:          "C07",
		Level:       "other",
		Explanation: "Decides the structural backbone of the life cycle: (R1) every status store writes an enum constant and each constant is written only in the context that implements its transition (opened only on the clone in the function that numbers the hand; playing only after a successful hand Start; settled only where the continue step follows; standby only with the per-hand reset; pausing only in the continue handler under the pause predicate, in the external pause operation and as the initial status on a break; closed only in the close operation; balancing/created only at creation); (R2) exactly one +1 increment of the hand counter, on the clone, behind the blind guards; (R3) every call of the open step is dominated by 'no hand state exists' and made with the engine mutex held, and nil is stored to the hand state only by the continue step; (R4) the function that stores standby resets all per-hand fields on every path to a non-error exit, per player over the full list; (R5) closed/released are tested before pausing, before setting up the next hand and before opening; (R6) blind guards; (R7) open → install clone → start, settle → continue. NOT decided: timing of the asynchronous trigger; freshness of the game id (pokerface).",
		Rules: map[string]string{
			"R1": "who-may-write status, constant by constant, tied to the mechanism of the transition",
			"R2": "single hand-counter increment: old+1, on the clone, behind the blind guards",
			"R3": "one hand at a time: open step only under 'hand state == nil' and the engine mutex; nil constant stored to the hand state only by the continue step",
			"R4": "per-hand reset: must-store set in the standby function, per-player reset over the full player list",
			"R5": "closed / released tested before pause, next-hand set-up and open; the close operation records closed and released unconditionally, the release operation records released, a new engine is not released",
			"R6": "blind guards in the open step (is-set, not breaking; distinct errors); the predicates are asked of the live level (State.BlindState); the blinds-set predicate is Level != 0 ∧ no amount unset; a table created paused for a break is not overwritten by a later status store of the creating function",
			"R7": "order: open → install clone → start; settle → continue; the installed table comes from an open step that returned nil on every path, and a successful open step is never abandoned without installing and starting; no known-nil error returned; the clone is complete: every field of every repository struct reachable from Table is exported with a distinct, non-excluded JSON name, and Clone is Marshal(receiver) → Unmarshal into a fresh Table",
		},
		Assumptions: []string{"external pause/close requests are outside 'left to itself'"},
		Run:         checkC07,
		Controls:    controlsC07,
	})
}

type lifecycle struct {
	openFn, startFn, settleFn, continueFn, creator, driverOpen *ssa.Function
	incr                                                       *StoreSite
	startCall                                                  *ssa.Call
}

func (p *Prog) lifecycle() *lifecycle {
	lc := &lifecycle{}
	for _, ss := range p.FieldStores("TableState", "GameCount") {
		v := ss.Val.Strip()
		if v.Kind == "binop" && v.Name == "+" {
			lc.openFn, lc.incr = ss.Fn, ss
		}
	}
	for _, f := range p.Funcs {
		for _, ci := range Calls(f) {
			if call, ok := ci.(*ssa.Call); ok && calleeName(call.Common()) == "Game.Start" && p.singleImpl("", "TableEngine") != nil && f.Signature.Recv() != nil {
				lc.startFn, lc.startCall = f, call
			}
		}
	}
	for _, ss := range p.FieldStores("TableState", "Status") {
		s, _ := ss.Val.ConstString()
		switch s {
		case "table_game_settled":
			lc.settleFn = ss.Fn
		case "table_game_standby":
			lc.continueFn = ss.Fn
		}
	}
	for _, ss := range p.FieldStores("tableEngine", "table") {
		if rawLocal(ss.ValV) {
			lc.creator = ss.Fn
		} else {
			lc.driverOpen = ss.Fn
		}
	}
	return lc
}

func checkC07(c *Ctx) {
	p := c.P
	checkCloneCompleteness(c, "R7")
	checkCloseRecords(c, "R5")
	checkNoKnownNilErrorReturn(c, "R7", func(f *ssa.Function) bool { return inPkg(p, f, "") && f.Parent() == nil }, 20)
	lc := p.lifecycle()
	if lc.openFn == nil || lc.startFn == nil || lc.settleFn == nil || lc.continueFn == nil || lc.creator == nil || lc.driverOpen == nil {
		c.Bad("R1", "anchors", "-", fmt.Sprintf("life-cycle functions not all found (open=%v start=%v settle=%v continue=%v create=%v driver=%v)", lc.openFn != nil, lc.startFn != nil, lc.settleFn != nil, lc.continueFn != nil, lc.creator != nil, lc.driverOpen != nil))
		return
	}
	li := p.Locks()
	// ---------------- R1
	n := 0
	seen := map[string]int{}
	for _, ss := range p.FieldStores("TableState", "Status") {
		n++
		where := p.InstrPos(ss.Instr)
		f := ss.Fn
		v := ss.Val.Strip()
		var consts []string
		if s, ok := v.ConstString(); ok {
			consts = []string{s}
		} else if v.Kind == "phi" {
			for _, a := range v.Args {
				if s, ok := a.ConstString(); ok {
					consts = append(consts, s)
				} else {
					consts = nil
					break
				}
			}
		}
		if consts == nil {
			c.Bad("R1", "status-writer:"+FuncName(f)+":non-constant", where, "status is set from a computed value "+v.String())
			continue
		}
		for _, s := range consts {
			seen[s]++
			ok, d := false, ""
			switch s {
			case "table_game_opened":
				root := ss.Addr.Root()
				ok = f == lc.openFn && root.Kind == "extract" && root.Args[0].IsCall("Table.Clone")
				d = "status opened may only be written on the clone in the function that numbers the hand"
			case "table_game_playing":
				ev := callErrValue(lc.startCall)
				ok = f == lc.startFn && nilGuard(p.Guards(ss.Instr), true, func(x *Sym) bool { return x.V == ev })
				d = "status playing may only be written after the hand's Start succeeded"
			case "table_game_settled":
				ok = f == lc.settleFn
				d = "status settled written outside the settle step"
				if ok {
					// every caller continues
					sites := p.CG().AllCallSitesOf(f)
					if len(sites) == 0 {
						ok, d = false, "settle step has no caller"
					}
					for _, site := range sites {
						var cont ssa.Instruction
						for _, ci := range Calls(site.Parent()) {
							if ci.Common().StaticCallee() == lc.continueFn {
								cont = ci
							}
						}
						if cont == nil || !mustPass(site, cont) {
							ok, d = false, "a caller of the settle step ("+FuncName(site.Parent())+") does not go on to the continue step on every path"
						}
					}
				}
			case "table_game_standby":
				ok = f == lc.continueFn
				d = "status standby written outside the continue step"
			case "table_pausing":
				switch {
				case f.Parent() == lc.continueFn:
					ok = guardedBy(p.Guards(ss.Instr), true, func(x *Sym) bool { return x.IsCall("Table.ShouldPause") })
					d = "the continue handler pauses without consulting the pause predicate"
				case f == lc.creator && storeIsLocal(ss.Instr):
					ok = true // initial status on a break: condition checked by R6/C12.R5
				case f.Parent() == nil && f.Object() != nil && f.Object().Exported() && len(f.Params) == 1 && f != lc.creator:
					// external pause operation: an exported, parameterless engine method
					ok = onlyStatusConst(p, f, "table_pausing")
					d = "an exported operation other than the pause operation sets status pausing"
				default:
					d = "status pausing written outside the continue handler, the pause operation and creation"
				}
			case "table_closed":
				ok = f.Parent() == nil && f.Object() != nil && f.Object().Exported() && len(f.Params) == 1 && onlyStatusConst(p, f, "table_closed")
				d = "status closed written outside the close operation"
			case "table_balancing", "table_created":
				ok = f == lc.creator
				d = "status " + s + " written outside table creation"
			default:
				d = "unexpected status constant " + s
			}
			c.Check(ok, "R1", "status-writer:"+FuncName(f)+":"+s, where, s+" in its transition context", d)
		}
	}
	c.Min("R1", "status stores", n, 8)
	for _, s := range []string{"table_game_opened", "table_game_playing", "table_game_settled", "table_game_standby"} {
		c.Check(seen[s] == 1, "R1", "unique-writer:"+s, "-", "exactly one writer", fmt.Sprintf("%d writers of status %s (each hand-cycle status has exactly one)", seen[s], s))
	}

	// ---------------- R2
	nInc, nOther := 0, 0
	for _, ss := range p.FieldStores("TableState", "GameCount") {
		v := ss.Val.Strip()
		where := p.InstrPos(ss.Instr)
		if z, ok := v.ConstInt(); ok && z == 0 && storeIsLocal(ss.Instr) {
			continue // creation literal
		}
		if v.Kind == "binop" && v.Name == "+" {
			nInc++
			one := false
			for k := 0; k < 2; k++ {
				if z, ok := v.Args[k].ConstInt(); ok && z == 1 && v.Args[1-k].Strip().String() == ss.Addr.Strip().String() {
					one = true
				}
			}
			root := ss.Addr.Root()
			onClone := root.Kind == "extract" && root.Args[0].IsCall("Table.Clone")
			c.Check(one && onClone, "R2", "increment:"+FuncName(ss.Fn), where, "GameCount = old + 1 on the clone", fmt.Sprintf("hand counter update %s = %s is not old+1 on the cloned table", ss.Addr, v))
			continue
		}
		nOther++
		c.Bad("R2", "counter-writer:"+FuncName(ss.Fn), where, "the hand counter is written by something other than the single increment: "+v.String())
	}
	c.Check(nInc == 1, "R2", "single-increment", "-", "exactly one increment", fmt.Sprintf("%d increments of the hand counter", nInc))

	// ---------------- R3
	nOpen := 0
	for _, site := range p.CG().AllCallSitesOf(lc.openFn) {
		nOpen++
		gs := p.Guards(site)
		ok := nilGuard(gs, true, func(x *Sym) bool { return x.IsField("TableState", "GameState") })
		c.Check(ok, "R3", "open-call-guard:"+FuncName(site.Parent()), p.InstrPos(site), "open step only when no hand state exists", "the open step can be reached while a hand state still exists (a second hand could open over an unsettled one)")
		c.Check(li.Held(site, "tableEngine.lock"), "R3", "open-call-locked:"+FuncName(site.Parent()), p.InstrPos(site), "engine mutex held", "the open step is called without the engine mutex")
	}
	c.Min("R3", "calls of the open step", nOpen, 2)
	nNil := 0
	for _, ss := range p.FieldStores("TableState", "GameState") {
		if storeIsLocal(ss.Instr) {
			continue
		}
		if ss.Val.IsNil() {
			nNil++
			c.Check(ss.Fn == lc.continueFn, "R3", "hand-state-cleared:"+FuncName(ss.Fn), p.InstrPos(ss.Instr), "nil stored by the continue step", "the hand state is cleared outside the continue step: the one-hand-at-a-time guard can be bypassed")
		}
	}
	c.Min("R3", "nil stores to the hand state", nNil, 1)
	c.Except("R3", "startGame error closure", "the hand error callback stores whatever state the hand reports with an error (fault path, see C13)")

	// ---------------- R4
	checkPerHandReset(c, lc)

	// ---------------- R5
	closedTest := func(gs []Guard) bool {
		return cmpHolds(gs, func(l, r *Sym, op token.Token) bool {
			s, _ := r.ConstString()
			return op == token.NEQ && l.Strip().IsField("TableState", "Status") && s == "table_closed"
		})
	}
	releasedTest := func(gs []Guard) bool {
		return guardedBy(gs, false, func(x *Sym) bool { return x.IsField("tableEngine", "isReleased") })
	}
	n5 := 0
	for _, f := range lc.continueFn.AnonFuncs {
		for _, b := range f.Blocks {
			for _, in := range b.Instrs {
				what := ""
				if ss := p.storeSite(in); ss != nil && ss.Owner == "TableState" && ss.Field == "Status" {
					if s, _ := ss.Val.ConstString(); s == "table_pausing" {
						what = "pause"
					}
				}
				if ci, ok := in.(ssa.CallInstruction); ok {
					for _, callee := range p.CG().SyncCallees(ci) {
						if p.reachesIfaceCall(callee, "OpenGameManager.Setup", 2) {
							what = "next-hand set-up"
						}
					}
				}
				if what == "" {
					continue
				}
				n5++
				gs := p.Guards(in)
				c.Check(closedTest(gs) && releasedTest(gs), "R5", "continue-handler:"+what, p.InstrPos(in), "closed and released tested first", "the continue handler reaches "+what+" without having tested that the table is neither closed nor released")
			}
		}
	}
	c.Min("R5", "pause / set-up sites in the continue handler", n5, 2)
	// open: every open-step call is guarded either locally or at every call of its driver
	for _, site := range p.CG().AllCallSitesOf(lc.openFn) {
		gs := p.Guards(site)
		ok := closedTest(gs) && releasedTest(gs)
		if !ok {
			// guards at all callers of the driver
			drv := site.Parent()
			callers := p.CG().AllCallSitesOf(drv)
			ok = len(callers) > 0
			for _, cs := range callers {
				g2 := p.Guards(cs)
				if !(closedTest(g2) && releasedTest(g2)) {
					ok = false
				}
			}
		}
		c.Check(ok, "R5", "open-after-close:"+FuncName(site.Parent()), p.InstrPos(site), "closed and released tested before opening",
			"a hand can be opened after the table was closed or released between hands: neither the open driver nor its caller tests closed/released before the open step (the open-game callback fires later than the continue handler's own test)")
	}

	// ---------------- R6
	checkBreakGuards(c, "R6")

	// ---------------- R7
	drv := lc.driverOpen
	var install *StoreSite
	for _, ss := range p.FieldStores("tableEngine", "table") {
		if ss.Fn == drv {
			install = ss
		}
	}
	okSrc := install != nil
	if install != nil {
		// value derives only from open-step results
		install.Val.Walk(func(x *Sym) bool {
			switch x.Kind {
			case "phi":
				return true
			case "extract":
				if !(x.Args[0].Strip().Kind == "call" && x.Args[0].Strip().Call.Common().StaticCallee() == lc.openFn) {
					okSrc = false
				}
				return false
			default:
				okSrc = false
				return false
			}
		})
	}
	c.Check(okSrc, "R7", "install-clone:"+FuncName(drv), p.InstrPos(install.Instr), "installed table is the open step's result", "the table installed before starting the hand is not the open step's result")
	// … and on every path reaching the installation, the open call that produced the
	// installed table returned a nil error (path-sensitive: retries re-assign both)
	if install != nil {
		okNil, dNil, nPaths := true, "", 0
		wk := &Walker{P: p, Fn: drv,
			IsEvent: func(in ssa.Instruction) bool { return in == install.Instr },
			OnEvent: func(in ssa.Instruction, st *WState) {
				nPaths++
				v := st.Resolve(in.(*ssa.Store).Val)
				ex, isEx := v.(*ssa.Extract)
				if !isEx {
					okNil, dNil = false, "the installed table is "+p.Sym(v).String()
					return
				}
				var errV ssa.Value
				if refs := ex.Tuple.Referrers(); refs != nil {
					for _, r := range *refs {
						if e2, isE := r.(*ssa.Extract); isE && isErrorType(e2.Type()) {
							errV = e2
						}
					}
				}
				if errV == nil || st.NilFact(errV) != +1 {
					okNil, dNil = false, "the result of an open step whose error was not checked to be nil can be installed and started (at "+p.InstrPos(ex)+")"
				}
			}}
		wk.Run()
		c.Check(okNil && !wk.Aborted && nPaths >= 1, "R7", "install-only-successful-open", p.InstrPos(install.Instr), fmt.Sprintf("on %d path state(s) the installed table comes from an open step that returned nil", nPaths), "a failed open step's table (the old table) can be installed and a hand started on it: "+dNil)
	}
	// … and conversely a successful open step (which has already moved the button in the
	// seat manager) is never abandoned: every exit after it passes the installation
	if install != nil {
		okUse, dUse, nExits := true, "", 0
		wk := &Walker{P: p, Fn: drv,
			IsEvent: func(in ssa.Instruction) bool {
				if in == install.Instr {
					return true
				}
				ci, isC := in.(*ssa.Call)
				return isC && ci.Common().StaticCallee() == lc.openFn
			},
			OnExit: func(in ssa.Instruction, st *WState) {
				nExits++
				var last *ssa.Call
				installed := false
				for _, e := range st.Events {
					if ci, isC := e.(*ssa.Call); isC {
						last, installed = ci, false
					} else if e == install.Instr {
						installed = true
					}
				}
				if last == nil || installed {
					return
				}
				if ev := callErrValue(last); ev != nil && st.NilFact(ev) == +1 {
					okUse, dUse = false, "the exit at "+p.InstrPos(in)+" follows a successful open step ("+p.InstrPos(last)+") without installing and starting the hand"
				}
			}}
		wk.Run()
		c.Check(okUse && !wk.Aborted && nExits >= 1, "R7", "successful-open-is-installed", p.Pos(drv.Pos()), fmt.Sprintf("%d exit path state(s): none abandons a successful open step", nExits), "the positions were rotated for a hand that is then dropped: "+dUse)
	}
	var startSite ssa.Instruction
	nStart := 0
	for _, f := range p.Funcs {
		for _, ci := range Calls(f) {
			if ci.Common().StaticCallee() == lc.startFn {
				nStart++
				if f == drv {
					startSite = ci
				}
			}
		}
	}
	c.Check(nStart == 1 && startSite != nil && Dominates(install.Instr, startSite), "R7", "open→install→start", p.Pos(drv.Pos()), "start follows the installation of the opened table", fmt.Sprintf("the hand is started from %d place(s) / not after the opened table was installed", nStart))
}

func onlyStatusConst(p *Prog, f *ssa.Function, want string) bool {
	n := 0
	for _, ss := range p.Stores([]*ssa.Function{f}) {
		if ss.Owner == "TableState" && ss.Field == "Status" {
			s, _ := ss.Val.ConstString()
			if s != want {
				return false
			}
			n++
		}
	}
	return n >= 1
}

// reachesIfaceCall: f (≤ depth static hops) makes an interface call named name.
func (p *Prog) reachesIfaceCall(f *ssa.Function, name string, depth int) bool {
	if f == nil || depth < 0 || !p.IsRepoFunc(f) {
		return false
	}
	for _, ci := range Calls(f) {
		if calleeName(ci.Common()) == name {
			return true
		}
		if sc := ci.Common().StaticCallee(); sc != nil && sc != f && p.reachesIfaceCall(sc, name, depth-1) {
			return true
		}
	}
	return false
}

func checkPerHandReset(c *Ctx, lc *lifecycle) {
	p := c.P
	f := lc.continueFn
	entry := f.Blocks[0]
	type req struct {
		field string
		ok    func(v *Sym) bool
		desc  string
	}
	emptyMake := func(v *Sym) bool {
		v = v.Strip()
		if v.Kind == "make" && len(v.Args) == 1 {
			z, ok := v.Args[0].ConstInt()
			return ok && z == 0
		}
		if v.Kind == "slice" {
			// make([]T, 0) and []T{} compile to a slice of a zero-length array
			if al, ok := v.Args[0].Strip().V.(*ssa.Alloc); ok && zeroLenArrayAlloc(al) {
				return true
			}
		}
		return false
	}
	reqs := []req{
		{"GamePlayerIndexes", emptyMake, "empty hand index list"},
		{"NextBBOrderPlayerIDs", emptyMake, "empty next-BB list"},
		{"CurrentActionEndAt", func(v *Sym) bool { z, ok := v.ConstInt(); return ok && z == 0 }, "deadline 0"},
		{"GameState", func(v *Sym) bool { return v.IsNil() }, "nil hand state"},
		{"LastPlayerGameAction", func(v *Sym) bool { return v.IsNil() }, "nil last action"},
	}
	for _, r := range reqs {
		ok := false
		where := p.Pos(f.Pos())
		for _, ss := range p.Stores([]*ssa.Function{f}) {
			if ss.Owner == "TableState" && ss.Field == r.field && ss.Instr.Block() == entry && ss.Addr.Root().Kind == "param" && r.ok(ss.Val) {
				ok = true
				where = p.InstrPos(ss.Instr)
			}
		}
		c.Check(ok, "R4", "reset:"+r.field, where, r.desc+" stored in the entry block", "the continue step does not reset "+r.field+" ("+r.desc+") on every path")
	}
	// per-player
	for _, pf := range []string{"Positions", "GameStatistics"} {
		ok := false
		d := "the continue step does not reset every player's " + pf
		where := p.Pos(f.Pos())
		for _, ss := range p.Stores([]*ssa.Function{f}) {
			if ss.Owner != "TablePlayerState" || ss.Field != pf {
				continue
			}
			where = p.InstrPos(ss.Instr)
			pl := ss.Addr.Strip().Args[0].Strip()
			if pl.Kind != "index" || !pl.Args[0].Strip().IsField("TableState", "PlayerStates") || pl.Args[1].Strip().Kind != "ind" {
				d = "per-player reset of " + pf + " does not index the table's player list by the loop variable"
				continue
			}
			iv := pl.Args[1].Strip().Ind
			first, isC := iv.First.ConstInt()
			full := isC && first == 0 && iv.Step == 1 && iv.Bound != nil && iv.Bound.IsCall("len") && iv.Bound.Strip().Args[0].Strip().IsField("TableState", "PlayerStates") && !iv.Incl
			if !full {
				d = "per-player reset of " + pf + " does not cover the full player list"
				continue
			}
			// stores sit at the top of the loop body: the block is the true successor of the loop test
			hdr := iv.Phi.Block()
			body := loopBodyHead(hdr)
			if body == nil || ss.Instr.Block() != body {
				// the reset may be skipped for a player whose record already equals what it is reset to
				// (if stats == NewStats() { continue }) — and for nothing else
				onlyWhenEqual := body != nil
				loop := naturalLoop(hdr)
				nIn := 0
				for _, g := range p.Guards(ss.Instr) {
					if g.If == nil || !loop[g.If.Block()] || g.If.Block() == hdr {
						continue
					}
					nIn++
					cs := g.Cond.Strip()
					same := false
					if cs.Kind == "binop" && (cs.Name == "==" || cs.Name == "!=") && len(cs.Args) == 2 {
						l, r := cs.Args[0].Strip(), cs.Args[1].Strip()
						if r.Kind != "call" {
							l, r = r, l
						}
						v := ss.Val.Strip()
						if r.Kind == "call" && len(r.Args) == 0 && v.Kind == "call" && r.Call.Common().StaticCallee() != nil && r.Call.Common().StaticCallee() == v.Call.Common().StaticCallee() &&
							l.Kind == "field" && l.Name == pf && l.Args[0].Strip().String() == pl.String() && g.Val == (cs.Name == "!=") {
							same = true
						}
					}
					if !same {
						onlyWhenEqual = false
					}
				}
				if !onlyWhenEqual || nIn == 0 {
					d = "per-player reset of " + pf + " can be skipped inside the loop body"
					continue
				}
			}
			switch pf {
			case "Positions":
				if !emptyMake(ss.Val) {
					d = "labels are not reset to an empty list"
					continue
				}
			case "GameStatistics":
				v := ss.Val.Strip()
				if !(v.Kind == "call" && v.Call.Common().StaticCallee() != nil && len(v.Args) == 0) {
					d = "statistics are not reset from the zero constructor"
					continue
				}
			}
			ok = true
		}
		c.Check(ok, "R4", "reset-per-player:"+pf, where, "every player's "+pf+" reset at the top of a full-range loop", d)
	}
}

// loopBodyHead: the successor of the loop test taken when the loop continues.
func loopBodyHead(hdr *ssa.BasicBlock) *ssa.BasicBlock {
	// the If testing the induction value is in hdr or in the block it jumps to
	for _, b := range append([]*ssa.BasicBlock{hdr}, hdr.Succs...) {
		if len(b.Instrs) == 0 {
			continue
		}
		if _, ok := b.Instrs[len(b.Instrs)-1].(*ssa.If); ok && len(b.Succs) == 2 {
			return b.Succs[0]
		}
	}
	return nil
}

func zeroLenArrayAlloc(al *ssa.Alloc) bool {
	if pt, ok := al.Type().Underlying().(*types.Pointer); ok {
		if at, ok := pt.Elem().Underlying().(*types.Array); ok && at.Len() == 0 {
			return true
		}
	}
	return false
}
