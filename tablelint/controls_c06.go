package main

func controlsC06() []Control {
	return []Control{
		{Name: "duplicate label in the 6-player row", Expect: "R1", Mutate: replaceIn("newPositions", "Position_UG,\n\t\t\tPosition_HJ,\n\t\t\tPosition_CO,\n\t\t}\n\tcase 5:", "Position_UG,\n\t\t\tPosition_UG,\n\t\t\tPosition_CO,\n\t\t}\n\tcase 5:", 0)},
		{Name: "4-player row has five labels", Expect: "R1", Mutate: replaceIn("newPositions", "Position_UG,\n\t\t}\n\tcase 3:", "Position_UG,\n\t\t\tPosition_CO,\n\t\t}\n\tcase 3:", 0)},
		{Name: "labels rotated by one", Expect: "R2", Mutate: replaceIn("(*tableEngine).updatePlayerPositions", "rotateStringArray(positions, 2)", "rotateStringArray(positions, 1)", 0)},
		{Name: "heads-up labels swapped", Expect: "R2", Mutate: replaceIn("(*tableEngine).updatePlayerPositions", "[]string{Position_BB})", "[]string{Position_SB})", 0)},
		{Name: "next-BB scan starts at the big blind itself", Expect: "R5", Mutate: replaceIn("(*tableEngine).refreshNextBBOrderPlayerIDs", "i := currentBBSeatID + 1;", "i := currentBBSeatID;", 0)},
		{Name: "next-BB order lists busted players", Expect: "R5", Mutate: replaceIn("(*tableEngine).refreshNextBBOrderPlayerIDs", "playerIdx >= 0 && players[playerIdx].Bankroll > 0", "playerIdx >= 0", 0)},
		{Name: "next-BB order computed from the dealer seat", Expect: "R5", Mutate: replaceIn("(*tableEngine).settleGame", "te.refreshNextBBOrderPlayerIDs(te.sm.CurrentBBSeatID()", "te.refreshNextBBOrderPlayerIDs(te.sm.CurrentDealerSeatID()", 0)},
		{Name: "published SB and BB seats crossed", Expect: "R6", Mutate: replaceIn("(*tableEngine).openGame", "cloneTable.State.CurrentSBSeat = te.sm.CurrentSBSeatID()", "cloneTable.State.CurrentSBSeat = te.sm.CurrentBBSeatID()", 0)},
		{Name: "PlayerJoin labels the player", Expect: "R3", Mutate: replaceIn("(*tableEngine).PlayerJoin", "te.table.State.PlayerStates[playerIdx].IsIn = true\n", "te.table.State.PlayerStates[playerIdx].IsIn = true\n\tte.table.State.PlayerStates[playerIdx].Positions = []string{Position_BB}\n", 0)},
		{Name: "hand engine always told entry 0 is the dealer twice", Expect: "R4", Mutate: replaceIn("(*tableEngine).startGame", "if !funk.Contains(playerSettings[0].Positions, Position_Dealer) {", "if true {", 0)},
		{Name: "rotate helper drops the head", Expect: "R2", Mutate: replaceIn("rotateStringArray", "return append(source[startIndex:], source[:startIndex]...)", "return source[startIndex:]", 0)},
		{Name: "next-BB order computed before results are credited", Expect: "R5", Mutate: replaceIn("(*tableEngine).settleGame", "\t// 計算攤牌勝率用\n", "\tte.table.State.NextBBOrderPlayerIDs = te.refreshNextBBOrderPlayerIDs(te.sm.CurrentBBSeatID(), te.table.Meta.TableMaxSeatCount, te.table.State.PlayerStates, te.table.State.SeatMap)\n", 0)},
		{Name: "dead-seat label skip only for occupied seats", Expect: "R7", Mutate: replaceIn("(*tableEngine).updatePlayerPositions", "if seatPlayer, exist := te.sm.Seats()[seatID]; exist {\n\t\t\tif seatPlayer != nil && seatPlayer.Active() {", "if seatPlayer, exist := te.sm.Seats()[seatID]; exist && seatPlayer != nil {\n\t\t\tif seatPlayer.Active() {", 0)},
		{Name: "labels handed out starting at the dealer seat", Expect: "R8", Mutate: replaceIn("(*tableEngine).updatePlayerPositions", "for i := bbSeatID; i < maxSeat+bbSeatID; i++ {", "for i := dealerSeatID; i < maxSeat+dealerSeatID; i++ {", 0)},
		{Name: "labels given to ineligible seated players too", Expect: "R8", Mutate: replaceIn("(*tableEngine).updatePlayerPositions", "if seatPlayer != nil && seatPlayer.Active() {", "if seatPlayer != nil && seatPlayer.IsIn {", 0)},
		{Name: "dealt-in flags computed before the rotation", Expect: "R9", Mutate: replaceIn("(*tableEngine).openGame", "\t// Step 4: 計算座位\n", "\tfor i := 0; i < len(cloneTable.State.PlayerStates); i++ {\n\t\tplayer := cloneTable.State.PlayerStates[i]\n\t\tactive, err := te.sm.IsPlayerActive(player.PlayerID)\n\t\tif err != nil {\n\t\t\treturn oldTable, err\n\t\t}\n\t\tplayer.IsParticipated = active\n\t}\n\t// Step 4: 計算座位\n", 0)},
		{Name: "hand list skips the player at index 0", Expect: "R10", Mutate: replaceIn("(*tableEngine).calcGamePlayerIndexes", "if playerIdx >= 0 && players[playerIdx].IsParticipated {", "if playerIdx > 0 && players[playerIdx].IsParticipated {", 1)},
		{Name: "dealer of the hand looked up among players not dealt in", Expect: "R10", Mutate: replaceIn("(*tableEngine).calcGamePlayerIndexes", "if !p.IsParticipated {\n\t\t\t\tcontinue\n\t\t\t}\n", "", 0)},
		{Name: "dead-button branch taken when the dealer is present", Expect: "R10", Mutate: replaceIn("(*tableEngine).calcGamePlayerIndexes", "if dealerPlayerIdx == UnsetValue {", "if dealerPlayerIdx != UnsetValue {", 0)},
		{Name: "substitute dealer searched from the SB seat when the SB is dead", Expect: "R10", Mutate: replaceIn("(*tableEngine).calcGamePlayerIndexes", "if sbPlayerIdx == UnsetValue {", "if sbPlayerIdx != UnsetValue {", 0)},
		{Name: "substitute dealer walk stops one seat early", Expect: "R10", Mutate: replaceIn("(*tableEngine).calcGamePlayerIndexes", "i >= startSeatID; i--", "i > startSeatID; i--", 0)},
		{Name: "substitute dealer may be a seat that is not active", Expect: "R10", Mutate: replaceIn("(*tableEngine).calcGamePlayerIndexes", "ok && sp != nil && sp.Active()", "ok && sp != nil", 0)},
		{Name: "hand list starts with a spurious entry", Expect: "R10", Mutate: replaceIn("(*tableEngine).calcGamePlayerIndexes", "gamePlayerIndexes := make([]int, 0)", "gamePlayerIndexes := make([]int, 1)", 0)},
		{Name: "SB and BB seats swapped at the builder call", Expect: "R10", Mutate: replaceIn("(*tableEngine).openGame", "te.sm.CurrentSBSeatID(),\n\t\tte.sm.CurrentBBSeatID(),", "te.sm.CurrentBBSeatID(),\n\t\tte.sm.CurrentSBSeatID(),", 0)},
	}
}
