package main

import (
	"fmt"
	"go/token"
	"strings"

	"golang.org/x/tools/go/ssa"
)

// retSyms: what a return yields, looking through result slots spilled because of a defer.
func retSyms(p *Prog, r *ssa.Return) []*Sym {
	var out []*Sym
	for _, v := range r.Results {
		if ld, isLd := v.(*ssa.UnOp); isLd && ld.Op == token.MUL {
			if al, isAl := ld.X.(*ssa.Alloc); isAl {
				var last *ssa.Store
				for _, in := range r.Block().Instrs {
					if st, isSt := in.(*ssa.Store); isSt && st.Addr == ssa.Value(al) {
						last = st
					}
				}
				if last != nil {
					out = append(out, p.Sym(last.Val).Strip())
					continue
				}
			}
		}
		out = append(out, p.Sym(v).Strip())
	}
	return out
}

func followToReturn(b *ssa.BasicBlock) *ssa.Return {
	for i := 0; i < 6 && b != nil; i++ {
		if len(b.Instrs) > 0 {
			if r, ok := b.Instrs[len(b.Instrs)-1].(*ssa.Return); ok {
				return r
			}
		}
		if len(b.Succs) != 1 {
			return nil
		}
		b = b.Succs[0]
	}
	return nil
}

// seatScan describes one `for seat, sp := range sm.SeatData` loop.
type seatScan struct {
	Fn     *ssa.Function
	Header *ssa.BasicBlock
	Body   []bodyPath
	OK     bool
}

func (p *Prog) seatScans(f *ssa.Function) []seatScan {
	var out []seatScan
	for _, h := range loopHeaders(f) {
		over := false
		for _, in := range h.Instrs {
			if nx, isNx := in.(*ssa.Next); isNx {
				if rg, isRg := nx.Iter.(*ssa.Range); isRg && p.Sym(rg.X).Strip().IsField("seatManager", "SeatData") {
					over = true
				}
			}
		}
		if !over {
			continue
		}
		paths, ok := p.loopBodyPaths(h)
		var body []bodyPath
		for _, bp := range paths {
			if len(bp.Order) > 1 {
				body = append(body, bp)
			}
		}
		out = append(out, seatScan{Fn: f, Header: h, Body: body, OK: ok && len(body) > 0})
	}
	return out
}

func isSeatVal(s *Sym) bool {
	s = s.Strip()
	return s.Kind == "rangeval" && s.Args[0].Strip().IsField("seatManager", "SeatData")
}
func isSeatKey(s *Sym) bool {
	s = s.Strip()
	return s.Kind == "rangekey" && s.Args[0].Strip().IsField("seatManager", "SeatData")
}

// seatScanAtoms: occupied (sp != nil), same-id (sp.ID == <parameter>), active (sp.Active()).
func seatScanAtoms(f *ssa.Function) atomFn2 {
	return func(g Guard) (string, bool, bool) {
		s := g.Cond.Strip()
		if cm := g.AsCmp(); cm != nil {
			l, r := cm.L.Strip(), cm.R.Strip()
			if cm.Op != token.EQL && cm.Op != token.NEQ {
				return "", false, false
			}
			for k := 0; k < 2; k++ {
				if r.IsNil() && isSeatVal(l) {
					return "occupied", cm.Op == token.NEQ, true
				}
				if l.IsField("SeatPlayer", "ID") && isSeatVal(l.Args[0]) && r.Kind == "param" {
					return "same-id", cm.Op == token.EQL, true
				}
				l, r = r, l
			}
			return "", false, false
		}
		if s.IsCall("SeatPlayer.Active") && isSeatVal(s.Args[0]) {
			return "active", g.Val, true
		}
		if strings.HasPrefix(s.String(), "?next") || (s.Kind == "extract" && s.Args[0].Strip().Kind == "next") {
			return "", false, true
		}
		return "", false, false
	}
}

// checkSeatLookups (C03.R8): the seat manager's own look-ups and the two remaining batch
// operations, path by path.
func checkSeatLookups(c *Ctx, rule string) {
	p := c.P
	smT := p.singleImpl("/seat_manager", "SeatManager")
	if smT == nil {
		c.Bad(rule, "seat-lookups", "-", "seat manager not found")
		return
	}
	impossible := func(a map[string]bool) bool { return (a["same-id"] || a["active"]) && !a["occupied"] }
	selected := func(bp bodyPath) bool {
		if bp.Exit {
			return true
		}
		for _, b := range bp.Order {
			for _, in := range b.Instrs {
				switch x := in.(type) {
				case *ssa.MapUpdate:
					return true
				case *ssa.BinOp: // counting the seat
					if k, isK := x.Y.(*ssa.Const); isK && x.Op == token.ADD && k.Value != nil && k.Value.String() == "1" {
						if _, isPhi := x.X.(*ssa.Phi); isPhi {
							return true
						}
					}
				case *ssa.Call:
					if bi, isB := x.Call.Value.(*ssa.Builtin); isB && bi.Name() == "append" {
						return true
					}
				}
			}
		}
		return false
	}
	// expectation by what the loop tests; polarity of the occupancy-only scans by role
	n := 0
	for _, f := range p.Funcs {
		if !inSeatManagerPkg(p, f) || f.Signature.Recv() == nil {
			continue
		}
		for _, sc := range p.seatScans(f) {
			name := fnName(f)
			atom := seatScanAtoms(f)
			tests := map[string]bool{}
			recognised := true
			for _, bp := range sc.Body {
				for _, g := range bp.Guards {
					nm, _, ok := atom(g)
					if !ok {
						recognised = false
					}
					if nm != "" {
						tests[nm] = true
					}
				}
			}
			if !recognised || !sc.OK {
				continue // loops with other conditions (rotation, counting) have their own rules
			}
			// a look-up selects seats (collects, counts, records or leaves the loop with one); a loop that only
			// rewrites a field of the seats it visits (the rotation's waiting-flag refresh) is not one
			anySel, anyExit := false, false
			for _, bp := range sc.Body {
				if bp.Exit {
					anyExit = true
				} else if selected(bp) {
					anySel = true
				}
			}
			if !anySel && !anyExit {
				continue
			}
			var want func(a map[string]bool) bool
			desc := ""
			switch {
			case tests["same-id"]:
				want, desc = func(a map[string]bool) bool { return a["occupied"] && a["same-id"] }, "the seat whose player has the given id"
			case tests["active"]:
				want, desc = func(a map[string]bool) bool { return a["occupied"] && a["active"] }, "the seats with an eligible player"
			case tests["occupied"] && strings.Contains(strings.ToLower(name), "empty"):
				want, desc = func(a map[string]bool) bool { return !a["occupied"] }, "the empty seats"
			case tests["occupied"]:
				want, desc = func(a map[string]bool) bool { return a["occupied"] }, "the occupied seats"
			default:
				continue
			}
			n++
			d := tableCheck(sc.Body, atom, []string{"occupied", "same-id", "active"}, impossible,
				map[string]func(bodyPath) bool{"select the seat": selected},
				map[string]func(map[string]bool) bool{"select the seat": want})
			c.Check(d == "", rule, "seat-scan:"+name, p.Pos(f.Pos()), "selects exactly "+desc, "seat look-up in "+name+" (expected: "+desc+"): "+d)
			// what the scan accumulates starts from nothing: an empty list, an empty map, a zero count
			for b := range naturalLoop(sc.Header) {
				for _, in := range b.Instrs {
					switch x := in.(type) {
					case *ssa.Call:
						if bi, isB := x.Call.Value.(*ssa.Builtin); isB && bi.Name() == "append" {
							for _, o := range appendOrigins(x.Call.Args[0]) {
								c.Check(isEmptySlice(p.Sym(o)), rule, "seat-scan-start:"+name, p.InstrPos(x), "collected list starts empty", "the list collected by "+name+" does not start empty ("+p.Sym(o).String()+"): seat 0 is reported without having been looked at")
							}
						}
					case *ssa.BinOp:
						if k, isK := x.Y.(*ssa.Const); isK && x.Op == token.ADD && k.Value != nil && k.Value.String() == "1" {
							if ph, isPhi := x.X.(*ssa.Phi); isPhi && ph.Block() == sc.Header {
								for _, lf := range p.phiLeaves(ph) {
									if lf.V == ssa.Value(x) {
										continue
									}
									z, isZ := p.Sym(lf.V).ConstInt()
									c.Check(isZ && z == 0, rule, "seat-scan-start:"+name, p.InstrPos(x), "count starts at 0", "the count kept by "+name+" does not start at 0")
								}
							}
						}
					}
				}
			}
			// what is handed out for the selected seat
			for _, bp := range sc.Body {
				if !bp.Exit {
					continue
				}
				eb := bp.ExitTo
				if eb == nil {
					eb = bp.Order[len(bp.Order)-1]
				}
				r := followToReturn(eb)
				if r == nil {
					continue
				}
				rs := retSyms(p, r)
				okRet := true
				for i, s := range rs {
					t := f.Signature.Results().At(i).Type()
					switch {
					case typeShort(t) == "int":
						okRet = okRet && isSeatKey(s)
					case typeShort(t) == "*SeatPlayer":
						okRet = okRet && isSeatVal(s)
					case isErrorType(t):
						okRet = okRet && s.IsNil()
					case typeShort(t) == "bool":
						// the waiting predicate: arc(dealer, bb, this seat)
						okRet = okRet && s.Kind == "call" && len(s.Args) == 4 && s.Args[3].Strip().Kind == "rangekey" &&
							(s.Args[1].IsCall("seatManager.CurrentDealerSeatID") || s.Args[1].Strip().IsField("seatManager", "DealerSeatID")) &&
							(s.Args[2].IsCall("seatManager.CurrentBBSeatID") || s.Args[2].Strip().IsField("seatManager", "BBSeatID"))
					}
				}
				c.Check(okRet, rule, "seat-scan-result:"+name, p.InstrPos(r), "found seat's own key / player (waiting predicate: arc(dealer, bb, that seat))", "what "+name+" yields for the seat it found is not that seat's own id / player")
			}
			// a look-up by id answers only from its scan: every other way out of the function is a refusal
			// (an error, or nothing but sentinels) — a remembered seat that is handed out without asking whose
			// seat it is now (a cache, a hint) answers for another player once the seat has changed hands
			if tests["same-id"] && anyExit {
				fromScan := map[*ssa.Return]bool{}
				for _, bp := range sc.Body {
					if !bp.Exit {
						continue
					}
					eb := bp.ExitTo
					if eb == nil {
						eb = bp.Order[len(bp.Order)-1]
					}
					if r := followToReturn(eb); r != nil {
						fromScan[r] = true
					}
				}
				okAll, where := true, p.Pos(f.Pos())
				for _, b := range f.Blocks {
					r, isR := b.Instrs[len(b.Instrs)-1].(*ssa.Return)
					if !isR || fromScan[r] {
						continue
					}
					rs := retSyms(p, r)
					refusal := true
					hasErr := false
					for i, s := range rs {
						if isErrorType(f.Signature.Results().At(i).Type()) {
							hasErr = true
							if s.IsNil() {
								refusal = false
							}
						}
					}
					if !hasErr {
						for _, s := range rs {
							if !s.IsConst() {
								refusal = false
							}
						}
					}
					if !refusal {
						okAll, where = false, p.InstrPos(r)
					}
				}
				c.Check(okAll, rule, "seat-scan-only-answer:"+name, where, "every answer of "+name+" is a seat its scan matched against the given id; all other exits refuse", name+" hands out an answer that did not come from its scan of the seats for the given id (a remembered seat is not asked whose it is now)")
			}
		}
	}
	c.Min(rule, "seat look-up loops", n, 5)
	// the waiting predicate answers "not waiting" for an id that holds no seat
	if f := p.Method(smT, "IsPlayerBetweenDealerBB"); f != nil {
		ok := true
		nConst := 0
		for _, b := range f.Blocks {
			if r, isR := b.Instrs[len(b.Instrs)-1].(*ssa.Return); isR && len(r.Results) == 1 {
				if k, isK := r.Results[0].(*ssa.Const); isK {
					nConst++
					if v, _ := constBool(k); v {
						ok = false
					}
				}
			}
		}
		c.Check(ok && nConst >= 1, rule, "not-found:IsPlayerBetweenDealerBB", p.Pos(f.Pos()), "no seat / not initialised / short deck → false", "the waiting predicate answers true without having found the player's seat")
	}

	// not-found defaults
	for _, nm := range []string{"GetSeatID", "getSeatPlayer"} {
		f := p.Method(smT, nm)
		if f == nil {
			c.Bad(rule, "not-found:"+nm, "-", nm+" not found")
			continue
		}
		ok := false
		for _, b := range f.Blocks {
			if r, isR := b.Instrs[len(b.Instrs)-1].(*ssa.Return); isR {
				rs := retSyms(p, r)
				last := rs[len(rs)-1]
				if last.Kind == "global" && strings.HasSuffix(last.Name, "ErrPlayerNotFound") {
					ok = true
					for i, s := range rs[:len(rs)-1] {
						if typeShort(f.Signature.Results().At(i).Type()) == "int" {
							if k, isK := s.ConstInt(); !isK || k != -1 {
								ok = false
							}
						}
					}
				}
			}
		}
		c.Check(ok, rule, "not-found:"+nm, p.Pos(f.Pos()), "unknown id → (unset seat, ErrPlayerNotFound)", nm+" does not answer an unknown id with the unset seat and the not-found error")
	}

	// RemoveSeats / JoinPlayers: validate-all-then-apply, exact
	type batchOp struct {
		name     string
		isStore  func(in ssa.Instruction) (seat *Sym, ok bool, good bool)
		lookupOK func(a map[string]bool) bool
	}
	for _, nm := range []string{"RemoveSeats", "JoinPlayers"} {
		f := p.Method(smT, nm)
		if f == nil || len(f.Params) != 2 {
			c.Bad(rule, "batch:"+nm, "-", nm+" not found")
			continue
		}
		batch := f.Params[1]
		isID := func(s *Sym) bool {
			s = s.Strip()
			return s.Kind == "index" && symIsParam(s.Args[0], batch) && fullRange(s.Args[1], func(x *Sym) bool { return symIsParam(x, batch) })
		}
		var collected ssa.Value // the append chain's phi at the validation loop header
		dVal := "no validation loop"
		for _, h := range loopHeaders(f) {
			paths, ok := p.loopBodyPaths(h)
			var body []bodyPath
			hasRet := false
			for _, bp := range paths {
				if len(bp.Order) > 1 {
					body = append(body, bp)
					if bp.Exit && bp.ExitTo != nil && followToReturn(bp.ExitTo) != nil && sentinelOrErr(p, followToReturn(bp.ExitTo)) {
						hasRet = true
					}
				}
			}
			if !hasRet {
				continue
			}
			atom := func(g Guard) (string, bool, bool) {
				s := g.Cond.Strip()
				if cm := g.AsCmp(); cm != nil {
					l, r := cm.L.Strip(), cm.R.Strip()
					if l.Kind == "ind" && l.Ind.Phi != nil && l.Ind.Phi.Block() == h {
						return "", false, true
					}
					if r.IsNil() && l.Kind == "extract" && l.Args[0].IsCall("seatManager.getSeatPlayer", "seatManager.GetSeatID") && isID(l.Args[0].Strip().Args[1]) && l.V != nil && isErrorType(l.V.Type()) {
						return "known", cm.Op == token.EQL, cm.Op == token.EQL || cm.Op == token.NEQ
					}
					return "", false, false
				}
				if s.Kind == "extract" && s.Name == "1" && s.Args[0].Strip().Kind == "lookup" && s.Args[0].Strip().Args[0].IsCall("seatManager.getOccupiedPlayerSeatIDs") && isID(s.Args[0].Strip().Args[1]) {
					return "known", g.Val, true
				}
				return "", false, false
			}
			collects := func(bp bodyPath) bool {
				for _, b := range bp.Order {
					for _, in := range b.Instrs {
						if call, isC := in.(*ssa.Call); isC {
							if bi, isB := call.Call.Value.(*ssa.Builtin); isB && bi.Name() == "append" && isIntSlice(call.Call.Args[0]) {
								e := appendedElem(p, call)
								if e == nil {
									continue
								}
								es := e.Strip()
								// the seat found for this very id
								fromLookup := es.Kind == "extract" && es.Args[0].Strip().Kind == "lookup" && es.Name == "0" && isID(es.Args[0].Strip().Args[1])
								fromCall := es.Kind == "extract" && es.Args[0].IsCall("seatManager.getSeatPlayer", "seatManager.GetSeatID") && isID(es.Args[0].Strip().Args[1]) && typeShort(es.V.Type()) == "int"
								if fromLookup || fromCall {
									collected = call.Call.Args[0]
									return true
								}
							}
						}
					}
				}
				return false
			}
			dVal = "cannot enumerate the validation loop"
			if ok && len(body) > 0 {
				dVal = tableCheck(body, atom, []string{"known"}, nil,
					map[string]func(bodyPath) bool{
						"reject the batch":      func(bp bodyPath) bool { return bp.Exit },
						"collect the id's seat": collects,
						"reject as not-found/err": func(bp bodyPath) bool {
							return bp.Exit && bp.ExitTo != nil && sentinelOrErr(p, followToReturn(bp.ExitTo))
						},
					},
					map[string]func(map[string]bool) bool{
						"reject the batch":        func(a map[string]bool) bool { return !a["known"] },
						"collect the id's seat":   func(a map[string]bool) bool { return a["known"] },
						"reject as not-found/err": func(a map[string]bool) bool { return !a["known"] },
					})
			}
		}
		c.Check(dVal == "", rule, "batch-validation:"+nm, p.Pos(f.Pos()), "unknown id ⇔ rejected; known id ⇔ its seat collected", nm+" validation: "+dVal)
		// collected list starts empty; apply loop covers it entirely and touches exactly those seats
		okApply, dApply := false, "no seat is updated"
		for _, b := range f.Blocks {
			for _, in := range b.Instrs {
				var seat *Sym
				good := false
				switch x := in.(type) {
				case *ssa.MapUpdate: // SeatData[seat] = nil
					if p.Sym(x.Map).Strip().IsField("seatManager", "SeatData") {
						seat = p.Sym(x.Key).Strip()
						good = nm == "RemoveSeats" && p.Sym(x.Value).IsNil()
					}
				case *ssa.Store: // SeatData[seat].IsIn = true
					a := p.Sym(x.Addr).Strip()
					if a.Kind == "field" && a.Owner == "SeatPlayer" && a.Args[0].Strip().Kind == "lookup" && a.Args[0].Strip().Args[0].Strip().IsField("seatManager", "SeatData") {
						seat = a.Args[0].Strip().Args[1].Strip()
						v, isB := p.Sym(x.Val).ConstBool()
						good = nm == "JoinPlayers" && a.Name == "IsIn" && isB && v
					}
				}
				if seat == nil {
					continue
				}
				okApply, dApply = true, ""
				if !good {
					okApply, dApply = false, "the update applied to the collected seats is not the operation's own (vacate the seat / mark seated-in true)"
				}
				if !(seat.Kind == "index" && fullRange(seat.Args[1], func(z *Sym) bool { return z.String() == seat.Args[0].Strip().String() })) {
					okApply, dApply = false, "the update is not applied to every collected seat ("+seat.String()+")"
				} else if lst := seat.Args[0].Strip(); lst.V != nil {
					// origins of the list: empty make + the appends of the validation loop
					for _, o := range appendOrigins(lst.V) {
						if !isEmptySlice(p.Sym(o)) {
							okApply, dApply = false, "the list of seats to update does not start empty ("+p.Sym(o).String()+")"
						}
					}
				}
			}
		}
		_ = collected
		c.Check(okApply, rule, "batch-apply:"+nm, p.Pos(f.Pos()), "every collected seat, and only those, updated", nm+" application: "+dApply)
	}
}

func sentinelOrErr(p *Prog, r *ssa.Return) bool {
	if r == nil {
		return false
	}
	rs := retSyms(p, r)
	if len(rs) == 0 {
		return false
	}
	last := rs[len(rs)-1]
	return !last.IsNil()
}

// appendOrigins: the non-append, non-phi values an append chain starts from.
func appendOrigins(v ssa.Value) []ssa.Value {
	var out []ssa.Value
	seen := map[ssa.Value]bool{}
	var walk func(v ssa.Value)
	walk = func(v ssa.Value) {
		if seen[v] {
			return
		}
		seen[v] = true
		switch x := v.(type) {
		case *ssa.Phi:
			for _, e := range x.Edges {
				walk(e)
			}
			return
		case *ssa.Call:
			if b2, isB2 := x.Call.Value.(*ssa.Builtin); isB2 && b2.Name() == "append" {
				walk(x.Call.Args[0])
				return
			}
		case *ssa.UnOp:
			// a local captured by a closure lives in a cell: its values are what is stored there
			if al, isAl := x.X.(*ssa.Alloc); isAl && x.Op == token.MUL && al.Referrers() != nil {
				n := 0
				for _, r := range *al.Referrers() {
					if st, isSt := r.(*ssa.Store); isSt && st.Addr == ssa.Value(al) {
						n++
						walk(st.Val)
					}
				}
				if n > 0 {
					return
				}
			}
		}
		out = append(out, v)
	}
	walk(v)
	return out
}

// checkSeatFlagDefs (C05.R9): the operations through which the engine reads and writes
// eligibility in the seat manager.
func checkSeatFlagDefs(c *Ctx, rule string) {
	p := c.P
	smT := p.singleImpl("/seat_manager", "SeatManager")
	if smT == nil {
		c.Bad(rule, "seat-flags", "-", "seat manager not found")
		return
	}
	seatOf := func(s *Sym, idParam *ssa.Parameter) (*ssa.Call, bool) { // seat found for the id parameter
		s = s.Strip()
		if s.Kind == "extract" && s.Args[0].IsCall("seatManager.getSeatPlayer", "seatManager.GetSeatID") && symIsParam(s.Args[0].Strip().Args[1], idParam) && s.V != nil && typeShort(s.V.Type()) == "int" {
			call, ok := s.Args[0].Strip().V.(*ssa.Call)
			return call, ok
		}
		return nil, false
	}
	// UpdatePlayerHasChips: SeatData[seat of id].HasChips = the flag given, only when the id is known
	if f := p.Method(smT, "UpdatePlayerHasChips"); f != nil && len(f.Params) == 3 {
		n, ok, d := 0, true, ""
		for _, ss := range p.Stores([]*ssa.Function{f}) {
			if ss.Owner != "SeatPlayer" {
				continue
			}
			n++
			a := ss.Addr.Strip()
			call, isSeat := (*ssa.Call)(nil), false
			if a.Args[0].Strip().Kind == "lookup" && a.Args[0].Strip().Args[0].Strip().IsField("seatManager", "SeatData") {
				call, isSeat = seatOf(a.Args[0].Strip().Args[1], f.Params[1])
			}
			switch {
			case ss.Field != "HasChips":
				ok, d = false, "the has-chips refresh writes SeatPlayer."+ss.Field
			case !symIsParam(ss.Val, f.Params[2]):
				ok, d = false, "the has-chips flag is set to "+ss.Val.String()+", not the value given"
			case !isSeat:
				ok, d = false, "the flag is not written to the seat found for the given player id"
			case !nilGuard(p.Guards(ss.Instr), true, func(x *Sym) bool { return isErrOf(x, call) }):
				ok, d = false, "the flag is written without the look-up of the player having succeeded"
			}
		}
		c.Check(ok && n == 1, rule, "has-chips-refresh:definition", p.Pos(f.Pos()), "SeatData[seat of id].HasChips ← flag, when found", "UpdatePlayerHasChips: "+d+fmt.Sprintf(" (%d store(s))", n))
		okErr := errorPropagates(p, f)
		c.Check(okErr, rule, "has-chips-refresh:unknown-id", p.Pos(f.Pos()), "look-up failure returned", "UpdatePlayerHasChips does not return the look-up error for an unknown id")
	} else {
		c.Bad(rule, "has-chips-refresh:definition", "-", "UpdatePlayerHasChips not found")
	}
	// IsPlayerActive: (Active() of the seat found for the id, nil) | (false, err)
	if f := p.Method(smT, "IsPlayerActive"); f != nil && len(f.Params) == 2 {
		okA, okE := false, false
		for _, b := range f.Blocks {
			r, isR := b.Instrs[len(b.Instrs)-1].(*ssa.Return)
			if !isR {
				continue
			}
			rs := retSyms(p, r)
			if len(rs) != 2 {
				continue
			}
			if rs[1].IsNil() {
				okA = false
				if rs[0].IsCall("SeatPlayer.Active") {
					x := rs[0].Args[0].Strip()
					if x.Kind == "lookup" && x.Args[0].Strip().IsField("seatManager", "SeatData") {
						if call, isSeat := seatOf(x.Args[1], f.Params[1]); isSeat && nilGuard(p.Guards(r), true, func(z *Sym) bool { return isErrOf(z, call) }) {
							okA = true
						}
					} else if x.Kind == "extract" && x.Args[0].IsCall("seatManager.getSeatPlayer") && symIsParam(x.Args[0].Strip().Args[1], f.Params[1]) {
						okA = true
					}
				}
			} else {
				v, isB := rs[0].ConstBool()
				okE = isB && !v && rs[1].Kind == "extract"
			}
		}
		c.Check(okA, rule, "eligibility-query:definition", p.Pos(f.Pos()), "Active() of the seat found for the id", "IsPlayerActive does not answer with the eligibility of the seat found for the given id")
		c.Check(okE, rule, "eligibility-query:unknown-id", p.Pos(f.Pos()), "(false, error) for an unknown id", "IsPlayerActive does not answer (false, error) for an unknown id")
	} else {
		c.Bad(rule, "eligibility-query:definition", "-", "IsPlayerActive not found")
	}
	// InitPositions wrapper: refuses when already initialised; marks initialised only after success
	if f := p.Method(smT, "InitPositions"); f != nil {
		var inner *ssa.Call
		for _, ci := range Calls(f) {
			if call, isCall := ci.(*ssa.Call); isCall && calleeName(call.Common()) == "seatManager.initPositions" {
				inner = call
			}
		}
		n, ok, d := 0, inner != nil, "the wrapper does not call the initialisation"
		for _, ss := range p.Stores([]*ssa.Function{f}) {
			if ss.Owner == "seatManager" && ss.Field == "IsInit" {
				n++
				v, isB := ss.Val.ConstBool()
				if !(isB && v) {
					ok, d = false, "IsInit is set to "+ss.Val.String()
				} else if inner == nil || !nilGuard(p.Guards(ss.Instr), true, func(x *Sym) bool { return isErrOf(x, inner) }) {
					ok, d = false, "IsInit is set without the initialisation having succeeded"
				}
			}
		}
		if ok && n != 1 {
			ok, d = false, fmt.Sprintf("IsInit is set %d time(s) by the wrapper", n)
		}
		if ok && !guardedBy(p.Guards(inner), false, func(x *Sym) bool { return x.IsField("seatManager", "IsInit") }) {
			ok, d = false, "positions can be initialised a second time"
		}
		c.Check(ok, rule, "init-wrapper", p.Pos(f.Pos()), "initialises once; IsInit ← true only after success", "InitPositions: "+d)
	}
}

// errorPropagates: some return of f yields the error result of a call made in f, under that
// error being non-nil.
func errorPropagates(p *Prog, f *ssa.Function) bool {
	for _, b := range f.Blocks {
		r, isR := b.Instrs[len(b.Instrs)-1].(*ssa.Return)
		if !isR {
			continue
		}
		rs := retSyms(p, r)
		if len(rs) == 0 {
			continue
		}
		last := rs[len(rs)-1]
		if last.Kind == "extract" && last.Args[0].Strip().Kind == "call" {
			if call, ok := last.Args[0].Strip().V.(*ssa.Call); ok && nilGuard(p.Guards(r), false, func(x *Sym) bool { return isErrOf(x, call) }) {
				return true
			}
		}
	}
	return false
}

// checkSeatGetters (C06.R6): the three seat getters return their own field; the seat list
// from the dealer is one full circle of SeatData starting at the dealer seat.
func checkSeatGetters(c *Ctx, rule string) {
	p := c.P
	smT := p.singleImpl("/seat_manager", "SeatManager")
	if smT == nil {
		return
	}
	for _, w := range []string{"Dealer", "SB", "BB"} {
		f := p.Method(smT, "Current"+w+"SeatID")
		ok := false
		if f != nil {
			ok = true
			for _, b := range f.Blocks {
				if r, isR := b.Instrs[len(b.Instrs)-1].(*ssa.Return); isR {
					rs := retSyms(p, r)
					if !(len(rs) == 1 && rs[0].IsField("seatManager", w+"SeatID")) {
						ok = false
					}
				}
			}
		}
		c.Check(ok, rule, "getter:"+w, "-", "Current"+w+"SeatID returns "+w+"SeatID", "the "+w+" seat getter does not return the seat manager's "+w+" seat")
	}
	if f := p.Method(smT, "ListPlayerSeatsFromDealer"); f != nil {
		ok, d := false, "no element is appended"
		for _, ci := range Calls(f) {
			cs := p.CallSym(ci)
			if cs.Kind != "builtin" || cs.Name != "append" {
				continue
			}
			e := appendedElem(p, ci)
			if e == nil {
				continue
			}
			es := e.Strip()
			ok, d = true, ""
			if !(es.Kind == "lookup" && es.Args[0].Strip().IsField("seatManager", "SeatData")) {
				ok, d = false, "elements are "+es.String()
				continue
			}
			k := es.Args[1].Strip()
			if !(k.Kind == "binop" && k.Name == "%" && k.Args[1].Strip().IsField("seatManager", "MaxSeat") && k.Args[0].Strip().Kind == "ind") {
				ok, d = false, "seat "+k.String()+" is not a position modulo the seat count"
				continue
			}
			iv := k.Args[0].Strip().Ind
			okC := iv.First.Strip().IsField("seatManager", "DealerSeatID") && iv.Step == 1 && !iv.Incl && iv.Op == token.LSS && iv.Bound != nil
			if okC {
				b := iv.Bound.Strip()
				okC = false
				if b.Kind == "binop" && b.Name == "+" {
					x, y := b.Args[0].Strip(), b.Args[1].Strip()
					for i := 0; i < 2; i++ {
						if x.IsField("seatManager", "MaxSeat") && y.IsField("seatManager", "DealerSeatID") {
							okC = true
						}
						x, y = y, x
					}
				}
			}
			if !okC {
				ok, d = false, "the list is not one full circle starting at the dealer seat"
			}
			for _, o := range appendOrigins(ci.Common().Args[0]) {
				if !isEmptySlice(p.Sym(o)) {
					ok, d = false, "the list does not start empty"
				}
			}
		}
		c.Check(ok, rule, "seat-list-from-dealer", p.Pos(f.Pos()), "SeatData[i % MaxSeat], i = dealer … dealer+MaxSeat-1", "ListPlayerSeatsFromDealer: "+d)
	}
}
