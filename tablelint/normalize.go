package main

// Normalisation: helpers that are new relative to the pinned tree are inlined back into their callers
// before the rules look at the program.
//
// The rules find their instances by role, but most of them then reason about ONE function: "the store in the
// function that starts the hand", "every path of the continue step". The commonest behaviour-preserving
// refactoring — extract function — moves such a store into a helper the rule has never heard of, and a rule
// that does not see it there would raise an alarm on a tree on which the property holds. Instead of making
// a hundred rules inter-procedural, the program is brought back to the shape the rules were written for:
// every function or method whose (canonical) name is not among the functions of the pinned tree
// (baseline_funcs.go) and all of whose uses are plain calls is expanded at its call sites, in source, and the
// result is loaded again through an overlay. Supported call positions:
//
//	h(a…)                       a statement
//	return h(a…)                h has the caller's result arity (the helper's returns become the caller's)
//	x, y := h(a…) / = / if x := h(a…); c {…}
//	… h(a…) …                   anywhere in the expression of an expression / return / assignment statement or
//	                            of an if condition (single result; not under && / ||, not in a closure): the
//	                            value is computed into a temporary in front of the statement
//
// Parameters (and the receiver) become local bindings of the argument expressions, evaluated once, in order,
// as a call evaluates them — unless the argument is the never-assigned variable of the same name, which is
// then used directly. A helper with one trailing return is expanded in line; one with several returns is
// expanded inside a labelled one-armed switch, each "return e" becoming "result = e; break label".
// Helpers with defer, recover, labels, named results or variadic parameters, helpers used as values, recursive
// helpers and helpers in another file than a caller are left alone: the rules then see the program as it is
// (and may report what they cannot place). An exported new helper is expanded at its call sites too, but its
// declaration stays: it is new API surface and is judged as such. A bug inside an extracted helper is inlined
// along with it and is judged where it now sits. The normalised program is only analysed, never run.

import (
	"bytes"
	"fmt"
	"go/ast"
	"go/token"
	"go/types"
	"sort"
	"strings"

	"golang.org/x/tools/go/packages"
)

type inlineSite struct {
	file string
	s, e int // byte range to replace
	text func() (string, bool)
}

type normaliser struct {
	pk    *packages.Package
	fset  *token.FileSet
	src   map[string][]byte
	sites map[string][]*inlineSite // by file
	seq   int
}

func (n *normaliser) off(p token.Pos) int { return n.fset.Position(p).Offset }

func (n *normaliser) srcOf(file string, s, e token.Pos) string {
	return string(n.src[file][n.off(s):n.off(e)])
}

// render returns src[s:e] of file with every registered site inside the range replaced (recursively).
func (n *normaliser) render(file string, s, e int) (string, bool) {
	var inner []*inlineSite
	for _, st := range n.sites[file] {
		if st.s >= s && st.e <= e {
			inner = append(inner, st)
		}
	}
	sort.SliceStable(inner, func(i, j int) bool {
		if inner[i].s != inner[j].s {
			return inner[i].s < inner[j].s
		}
		return inner[i].e < inner[j].e // an insertion (empty range) comes before a replacement starting there
	})
	var b bytes.Buffer
	pos := s
	for _, st := range inner {
		if st.s < pos {
			continue // nested inside a site already rendered
		}
		b.Write(n.src[file][pos:st.s])
		t, ok := st.text()
		if !ok {
			return "", false
		}
		b.WriteString(t)
		pos = st.e
	}
	b.Write(n.src[file][pos:e])
	return b.String(), true
}

type nHelper struct {
	decl *ast.FuncDecl
	obj  *types.Func
	file string
	rets []*ast.ReturnStmt
}

// normalise builds an overlay in which the helpers selected by isNew are inlined. It returns the overlay,
// the names of the helpers inlined, and the names of new helpers it had to leave alone.
func normalise(pkgs []*packages.Package, overlay map[string][]byte, readFile func(string) ([]byte, error), isNew func(*types.Func) bool) (map[string][]byte, []string, []string) {
	var inlined, left []string
	out := map[string][]byte{}
	for _, pk := range pkgs {
		if !isProdPath(pk.PkgPath) || pk.TypesInfo == nil {
			continue
		}
		n := &normaliser{pk: pk, fset: pk.Fset, src: map[string][]byte{}, sites: map[string][]*inlineSite{}}
		fileOf := map[*ast.File]string{}
		parent := map[ast.Node]ast.Node{}
		for _, f := range pk.Syntax {
			fn := pk.Fset.Position(f.Pos()).Filename
			if strings.HasSuffix(fn, "_test.go") {
				continue
			}
			fileOf[f] = fn
			if b, ok := overlay[fn]; ok {
				n.src[fn] = b
			} else if b, err := readFile(fn); err == nil {
				n.src[fn] = b
			}
			var stack []ast.Node
			ast.Inspect(f, func(nd ast.Node) bool {
				if nd == nil {
					stack = stack[:len(stack)-1]
					return true
				}
				if len(stack) > 0 {
					parent[nd] = stack[len(stack)-1]
				}
				stack = append(stack, nd)
				return true
			})
		}
		var cands []*nHelper
		for f, fn := range fileOf {
			for _, d := range f.Decls {
				fd, ok := d.(*ast.FuncDecl)
				if !ok || fd.Body == nil || fd.Name.Name == "init" || fd.Name.Name == "main" {
					continue
				}
				obj, _ := pk.TypesInfo.Defs[fd.Name].(*types.Func)
				if obj == nil || !isNew(obj) {
					continue
				}
				cands = append(cands, &nHelper{decl: fd, obj: obj, file: fn, rets: returnsOutsideClosures(fd.Body)})
			}
		}
		sort.Slice(cands, func(i, j int) bool { return cands[i].obj.Name() < cands[j].obj.Name() })
		for _, h := range cands {
			name := h.obj.Name()
			ok := helperInlinable(h.decl)
			var sites []*inlineSite
			if ok {
				for f, fn := range fileOf {
					ast.Inspect(f, func(nd ast.Node) bool {
						id, isID := nd.(*ast.Ident)
						if !isID || !ok || pk.TypesInfo.Uses[id] != types.Object(h.obj) {
							return true
						}
						var fun ast.Node = id
						if sel, isSel := parent[id].(*ast.SelectorExpr); isSel && sel.Sel == id {
							fun = sel
						}
						call, isCall := parent[fun].(*ast.CallExpr)
						if !isCall || call.Fun != fun.(ast.Expr) || (fn != h.file && !importsSuffice(pk, h.decl, f)) {
							ok = false
							return true
						}
						sts := n.site(h, call, fn, parent)
						if sts == nil {
							ok = false
							return true
						}
						sites = append(sites, sts...)
						return true
					})
				}
			}
			if !ok || len(sites) == 0 {
				left = append(left, name)
				continue
			}
			for _, st := range sites {
				n.sites[st.file] = append(n.sites[st.file], st)
			}
			if !h.decl.Name.IsExported() {
				ds := h.decl.Pos()
				if h.decl.Doc != nil {
					ds = h.decl.Doc.Pos()
				}
				n.sites[h.file] = append(n.sites[h.file], &inlineSite{file: h.file, s: n.off(ds), e: n.off(h.decl.End()), text: func() (string, bool) { return "", true }})
			}
			inlined = append(inlined, name)
		}
		for file := range n.sites {
			t, ok := n.render(file, 0, len(n.src[file]))
			if !ok {
				return nil, nil, append(left, inlined...)
			}
			out[file] = []byte(t)
		}
	}
	sort.Strings(inlined)
	sort.Strings(left)
	return out, inlined, left
}

func helperInlinable(fd *ast.FuncDecl) bool {
	if fd.Type.TypeParams != nil {
		return false
	}
	if fd.Type.Results != nil {
		for _, r := range fd.Type.Results.List {
			if len(r.Names) > 0 {
				return false
			}
		}
	}
	for _, p := range fd.Type.Params.List {
		if _, isEll := p.Type.(*ast.Ellipsis); isEll {
			return false
		}
	}
	if fd.Recv != nil && (len(fd.Recv.List) != 1 || len(fd.Recv.List[0].Names) != 1) {
		return false
	}
	ok := true
	ast.Inspect(fd.Body, func(nd ast.Node) bool {
		switch x := nd.(type) {
		case *ast.DeferStmt, *ast.LabeledStmt:
			ok = false
		case *ast.BranchStmt:
			if x.Label != nil {
				ok = false
			}
		case *ast.CallExpr:
			if id, isID := x.Fun.(*ast.Ident); isID && id.Name == "recover" {
				ok = false
			}
		case *ast.Ident:
			if x.Name == fd.Name.Name && x != fd.Name {
				ok = false // possibly recursive
			}
		}
		return ok
	})
	return ok
}

// returnsOutsideClosures lists the return statements of the body that belong to the function itself.
func returnsOutsideClosures(body *ast.BlockStmt) []*ast.ReturnStmt {
	var out []*ast.ReturnStmt
	ast.Inspect(body, func(nd ast.Node) bool {
		switch x := nd.(type) {
		case *ast.FuncLit:
			return false
		case *ast.ReturnStmt:
			out = append(out, x)
		}
		return true
	})
	return out
}

func inList(p ast.Node) bool {
	switch p.(type) {
	case *ast.BlockStmt, *ast.CaseClause, *ast.CommClause:
		return true
	}
	return false
}

// site plans the expansion of one call of helper h (one or two replacement sites; nil: not supported).
func (n *normaliser) site(h *nHelper, call *ast.CallExpr, cf string, parent map[ast.Node]ast.Node) []*inlineSite {
	pk, file := n.pk, h.file // file: where the helper's text lives; cf: the file of the call
	nRes := 0
	if h.decl.Type.Results != nil {
		nRes = len(h.decl.Type.Results.List)
	}
	var caller *ast.FuncDecl
	inClosure := false
	for x := parent[call]; x != nil; x = parent[x] {
		switch y := x.(type) {
		case *ast.FuncDecl:
			caller = y
		case *ast.FuncLit:
			inClosure = true
		}
	}
	if caller == nil || caller == h.decl {
		return nil
	}
	var last ast.Stmt
	if len(h.decl.Body.List) > 0 {
		last = h.decl.Body.List[len(h.decl.Body.List)-1]
	}
	trailingOnly := len(h.rets) == 0 || (len(h.rets) == 1 && ast.Stmt(h.rets[0]) == last)

	// ---- where does the call sit?
	shape := ""
	var host ast.Stmt // the statement that is replaced
	var assign *ast.AssignStmt
	switch p := parent[call].(type) {
	case *ast.ExprStmt:
		if nRes == 0 && inList(parent[p]) {
			shape, host = "stmt", p
			callerVoid := caller.Type.Results == nil || len(caller.Type.Results.List) == 0
			if callerVoid && !inClosure && len(caller.Body.List) > 0 && caller.Body.List[len(caller.Body.List)-1] == ast.Stmt(p) {
				shape = "tail"
			}
		}
	case *ast.ReturnStmt:
		if len(p.Results) == 1 && nRes > 0 && !inClosure && inList(parent[p]) {
			cr := 0
			named := false
			if caller.Type.Results != nil {
				for _, r := range caller.Type.Results.List {
					named = named || len(r.Names) > 0
					cr++
				}
			}
			if !named && cr == nRes {
				shape, host = "tail", p
			}
		}
	case *ast.AssignStmt:
		if len(p.Rhs) == 1 && len(p.Lhs) == nRes && nRes > 0 && (p.Tok == token.DEFINE || p.Tok == token.ASSIGN) {
			if inList(parent[p]) {
				shape, host, assign = "assign", p, p
			} else if ifs, isIf := parent[p].(*ast.IfStmt); isIf && ifs.Init == ast.Stmt(p) && inList(parent[ifs]) {
				shape, host, assign = "if-init", ifs, p
			}
		}
	}
	if shape == "" {
		// expression position: the value is computed in front of the enclosing statement
		if nRes != 1 {
			return nil
		}
		var st ast.Stmt
		var prev ast.Node = call
		for x := parent[call]; x != nil; prev, x = x, parent[x] {
			if be, isB := x.(*ast.BinaryExpr); isB && (be.Op == token.LAND || be.Op == token.LOR) && be.Y == prev {
				return nil
			}
			if _, isL := x.(*ast.FuncLit); isL {
				return nil
			}
			if s, isS := x.(ast.Stmt); isS {
				st = s
				break
			}
		}
		switch s := st.(type) {
		case *ast.ExprStmt, *ast.ReturnStmt, *ast.AssignStmt, *ast.IncDecStmt:
			if !inList(parent[s]) {
				return nil
			}
		case *ast.IfStmt:
			// only in the condition, and not an else-if
			if !(call.Pos() >= s.Cond.Pos() && call.End() <= s.Cond.End()) || !inList(parent[s]) {
				return nil
			}
		default:
			return nil
		}
		shape, host = "expr", st
	}

	// ---- parameter bindings
	assigned := map[string]bool{}
	ast.Inspect(h.decl.Body, func(nd ast.Node) bool {
		mark := func(e ast.Expr) {
			if id, ok := e.(*ast.Ident); ok {
				assigned[id.Name] = true
			}
		}
		switch x := nd.(type) {
		case *ast.AssignStmt:
			for _, l := range x.Lhs {
				mark(l)
			}
		case *ast.IncDecStmt:
			mark(x.X)
		case *ast.UnaryExpr:
			if x.Op == token.AND {
				mark(x.X)
			}
		case *ast.RangeStmt:
			if x.Key != nil {
				mark(x.Key)
			}
			if x.Value != nil {
				mark(x.Value)
			}
		}
		return true
	})
	sameName := func(param string, arg ast.Expr) bool {
		id, ok := arg.(*ast.Ident)
		return ok && id.Name == param && !assigned[param]
	}
	var bNames, bArgs, bTypes []string
	if h.decl.Recv != nil {
		sel, ok := call.Fun.(*ast.SelectorExpr)
		if !ok {
			return nil
		}
		rt, okT := pk.TypesInfo.Types[sel.X]
		recvObj := pk.TypesInfo.Defs[h.decl.Recv.List[0].Names[0]]
		if !okT || recvObj == nil || !types.Identical(rt.Type, recvObj.Type()) {
			return nil
		}
		if rn := h.decl.Recv.List[0].Names[0].Name; !sameName(rn, sel.X) {
			bNames, bArgs, bTypes = append(bNames, rn), append(bArgs, n.srcOf(cf, sel.X.Pos(), sel.X.End())), append(bTypes, "")
		}
	} else if _, isID := call.Fun.(*ast.Ident); !isID {
		return nil
	}
	ai := 0
	for _, p := range h.decl.Type.Params.List {
		if len(p.Names) == 0 {
			ai++
			continue
		}
		for _, nm := range p.Names {
			if ai >= len(call.Args) {
				return nil
			}
			if nm.Name != "_" && !sameName(nm.Name, call.Args[ai]) {
				bNames = append(bNames, nm.Name)
				bArgs = append(bArgs, n.srcOf(cf, call.Args[ai].Pos(), call.Args[ai].End()))
				bTypes = append(bTypes, n.srcOf(file, p.Type.Pos(), p.Type.End()))
			}
			ai++
		}
	}
	if ai != len(call.Args) {
		return nil
	}
	var resTypes []string
	if h.decl.Type.Results != nil {
		for _, r := range h.decl.Type.Results.List {
			resTypes = append(resTypes, n.srcOf(file, r.Type.Pos(), r.Type.End()))
		}
	}
	n.seq++
	id := n.seq

	// pre: temporaries for the arguments (outer scope); in: the parameter names (inner scope)
	bindings := func() (pre, in string) {
		var p, i strings.Builder
		for k := range bNames {
			if bTypes[k] == "" {
				fmt.Fprintf(&p, "inl%dA%d := %s\n", id, k, bArgs[k])
			} else {
				fmt.Fprintf(&p, "var inl%dA%d %s = %s\n", id, k, bTypes[k], bArgs[k])
			}
			fmt.Fprintf(&i, "%s := inl%dA%d\n_ = %s\n", bNames[k], id, k, bNames[k])
		}
		return p.String(), i.String()
	}
	bs, be := n.off(h.decl.Body.Lbrace)+1, n.off(h.decl.Body.Rbrace)
	resNames := make([]string, len(resTypes))
	for k := range resTypes {
		resNames[k] = fmt.Sprintf("inl%dR%d", id, k)
	}
	retAssign := func(ret *ast.ReturnStmt) (string, bool) {
		if len(ret.Results) == 0 {
			return "", true
		}
		if len(ret.Results) != len(resTypes) {
			return "", false
		}
		var rhs []string
		for _, r := range ret.Results {
			t, ok := n.render(file, n.off(r.Pos()), n.off(r.End()))
			if !ok {
				return "", false
			}
			rhs = append(rhs, t)
		}
		return strings.Join(resNames, ", ") + " = " + strings.Join(rhs, ", ") + "\n", true
	}
	// value: statements that leave the helper's results in resNames (declared by the user of value)
	value := func() (string, bool) {
		_, in := bindings()
		if trailingOnly {
			end, tailAssign := be, ""
			if len(h.rets) == 1 {
				end = n.off(h.rets[0].Pos())
				ta, ok := retAssign(h.rets[0])
				if !ok {
					return "", false
				}
				tailAssign = ta
			}
			body, ok := n.render(file, bs, end)
			if !ok {
				return "", false
			}
			return "{\n" + in + body + "\n" + tailAssign + "}\n", true
		}
		// several returns: a labelled one-armed switch, "return e" → "results = e; break label"
		label := fmt.Sprintf("inl%dL", id)
		var b strings.Builder
		pos := bs
		for _, ret := range h.rets {
			gap, ok := n.render(file, pos, n.off(ret.Pos()))
			if !ok {
				return "", false
			}
			b.WriteString(gap)
			ra, ok := retAssign(ret)
			if !ok {
				return "", false
			}
			fmt.Fprintf(&b, "{\n%sbreak %s\n}", ra, label)
			pos = n.off(ret.End())
		}
		gap, ok := n.render(file, pos, be)
		if !ok {
			return "", false
		}
		b.WriteString(gap)
		return label + ":\nswitch {\ndefault:\n" + in + b.String() + "\n}\n", true
	}
	decls := func() string {
		var d strings.Builder
		for k, t := range resTypes {
			fmt.Fprintf(&d, "var %s %s\n", resNames[k], t)
		}
		return d.String()
	}
	lhsText := func() string {
		var lhs []string
		for _, l := range assign.Lhs {
			lhs = append(lhs, n.srcOf(cf, l.Pos(), l.End()))
		}
		return strings.Join(lhs, ", ") + " " + assign.Tok.String() + " " + strings.Join(resNames, ", ")
	}

	// A helper with several returns whose value feeds ONE self-contained statement (a return, an expression
	// statement, an if): the statement is repeated at each return with that return's values in place, which is
	// the shape the code had before the values were merged through the helper (k guarded call sites instead of
	// one call site with a φ argument).
	if !trailingOnly && (shape == "expr" || shape == "if-init") {
		_, isRet := host.(*ast.ReturnStmt)
		_, isExpr := host.(*ast.ExprStmt)
		_, isIf := host.(*ast.IfStmt)
		if (isRet && !inClosure) || isExpr || isIf {
			label := fmt.Sprintf("inl%dL", id)
			return []*inlineSite{{file: cf, s: n.off(host.Pos()), e: n.off(host.End()), text: func() (string, bool) {
				pre, in := bindings()
				cont := func(ret *ast.ReturnStmt) (string, bool) {
					var vals []string
					for _, r := range ret.Results {
						t, ok := n.render(file, n.off(r.Pos()), n.off(r.End()))
						if !ok {
							return "", false
						}
						vals = append(vals, t)
					}
					if len(vals) != len(resTypes) {
						return "", false
					}
					if shape == "if-init" {
						ifs := host.(*ast.IfStmt)
						rest, ok := n.render(cf, n.off(ifs.Cond.Pos()), n.off(ifs.End()))
						if !ok {
							return "", false
						}
						var lhs []string
						for _, l := range assign.Lhs {
							lhs = append(lhs, n.srcOf(cf, l.Pos(), l.End()))
						}
						// "v, ok := h(); if ok {…}" with this return's ok a literal: only the branch taken is kept
						ifText := "if " + rest
						condID, neg := ifs.Cond, false
						if u, isU := condID.(*ast.UnaryExpr); isU && u.Op == token.NOT {
							condID, neg = u.X, true
						}
						// … likewise "if err := h(); err != nil {…}" with this return's err the literal nil
						nilCmp := false
						if be, isBE := condID.(*ast.BinaryExpr); isBE && !neg && (be.Op == token.NEQ || be.Op == token.EQL) {
							if y, isY := be.Y.(*ast.Ident); isY && y.Name == "nil" {
								condID, nilCmp, neg = be.X, true, be.Op == token.NEQ
							}
						}
						if cid, isID := condID.(*ast.Ident); isID {
							for k, l := range lhs {
								isLit := vals[k] == "true" || vals[k] == "false"
								if nilCmp {
									isLit = vals[k] == "nil"
								}
								if l == cid.Name && isLit {
									// bool: taken ⇔ literal xor negation; nil comparison: "x == nil" taken, "x != nil" not
									taken := (vals[k] == "true") != neg
									if nilCmp {
										taken = !neg
									}
									switch {
									case taken:
										t, ok := n.render(cf, n.off(ifs.Body.Pos()), n.off(ifs.Body.End()))
										if !ok {
											return "", false
										}
										ifText = t
									case ifs.Else != nil:
										t, ok := n.render(cf, n.off(ifs.Else.Pos()), n.off(ifs.Else.End()))
										if !ok {
											return "", false
										}
										ifText = t
									default:
										ifText = ""
									}
								}
							}
						}
						if assign.Tok == token.DEFINE {
							// typed declarations: an untyped constant result takes the helper's result type
							var d strings.Builder
							for k, l := range lhs {
								if l == "_" {
									fmt.Fprintf(&d, "_ = %s\n", vals[k])
								} else {
									fmt.Fprintf(&d, "var %s %s = %s\n_ = %s\n", l, resTypes[k], vals[k], l)
								}
							}
							return d.String() + ifText, true
						}
						return strings.Join(lhs, ", ") + " " + assign.Tok.String() + " " + strings.Join(vals, ", ") + "\n" + ifText, true
					}
					a, ok1 := n.render(cf, n.off(host.Pos()), n.off(call.Pos()))
					b, ok2 := n.render(cf, n.off(call.End()), n.off(host.End()))
					if !ok1 || !ok2 {
						return "", false
					}
					return a + resTypes[0] + "(" + vals[0] + ")" + b, true
				}
				var b strings.Builder
				pos := bs
				for _, ret := range h.rets {
					gap, ok := n.render(file, pos, n.off(ret.Pos()))
					if !ok {
						return "", false
					}
					b.WriteString(gap)
					c, ok := cont(ret)
					if !ok {
						return "", false
					}
					if isRet {
						fmt.Fprintf(&b, "{\n%s\n}", c)
					} else {
						fmt.Fprintf(&b, "{\n%s\nbreak %s\n}", c, label)
					}
					pos = n.off(ret.End())
				}
				gap, ok := n.render(file, pos, be)
				if !ok {
					return "", false
				}
				b.WriteString(gap)
				if isRet {
					return "{\n" + pre + "{\n" + in + b.String() + "\n}\n}", true
				}
				return "{\n" + pre + label + ":\nswitch {\ndefault:\n" + in + b.String() + "\n}\n}", true
			}}}
		}
	}

	switch shape {
	case "tail":
		return []*inlineSite{{file: cf, s: n.off(host.Pos()), e: n.off(host.End()), text: func() (string, bool) {
			pre, in := bindings()
			body, ok := n.render(file, bs, be)
			if !ok {
				return "", false
			}
			return "{\n" + pre + "{\n" + in + body + "\n}\n}", true
		}}}
	case "stmt":
		return []*inlineSite{{file: cf, s: n.off(host.Pos()), e: n.off(host.End()), text: func() (string, bool) {
			pre, _ := bindings()
			v, ok := value()
			if !ok {
				return "", false
			}
			return "{\n" + pre + v + "}", true
		}}}
	case "assign":
		return []*inlineSite{{file: cf, s: n.off(host.Pos()), e: n.off(host.End()), text: func() (string, bool) {
			pre, _ := bindings()
			v, ok := value()
			if !ok {
				return "", false
			}
			return pre + decls() + v + lhsText(), true
		}}}
	case "if-init":
		ifs := host.(*ast.IfStmt)
		return []*inlineSite{{file: cf, s: n.off(host.Pos()), e: n.off(host.End()), text: func() (string, bool) {
			pre, _ := bindings()
			v, ok := value()
			if !ok {
				return "", false
			}
			rest, ok := n.render(cf, n.off(ifs.Cond.Pos()), n.off(ifs.End()))
			if !ok {
				return "", false
			}
			return "{\n" + pre + decls() + v + lhsText() + "\nif " + rest + "\n}", true
		}}}
	case "expr":
		// two sites: the value is computed in front of the statement, the call itself becomes the temporary
		hostS := n.off(host.Pos())
		return []*inlineSite{
			{file: cf, s: hostS, e: hostS, text: func() (string, bool) {
				pre, _ := bindings()
				v, ok := value()
				if !ok {
					return "", false
				}
				return pre + decls() + v, true
			}},
			{file: cf, s: n.off(call.Pos()), e: n.off(call.End()), text: func() (string, bool) { return resNames[0], true }},
		}
	}
	return nil
}

// importsSuffice: every package the helper's body names is imported, under the same name, by the file f.
func importsSuffice(pk *packages.Package, h *ast.FuncDecl, f *ast.File) bool {
	have := map[string]string{} // local name → path
	for _, im := range f.Imports {
		path := strings.Trim(im.Path.Value, "\"")
		name := path[strings.LastIndex(path, "/")+1:]
		if im.Name != nil {
			name = im.Name.Name
		}
		have[name] = path
	}
	ok := true
	check := func(nd ast.Node) bool {
		if id, isID := nd.(*ast.Ident); isID {
			if pn, isPkg := pk.TypesInfo.Uses[id].(*types.PkgName); isPkg {
				if have[id.Name] != pn.Imported().Path() {
					ok = false
				}
			}
		}
		return ok
	}
	ast.Inspect(h.Body, check)
	ast.Inspect(h.Type, check)
	return ok
}
