package main

// Normalisation: helpers that are new relative to the pinned tree are inlined back into their callers
// before the rules look at the program.
//
// The rules find their instances by role, but most of them then reason about ONE function: "the store in the
// function that starts the hand", "every path of the continue step". The commonest behaviour-preserving
// refactoring — extract function — moves such a store into a helper the rule has never heard of, and a rule
// that does not see it there would raise an alarm on a tree on which the property holds. Instead of making
// a hundred rules inter-procedural, the program is brought back to the shape the rules were written for:
// every unexported function or method whose (canonical) name is not among the functions of the pinned tree
// (baseline_funcs.go) and all of whose uses are plain calls in one of three statement shapes is expanded at its
// call sites, in source, and the result is loaded again through an overlay:
//
//	h(a…)                 statement; h has no results and no return except a trailing bare one
//	return h(a…)          h has the caller's result arity
//	x, y := h(a…) / =     h has no return except one trailing "return e…"
//
// Parameters (and the receiver) become fresh local bindings of the argument expressions, evaluated once, in
// order, exactly as a call evaluates them. Helpers with defer, recover, labels, named results or variadic
// parameters, helpers used as values, and helpers in another file than a caller are left alone: the rules then
// see the program as it is (and may report what they cannot place). A bug inside an extracted helper is
// inlined along with it and is judged where it now sits.

import (
	"bytes"
	"fmt"
	"go/ast"
	"go/token"
	"go/types"
	"sort"
	"strings"

	"golang.org/x/tools/go/packages"
)

type inlineSite struct {
	file string
	s, e int // byte range of the statement to replace
	text func() (string, bool)
}

type normaliser struct {
	fset    *token.FileSet
	src     map[string][]byte
	sites   map[string][]*inlineSite // by file
	deleted map[string][][2]int      // helper declarations to drop, by file
	names   []string
	seq     int
}

func (n *normaliser) srcOf(file string, s, e token.Pos) string {
	return string(n.src[file][n.fset.Position(s).Offset:n.fset.Position(e).Offset])
}

// render returns src[s:e] of file with every registered site inside the range replaced (recursively).
func (n *normaliser) render(file string, s, e int) (string, bool) {
	var inner []*inlineSite
	for _, st := range n.sites[file] {
		if st.s >= s && st.e <= e {
			inner = append(inner, st)
		}
	}
	sort.Slice(inner, func(i, j int) bool { return inner[i].s < inner[j].s })
	var b bytes.Buffer
	pos := s
	for _, st := range inner {
		if st.s < pos {
			continue // nested inside a site already rendered
		}
		b.Write(n.src[file][pos:st.s])
		t, ok := st.text()
		if !ok {
			return "", false
		}
		b.WriteString(t)
		pos = st.e
	}
	b.Write(n.src[file][pos:e])
	return b.String(), true
}

// normalise builds an overlay in which the helpers selected by isNew are inlined. It returns the overlay,
// the names of the helpers inlined, and the names of new helpers it had to leave alone.
func normalise(pkgs []*packages.Package, overlay map[string][]byte, readFile func(string) ([]byte, error), isNew func(*types.Func) bool) (map[string][]byte, []string, []string) {
	var inlined, left []string
	out := map[string][]byte{}
	for _, pk := range pkgs {
		if !isProdPath(pk.PkgPath) || pk.TypesInfo == nil {
			continue
		}
		n := &normaliser{fset: pk.Fset, src: map[string][]byte{}, sites: map[string][]*inlineSite{}, deleted: map[string][][2]int{}}
		fileOf := map[*ast.File]string{}
		for _, f := range pk.Syntax {
			fn := pk.Fset.Position(f.Pos()).Filename
			if strings.HasSuffix(fn, "_test.go") {
				continue
			}
			fileOf[f] = fn
			if b, ok := overlay[fn]; ok {
				n.src[fn] = b
			} else if b, err := readFile(fn); err == nil {
				n.src[fn] = b
			}
		}
		// candidate helpers
		type helper struct {
			decl *ast.FuncDecl
			obj  *types.Func
			file string
		}
		var cands []*helper
		for f, fn := range fileOf {
			for _, d := range f.Decls {
				fd, ok := d.(*ast.FuncDecl)
				if !ok || fd.Body == nil || fd.Name.IsExported() || fd.Name.Name == "init" || fd.Name.Name == "main" {
					continue
				}
				obj, _ := pk.TypesInfo.Defs[fd.Name].(*types.Func)
				if obj == nil || !isNew(obj) {
					continue
				}
				cands = append(cands, &helper{fd, obj, fn})
			}
		}
		if len(cands) == 0 {
			continue
		}
		// enclosing function declaration and statement of every use
		for _, h := range cands {
			name := h.obj.Name()
			ok := helperInlinable(h.decl)
			type use struct {
				file   string
				caller *ast.FuncDecl
				stmt   ast.Stmt
				call   *ast.CallExpr
			}
			var uses []use
			if ok {
				for f, fn := range fileOf {
					parent := map[ast.Node]ast.Node{}
					var stack []ast.Node
					ast.Inspect(f, func(nd ast.Node) bool {
						if nd == nil {
							stack = stack[:len(stack)-1]
							return true
						}
						if len(stack) > 0 {
							parent[nd] = stack[len(stack)-1]
						}
						stack = append(stack, nd)
						return true
					})
					ast.Inspect(f, func(nd ast.Node) bool {
						id, isID := nd.(*ast.Ident)
						if !isID || pk.TypesInfo.Uses[id] != types.Object(h.obj) {
							return true
						}
						var fun ast.Node = id
						if sel, isSel := parent[id].(*ast.SelectorExpr); isSel && sel.Sel == id {
							fun = sel
						}
						call, isCall := parent[fun].(*ast.CallExpr)
						if !isCall || call.Fun != fun.(ast.Expr) {
							ok = false
							return true
						}
						stmt, isStmt := parent[call].(ast.Stmt)
						if !isStmt {
							ok = false
							return true
						}
						switch parent[stmt].(type) {
						case *ast.BlockStmt, *ast.CaseClause, *ast.CommClause:
						default:
							ok = false
							return true
						}
						var caller *ast.FuncDecl
						for x := parent[stmt]; x != nil; x = parent[x] {
							if fd, isFD := x.(*ast.FuncDecl); isFD {
								caller = fd
							}
						}
						if caller == nil || fn != h.file || caller == h.decl {
							ok = false
							return true
						}
						uses = append(uses, use{fn, caller, stmt, call})
						return true
					})
				}
			}
			if !ok || len(uses) == 0 {
				left = append(left, name)
				continue
			}
			// each use must have an allowed shape; build its replacement lazily
			var sites []*inlineSite
			for _, u := range uses {
				st := n.site(pk, h.decl, h.file, u.caller, u.stmt, u.call)
				if st == nil {
					ok = false
					break
				}
				sites = append(sites, st)
			}
			if !ok {
				left = append(left, name)
				continue
			}
			n.sites[h.file] = append(n.sites[h.file], sites...)
			ds := h.decl.Pos()
			if h.decl.Doc != nil {
				ds = h.decl.Doc.Pos()
			}
			n.deleted[h.file] = append(n.deleted[h.file], [2]int{n.fset.Position(ds).Offset, n.fset.Position(h.decl.End()).Offset})
			inlined = append(inlined, name)
		}
		for file := range n.sites {
			// deletions are sites with empty text
			for _, d := range n.deleted[file] {
				n.sites[file] = append(n.sites[file], &inlineSite{file: file, s: d[0], e: d[1], text: func() (string, bool) { return "", true }})
			}
			t, ok := n.render(file, 0, len(n.src[file]))
			if !ok {
				return nil, nil, append(left, inlined...)
			}
			out[file] = []byte(t)
		}
	}
	sort.Strings(inlined)
	sort.Strings(left)
	return out, inlined, left
}

func helperInlinable(fd *ast.FuncDecl) bool {
	if fd.Type.TypeParams != nil {
		return false
	}
	if fd.Type.Results != nil {
		for _, r := range fd.Type.Results.List {
			if len(r.Names) > 0 {
				return false
			}
		}
	}
	for _, p := range fd.Type.Params.List {
		if _, isEll := p.Type.(*ast.Ellipsis); isEll {
			return false
		}
	}
	if fd.Recv != nil && (len(fd.Recv.List) != 1 || len(fd.Recv.List[0].Names) != 1) {
		return false
	}
	ok := true
	ast.Inspect(fd.Body, func(nd ast.Node) bool {
		switch x := nd.(type) {
		case *ast.DeferStmt, *ast.LabeledStmt:
			ok = false
		case *ast.CallExpr:
			if id, isID := x.Fun.(*ast.Ident); isID && id.Name == "recover" {
				ok = false
			}
		case *ast.Ident:
			if x.Name == fd.Name.Name && fd.Recv == nil {
				// possible recursion (checked loosely)
				if x != fd.Name {
					ok = false
				}
			}
		}
		return ok
	})
	return ok
}

// returnsOutsideClosures lists the return statements of the body that belong to the function itself.
func returnsOutsideClosures(body *ast.BlockStmt) []*ast.ReturnStmt {
	var out []*ast.ReturnStmt
	ast.Inspect(body, func(nd ast.Node) bool {
		switch x := nd.(type) {
		case *ast.FuncLit:
			return false
		case *ast.ReturnStmt:
			out = append(out, x)
		}
		return true
	})
	return out
}

func (n *normaliser) site(pk *packages.Package, h *ast.FuncDecl, file string, caller *ast.FuncDecl, stmt ast.Stmt, call *ast.CallExpr) *inlineSite {
	nRes := 0
	if h.Type.Results != nil {
		nRes = len(h.Type.Results.List)
	}
	rets := returnsOutsideClosures(h.Body)
	var last ast.Stmt
	if len(h.Body.List) > 0 {
		last = h.Body.List[len(h.Body.List)-1]
	}
	shape := ""
	switch x := stmt.(type) {
	case *ast.ExprStmt:
		if x.X != ast.Expr(call) || nRes != 0 {
			return nil
		}
		// in tail position of a caller without results the helper's own returns simply end the caller
		callerVoid := caller.Type.Results == nil || len(caller.Type.Results.List) == 0
		isTail := callerVoid && len(caller.Body.List) > 0 && caller.Body.List[len(caller.Body.List)-1] == stmt
		if !isTail && (len(rets) > 1 || (len(rets) == 1 && ast.Stmt(rets[0]) != last)) {
			return nil
		}
		shape = "stmt"
		if isTail {
			shape = "return"
		}
	case *ast.ReturnStmt:
		if len(x.Results) != 1 || x.Results[0] != ast.Expr(call) || nRes == 0 {
			return nil
		}
		cr := 0
		if caller.Type.Results != nil {
			for _, r := range caller.Type.Results.List {
				if len(r.Names) > 0 {
					return nil
				}
				cr++
			}
		}
		// the statement must belong to the caller itself, not to a closure inside it
		inClosure := false
		ast.Inspect(caller.Body, func(nd ast.Node) bool {
			if fl, ok := nd.(*ast.FuncLit); ok && fl.Pos() <= stmt.Pos() && stmt.End() <= fl.End() {
				inClosure = true
			}
			return !inClosure
		})
		if inClosure || cr != nRes {
			return nil
		}
		shape = "return"
	case *ast.AssignStmt:
		if len(x.Rhs) != 1 || x.Rhs[0] != ast.Expr(call) || len(x.Lhs) != nRes || nRes == 0 || (x.Tok != token.DEFINE && x.Tok != token.ASSIGN) {
			return nil
		}
		if len(rets) != 1 || ast.Stmt(rets[0]) != last || len(rets[0].Results) != nRes {
			return nil
		}
		shape = "assign"
	default:
		return nil
	}
	// a parameter that the helper never assigns to (and whose address it never takes) and whose argument is
	// the identifier of the same name needs no binding: the caller's variable is used directly
	assigned := map[string]bool{}
	ast.Inspect(h.Body, func(nd ast.Node) bool {
		mark := func(e ast.Expr) {
			if id, ok := e.(*ast.Ident); ok {
				assigned[id.Name] = true
			}
		}
		switch x := nd.(type) {
		case *ast.AssignStmt:
			for _, l := range x.Lhs {
				mark(l)
			}
		case *ast.IncDecStmt:
			mark(x.X)
		case *ast.UnaryExpr:
			if x.Op == token.AND {
				mark(x.X)
			}
		case *ast.RangeStmt:
			if x.Key != nil {
				mark(x.Key)
			}
			if x.Value != nil {
				mark(x.Value)
			}
		}
		return true
	})
	sameName := func(param string, arg ast.Expr) bool {
		id, ok := arg.(*ast.Ident)
		return ok && id.Name == param && !assigned[param]
	}
	// receiver and argument bindings
	var binds, bindTypes []string
	recvBound := false
	if h.Recv != nil {
		sel, ok := call.Fun.(*ast.SelectorExpr)
		if !ok {
			return nil
		}
		rt, okT := pk.TypesInfo.Types[sel.X]
		recvObj := pk.TypesInfo.Defs[h.Recv.List[0].Names[0]]
		if !okT || recvObj == nil || !types.Identical(rt.Type, recvObj.Type()) {
			return nil
		}
		if !sameName(h.Recv.List[0].Names[0].Name, sel.X) {
			binds = append(binds, h.Recv.List[0].Names[0].Name, n.srcOf(file, sel.X.Pos(), sel.X.End()))
			recvBound = true
		}
	} else if _, isID := call.Fun.(*ast.Ident); !isID {
		return nil
	}
	ai := 0
	for _, p := range h.Type.Params.List {
		names := p.Names
		if len(names) == 0 {
			ai++
			continue
		}
		for _, nm := range names {
			if ai >= len(call.Args) {
				return nil
			}
			if nm.Name != "_" && !sameName(nm.Name, call.Args[ai]) {
				binds = append(binds, nm.Name, n.srcOf(file, call.Args[ai].Pos(), call.Args[ai].End()))
				bindTypes = append(bindTypes, n.srcOf(file, p.Type.Pos(), p.Type.End()))
			}
			ai++
		}
	}
	if ai != len(call.Args) {
		return nil
	}
	n.seq++
	id := n.seq
	s0, e0 := n.fset.Position(stmt.Pos()).Offset, n.fset.Position(stmt.End()).Offset
	if recvBound {
		bindTypes = append([]string{""}, bindTypes...)
	}
	return &inlineSite{file: file, s: s0, e: e0, text: func() (string, bool) {
		var pre, in strings.Builder
		for i := 0; i+1 < len(binds); i += 2 {
			if bindTypes[i/2] == "" {
				fmt.Fprintf(&pre, "inl%dA%d := %s\n", id, i/2, binds[i+1])
			} else {
				fmt.Fprintf(&pre, "var inl%dA%d %s = %s\n", id, i/2, bindTypes[i/2], binds[i+1])
			}
			fmt.Fprintf(&in, "%s := inl%dA%d\n_ = %s\n", binds[i], id, i/2, binds[i])
		}
		var resTypes []string
		if h.Type.Results != nil {
			for _, r := range h.Type.Results.List {
				resTypes = append(resTypes, n.srcOf(file, r.Type.Pos(), r.Type.End()))
			}
		}
		bs, be := n.fset.Position(h.Body.Lbrace).Offset+1, n.fset.Position(h.Body.Rbrace).Offset
		switch shape {
		case "stmt", "return":
			if shape == "stmt" && len(rets) == 1 {
				be = n.fset.Position(rets[0].Pos()).Offset
			}
			body, ok := n.render(file, bs, be)
			if !ok {
				return "", false
			}
			return "{\n" + pre.String() + "{\n" + in.String() + body + "\n}\n}", true
		case "assign":
			ret := rets[0]
			if len(ret.Results) != len(resTypes) {
				return "", false
			}
			body, ok := n.render(file, bs, n.fset.Position(ret.Pos()).Offset)
			if !ok {
				return "", false
			}
			var decl strings.Builder
			var tl, tr, ol []string
			for i, t := range resTypes {
				fmt.Fprintf(&decl, "var inl%dR%d %s\n", id, i, t)
				tl = append(tl, fmt.Sprintf("inl%dR%d", id, i))
				rt, ok := n.render(file, n.fset.Position(ret.Results[i].Pos()).Offset, n.fset.Position(ret.Results[i].End()).Offset)
				if !ok {
					return "", false
				}
				tr = append(tr, rt)
			}
			as := stmt.(*ast.AssignStmt)
			for _, l := range as.Lhs {
				ol = append(ol, n.srcOf(file, l.Pos(), l.End()))
			}
			return pre.String() + decl.String() + "{\n" + in.String() + body + "\n" + strings.Join(tl, ", ") + " = " + strings.Join(tr, ", ") + "\n}\n" +
				strings.Join(ol, ", ") + " " + as.Tok.String() + " " + strings.Join(tl, ", "), true
		}
		return "", false
	}}
}
